(* C16 model: IAM statements and policy documents as pycfmodel sees them.

   Executable definitions only (theorems are in Policy/PolicyFacts.v).  Follows
   pycfmodel/model/resources/properties/statement.py and policy_document.py:

   * Statement.Effect     : `v.capitalize()` then membership in ["Allow","Deny"]           -> effect_norm
   * get_principal_list   : Principal then NotPrincipal; str -> one item, list -> its items,
                            Principal object -> its fields in class declaration order
                            (AWS, CanonicalUser, Federated, Service), each str -> one, list -> items   -> principals
   * principals_with / non_whitelisted_principals keep only items that are `str`                     -> strings
   * PolicyDocument._statement_as_list, _is_statement_effect_allow (`Effect.lower() == "allow"`),
     allowed_actions_with, allowed_principals_with, non_whitelisted_allowed_principals, get_allowed_actions.
   * get_resource_list    : Resource then NotResource; str -> one item, list -> its items (function-object
                            members kept)                                                              -> resource_list
     resources_with(pattern), get_action_list(include_action, include_not_action)      -> resources_with, action_list_of
   * PolicyDocument.statements_with(pattern) (NOT gated on the Effect), get_iam_actions(difference)
                                                    -> statements_with, iam_actions, iam_actions_difference

   str.capitalize()/lower() are modelled on ASCII (upper_cp / lower_cp of Base/Str.v); cased non-ASCII
   letters are outside the generated alphabet (none of them lower-cases or title-cases into a letter of
   "Allow"/"Deny" with the exception of code points the harness does not generate; see harness/props/c16.py). *)
From Coq Require Import List Bool NArith ZArith.
From PV Require Import Base.Str Base.Value Policy.StrSet.
Import ListNotations.

Definition K_Allow : str := [65;108;108;111;119]%N. (* "Allow" *)
Definition K_Deny : str := [68;101;110;121]%N. (* "Deny" *)
Definition K_allow_lc : str := [97;108;108;111;119]%N. (* "allow" *)
Definition K_AWS : str := [65;87;83]%N. (* "AWS" *)
Definition K_CanonicalUser : str := [67;97;110;111;110;105;99;97;108;85;115;101;114]%N. (* "CanonicalUser" *)
Definition K_Federated : str := [70;101;100;101;114;97;116;101;100]%N. (* "Federated" *)
Definition K_Service : str := [83;101;114;118;105;99;101]%N. (* "Service" *)
Definition K_Effect : str := [69;102;102;101;99;116]%N. (* "Effect" *)
Definition K_Principal : str := [80;114;105;110;99;105;112;97;108]%N. (* "Principal" *)
Definition K_NotPrincipal : str := [78;111;116;80;114;105;110;99;105;112;97;108]%N. (* "NotPrincipal" *)
Definition K_Action : str := [65;99;116;105;111;110]%N. (* "Action" *)
Definition K_NotAction : str := [78;111;116;65;99;116;105;111;110]%N. (* "NotAction" *)
Definition K_Resource : str := [82;101;115;111;117;114;99;101]%N. (* "Resource" *)
Definition K_NotResource : str := [78;111;116;82;101;115;111;117;114;99;101]%N. (* "NotResource" *)
Definition K_iam_colon : str := [105;97;109;58]%N. (* "iam:" *)
Definition K_Sid : str := [83;105;100]%N. (* "Sid" *)
Definition K_Statement : str := [83;116;97;116;101;109;101;110;116]%N. (* "Statement" *)

(* ------------------------------------------------------------------------------------------ *)
(* Effect *)

Inductive effect := Allow | Deny.
Definition name (e : effect) : str := match e with Allow => K_Allow | Deny => K_Deny end.

(* Python str.capitalize() on ASCII: first character upper-cased, the rest lower-cased *)
Definition capitalize (s : str) : str :=
  match s with
  | [] => []
  | c :: r => upper_cp c :: lower r
  end.

(* the field validator of Statement.Effect for a literal (str) effect *)
Definition effect_norm (s : str) : res effect :=
  let c := capitalize s in
  if str_eqb c (name Allow) then Ok Allow
  else if str_eqb c (name Deny) then Ok Deny
  else Err EValidation.

(* what is stored in Statement.Effect *)
Definition effect_store (s : str) : res str := e <- effect_norm s ;; Ok (name e).

(* PolicyDocument._is_statement_effect_allow: statement_effect.lower() == "allow" *)
Definition is_allow (e : effect) : bool := str_eqb (lower (name e)) K_allow_lc.

(* ------------------------------------------------------------------------------------------ *)
(* Principals *)

(* declaration order of the fields of class Principal; gen/PrincipalFields.v (regenerated from the live
   class on every run) is proved equal to this list in Policy/PrincipalTable.v *)
Definition PRINCIPAL_FIELDS : list str := [K_AWS; K_CanonicalUser; K_Federated; K_Service].

(* value of one field of a Principal object, or an Action / NotAction / Resource / NotResource element as
   get_action_list / get_resource_list read it: `isinstance(x, List)` -> extended, `isinstance(x, (str, dict))`
   -> appended.  A function object that is the WHOLE element is stored by model_validate as a FunctionDict (a
   pydantic model, not a `dict`), so for a validated statement neither test holds and it contributes nothing;
   function objects that are MEMBERS of a list are kept by `extend`. *)
Definition field_items (v : value) : list value :=
  match v with
  | VStr _ => [v]
  | VList l => l
  | _ => []
  end.

(* a Principal / NotPrincipal element: VNull | VStr | VList | VDict (object keyed by the four fields) *)
Definition elem_items (v : value) : list value :=
  match v with
  | VStr _ => [v]
  | VList l => l
  | VDict d => flat_map (fun k => match lookup k d with Some fv => field_items fv | None => [] end) PRINCIPAL_FIELDS
  | _ => []
  end.

Record stmt := {
  sid : value;
  effect_of : effect;
  principal : value;
  not_principal : value;
  action : value;
  not_action : value;
  resource : value;
  not_resource : value
}.

(* Statement.get_principal_list *)
Definition principals (st : stmt) : list value := elem_items (principal st) ++ elem_items (not_principal st).

(* `isinstance(x, str)` filter: function objects ({"Ref": ..}) of unresolved models are kept by
   get_principal_list / get_action_list but never reported by the *_with / whitelist queries *)
Definition strings (l : list value) : list str :=
  flat_map (fun v => match v with VStr s => [s] | _ => [] end) l.

(* Statement.principals_with(pattern); the compiled pattern is any predicate on strings *)
Definition principals_with (m : str -> bool) (st : stmt) : list str := filter m (strings (principals st)).

(* Statement.non_whitelisted_principals(whitelist) for a whitelist that is a list of strings *)
Definition non_whitelisted (wl : list str) (st : stmt) : list str :=
  filter (fun s => negb (mem_str s wl)) (strings (principals st)).

(* Statement.get_action_list / actions_with *)
Definition action_list (st : stmt) : list value := field_items (action st) ++ field_items (not_action st).
Definition actions_with (m : str -> bool) (st : stmt) : list str := filter m (strings (action_list st)).

(* Statement.get_action_list(include_action, include_not_action) *)
Definition action_list_of (include_action include_not_action : bool) (st : stmt) : list value :=
  (if include_action then field_items (action st) else []) ++
  (if include_not_action then field_items (not_action st) else []).

(* Statement.get_resource_list / resources_with(pattern) *)
Definition resource_list (st : stmt) : list value := field_items (resource st) ++ field_items (not_resource st).
Definition resources_with (m : str -> bool) (st : stmt) : list str := filter m (strings (resource_list st)).

(* ------------------------------------------------------------------------------------------ *)
(* Policy document queries (over the list given by _statement_as_list) *)

Definition allowed (l : list stmt) : list stmt := filter (fun st => is_allow (effect_of st)) l.

Definition nonempty {A} (l : list A) : bool := match l with [] => false | _ => true end.

(* PolicyDocument.allowed_actions_with(pattern): the statements themselves, in document order *)
Definition allowed_actions_with (m : str -> bool) (l : list stmt) : list stmt :=
  filter (fun st => nonempty (actions_with m st) && is_allow (effect_of st)) l.

(* PolicyDocument.statements_with(pattern): the statements (in document order) with at least one matching
   resource.  No Effect gate: Deny statements are reported like Allow ones. *)
Definition statements_with (m : str -> bool) (l : list stmt) : list stmt :=
  filter (fun st => nonempty (resources_with m st)) l.

(* the positions (0-based, in the document) of the statements that statements_with returns *)
Fixpoint positions_from {A} (f : A -> bool) (i : nat) (l : list A) : list nat :=
  match l with
  | [] => []
  | x :: r => (if f x then [i] else []) ++ positions_from f (S i) r
  end.
Definition statements_with_positions (m : str -> bool) (l : list stmt) : list nat :=
  positions_from (fun st => nonempty (resources_with m st)) 0 l.

(* PolicyDocument.allowed_principals_with(pattern): list(set(..)); the model returns sorted(set(..)) *)
Definition allowed_principals_with (m : str -> bool) (l : list stmt) : list str :=
  sort_dedup (flat_map (principals_with m) (allowed l)).

(* PolicyDocument.non_whitelisted_allowed_principals(whitelist) *)
Definition non_whitelisted_allowed_principals (wl : list str) (l : list stmt) : list str :=
  sort_dedup (flat_map (non_whitelisted wl) (allowed l)).

(* PolicyDocument.get_allowed_actions(): union of the expansions of the Allow statements.  The expansion of
   one statement over the action catalogue is property C09's subject; here it is any function. *)
Section Expanded.
  Variable expanded : stmt -> list str.
  Definition allowed_actions (l : list stmt) : list str := flat_map expanded (allowed l).

  (* PolicyDocument.get_iam_actions(): sorted(set(a for every statement (Allow or Deny) for a in its expansion
     if a.startswith("iam:"))) *)
  Definition iam_actions (l : list stmt) : list str :=
    sort_dedup (filter (starts_with K_iam_colon) (flat_map expanded l)).

  (* PolicyDocument.get_iam_actions(difference=True): sorted(set(a for a in CLOUDFORMATION_ACTIONS
     if a.lower().startswith("iam:")) - those) *)
  Definition iam_actions_difference (cat : list str) (l : list stmt) : list str :=
    let given := iam_actions l in   (* computed once, not once per catalogue entry *)
    sort_dedup (filter (fun a => starts_with K_iam_colon (lower a) && negb (mem_str a given)) cat).
End Expanded.

(* ------------------------------------------------------------------------------------------ *)
(* From the JSON document to statements (what model_validate does, as far as C16 is concerned) *)

Definition get (k : str) (d : list (str * value)) : value :=
  match lookup k d with Some v => v | None => VNull end.

Definition parse_stmt (v : value) : res stmt :=
  match v with
  | VDict d =>
      match lookup K_Effect d with
      | Some (VStr s) =>
          e <- effect_norm s ;;
          Ok {| sid := get K_Sid d; effect_of := e;
                principal := get K_Principal d; not_principal := get K_NotPrincipal d;
                action := get K_Action d; not_action := get K_NotAction d;
                resource := get K_Resource d; not_resource := get K_NotResource d |}
      | Some _ => Err EUndefined      (* non-literal Effect: outside the property *)
      | None => Err EValidation       (* Effect is a required field *)
      end
  | _ => Err EUndefined
  end.

Fixpoint mapM {A B} (f : A -> res B) (l : list A) : res (list B) :=
  match l with
  | [] => Ok []
  | x :: r => y <- f x ;; ys <- mapM f r ;; Ok (y :: ys)
  end.

(* PolicyDocument._statement_as_list *)
Definition statement_as_list (v : value) : list value :=
  match v with
  | VList l => l
  | _ => [v]
  end.

Definition parse_doc (v : value) : res (list stmt) :=
  match v with
  | VDict d =>
      match lookup K_Statement d with
      | Some sv => mapM parse_stmt (statement_as_list sv)
      | None => Err EValidation
      end
  | _ => Err EUndefined
  end.

(* ------------------------------------------------------------------------------------------ *)
(* Domain of the correspondence (boolean, evaluated by the runner on every case): the shapes the property
   quantifies over.  Outside it the runner answers EUndefined and the case is counted, not compared. *)

Definition is_str (v : value) : bool := match v with VStr _ => true | _ => false end.
(* a list member: a string, or a function object of an unresolved model (an object with exactly one key) *)
Definition wf_item (v : value) : bool :=
  match v with
  | VStr _ => true
  | VDict [(_, _)] => true
  | _ => false
  end.
Definition wf_field (v : value) : bool :=
  match v with
  | VNull => true
  | VStr _ => true
  | VList l => forallb wf_item l
  | _ => false
  end.
Definition wf_principal (v : value) : bool :=
  match v with
  | VNull => true
  | VStr _ => true
  | VList l => forallb wf_item l
  | VDict d => forallb (fun kv => mem_str (fst kv) PRINCIPAL_FIELDS && wf_field (snd kv)) d
  | _ => false
  end.
(* Resource / NotResource: as Action, and also a function object as the whole element *)
Definition wf_resource (v : value) : bool :=
  match v with
  | VDict [(_, _)] => true
  | _ => wf_field v
  end.
(* a statement may also carry a Condition block: none of the queries of this property looks at it (an Allow statement counts
   whether or not it is conditional), so the record has no field for it *)
Definition K_Condition_blk : str := [67;111;110;100;105;116;105;111;110]%N. (* "Condition" *)
Definition STMT_KEYS : list str :=
  [K_Sid; K_Effect; K_Principal; K_NotPrincipal; K_Action; K_NotAction; K_Resource; K_NotResource; K_Condition_blk].
Definition wf_stmt_raw (v : value) : bool :=
  match v with
  | VDict d =>
      forallb (fun kv => mem_str (fst kv) STMT_KEYS) d &&
      match lookup K_Effect d with Some (VStr _) => true | Some _ => false | None => true end &&
      match get K_Sid d with VNull => true | VStr _ => true | _ => false end &&
      wf_principal (get K_Principal d) && wf_principal (get K_NotPrincipal d) &&
      wf_field (get K_Action d) && wf_field (get K_NotAction d) &&
      wf_resource (get K_Resource d) && wf_resource (get K_NotResource d)
  | _ => false
  end.
Definition wf_doc_raw (v : value) : bool :=
  match v with
  | VDict [(k, sv)] =>
      str_eqb k K_Statement &&
      match sv with
      | VList l => forallb wf_stmt_raw l
      | _ => wf_stmt_raw sv
      end
  | _ => false
  end.
