(* Theorems about the C16 model (Policy/Policy.v).  All for arbitrary inputs; no bounds. *)
From Coq Require Import List Bool NArith ZArith Lia Sorted Permutation.
From PV Require Import Base.Str Base.Value Policy.StrSet Policy.Policy.
Import ListNotations.

(* ------------------------------------------------------------------------------------------ *)
(* Effect *)

Local Open Scope N_scope.
Lemma upper_lower_cp T c : 65 <= T <= 90 -> (upper_cp c = T <-> lower_cp c = lower_cp T).
Proof.
  intros HT. unfold upper_cp, lower_cp.
  destruct (N.leb_spec 97 c), (N.leb_spec c 122), (N.leb_spec 65 c), (N.leb_spec c 90),
           (N.leb_spec 65 T), (N.leb_spec T 90); cbn [andb]; lia.
Qed.
Local Close Scope N_scope.

(* capitalising gives a word of the form Upper-then-lower exactly for the strings that equal it up to letter case *)
Lemma capitalize_eq T tr s :
  (65 <= T <= 90)%N -> lower tr = tr ->
  (capitalize s = T :: tr <-> lower s = lower (T :: tr)).
Proof.
  intros HT Htr. destruct s as [|c r]; simpl.
  - split; discriminate.
  - fold (lower r). fold (lower tr). rewrite Htr.
    split; intros H; injection H as H0 H1.
    + f_equal; [apply (upper_lower_cp T c HT); exact H0 | exact H1].
    + f_equal; [apply (upper_lower_cp T c HT); exact H0 | exact H1].
Qed.

Lemma capitalize_name e s : capitalize s = name e <-> lower s = lower (name e).
Proof.
  destruct e; cbn [name]; unfold K_Allow, K_Deny; apply capitalize_eq;
    try (vm_compute; split; discriminate); reflexivity.
Qed.

Lemma lower_names_differ : lower (name Allow) <> lower (name Deny).
Proof. vm_compute. discriminate. Qed.

Theorem effect_norm_spec s e : effect_norm s = Ok e <-> lower s = lower (name e).
Proof.
  unfold effect_norm.
  destruct (str_eqb (capitalize s) (name Allow)) eqn:EA.
  - apply str_eqb_spec in EA. apply capitalize_name in EA.
    destruct e; split; intros H; try reflexivity; try exact EA.
    + discriminate.
    + exfalso. apply lower_names_differ. congruence.
  - apply str_eqb_neq in EA.
    destruct (str_eqb (capitalize s) (name Deny)) eqn:ED.
    + apply str_eqb_spec in ED. pose proof ED as ED'. apply capitalize_name in ED'.
      destruct e; split; intros H; try reflexivity; try exact ED'.
      * discriminate.
      * exfalso. apply EA. apply capitalize_name. exact H.
    + apply str_eqb_neq in ED. split; [discriminate|].
      intros H. exfalso. destruct e; [apply EA | apply ED]; apply capitalize_name; exact H.
Qed.

(* rejected exactly when the string is neither word, whatever the letter case *)
Theorem effect_norm_rejects s :
  effect_norm s = Err EValidation <-> lower s <> lower K_Allow /\ lower s <> lower K_Deny.
Proof.
  split.
  - intros H. split; intros C.
    + apply (effect_norm_spec s Allow) in C. congruence.
    + apply (effect_norm_spec s Deny) in C. congruence.
  - intros [HA HD]. unfold effect_norm.
    destruct (str_eqb (capitalize s) (name Allow)) eqn:EA.
    { apply str_eqb_spec in EA. apply capitalize_name in EA. contradiction. }
    destruct (str_eqb (capitalize s) (name Deny)) eqn:ED.
    { apply str_eqb_spec in ED. apply capitalize_name in ED. contradiction. }
    reflexivity.
Qed.

Lemma effect_norm_total s : (exists e, effect_norm s = Ok e) \/ effect_norm s = Err EValidation.
Proof.
  unfold effect_norm. destruct (str_eqb _ _); [left; eexists; reflexivity|].
  destruct (str_eqb _ _); [left; eexists; reflexivity | right; reflexivity].
Qed.

(* the stored form is the canonical spelling: "Allow" or "Deny", equal to the input up to letter case,
   and storing it again changes nothing *)
Theorem effect_store_spec s t :
  effect_store s = Ok t <->
  (t = K_Allow \/ t = K_Deny) /\ lower s = lower t.
Proof.
  unfold effect_store. split.
  - intros H. destruct (effect_norm s) as [e|] eqn:E; cbn [bind] in H; [|discriminate].
    inversion H; subst t. apply effect_norm_spec in E. split; [destruct e; [left|right]; reflexivity | exact E].
  - intros [[->| ->] H].
    + apply (effect_norm_spec s Allow) in H. rewrite H. reflexivity.
    + apply (effect_norm_spec s Deny) in H. rewrite H. reflexivity.
Qed.

Theorem effect_store_idem s t : effect_store s = Ok t -> effect_store t = Ok t.
Proof.
  intros H. apply effect_store_spec in H. destruct H as [[->| ->] _]; vm_compute; reflexivity.
Qed.

Lemma is_allow_spec e : is_allow e = true <-> e = Allow.
Proof. destruct e; vm_compute; split; congruence. Qed.

(* the document-level gate `Effect.lower() == "allow"` applied to the stored form accepts exactly the
   literal effects that are "allow" in some letter case *)
Theorem allow_gate_spec s e :
  effect_norm s = Ok e -> (is_allow e = true <-> lower s = K_allow_lc).
Proof.
  intros H. apply effect_norm_spec in H. rewrite is_allow_spec. split.
  - intros ->. rewrite H. vm_compute. reflexivity.
  - intros L. destruct e; [reflexivity|]. exfalso. rewrite L in H. vm_compute in H. discriminate.
Qed.

(* ------------------------------------------------------------------------------------------ *)
(* Principal enumeration *)

(* declarative reading: what it means for a Principal / NotPrincipal element to name p *)
Inductive field_names : value -> value -> Prop :=
| FN_str s : field_names (VStr s) (VStr s)                         (* the value itself, a string *)
| FN_list l p : In p l -> field_names (VList l) p.                 (* a member of the list value *)

Inductive elem_names : value -> value -> Prop :=
| EN_str s : elem_names (VStr s) (VStr s)                          (* "Principal": "x" *)
| EN_list l p : In p l -> elem_names (VList l) p                   (* "Principal": ["x", ...] *)
| EN_obj d k fv p :                                                (* "Principal": {"AWS"|...: fv} *)
    In k PRINCIPAL_FIELDS -> lookup k d = Some fv -> field_names fv p -> elem_names (VDict d) p.

Definition named_in (st : stmt) (p : value) : Prop :=
  elem_names (principal st) p \/ elem_names (not_principal st) p.

Lemma field_items_spec fv p : In p (field_items fv) <-> field_names fv p.
Proof.
  split.
  - destruct fv; simpl; try tauto.
    + intros [<-|[]]. constructor.
    + intros H. constructor. exact H.
  - intros H. destruct H; simpl; auto.
Qed.

Lemma elem_items_spec e p : In p (elem_items e) <-> elem_names e p.
Proof.
  split.
  - destruct e; cbn [elem_items In]; try tauto.
    + intros [<-|[]]. constructor.
    + intros H. constructor. exact H.
    + intros H. apply in_flat_map in H. destruct H as (k & Hk & Hp).
      destruct (lookup k d) as [fv|] eqn:L; [|destruct Hp].
      eapply EN_obj; [exact Hk | exact L | apply field_items_spec; exact Hp].
  - intros H. destruct H as [s|l p H|d k fv p Hk L F]; cbn [elem_items In]; auto.
    apply in_flat_map. exists k. split; [exact Hk|]. rewrite L. apply field_items_spec. exact F.
Qed.

Theorem principals_complete st p : In p (principals st) <-> named_in st p.
Proof. unfold principals, named_in. rewrite in_app_iff, !elem_items_spec. tauto. Qed.

(* order: everything of Principal before everything of NotPrincipal; inside an object, field order *)
Theorem principals_order st :
  principals st = elem_items (principal st) ++ elem_items (not_principal st).
Proof. reflexivity. Qed.

Theorem principals_object_order d :
  elem_items (VDict d) =
    field_items (get K_AWS d) ++ field_items (get K_CanonicalUser d) ++
    field_items (get K_Federated d) ++ field_items (get K_Service d).
Proof.
  unfold elem_items, PRINCIPAL_FIELDS, get. cbn [flat_map].
  destruct (lookup K_AWS d), (lookup K_CanonicalUser d), (lookup K_Federated d), (lookup K_Service d);
    cbn [field_items]; rewrite ?app_nil_r; reflexivity.
Qed.

Lemma In_strings l s : In s (strings l) <-> In (VStr s) l.
Proof.
  unfold strings. rewrite in_flat_map. split.
  - intros (v & Hv & Hs). destruct v; simpl in Hs; try contradiction. destruct Hs as [<-|[]]. exact Hv.
  - intros H. exists (VStr s). split; [exact H | left; reflexivity].
Qed.

Definition is_string (p : value) : Prop := exists s, p = VStr s.

Theorem non_whitelisted_spec wl st s :
  In s (non_whitelisted wl st) <-> In (VStr s) (principals st) /\ ~ In s wl.
Proof.
  unfold non_whitelisted. rewrite filter_In, In_strings, negb_true_iff.
  split; intros [H1 H2]; split; try exact H1.
  - intros C. apply mem_str_In in C. congruence.
  - destruct (mem_str s wl) eqn:E; [|reflexivity]. apply mem_str_In in E. contradiction.
Qed.

(* the same over values: reported = named, a string, and not an element of the whitelist *)
Theorem non_whitelisted_spec_value wl st p :
  In p (map VStr (non_whitelisted wl st)) <->
  In p (principals st) /\ is_string p /\ ~ In p (map VStr wl).
Proof.
  rewrite in_map_iff. split.
  - intros (s & <- & H). apply non_whitelisted_spec in H. destruct H as [H1 H2].
    split; [exact H1|]. split; [exists s; reflexivity|].
    intros C. apply in_map_iff in C. destruct C as (s' & E & Hs'). inversion E; subst. contradiction.
  - intros (H1 & [s ->] & H2). exists s. split; [reflexivity|]. apply non_whitelisted_spec.
    split; [exact H1|]. intros C. apply H2. apply in_map. exact C.
Qed.

Theorem principals_with_spec m st s :
  In s (principals_with m st) <-> In (VStr s) (principals st) /\ m s = true.
Proof. unfold principals_with. rewrite filter_In, In_strings. tauto. Qed.

Theorem actions_with_spec m st s :
  In s (actions_with m st) <-> In (VStr s) (action_list st) /\ m s = true.
Proof. unfold actions_with. rewrite filter_In, In_strings. tauto. Qed.

(* order and multiplicity are those of the enumeration (the statement-level results are lists, not sets) *)
Theorem non_whitelisted_is_filter wl st :
  non_whitelisted wl st = filter (fun s => negb (mem_str s wl)) (strings (principals st)).
Proof. reflexivity. Qed.

(* ------------------------------------------------------------------------------------------ *)
(* Document queries: only Allow statements count *)

Lemma In_allowed st l : In st (allowed l) <-> In st l /\ effect_of st = Allow.
Proof. unfold allowed. rewrite filter_In, is_allow_spec. tauto. Qed.

Section AllowOnly.
  Variable expanded : stmt -> list str.

  Theorem allowed_actions_spec l a :
    In a (allowed_actions expanded l) <->
    exists st, In st l /\ effect_of st = Allow /\ In a (expanded st).
  Proof.
    unfold allowed_actions. rewrite in_flat_map. split.
    - intros (st & H & Ha). apply In_allowed in H. exists st. tauto.
    - intros (st & H1 & H2 & Ha). exists st. split; [apply In_allowed; tauto | exact Ha].
  Qed.
End AllowOnly.

Theorem allowed_principals_with_spec m l p :
  In p (allowed_principals_with m l) <->
  exists st, In st l /\ effect_of st = Allow /\ In (VStr p) (principals st) /\ m p = true.
Proof.
  unfold allowed_principals_with. rewrite In_sort_dedup, in_flat_map. split.
  - intros (st & H & Hp). apply In_allowed in H. apply principals_with_spec in Hp. exists st. tauto.
  - intros (st & H1 & H2 & H3 & H4). exists st. split; [apply In_allowed; tauto | apply principals_with_spec; tauto].
Qed.

Theorem non_whitelisted_allowed_principals_spec wl l p :
  In p (non_whitelisted_allowed_principals wl l) <->
  exists st, In st l /\ effect_of st = Allow /\ In (VStr p) (principals st) /\ ~ In p wl.
Proof.
  unfold non_whitelisted_allowed_principals. rewrite In_sort_dedup, in_flat_map. split.
  - intros (st & H & Hp). apply In_allowed in H. apply non_whitelisted_spec in Hp. exists st. tauto.
  - intros (st & H1 & H2 & H3 & H4). exists st. split; [apply In_allowed; tauto | apply non_whitelisted_spec; tauto].
Qed.

Lemma nonempty_ex {A} (l : list A) : nonempty l = true <-> exists x, In x l.
Proof.
  destruct l as [|x l]; simpl; split; try discriminate.
  - intros [x []].
  - intros _. exists x. left; reflexivity.
  - reflexivity.
Qed.

Theorem allowed_actions_with_spec m l st :
  In st (allowed_actions_with m l) <->
  In st l /\ effect_of st = Allow /\ exists a, In (VStr a) (action_list st) /\ m a = true.
Proof.
  unfold allowed_actions_with. rewrite filter_In, andb_true_iff, is_allow_spec, nonempty_ex.
  split.
  - intros (H1 & (a & Ha) & H2). apply actions_with_spec in Ha. split; [exact H1|]. split; [exact H2|]. exists a. exact Ha.
  - intros (H1 & H2 & (a & Ha)). split; [exact H1|]. split; [|exact H2]. exists a. apply actions_with_spec. exact Ha.
Qed.

(* the set-valued results are canonical: strictly increasing, hence duplicate-free *)
Theorem allowed_principals_with_sorted m l : StronglySorted str_lt (allowed_principals_with m l).
Proof. apply sort_dedup_sorted. Qed.
Theorem allowed_principals_with_nodup m l : NoDup (allowed_principals_with m l).
Proof. apply sort_dedup_NoDup. Qed.
Theorem non_whitelisted_allowed_principals_sorted wl l : StronglySorted str_lt (non_whitelisted_allowed_principals wl l).
Proof. apply sort_dedup_sorted. Qed.
Theorem non_whitelisted_allowed_principals_nodup wl l : NoDup (non_whitelisted_allowed_principals wl l).
Proof. apply sort_dedup_NoDup. Qed.

(* ------------------------------------------------------------------------------------------ *)
(* Deny statements are invisible *)

Lemma allowed_idem l : allowed (allowed l) = allowed l.
Proof.
  unfold allowed. induction l as [|st l IH]; simpl; [reflexivity|].
  destruct (is_allow (effect_of st)) eqn:E; simpl; [rewrite E, IH; reflexivity | exact IH].
Qed.

Lemma allowed_app l1 l2 : allowed (l1 ++ l2) = allowed l1 ++ allowed l2.
Proof. unfold allowed. apply filter_app. Qed.

Lemma allowed_deny d : effect_of d = Deny -> allowed [d] = [].
Proof. intros H. unfold allowed. simpl. rewrite H. reflexivity. Qed.

Lemma allowed_insert_deny l1 l2 d : effect_of d = Deny -> allowed (l1 ++ d :: l2) = allowed (l1 ++ l2).
Proof.
  intros H. rewrite !allowed_app. change (d :: l2) with ([d] ++ l2). rewrite allowed_app, (allowed_deny d H). reflexivity.
Qed.

Lemma allowed_actions_with_via_allowed m l : allowed_actions_with m l = allowed_actions_with m (allowed l).
Proof.
  unfold allowed_actions_with, allowed. induction l as [|st l IH]; simpl; [reflexivity|].
  destruct (is_allow (effect_of st)) eqn:E; simpl; rewrite ?E.
  - destruct (nonempty (actions_with m st)); simpl; [f_equal|]; exact IH.
  - rewrite andb_false_r. exact IH.
Qed.

Section DenyInvisible.
  Variable expanded : stmt -> list str.

  (* 1. every query is a function of the Allow statements alone *)
  Theorem queries_see_allow_only l :
    allowed_actions expanded (allowed l) = allowed_actions expanded l /\
    (forall m, allowed_principals_with m (allowed l) = allowed_principals_with m l) /\
    (forall wl, non_whitelisted_allowed_principals wl (allowed l) = non_whitelisted_allowed_principals wl l) /\
    (forall m, allowed_actions_with m (allowed l) = allowed_actions_with m l).
  Proof.
    unfold allowed_actions, allowed_principals_with, non_whitelisted_allowed_principals.
    rewrite allowed_idem. repeat split; try reflexivity.
    intros m. symmetry. apply allowed_actions_with_via_allowed.
  Qed.

  (* 2. two documents with the same Allow statements (in the same order) are indistinguishable *)
  Theorem same_allowed_same_answers l l' :
    allowed l = allowed l' ->
    allowed_actions expanded l = allowed_actions expanded l' /\
    (forall m, allowed_principals_with m l = allowed_principals_with m l') /\
    (forall wl, non_whitelisted_allowed_principals wl l = non_whitelisted_allowed_principals wl l') /\
    (forall m, allowed_actions_with m l = allowed_actions_with m l').
  Proof.
    intros H. unfold allowed_actions, allowed_principals_with, non_whitelisted_allowed_principals.
    rewrite H. repeat split; try reflexivity.
    intros m. rewrite (allowed_actions_with_via_allowed m l), (allowed_actions_with_via_allowed m l'), H. reflexivity.
  Qed.

  (* 3. inserting (or, read right to left, removing) a Deny statement anywhere changes nothing *)
  Theorem deny_invisible l1 l2 d :
    effect_of d = Deny ->
    allowed_actions expanded (l1 ++ d :: l2) = allowed_actions expanded (l1 ++ l2) /\
    (forall m, allowed_principals_with m (l1 ++ d :: l2) = allowed_principals_with m (l1 ++ l2)) /\
    (forall wl, non_whitelisted_allowed_principals wl (l1 ++ d :: l2) = non_whitelisted_allowed_principals wl (l1 ++ l2)) /\
    (forall m, allowed_actions_with m (l1 ++ d :: l2) = allowed_actions_with m (l1 ++ l2)).
  Proof. intros H. apply same_allowed_same_answers. apply allowed_insert_deny. exact H. Qed.

  (* 4. a document of Deny statements only answers nothing *)
  Theorem all_deny_empty l :
    (forall st, In st l -> effect_of st = Deny) ->
    allowed_actions expanded l = [] /\
    (forall m, allowed_principals_with m l = []) /\
    (forall wl, non_whitelisted_allowed_principals wl l = []) /\
    (forall m, allowed_actions_with m l = []).
  Proof.
    intros H. assert (allowed l = allowed []) as E.
    { unfold allowed. simpl. induction l as [|st l IH]; simpl; [reflexivity|].
      rewrite (H st (or_introl eq_refl)). simpl. apply IH. intros st' Hst'. apply H. right. exact Hst'. }
    apply (same_allowed_same_answers l []) in E. exact E.
  Qed.
End DenyInvisible.

(* the two set-valued queries do not depend on the order (or repetition) of the statements *)
Theorem set_queries_order_blind l l' :
  Permutation l l' ->
  (forall m, allowed_principals_with m l = allowed_principals_with m l') /\
  (forall wl, non_whitelisted_allowed_principals wl l = non_whitelisted_allowed_principals wl l').
Proof.
  intros P. split; intros x; apply sort_dedup_ext; intros p.
  - pose proof (allowed_principals_with_spec x l p) as A. pose proof (allowed_principals_with_spec x l' p) as B.
    unfold allowed_principals_with in A, B. rewrite In_sort_dedup in A, B. rewrite A, B.
    split; intros (st & H & R); exists st; (split; [|exact R]).
    + eapply Permutation_in; [exact P | exact H].
    + eapply Permutation_in; [apply Permutation_sym; exact P | exact H].
  - pose proof (non_whitelisted_allowed_principals_spec x l p) as A. pose proof (non_whitelisted_allowed_principals_spec x l' p) as B.
    unfold non_whitelisted_allowed_principals in A, B. rewrite In_sort_dedup in A, B. rewrite A, B.
    split; intros (st & H & R); exists st; (split; [|exact R]).
    + eapply Permutation_in; [exact P | exact H].
    + eapply Permutation_in; [apply Permutation_sym; exact P | exact H].
Qed.

(* ------------------------------------------------------------------------------------------ *)
(* Single statement vs one-element list *)

Definition is_single (v : value) : Prop := forall l, v <> VList l.

Theorem statement_as_list_single s : is_single s -> statement_as_list s = statement_as_list (VList [s]).
Proof. intros H. destruct s; try reflexivity. exfalso. apply (H l). reflexivity. Qed.

Theorem single_vs_list d1 d2 s :
  is_single s ->
  lookup K_Statement d1 = Some s -> lookup K_Statement d2 = Some (VList [s]) ->
  parse_doc (VDict d1) = parse_doc (VDict d2).
Proof.
  intros Hs L1 L2. unfold parse_doc. rewrite L1, L2, (statement_as_list_single s Hs). reflexivity.
Qed.

(* parsing: every statement's literal effect is validated and normalised; one bad effect rejects the document *)
Lemma mapM_ok {A B} (f : A -> res B) l r :
  mapM f l = Ok r <-> Forall2 (fun x y => f x = Ok y) l r.
Proof.
  revert r. induction l as [|x l IH]; intros r; simpl.
  - split; [intros H; inversion H; constructor | intros H; inversion H; reflexivity].
  - split.
    + intros H. destruct (f x) as [y|] eqn:E; cbn [bind] in H; [|discriminate].
      destruct (mapM f l) as [ys|] eqn:E'; cbn [bind] in H; [|discriminate].
      inversion H; subst. constructor; [exact E | apply IH; reflexivity].
    + intros H. inversion H as [|x' y l' ys Hxy Hrest]; subst.
      rewrite Hxy. cbn [bind]. apply IH in Hrest. rewrite Hrest. reflexivity.
Qed.

Theorem parse_stmt_effect d s st :
  lookup K_Effect d = Some (VStr s) ->
  (parse_stmt (VDict d) = Ok st ->
     lower s = lower (name (effect_of st)) /\
     principal st = get K_Principal d /\ not_principal st = get K_NotPrincipal d /\
     action st = get K_Action d /\ not_action st = get K_NotAction d /\ sid st = get K_Sid d /\
     resource st = get K_Resource d /\ not_resource st = get K_NotResource d).
Proof.
  intros L H. unfold parse_stmt in H. rewrite L in H.
  destruct (effect_norm s) as [e|] eqn:E; cbn [bind] in H; [|discriminate].
  inversion H; subst st; cbn. apply effect_norm_spec in E. repeat split; exact E.
Qed.

Theorem parse_stmt_rejects d s :
  lookup K_Effect d = Some (VStr s) ->
  (parse_stmt (VDict d) = Err EValidation <-> lower s <> lower K_Allow /\ lower s <> lower K_Deny).
Proof.
  intros L. unfold parse_stmt. rewrite L. rewrite <- effect_norm_rejects.
  destruct (effect_norm s) as [e|k] eqn:E; cbn [bind]; split; intros H; try discriminate; congruence.
Qed.
