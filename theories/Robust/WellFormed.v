(* The boolean well-formedness predicate of C05: a small type system over template expressions.
   [ty_of ps maps v = Some t] says: in every environment whose parameters are [ps] and mappings [maps] (and whose
   condition references all have a value), [resolve] succeeds on [v] and the result has shape [t].
   [valid_template] = the arguments of Template.resolve_model are well formed: every declared parameter has no value
   or a value of the right type, the Mappings section has the three-level shape, every condition is a well-typed
   condition function, every resource is a well-typed value.  All of it is executable: the runner evaluates it on
   each generated template (op 501), so the hypothesis of C05_no_error is exercised case by case.

   What the grammar demands beyond "it is JSON" (each is an `Err` branch of Resolver/Resolve.v):
   - a function object has the argument shape its function requires (2 / 3 element lists, text for Fn::Sub ...)
   - Fn::Join: text delimiter, list of text members; Fn::Split: non-empty literal delimiter, text source;
     Fn::Select: integer literal index (number or text), list of text; Fn::Base64, Fn::FindInMap keys, Ref bodies: text
   - Fn::Sub placeholders name local variables bound to text and / or parameters whose value is a scalar
   - Fn::And / Fn::Or / Fn::Not operands are condition functions; Fn::Equals compares plain values (text, lists, null)
   - a Ref used where text is needed names a scalar parameter (or nothing: UNDEFINED_PARAM_ is text), where a list
     of text is needed a list parameter; parameter values hold no function objects
   - an object whose only key is a function name IS a function (so {"Condition": {...}} is ill-formed) *)
From Coq Require Import List Bool NArith ZArith Lia.
From PV Require Import Base.Str Base.Value Resolver.Consts Resolver.Text Resolver.Resolve Resolver.Template.
Import ListNotations.
Local Open Scope N_scope.

Inductive ty := TStr | TStrs | TPlain | TBool | TAny.
(* TStr <= TPlain, TStrs <= TPlain, TPlain <= TAny, TBool <= TAny *)
Definition sub (a b : ty) : bool :=
  match a, b with
  | _, TAny => true
  | TStr, TStr | TStrs, TStrs | TBool, TBool => true
  | (TStr | TStrs | TPlain), TPlain => true
  | _, _ => false
  end.
Definition lub (a b : ty) : ty :=
  if sub a b then b else if sub b a then a
  else match a, b with
       | (TStr | TStrs | TPlain), (TStr | TStrs | TPlain) => TPlain
       | _, _ => TAny
       end.

Definition is_vstr (v : value) : bool := match v with VStr _ => true | _ => false end.
(* the shape of a resolved value *)
Definition shape (t : ty) (r : value) : bool :=
  match t with
  | TStr => is_vstr r
  | TStrs => match r with VList l => forallb is_vstr l | _ => false end
  | TPlain => negb (has_numeric r)
  | TBool => match r with VBool _ => true | _ => false end
  | TAny => true
  end.

(* ---- parameter values ---- *)
Definition pv_str (v : value) : bool :=
  match v with VBool _ | VInt _ | VStr _ | VTyped _ _ | VBytes _ => true | _ => false end.
Definition pv_strs (v : value) : bool := match v with VList l => forallb pv_str l | _ => false end.
Fixpoint pv_ok (v : value) : bool :=
  match v with
  | VList l => forallb pv_ok l
  | VDict d => negb (is_fn_dict d) && forallb (fun kv => pv_ok (snd kv)) d
  | _ => true
  end.

Section Typing.
Variables (ps maps : list (str * value)).

Definition all_ps_ok : bool := forallb (fun kv => pv_ok (snd kv)) ps.

(* type of {"Ref": <text that renders to key>} *)
Definition ref_ty (key : str) : option ty :=
  match lookup key ps with
  | None => Some TStr                                  (* UNDEFINED_PARAM_<key> *)
  | Some x => if pv_str x then Some TStr else if pv_strs x then Some TStrs
              else if pv_ok x then Some TPlain else None
  end.

(* a Fn::Sub placeholder name is fine when it is unbound (stays as written) or bound to a scalar *)
Definition var_ok (name : str) : bool :=
  match lookup name ps with None => true | Some x => pv_str x end.
Definition tok_ok (t : stok) : bool := match t with TVar n => var_ok n | _ => true end.
Definition sub_text_ok (text : str) : bool := forallb tok_ok (sub_tokens text).

Definition int_text_ok (s : str) : bool := match parse_int s with Some _ => true | None => false end.

(* type of a mapping leaf found with literal keys *)
Definition leaf_ty (leaf : value) : ty :=
  if is_vstr leaf then TStr
  else if shape TStrs leaf then TStrs
  else if negb (has_numeric leaf) then TPlain else TAny.
Definition fim_static (m k1 k2 : str) : ty :=
  match lookup m maps with
  | Some (VDict top) =>
      match lookup_bk k1 top with
      | Some (VDict snd_) =>
          match lookup_bk k2 snd_ with
          | None | Some VNull => TStr
          | Some leaf => leaf_ty leaf
          end
      | _ => TStr
      end
  | _ => TStr
  end.

Definition opt_sub (o : option ty) (t : ty) : bool := match o with Some a => sub a t | None => false end.
Definition list_ty (ts : list (option ty)) : option ty :=
  if forallb (fun o => opt_sub o TStr) ts then Some TStrs
  else if forallb (fun o => opt_sub o TPlain) ts then Some TPlain
  else if forallb (fun o => opt_sub o TAny) ts then Some TAny else None.
Definition dict_ty (ts : list (option ty)) : option ty :=
  if forallb (fun o => opt_sub o TPlain) ts then Some TPlain
  else if forallb (fun o => opt_sub o TAny) ts then Some TAny else None.

Definition ref_general (b : option ty) : option ty :=
  if opt_sub b TStr && all_ps_ok then Some TPlain else None.
Definition join_ty (a b : option ty) : option ty :=
  if opt_sub a TStr && opt_sub b TStrs then Some TStr else None.
Definition split_ty (delim : str) (b : option ty) : option ty :=
  match render_str ps delim with
  | [] => None
  | _ :: _ => if opt_sub b TStr then Some TStrs else None
  end.
Definition select_ty (index_text : str) (b : option ty) : option ty :=
  if int_text_ok index_text && opt_sub b TStrs then Some TPlain else None.
Definition fim_general (a b c : option ty) : option ty :=
  if opt_sub a TStr && opt_sub b TStr && opt_sub c TStr then Some TAny else None.
Definition base64_ty (a : option ty) : option ty := if opt_sub a TStr then Some TStr else None.
Definition if_ty (a b : option ty) : option ty :=
  match a, b with Some x, Some y => Some (lub x y) | _, _ => None end.
Definition all_bool (ts : list (option ty)) : option ty :=
  if forallb (fun o => opt_sub o TBool) ts then Some TBool else None.
Definition equals_ty (a b : option ty) : option ty :=
  if (opt_sub a TPlain && opt_sub b TPlain) || (opt_sub a TBool && opt_sub b TBool) then Some TBool else None.
Definition sub_vars_ty (text : str) (single_fn : bool) (ts : list (option ty)) : option ty :=
  if negb single_fn && sub_text_ok text && forallb (fun o => opt_sub o TStr) ts then Some TStr else None.

Definition split_rule (dl : value) (b : option ty) : option ty :=
  match dl with VStr delim => split_ty delim b | _ => None end.
Definition select_rule (i : value) (b : option ty) : option ty :=
  match i with
  | VInt z => select_ty (str_of_Z z) b
  | VStr s => select_ty (render_str ps s) b
  | _ => None
  end.
Definition fim_rule (m k1 k2 : value) (a b c : option ty) : option ty :=
  match m, k1, k2 with
  | VStr sm, VStr s1, VStr s2 => Some (fim_static (render_str ps sm) (render_str ps s1) (render_str ps s2))
  | _, _, _ => fim_general a b c
  end.
Definition ref_rule (body : value) (b : option ty) : option ty :=
  match body with
  | VStr name => ref_ty (render_str ps name)
  | _ => ref_general b
  end.

Fixpoint ty_of (v : value) {struct v} : option ty :=
  match v with
  | VNull => Some TPlain
  | VBool _ | VInt _ | VStr _ | VTyped _ _ | VBytes _ => Some TStr
  | VList l => list_ty (map ty_of l)
  | VDict d =>
      let generic := dict_ty (map (fun kv => ty_of (snd kv)) d) in
      match d with
      | [(k, body)] =>
          if str_eqb k K_Ref || str_eqb k K_ImportValue then
            ref_rule body (ty_of body)
          else if str_eqb k K_Join then
            match body with VList [dl; l] => join_ty (ty_of dl) (ty_of l) | _ => None end
          else if str_eqb k K_Split then
            match body with VList [dl; s] => split_rule dl (ty_of s) | _ => None end
          else if str_eqb k K_Select then
            match body with VList [i; l] => select_rule i (ty_of l) | _ => None end
          else if str_eqb k K_FindInMap then
            match body with
            | VList [m; k1; k2] => fim_rule m k1 k2 (ty_of m) (ty_of k1) (ty_of k2)
            | _ => None
            end
          else if str_eqb k K_Sub then
            match body with
            | VStr text => if sub_text_ok text then Some TStr else None
            | VList [VStr text; VDict cd] =>
                sub_vars_ty text (is_fn_dict cd) (map (fun kv => ty_of (snd kv)) cd)
            | _ => None
            end
          else if str_eqb k K_Base64 then base64_ty (ty_of body)
          else if str_eqb k K_GetAtt then Some TStr
          else if str_eqb k K_GetAZs then Some TStr
          else if str_eqb k K_Condition then
            match body with VStr _ => Some TBool | _ => None end
          else if str_eqb k K_If then
            match body with VList [c; t; f] => if is_vstr c then if_ty (ty_of t) (ty_of f) else None | _ => None end
          else if str_eqb k K_And then
            match body with VList parts => all_bool (map ty_of parts) | _ => None end
          else if str_eqb k K_Or then
            match body with VList parts => all_bool (map ty_of parts) | _ => None end
          else if str_eqb k K_Not then
            match body with VList (x :: _) => all_bool [ty_of x] | _ => None end
          else if str_eqb k K_Equals then
            match body with VList [a; b] => equals_ty (ty_of a) (ty_of b) | _ => None end
          else generic
      | _ => generic
      end
  end.

Definition wf_expr (v : value) : bool := match ty_of v with Some _ => true | None => false end.
Definition wf_cond (v : value) : bool := opt_sub (ty_of v) TBool.

Definition wf_maps : bool :=
  forallb (fun kv => match snd kv with
                     | VDict top => forallb (fun kv2 => match snd kv2 with VDict _ => true | _ => false end) top
                     | _ => false
                     end) maps.

Definition wf_resource (r : value) : bool :=
  match r with
  | VDict fields =>
      match lookup K_Condition fields with
      | None | Some VNull | Some (VStr _) => true
      | Some _ => false
      end && wf_expr r
  | _ => false
  end.
End Typing.

(* ---- parameter declarations: every declared parameter has no value, or a value of the right type ---- *)
Definition py_str_ok (v : value) : bool :=
  match v with VStr _ | VInt _ | VBool _ | VTyped KFloat _ => true | _ => false end.
Definition is_vlist (v : value) : bool := match v with VList _ => true | _ => false end.
Definition wf_decl (d : value) (provided : option value) : bool :=
  is_noecho d ||
  match (match provided with Some p => Some p | None => field K_Default d end) with
  | None => true
  | Some v => (is_list_type d && is_vlist v) || py_str_ok v
  end.
Definition wf_decls (decls extra : list (str * value)) : bool :=
  forallb (fun kd => wf_decl (snd kd) (supplied (fst kd) extra)) decls.

Definition valid_template (pseudo decls extra maps cdecl rs : list (str * value)) : bool :=
  wf_decls decls extra &&
  match bind_params pseudo decls extra with
  | Ok ps =>
      wf_maps maps &&
      forallb (fun kb => wf_cond ps maps (snd kb)) cdecl &&
      forallb (fun ir => wf_resource ps maps (snd ir)) rs
  | Err _ => false
  end.
