(* Facts about the custom validators: each answers Ok or Err EValue on EVERY value (so pydantic turns
   every rejection into a ValidationError); field-level compositions answer Ok or Err EValidation;
   the action-expansion walk fails exactly on a non-textual Action / NotAction value; the resolver
   has no "unsupported leaf" branch. *)
From Coq Require Import List Bool NArith ZArith Lia.
From PV Require Import Base.Str Base.Value Resolver.Consts Resolver.Resolve Robust.RConsts Robust.Validators.
Import ListNotations.
Local Open Scope N_scope.

(* what a custom validator may do: return, or raise ValueError *)
Definition clean {A} (r : res A) : Prop :=
  match r with Ok _ => True | Err EValue => True | Err _ => False end.
(* what pycfmodel.parse may do: return a model, or raise pydantic's ValidationError *)
Definition parse_clean {A} (r : res A) : Prop :=
  match r with Ok _ => True | Err EValidation => True | Err _ => False end.
Definition never_raises {A} (r : res A) : Prop := exists a, r = Ok a.

Lemma wrap_clean {A} (r : res A) : clean r -> parse_clean (pydantic_wrap r).
Proof. destruct r as [a|[]]; simpl; tauto. Qed.
(* and conversely the combinator lets every other exception through: cleanliness of the validator is necessary *)
Lemma wrap_propagates {A} (r : res A) e : r = Err e -> e <> EValue -> pydantic_wrap r = Err e.
Proof. intros -> H. destruct e; simpl; congruence. Qed.

Lemma check_type_clean strict modelled v : clean (check_type strict modelled v).
Proof. destruct v; simpl; auto. destruct (mem_str s modelled && strict); simpl; auto. Qed.
Lemma validate_binary_clean v : clean (validate_binary v).
Proof. destruct v; simpl; auto. destruct (b64decode s); simpl; auto. Qed.
Lemma semi_strict_bool_clean v : clean (semi_strict_bool v).
Proof. destruct v; simpl; auto. destruct (str_eqb (lower s) S_true); simpl; auto. destruct (str_eqb (lower s) S_false); simpl; auto. Qed.
Lemma check_fn_dict_clean v : clean (check_fn_dict v).
Proof. unfold check_fn_dict. destruct (is_resolvable_dict v); simpl; auto. Qed.
Lemma generic_casting_clean cast v : clean (generic_casting cast v).
Proof. destruct v; simpl; auto. Qed.
Lemma json_prepass_clean loads v : clean (json_prepass loads v).
Proof. unfold json_prepass. match goal with |- clean (match ?x with _ => _ end) => destruct x as [| | | | | | |[|? ?]]; exact I end. Qed.
(* text stays text: the pre-pass never turns a string into another string (F29), so applying it to its own output changes nothing *)
Lemma json_prepass_text_to_text loads s t : json_prepass loads (VStr s) = Ok (VStr t) -> t = s.
Proof.
  unfold json_prepass. destruct (loads s) as [j|] eqn:L.
  - destruct j as [| | | | | | |[|? ?]]; intros H; inversion H; reflexivity.
  - intros H; inversion H; reflexivity.
Qed.
Lemma json_prepass_idempotent_on_text loads s t : json_prepass loads (VStr s) = Ok (VStr t) ->
  json_prepass loads (VStr t) = Ok (VStr t).
Proof. intros H. pose proof (json_prepass_text_to_text _ _ _ H) as E. subst t. exact H. Qed.
(* the only input it refuses is the empty object, literal or as JSON text; in particular json.loads' own failures never escape *)
Lemma json_prepass_refuses_only_empty loads v e : json_prepass loads v = Err e ->
  e = EValue /\ (v = VDict [] \/ exists s, v = VStr s /\ loads s = Some (VDict [])).
Proof.
  unfold json_prepass. destruct v; try discriminate.
  - destruct (loads s) as [j|] eqn:L; [|discriminate]. destruct j as [| | | | | | |[|? ?]]; try discriminate.
    intros H; inv H. split; [reflexivity | right; eauto].
  - destruct d as [|? ?]; [|discriminate]. intros H; inv H. split; [reflexivity | left; reflexivity].
Qed.
Lemma not_from_numbers_clean float_ok v : clean (not_from_numbers float_ok v).
Proof. unfold not_from_numbers. destruct (existsb _ _); exact I. Qed.
Lemma not_from_booleans_clean v : clean (not_from_booleans v).
Proof. unfold not_from_booleans. destruct (existsb _ _); exact I. Qed.
Lemma remove_colon_total v : never_raises (remove_colon v).
Proof. destruct v; simpl; eexists; reflexivity. Qed.
Lemma effect_validator_clean v : clean (effect_validator v).
Proof. destruct v; simpl; auto. destruct (str_eqb (capitalize s) S_Allow || str_eqb (capitalize s) S_Deny); simpl; auto. Qed.
Lemma tag_coerce_total v : never_raises (tag_coerce v).
Proof. destruct v; simpl; eexists; reflexivity. Qed.
Lemma expand_acts_clean exp na v : clean (expand_acts exp na v).
Proof. destruct v; simpl; auto. destruct (all_strs l); simpl; auto. Qed.

Lemma safe_date_clean std v : clean (std v) \/ std v = Err EValidation -> parse_clean (safe_date std v).
Proof. unfold safe_date. intros [H | ->]; [apply wrap_clean; assumption | exact I]. Qed.

Lemma never_raises_clean {A} (r : res A) : never_raises r -> clean r.
Proof. intros [a ->]. exact I. Qed.

(* ---- field-level compositions ---- *)
Lemma all_items_clean item l : (forall x, parse_clean (item x)) -> parse_clean (all_items item l).
Proof.
  intros H. induction l as [|x xs IH]; simpl; auto.
  specialize (H x). destruct (item x) as [x'|e]; simpl; [|exact H].
  destruct (all_items item xs) as [xs'|e]; simpl; auto.
Qed.
Lemma instance_or_list_clean item v : (forall x, parse_clean (item x)) -> parse_clean (instance_or_list item v).
Proof.
  intros H. unfold instance_or_list. pose proof (H v) as Hv. destruct (item v) as [x|e]; simpl; auto.
  destruct e; try contradiction. destruct v; simpl; auto.
  pose proof (all_items_clean item l H) as Hl. destruct (all_items item l); simpl; auto.
Qed.
Lemma resolvable_clean item v : parse_clean (item v) -> parse_clean (resolvable item v).
Proof.
  intros Hv. unfold resolvable. destruct (item v) as [x|e]; simpl; auto.
  destruct e; try contradiction. apply wrap_clean. apply check_fn_dict_clean.
Qed.
Lemma type_field_clean strict modelled v : parse_clean (type_field strict modelled v).
Proof. apply wrap_clean, check_type_clean. Qed.
Lemma binary_field_clean v : parse_clean (binary_field v).
Proof. apply instance_or_list_clean. intros x. apply wrap_clean, validate_binary_clean. Qed.
Lemma bool_field_clean v : parse_clean (bool_field v).
Proof. apply instance_or_list_clean. intros x. apply resolvable_clean. apply wrap_clean, semi_strict_bool_clean. Qed.
Lemma std_str_clean v : parse_clean (std_str v).
Proof. unfold std_str. destruct (is_vstr v); simpl; auto. Qed.
Lemma effect_field_clean v : parse_clean (effect_field v).
Proof.
  unfold effect_field. pose proof (resolvable_clean std_str v (std_str_clean v)) as H.
  destruct (resolvable std_str v) as [x|e]; simpl; [|exact H]. apply wrap_clean, effect_validator_clean.
Qed.
Lemma std_str_coerce_clean v : parse_clean (std_str_coerce v).
Proof. destruct v; simpl; auto. destruct k; simpl; auto. Qed.
Lemma tag_value_field_clean v : parse_clean (tag_value_field v).
Proof.
  unfold tag_value_field. destruct (tag_coerce_total v) as [x ->]. simpl.
  apply resolvable_clean, std_str_coerce_clean.
Qed.
Lemma fn_dict_field_clean v : parse_clean (fn_dict_field v).
Proof. apply wrap_clean, check_fn_dict_clean. Qed.
Lemma generic_field_clean cast v : parse_clean (generic_field cast v).
Proof. apply wrap_clean, generic_casting_clean. Qed.

(* ---- expand_actions(): without the C10 guard it fails exactly on a non-null Action / NotAction value that is
        neither text nor a list of text; with the guard it never fails ---- *)
Fixpoint actions_textual (v : value) : bool :=
  match v with
  | VDict d =>
      forallb (fun kv => match snd kv with
                         | VNull => true
                         | _ => if str_eqb (fst kv) K_Action || str_eqb (fst kv) K_NotAction then action_value_ok (snd kv)
                                else actions_textual (snd kv)
                         end) d
  | VList l => forallb actions_textual l
  | _ => true
  end.

Lemma all_strs_iff l : (exists ss, all_strs l = Some ss) <-> forallb is_vstr l = true.
Proof.
  induction l as [|x xs IH]; simpl; [split; eauto|].
  destruct x; simpl; try (split; [intros [ss H]; discriminate | discriminate]).
  rewrite <- IH. destruct (all_strs xs); split; eauto; intros [ss H]; discriminate.
Qed.
Lemma expand_acts_ok exp na x : is_ok (expand_acts exp na x) = action_value_ok x.
Proof.
  destruct x; simpl; try reflexivity.
  destruct (all_strs l) eqn:E; simpl; symmetry.
  - apply all_strs_iff. eauto.
  - destruct (forallb is_vstr l) eqn:F; [|reflexivity]. apply all_strs_iff in F. destruct F as [ss F]. congruence.
Qed.

(* the inner loops of [expand_tree], named *)
Definition et_list (guard : bool) (exp : bool -> list str -> list str) : list value -> res (list value) :=
  fix go (l : list value) : res (list value) :=
    match l with
    | [] => Ok []
    | x :: r => x' <- expand_tree guard exp x ;; r' <- go r ;; Ok (x' :: r')
    end.
Definition et_entry (guard : bool) (exp : bool -> list str -> list str) (k : str) (x : value) : res value :=
  match x with
  | VNull => Ok VNull
  | _ => if (str_eqb k K_Action || str_eqb k K_NotAction) && negb (guard && negb (action_value_ok x))
         then expand_acts exp (str_eqb k K_NotAction) x
         else expand_tree guard exp x
  end.
Definition et_dict (guard : bool) (exp : bool -> list str -> list str) : list (str * value) -> res (list (str * value)) :=
  fix go (d : list (str * value)) : res (list (str * value)) :=
    match d with
    | [] => Ok []
    | (k, x) :: r => x' <- et_entry guard exp k x ;; r' <- go r ;; Ok ((k, x') :: r')
    end.
Lemma expand_tree_list guard exp l : expand_tree guard exp (VList l) = (l' <- et_list guard exp l ;; Ok (VList l')).
Proof. reflexivity. Qed.
Lemma expand_tree_dict guard exp d : expand_tree guard exp (VDict d) = (d' <- et_dict guard exp d ;; Ok (VDict d')).
Proof. reflexivity. Qed.
Definition entry_textual (kv : str * value) : bool :=
  match snd kv with
  | VNull => true
  | _ => if str_eqb (fst kv) K_Action || str_eqb (fst kv) K_NotAction then action_value_ok (snd kv)
         else actions_textual (snd kv)
  end.
Lemma is_ok_bind_ok {A B} (r : res A) (f : A -> B) : is_ok (a <- r ;; Ok (f a)) = is_ok r.
Proof. destruct r; reflexivity. Qed.

Section Walk.
Variables (guard : bool) (exp : bool -> list str -> list str).
Definition OkAt (v : value) : Prop := is_ok (expand_tree guard exp v) = guard || actions_textual v.

Lemma et_list_ok l : Forall OkAt l -> is_ok (et_list guard exp l) = guard || forallb actions_textual l.
Proof.
  induction 1 as [|x xs Hx Hxs IH]; [simpl; rewrite orb_true_r; reflexivity|]. unfold OkAt in Hx. simpl.
  destruct (expand_tree guard exp x); simpl in *.
  - fold (et_list guard exp). rewrite is_ok_bind_ok, IH. destruct guard; simpl in *; [reflexivity|]. rewrite <- Hx. reflexivity.
  - destruct guard; simpl in *; [discriminate|]. rewrite <- Hx. reflexivity.
Qed.
Lemma et_entry_ok k x : OkAt x -> is_ok (et_entry guard exp k x) = guard || entry_textual (k, x).
Proof.
  unfold OkAt. intros Hx. unfold et_entry, entry_textual. simpl.
  destruct (str_eqb k K_Action || str_eqb k K_NotAction); simpl.
  - destruct guard; simpl.
    + destruct (action_value_ok x) eqn:Ea; simpl.
      * destruct x; try reflexivity; rewrite expand_acts_ok; exact Ea.
      * destruct x; try reflexivity; exact Hx.
    + destruct x; try reflexivity; apply expand_acts_ok.
  - destruct x; try (destruct guard; reflexivity); exact Hx.
Qed.
Lemma et_dict_ok d : Forall (fun kv => OkAt (snd kv)) d -> is_ok (et_dict guard exp d) = guard || forallb entry_textual d.
Proof.
  induction 1 as [|[k x] xs Hx Hxs IH]; [simpl; rewrite orb_true_r; reflexivity|]. simpl in Hx.
  cbn [et_dict forallb]. fold (et_dict guard exp). pose proof (et_entry_ok k x Hx) as He.
  destruct (et_entry guard exp k x); simpl in *.
  - rewrite is_ok_bind_ok, IH. destruct guard; simpl in *; [reflexivity|]. rewrite <- He. reflexivity.
  - destruct guard; simpl in *; [discriminate|]. rewrite <- He. reflexivity.
Qed.

Theorem expand_tree_ok_iff v : is_ok (expand_tree guard exp v) = guard || actions_textual v.
Proof.
  induction v as [| | | | | | l IH | d IH] using value_ind'; try (simpl; rewrite orb_true_r; reflexivity).
  - rewrite expand_tree_list, is_ok_bind_ok. apply et_list_ok. exact IH.
  - rewrite expand_tree_dict, is_ok_bind_ok. change (actions_textual (VDict d)) with (forallb entry_textual d).
    apply et_dict_ok. exact IH.
Qed.

(* whatever the tree: the only exception expand_actions() can raise is ValueError *)
Lemma clean_bind_ok {A B} (r : res A) (f : A -> B) : clean r -> clean (a <- r ;; Ok (f a)).
Proof. destruct r; simpl; auto. Qed.
Theorem expand_tree_clean v : clean (expand_tree guard exp v).
Proof.
  induction v as [| | | | | | l IH | d IH] using value_ind'; try exact I.
  - rewrite expand_tree_list. apply clean_bind_ok.
    induction IH as [|x xs Hx Hxs IHl]; [exact I|]. simpl.
    destruct (expand_tree guard exp x); simpl in *; [|exact Hx]. fold (et_list guard exp). destruct (et_list guard exp xs); simpl in *; auto.
  - rewrite expand_tree_dict. apply clean_bind_ok.
    induction IH as [|[k x] xs Hx Hxs IHd]; [exact I|]. simpl in Hx. cbn [et_dict]. fold (et_dict guard exp).
    assert (Hel : clean (et_entry guard exp k x)).
    { unfold et_entry.
      destruct ((str_eqb k K_Action || str_eqb k K_NotAction) && negb (guard && negb (action_value_ok x)));
        destruct x; try exact I; try apply expand_acts_clean; exact Hx. }
    destruct (et_entry guard exp k x); simpl in *; [|exact Hel]. destruct (et_dict guard exp xs); simpl in *; auto.
Qed.
End Walk.

Corollary expand_tree_no_error exp v : actions_textual v = true -> exists r, expand_tree false exp v = Ok r.
Proof. intros H. pose proof (expand_tree_ok_iff false exp v) as E. rewrite H in E. destruct (expand_tree false exp v); [eauto | discriminate]. Qed.
Corollary expand_tree_guarded_total exp v : exists r, expand_tree true exp v = Ok r.
Proof. pose proof (expand_tree_ok_iff true exp v) as E. destruct (expand_tree true exp v); [eauto | discriminate]. Qed.

(* ---- the resolver's leaf dispatch: every non-container constructor of [value] is rendered; the branch
        `raise ValueError("Not supported type")` of pycfmodel.resolver.resolve has no counterpart ---- *)
Definition is_leaf (v : value) : bool := match v with VList _ | VDict _ => false | _ => true end.
Theorem resolve_leaf_total e v : is_leaf v = true -> resolve e v = Ok VNull \/ exists s, resolve e v = Ok (VStr s).
Proof. destruct v; simpl; try discriminate; intros _; eauto. Qed.
Theorem render_leaf_total ps v : is_leaf v = true -> exists r, render_leaf ps v = Some r.
Proof. destruct v; simpl; try discriminate; eauto. Qed.
