(* C05, error-freedom: a well-typed expression resolves (type soundness of Robust/WellFormed.v against the
   big-step semantics Resolver/Spec.v, hence against the executable [resolve] by eval_complete), and a valid
   template goes through Template.resolve_model without any Err. *)
From Coq Require Import List Bool NArith ZArith Lia.
From PV Require Import Base.Str Base.Value Resolver.Consts Resolver.Text Resolver.Resolve Resolver.Spec Resolver.Template
  Resolver.CondFacts Robust.WellFormed.
Import ListNotations.
Local Open Scope N_scope.

(* ---- shapes ---- *)
Lemma strs_plain l : forallb is_vstr l = true -> existsb has_numeric l = false.
Proof.
  induction l as [|x xs IH]; simpl; [reflexivity|]. intros H. apply andb_true_iff in H. destruct H as [Hx Hxs].
  destruct x; try discriminate. simpl. apply IH. assumption.
Qed.
Lemma shape_sub a b r : sub a b = true -> shape a r = true -> shape b r = true.
Proof.
  destruct a, b; simpl; try discriminate; auto; intros _ H.
  - destruct r; try discriminate. reflexivity.
  - destruct r; try discriminate. simpl. rewrite strs_plain by assumption. reflexivity.
Qed.
Lemma sub_refl a : sub a a = true.
Proof. destruct a; reflexivity. Qed.
Lemma sub_lub_l a b : sub a (lub a b) = true.
Proof. destruct a, b; reflexivity. Qed.
Lemma sub_lub_r a b : sub b (lub a b) = true.
Proof. destruct a, b; reflexivity. Qed.

Lemma forallb_map {A B} (f : B -> bool) (g : A -> B) l : forallb f (map g l) = forallb (fun x => f (g x)) l.
Proof. induction l as [|x xs IH]; simpl; [reflexivity|]. rewrite IH. reflexivity. Qed.
Lemma lookup_forallb {A} (P : A -> bool) k (d : list (str * A)) x :
  forallb (fun kv => P (snd kv)) d = true -> lookup k d = Some x -> P x = true.
Proof.
  intros H L. apply lookup_In in L. rewrite forallb_forall in H. exact (H (k, x) L).
Qed.

(* ---- parameter values: what Ref / Fn::Sub insert ---- *)
Lemma normalize_pv_str ps v : pv_str v = true -> exists s, normalize ps v = Ok (VStr s).
Proof. destruct v; simpl; try discriminate; eauto. Qed.
Lemma normalize_pv_strs_list ps l : forallb pv_str l = true ->
  exists l', (fix go (l : list value) : res (list value) :=
                match l with
                | [] => Ok []
                | x :: xs => x' <- normalize ps x ;; xs' <- go xs ;; Ok (if is_novalue x' then xs' else x' :: xs')
                end) l = Ok l' /\ forallb is_vstr l' = true.
Proof.
  induction l as [|x xs IH]; simpl; [eauto|]. intros H. apply andb_true_iff in H. destruct H as [Hx Hxs].
  destruct (normalize_pv_str ps x Hx) as [s ->]. destruct (IH Hxs) as (l' & -> & Hl'). simpl.
  destruct (str_eqb s S_NOVALUE); eexists; split; try reflexivity; simpl; assumption.
Qed.
Lemma normalize_pv_strs ps v : pv_strs v = true -> exists l', normalize ps v = Ok (VList l') /\ forallb is_vstr l' = true.
Proof.
  destruct v; simpl; try discriminate. intros H. destruct (normalize_pv_strs_list ps l H) as (l' & E & Hl').
  rewrite E. simpl. eauto.
Qed.
Lemma normalize_pv_ok ps v : pv_ok v = true -> exists r, normalize ps v = Ok r /\ has_numeric r = false.
Proof.
  induction v as [| | | | | | l IH | d IH] using value_ind'; intros H; try (simpl; eauto; fail).
  - simpl in H.
    assert (G : exists l', (fix go (l : list value) : res (list value) :=
                match l with
                | [] => Ok []
                | x :: xs => x' <- normalize ps x ;; xs' <- go xs ;; Ok (if is_novalue x' then xs' else x' :: xs')
                end) l = Ok l' /\ existsb has_numeric l' = false).
    { induction IH as [|x xs Hx Hxs IHl]; [simpl; eauto|]. simpl in H. apply andb_true_iff in H. destruct H as [H1 H2].
      destruct (Hx H1) as (x' & -> & Hx'). destruct (IHl H2) as (xs' & -> & Hxs'). simpl.
      destruct (is_novalue x'); eexists; split; try reflexivity; simpl; try rewrite Hx'; assumption. }
    destruct G as (l' & E & Hl'). simpl. rewrite E. simpl. eauto.
  - simpl in H. apply andb_true_iff in H. destruct H as [Hf H]. apply negb_true_iff in Hf.
    assert (G : exists d', (fix go (d : list (str * value)) : res (list (str * value)) :=
               match d with
               | [] => Ok []
               | (k, x) :: xs => x' <- normalize ps x ;; xs' <- go xs ;;
                                 Ok (if is_novalue x' then xs' else (k, x') :: xs')
               end) d = Ok d' /\ existsb (fun kv => has_numeric (snd kv)) d' = false).
    { clear Hf. induction IH as [|[k x] xs Hx Hxs IHl]; [simpl; eauto|]. simpl in H, Hx. apply andb_true_iff in H. destruct H as [H1 H2].
      destruct (Hx H1) as (x' & -> & Hx'). destruct (IHl H2) as (xs' & -> & Hxs'). simpl.
      destruct (is_novalue x'); eexists; split; try reflexivity; simpl; try rewrite Hx'; assumption. }
    destruct G as (d' & E & Hd'). simpl. rewrite Hf, E. simpl. eauto.
Qed.

(* ---- building derivations for the inner loops ---- *)
Section Build.
Variable e : env.
Lemma evallist_build T l :
  (forall x, In x l -> exists r, Eval e x r /\ shape T r = true) ->
  exists l', EvalList e l l' /\ forallb (shape T) l' = true.
Proof.
  induction l as [|x xs IH]; intros H; [exists []; split; [constructor | reflexivity]|].
  destruct (H x (or_introl eq_refl)) as (r & Hr & Hs).
  destruct IH as (xs' & Hxs & Hs'); [intros y Hy; apply H; right; assumption|].
  destruct (is_novalue r) eqn:En.
  - exists xs'. split; [eapply EL_drop; eauto | assumption].
  - exists (r :: xs'). split; [eapply EL_keep; eauto | simpl; rewrite Hs, Hs'; reflexivity].
Qed.
Lemma evaldict_build T d :
  (forall k x, In (k, x) d -> exists r, Eval e x r /\ shape T r = true) ->
  exists d', EvalDict e d d' /\ forallb (fun kv => shape T (snd kv)) d' = true.
Proof.
  induction d as [|[k x] xs IH]; intros H; [exists []; split; [constructor | reflexivity]|].
  destruct (H k x (or_introl eq_refl)) as (r & Hr & Hs).
  destruct IH as (xs' & Hxs & Hs'); [intros k' y Hy; eapply H; right; eassumption|].
  destruct (is_novalue r) eqn:En.
  - exists xs'. split; [eapply ED_drop; eauto | assumption].
  - exists ((k, r) :: xs'). split; [eapply ED_keep; eauto | simpl; rewrite Hs, Hs'; reflexivity].
Qed.
Lemma evalall_build l :
  (forall x, In x l -> exists r, Eval e x r /\ shape TBool r = true) -> exists b, EvalAll e l b.
Proof.
  induction l as [|x xs IH]; intros H; [exists true; constructor|].
  destruct (H x (or_introl eq_refl)) as (r & Hr & Hs). destruct r; try discriminate.
  destruct IH as (b' & Hb'); [intros y Hy; apply H; right; assumption|].
  destruct b.
  - exists b'. eapply EA_true; eauto; reflexivity.
  - exists false. eapply EA_false; eauto; reflexivity.
Qed.
Lemma evalany_build l :
  (forall x, In x l -> exists r, Eval e x r /\ shape TBool r = true) -> exists b, EvalAny e l b.
Proof.
  induction l as [|x xs IH]; intros H; [exists false; constructor|].
  destruct (H x (or_introl eq_refl)) as (r & Hr & Hs). destruct r; try discriminate.
  destruct IH as (b' & Hb'); [intros y Hy; apply H; right; assumption|].
  destruct b.
  - exists true. eapply EO_true; eauto; reflexivity.
  - exists b'. eapply EO_false; eauto; reflexivity.
Qed.
End Build.

Lemma plain_list l : forallb (shape TPlain) l = true -> existsb has_numeric l = false.
Proof.
  induction l as [|x xs IH]; simpl; [reflexivity|]. intros H. apply andb_true_iff in H. destruct H as [Hx Hxs].
  apply negb_true_iff in Hx. rewrite Hx. simpl. apply IH. assumption.
Qed.
Lemma plain_dict (d : list (str * value)) : forallb (fun kv => shape TPlain (snd kv)) d = true ->
  existsb (fun kv => has_numeric (snd kv)) d = false.
Proof.
  induction d as [|x xs IH]; simpl; [reflexivity|]. intros H. apply andb_true_iff in H. destruct H as [Hx Hxs].
  apply negb_true_iff in Hx. rewrite Hx. simpl. apply IH. assumption.
Qed.

(* ---- the leaf operations on well-shaped arguments ---- *)
Lemma do_ref_typed e name t : ref_ty (params e) name = Some t ->
  exists r, do_ref e (VStr name) = Ok r /\ shape t r = true.
Proof.
  unfold ref_ty, do_ref. destruct (lookup name (params e)) as [x|]; [|intros H; inv H; eexists; split; reflexivity].
  destruct (pv_str x) eqn:E1; [intros H; inv H; destruct (normalize_pv_str (params e) x E1) as [s ->]; eauto|].
  destruct (pv_strs x) eqn:E2; [intros H; inv H; destruct (normalize_pv_strs (params e) x E2) as (l' & -> & Hl'); eauto|].
  destruct (pv_ok x) eqn:E3; [|discriminate]. intros H; inv H.
  destruct (normalize_pv_ok (params e) x E3) as (r & -> & Hr). exists r. split; [reflexivity|]. simpl. rewrite Hr. reflexivity.
Qed.
Lemma do_ref_general e s : all_ps_ok (params e) = true -> exists r, do_ref e (VStr s) = Ok r /\ shape TPlain r = true.
Proof.
  intros H. unfold do_ref. destruct (lookup s (params e)) as [x|] eqn:L; [|eexists; split; reflexivity].
  pose proof (lookup_forallb pv_ok s (params e) x H L) as Hx.
  destruct (normalize_pv_ok (params e) x Hx) as (r & -> & Hr). exists r. split; [reflexivity|]. simpl. rewrite Hr. reflexivity.
Qed.

Lemma as_strs_ok l : forallb is_vstr l = true -> exists ss, as_strs l = Ok ss.
Proof.
  induction l as [|x xs IH]; simpl; [eauto|]. intros H. apply andb_true_iff in H. destruct H as [Hx Hxs].
  destruct x; try discriminate. destruct (IH Hxs) as [ss ->]. simpl. eauto.
Qed.
Lemma map_vstr_strs ss : forallb is_vstr (map VStr ss) = true.
Proof. induction ss; simpl; auto. Qed.
Lemma nth_error_strs (l : list value) n x : forallb is_vstr l = true -> nth_error l n = Some x -> is_vstr x = true.
Proof.
  intros H E. apply nth_error_In in E. rewrite forallb_forall in H. apply H. assumption.
Qed.
Lemma do_select_ok s l : int_text_ok s = true -> forallb is_vstr l = true ->
  exists r, do_select (VStr s) (VList l) = Ok r /\ shape TPlain r = true.
Proof.
  unfold int_text_ok, do_select. destruct (parse_int s) as [z|]; [|discriminate]. intros _ Hl.
  destruct ((z <? 0)%Z || (Z.of_nat (length l) <=? z)%Z); [eexists; split; reflexivity|].
  destruct (nth_error l (Z.to_nat z)) as [x|] eqn:E; [|eexists; split; reflexivity].
  exists x. split; [reflexivity|]. pose proof (nth_error_strs l _ x Hl E) as Hx. destruct x; try discriminate. reflexivity.
Qed.

Definition maps_ok (maps : list (str * value)) : Prop :=
  forall m top, lookup m maps = Some top -> exists t, top = VDict t /\
    forall k1 snd_, lookup k1 t = Some snd_ -> exists s, snd_ = VDict s.
Lemma wf_maps_ok maps : wf_maps maps = true -> maps_ok maps.
Proof.
  unfold wf_maps. intros H m top L.
  pose proof (lookup_forallb (fun v => match v with
      | VDict top => forallb (fun kv2 => match snd kv2 with VDict _ => true | _ => false end) top
      | _ => false end) m maps top H L) as Ht.
  destruct top; try discriminate. eexists. split; [reflexivity|]. intros k1 snd_ L1.
  pose proof (lookup_forallb (fun v => match v with VDict _ => true | _ => false end) k1 d snd_ Ht L1) as Hs.
  destruct snd_; try discriminate. eauto.
Qed.
Lemma do_fim_ok e m k1 k2 : maps_ok (mappings e) -> exists r, do_find_in_map e (VStr m) (VStr k1) (VStr k2) = Ok r.
Proof.
  intros H. unfold do_find_in_map. destruct (lookup m (mappings e)) as [top|] eqn:L; [|eauto].
  destruct (H m top L) as (t & -> & Ht). destruct (lookup_bk k1 t) as [snd_|] eqn:L1; [|eauto].
  destruct (lookup_bk_lookup k1 t snd_ L1) as (k1' & L1' & _).
  destruct (Ht k1' snd_ L1') as (s & ->). destruct (lookup_bk k2 s) as [leaf|]; [|eauto]. destruct leaf; eauto.
Qed.
Lemma leaf_ty_shape leaf : shape (leaf_ty leaf) leaf = true.
Proof.
  unfold leaf_ty. destruct (is_vstr leaf) eqn:E1; [exact E1|].
  destruct (shape TStrs leaf) eqn:E2; [exact E2|].
  destruct (negb (has_numeric leaf)) eqn:E3; [exact E3|reflexivity].
Qed.
Lemma do_fim_static e m k1 k2 : maps_ok (mappings e) ->
  exists r, do_find_in_map e (VStr m) (VStr k1) (VStr k2) = Ok r /\ shape (fim_static (mappings e) m k1 k2) r = true.
Proof.
  intros H. unfold do_find_in_map, fim_static. destruct (lookup m (mappings e)) as [top|] eqn:L; [|eexists; split; reflexivity].
  destruct (H m top L) as (t & -> & Ht). destruct (lookup_bk k1 t) as [snd_|] eqn:L1; [|eexists; split; reflexivity].
  destruct (lookup_bk_lookup k1 t snd_ L1) as (k1' & L1' & _).
  destruct (Ht k1' snd_ L1') as (s & ->). destruct (lookup_bk k2 s) as [leaf|]; [|eexists; split; reflexivity].
  destruct leaf; try (eexists; split; [reflexivity | apply leaf_ty_shape]). eexists; split; reflexivity.
Qed.

(* Fn::Sub *)
Lemma render_var_ok e custom name : forallb (fun kv => is_vstr (snd kv)) custom = true -> var_ok (params e) name = true ->
  exists s, render_var e custom name = Ok s.
Proof.
  intros Hc Hv. unfold render_var. destruct (lookup name custom) as [x|] eqn:L.
  - pose proof (lookup_forallb is_vstr name custom x Hc L) as Hx. destruct x; try discriminate. simpl. eauto.
  - unfold var_ok in Hv. destruct (lookup name (params e)) as [x|]; [|eauto].
    destruct (normalize_pv_str (params e) x Hv) as [s ->]. simpl. eauto.
Qed.
Lemma render_toks_ok e custom ts : forallb (fun kv => is_vstr (snd kv)) custom = true ->
  forallb (tok_ok (params e)) ts = true -> exists s, render_toks e custom ts = Ok s.
Proof.
  intros Hc. induction ts as [|t ts IH]; simpl; [eauto|]. intros H. apply andb_true_iff in H. destruct H as [Ht Hts].
  destruct (IH Hts) as [s2 E2]. destruct t; simpl in *.
  - rewrite E2. simpl. eauto.
  - destruct (render_var_ok e custom name Hc Ht) as [s1 ->]. simpl. rewrite E2. simpl. eauto.
  - rewrite E2. simpl. eauto.
Qed.
Lemma do_sub_ok e text custom : forallb (fun kv => is_vstr (snd kv)) custom = true -> sub_text_ok (params e) text = true ->
  exists s, do_sub e text custom = Ok (VStr s).
Proof.
  intros Hc Ht. unfold do_sub. destruct (render_toks_ok e custom (sub_tokens text) Hc Ht) as [s ->]. simpl. eauto.
Qed.

(* ---- unfolding equations of [ty_of], one per function key ---- *)
Section Unfold.
Variables ps maps : list (str * value).
Notation T := (ty_of ps maps).
Lemma ty_list l : T (VList l) = list_ty (map T l).
Proof. reflexivity. Qed.
Lemma ty_dict_generic d : is_fn_dict d = false -> T (VDict d) = dict_ty (map (fun kv => T (snd kv)) d).
Proof.
  intros H. destruct d as [|[k body] [|kv2 rest]]; try reflexivity.
  simpl in H. unfold is_fn, MODEL_FUNCTIONS, mem_str in H. cbn [existsb] in H.
  repeat (apply orb_false_elim in H; destruct H as [?H H]).
  cbn [ty_of].
  repeat match goal with Hk : str_eqb k ?K = false |- _ => rewrite Hk; clear Hk end.
  reflexivity.
Qed.
Lemma ty_ref body : T (VDict [(K_Ref, body)]) = ref_rule ps body (T body).
Proof. reflexivity. Qed.
Lemma ty_import body : T (VDict [(K_ImportValue, body)]) = ref_rule ps body (T body).
Proof. reflexivity. Qed.
Lemma ty_join dl l : T (VDict [(K_Join, VList [dl; l])]) = join_ty (T dl) (T l).
Proof. reflexivity. Qed.
Lemma ty_split dl s : T (VDict [(K_Split, VList [dl; s])]) = split_rule ps dl (T s).
Proof. reflexivity. Qed.
Lemma ty_select i l : T (VDict [(K_Select, VList [i; l])]) = select_rule ps i (T l).
Proof. reflexivity. Qed.
Lemma ty_fim m k1 k2 : T (VDict [(K_FindInMap, VList [m; k1; k2])]) = fim_rule ps maps m k1 k2 (T m) (T k1) (T k2).
Proof. reflexivity. Qed.
Lemma ty_sub_text text : T (VDict [(K_Sub, VStr text)]) = if sub_text_ok ps text then Some TStr else None.
Proof. reflexivity. Qed.
Lemma ty_sub_vars text cd : T (VDict [(K_Sub, VList [VStr text; VDict cd])]) =
  sub_vars_ty ps text (is_fn_dict cd) (map (fun kv => T (snd kv)) cd).
Proof. reflexivity. Qed.
Lemma ty_base64 body : T (VDict [(K_Base64, body)]) = base64_ty (T body).
Proof. reflexivity. Qed.
Lemma ty_if c t f : T (VDict [(K_If, VList [c; t; f])]) = if is_vstr c then if_ty (T t) (T f) else None.
Proof. reflexivity. Qed.
Lemma ty_and parts : T (VDict [(K_And, VList parts)]) = all_bool (map T parts).
Proof. reflexivity. Qed.
Lemma ty_or parts : T (VDict [(K_Or, VList parts)]) = all_bool (map T parts).
Proof. reflexivity. Qed.
Lemma ty_not x rest : T (VDict [(K_Not, VList (x :: rest))]) = all_bool [T x].
Proof. reflexivity. Qed.
Lemma ty_equals a b : T (VDict [(K_Equals, VList [a; b])]) = equals_ty (T a) (T b).
Proof. reflexivity. Qed.
End Unfold.

Lemma opt_sub_inv o t : opt_sub o t = true -> exists a, o = Some a /\ sub a t = true.
Proof. destruct o; simpl; [eauto | discriminate]. Qed.

(* ---- type soundness ---- *)
Theorem ty_sound e : maps_ok (mappings e) -> (forall n, exists b, conds e n = Ok b) ->
  forall n v t, (vsize v < n)%nat -> ty_of (params e) (mappings e) v = Some t ->
  exists r, Eval e v r /\ shape t r = true.
Proof.
  intros Hm Hc. set (ps := params e). set (maps := mappings e).
  induction n as [|n IH]; intros v t Hs Ht; [lia|].
  (* the induction hypothesis, up to subtyping *)
  assert (Hel : forall x T, (vsize x < n)%nat -> opt_sub (ty_of ps maps x) T = true -> exists r, Eval e x r /\ shape T r = true).
  { intros x T Hx Ho. apply opt_sub_inv in Ho. destruct Ho as (a & Ea & Hsub).
    destruct (IH x a Hx Ea) as (r & Hr & Hsh). exists r. split; [assumption | eapply shape_sub; eauto]. }
  destruct v as [| b | z | s | k tx | bs | l | d]; try (inv Ht; eexists; split; [constructor | reflexivity]).
  - (* lists *)
    rewrite ty_list in Ht. unfold list_ty in Ht. rewrite !forallb_map in Ht.
    assert (Hin : forall T, forallb (fun x => opt_sub (ty_of ps maps x) T) l = true ->
                  exists l', EvalList e l l' /\ forallb (shape T) l' = true).
    { intros T HT. apply evallist_build. intros x Hx. apply Hel.
      - pose proof (vsize_in_list x l Hx). lia.
      - rewrite forallb_forall in HT. apply HT. assumption. }
    destruct (forallb (fun x => opt_sub (ty_of ps maps x) TStr) l) eqn:E1.
    { inv Ht. destruct (Hin TStr E1) as (l' & Hl & Hsh). exists (VList l'). split; [constructor; assumption | exact Hsh]. }
    destruct (forallb (fun x => opt_sub (ty_of ps maps x) TPlain) l) eqn:E2.
    { inv Ht. destruct (Hin TPlain E2) as (l' & Hl & Hsh). exists (VList l'). split; [constructor; assumption|].
      simpl. rewrite plain_list by assumption. reflexivity. }
    destruct (forallb (fun x => opt_sub (ty_of ps maps x) TAny) l) eqn:E3; [|discriminate].
    inv Ht. destruct (Hin TAny E3) as (l' & Hl & Hsh). exists (VList l'). split; [constructor; assumption | reflexivity].
  - (* objects *)
    assert (Hgen : is_fn_dict d = false -> exists r, Eval e (VDict d) r /\ shape t r = true).
    { intros Hf. rewrite ty_dict_generic in Ht by assumption. unfold dict_ty in Ht. rewrite !forallb_map in Ht.
      assert (Hin : forall T, forallb (fun kv => opt_sub (ty_of ps maps (snd kv)) T) d = true ->
                    exists d', EvalDict e d d' /\ forallb (fun kv => shape T (snd kv)) d' = true).
      { intros T HT. apply evaldict_build. intros k x Hx. apply Hel.
        - pose proof (vsize_in_dict k x d Hx). lia.
        - rewrite forallb_forall in HT. apply (HT (k, x)). assumption. }
      destruct (forallb (fun kv => opt_sub (ty_of ps maps (snd kv)) TPlain) d) eqn:E2.
      { inv Ht. destruct (Hin TPlain E2) as (d' & Hd & Hsh). exists (VDict d'). split; [constructor; assumption|].
        simpl. rewrite plain_dict by assumption. reflexivity. }
      destruct (forallb (fun kv => opt_sub (ty_of ps maps (snd kv)) TAny) d) eqn:E3; [|discriminate].
      inv Ht. destruct (Hin TAny E3) as (d' & Hd & Hsh). exists (VDict d'). split; [constructor; assumption | reflexivity]. }
    destruct d as [|[k body] [|kv2 rest]]; [apply Hgen; reflexivity | | apply Hgen; reflexivity].
    assert (Hbody : forall T, opt_sub (ty_of ps maps body) T = true -> exists r, Eval e body r /\ shape T r = true).
    { intros T HT. apply Hel; [simpl in Hs; lia | assumption]. }
    assert (Hdeep : forall x T, (vsize x < vsize body)%nat -> opt_sub (ty_of ps maps x) T = true ->
                    exists r, Eval e x r /\ shape T r = true).
    { intros x T Hx HT. apply Hel; [simpl in Hs; lia | assumption]. }
    assert (Href : ref_rule ps body (ty_of ps maps body) = Some t -> forall k0, k0 = K_Ref \/ k0 = K_ImportValue ->
                   exists r, Eval e (VDict [(k0, body)]) r /\ shape t r = true).
    { intros Hr k0 Hk0.
      assert (Hg : ref_general ps (ty_of ps maps body) = Some t -> exists r, Eval e (VDict [(k0, body)]) r /\ shape t r = true).
      { unfold ref_general. destruct (opt_sub (ty_of ps maps body) TStr) eqn:Eb; [|discriminate].
        destruct (all_ps_ok ps) eqn:Ea; [|discriminate]. simpl. intros H; inv H.
        destruct (Hbody TStr Eb) as (b & Hb & Hsb). destruct b; try discriminate.
        destruct (do_ref_general e s Ea) as (r & Er & Hr'). exists r. split; [eapply E_ref; eauto | assumption]. }
      destruct body; try (apply Hg; exact Hr).
      simpl in Hr. destruct (do_ref_typed e _ t Hr) as (r & Er & Hr').
      exists r. split; [eapply E_ref; eauto; constructor | assumption]. }
    key_case k K_Ref. { rewrite ty_ref in Ht. apply Href; auto. }
    key_case k K_ImportValue. { rewrite ty_import in Ht. apply Href; auto. }
    key_case k K_Join.
    { destruct body as [| | | | | | l |]; try discriminate. destruct l as [|dl [|l [|? ?]]]; try discriminate.
      rewrite ty_join in Ht. unfold join_ty in Ht.
      destruct (opt_sub (ty_of ps maps dl) TStr) eqn:E1; [|discriminate].
      destruct (opt_sub (ty_of ps maps l) TStrs) eqn:E2; [|discriminate]. inv Ht.
      destruct (Hdeep dl TStr) as (d' & Hd & Hsd); [simpl; lia | assumption|].
      destruct (Hdeep l TStrs) as (l' & Hl & Hsl); [simpl; lia | assumption|].
      destruct d'; try discriminate. destruct l' as [| | | | | | ls |]; try discriminate.
      destruct (as_strs_ok ls Hsl) as [ss Ess].
      eexists. split; [eapply E_join; eauto; simpl; rewrite Ess; reflexivity | reflexivity]. }
    key_case k K_Split.
    { destruct body as [| | | | | | l |]; try discriminate. destruct l as [|dl [|sx [|? ?]]]; try discriminate.
      rewrite ty_split in Ht. destruct dl as [| | | delim | | | |]; try discriminate. simpl in Ht. unfold split_ty in Ht.
      destruct (render_str ps delim) as [|c0 r0] eqn:Ed; [discriminate|].
      destruct (opt_sub (ty_of ps maps sx) TStr) eqn:E2; [|discriminate]. inv Ht.
      destruct (Hdeep sx TStr) as (s' & Hs' & Hss); [simpl; lia | assumption|]. destruct s'; try discriminate.
      eexists. split.
      - eapply E_split; [constructor | eassumption|]. fold ps. rewrite Ed. reflexivity.
      - simpl. apply map_vstr_strs. }
    key_case k K_Select.
    { destruct body as [| | | | | | l |]; try discriminate. destruct l as [|i [|l [|? ?]]]; try discriminate.
      rewrite ty_select in Ht.
      assert (Hsel : forall i' txt, Eval e i i' -> i' = VStr txt -> select_ty txt (ty_of ps maps l) = Some t ->
                     exists r, Eval e (VDict [(K_Select, VList [i; l])]) r /\ shape t r = true).
      { intros i' txt Hi -> Hsel. unfold select_ty in Hsel. destruct (int_text_ok txt) eqn:E1; [|discriminate].
        destruct (opt_sub (ty_of ps maps l) TStrs) eqn:E2; [|discriminate]. inv Hsel.
        destruct (Hdeep l TStrs) as (l' & Hl & Hsl); [simpl; lia | assumption|].
        destruct l' as [| | | | | | ls |]; try discriminate.
        destruct (do_select_ok txt ls E1 Hsl) as (r & Er & Hr). exists r. split; [eapply E_select; eauto | assumption]. }
      destruct i; try discriminate; simpl in Ht.
      - eapply Hsel; [constructor | reflexivity | exact Ht].
      - eapply Hsel; [constructor | reflexivity | exact Ht]. }
    key_case k K_FindInMap.
    { destruct body as [| | | | | | l |]; try discriminate. destruct l as [|m [|k1 [|k2 [|? ?]]]]; try discriminate.
      rewrite ty_fim in Ht.
      assert (Hg : fim_general (ty_of ps maps m) (ty_of ps maps k1) (ty_of ps maps k2) = Some t ->
                   exists r, Eval e (VDict [(K_FindInMap, VList [m; k1; k2])]) r /\ shape t r = true).
      { unfold fim_general. destruct (opt_sub (ty_of ps maps m) TStr) eqn:E1; [|discriminate].
        destruct (opt_sub (ty_of ps maps k1) TStr) eqn:E2; [|discriminate].
        destruct (opt_sub (ty_of ps maps k2) TStr) eqn:E3; [|discriminate]. simpl. intros H; inv H.
        destruct (Hdeep m TStr) as (m' & Hm' & Hsm); [simpl; lia | assumption|].
        destruct (Hdeep k1 TStr) as (k1' & Hk1' & Hsk1); [simpl; lia | assumption|].
        destruct (Hdeep k2 TStr) as (k2' & Hk2' & Hsk2); [simpl; lia | assumption|].
        destruct m'; try discriminate. destruct k1'; try discriminate. destruct k2'; try discriminate.
        destruct (do_fim_ok e s s0 s1 Hm) as (r & Er). exists r. split; [eapply E_find_in_map; eauto | reflexivity]. }
      destruct m; try (apply Hg; exact Ht). destruct k1; try (apply Hg; exact Ht). destruct k2; try (apply Hg; exact Ht).
      simpl in Ht. inv Ht.
      destruct (do_fim_static e (render_str ps s) (render_str ps s0) (render_str ps s1) Hm) as (r & Er & Hr).
      exists r. split; [eapply E_find_in_map; [constructor | constructor | constructor | exact Er] | exact Hr]. }
    key_case k K_Sub.
    { destruct body as [| | | text | | | l |]; try discriminate.
      - rewrite ty_sub_text in Ht. destruct (sub_text_ok ps text) eqn:E1; [|discriminate]. inv Ht.
        destruct (do_sub_ok e text [] eq_refl E1) as (s & Es). eexists. split; [apply E_sub_text; eassumption | reflexivity].
      - destruct l as [|t0 [|vars rest]]; try discriminate; destruct t0 as [| | | text | | | |]; try discriminate.
        destruct vars as [| | | | | | | cd]; try discriminate. destruct rest; try discriminate.
        rewrite ty_sub_vars in Ht. unfold sub_vars_ty in Ht. rewrite forallb_map in Ht.
        destruct (is_fn_dict cd) eqn:Ef; [discriminate|]. destruct (sub_text_ok ps text) eqn:E1; [|discriminate].
        destruct (forallb (fun kv => opt_sub (ty_of ps maps (snd kv)) TStr) cd) eqn:E2; [|discriminate]. simpl in Ht. inv Ht.
        destruct (evaldict_build e TStr cd) as (cd' & Hcd & Hsh).
        { intros k x Hx. apply Hdeep.
          - pose proof (vsize_in_dict k x cd Hx). simpl in *. lia.
          - rewrite forallb_forall in E2. apply (E2 (k, x)). assumption. }
        destruct (do_sub_ok e text cd' Hsh E1) as (s & Es).
        eexists. split; [eapply E_sub_vars; [apply E_dict; eassumption | eassumption] | reflexivity]. }
    key_case k K_Base64.
    { rewrite ty_base64 in Ht. unfold base64_ty in Ht. destruct (opt_sub (ty_of ps maps body) TStr) eqn:E1; [|discriminate]. inv Ht.
      destruct (Hbody TStr E1) as (b & Hb & Hsb). destruct b; try discriminate.
      eexists. split; [eapply E_base64; eauto; reflexivity | reflexivity]. }
    key_case k K_GetAtt. { inv Ht. eexists. split; [constructor | reflexivity]. }
    key_case k K_GetAZs. { inv Ht. eexists. split; [constructor | reflexivity]. }
    key_case k K_Condition.
    { destruct body as [| | | name | | | |]; try discriminate. inv Ht.
      destruct (Hc name) as [b Hb]. exists (VBool b). split; [constructor; assumption | reflexivity]. }
    key_case k K_If.
    { destruct body as [| | | | | | l |]; try discriminate. destruct l as [|c [|tb [|fb [|? ?]]]]; try discriminate.
      rewrite ty_if in Ht. destruct c as [| | | c | | | |]; try discriminate. simpl in Ht.
      unfold if_ty in Ht. destruct (ty_of ps maps tb) as [ta|] eqn:Eta; [|discriminate].
      destruct (ty_of ps maps fb) as [fa|] eqn:Efa; [|discriminate]. inv Ht.
      destruct (Hc c) as [b Hb]. destruct b.
      - destruct (Hdeep tb (lub ta fa)) as (r & Hr & Hsr); [simpl; lia | rewrite Eta; apply sub_lub_l|].
        exists r. split; [eapply E_if_true; eauto | assumption].
      - destruct (Hdeep fb (lub ta fa)) as (r & Hr & Hsr); [simpl; lia | rewrite Efa; apply sub_lub_r|].
        exists r. split; [eapply E_if_false; eauto | assumption]. }
    key_case k K_And.
    { destruct body as [| | | | | | parts |]; try discriminate. rewrite ty_and in Ht. unfold all_bool in Ht. rewrite forallb_map in Ht.
      destruct (forallb (fun x => opt_sub (ty_of ps maps x) TBool) parts) eqn:E1; [|discriminate]. inv Ht.
      destruct (evalall_build e parts) as (b & Hb).
      { intros x Hx. apply Hdeep; [apply vsize_in_list; assumption | rewrite forallb_forall in E1; apply E1; assumption]. }
      exists (VBool b). split; [constructor; assumption | reflexivity]. }
    key_case k K_Or.
    { destruct body as [| | | | | | parts |]; try discriminate. rewrite ty_or in Ht. unfold all_bool in Ht. rewrite forallb_map in Ht.
      destruct (forallb (fun x => opt_sub (ty_of ps maps x) TBool) parts) eqn:E1; [|discriminate]. inv Ht.
      destruct (evalany_build e parts) as (b & Hb).
      { intros x Hx. apply Hdeep; [apply vsize_in_list; assumption | rewrite forallb_forall in E1; apply E1; assumption]. }
      exists (VBool b). split; [constructor; assumption | reflexivity]. }
    key_case k K_Not.
    { destruct body as [| | | | | | l |]; try discriminate. destruct l as [|x rest]; try discriminate.
      rewrite ty_not in Ht. unfold all_bool in Ht. simpl in Ht.
      destruct (opt_sub (ty_of ps maps x) TBool) eqn:E1; [|discriminate]. inv Ht.
      destruct (Hdeep x TBool) as (r & Hr & Hsr); [simpl; lia | assumption|]. destruct r; try discriminate.
      exists (VBool (negb b)). split; [eapply E_not; eauto; reflexivity | reflexivity]. }
    key_case k K_Equals.
    { destruct body as [| | | | | | l |]; try discriminate. destruct l as [|a [|b [|? ?]]]; try discriminate.
      rewrite ty_equals in Ht. unfold equals_ty in Ht.
      destruct (opt_sub (ty_of ps maps a) TPlain && opt_sub (ty_of ps maps b) TPlain) eqn:E1.
      - inv Ht. apply andb_true_iff in E1. destruct E1 as [Ea Eb].
        destruct (Hdeep a TPlain) as (a' & Ha & Hsa); [simpl; lia | assumption|].
        destruct (Hdeep b TPlain) as (b' & Hb & Hsb); [simpl; lia | assumption|].
        simpl in Hsa, Hsb. apply negb_true_iff in Hsa, Hsb.
        exists (VBool (veqb a' b')). split; [eapply E_equals; eauto | reflexivity].
        unfold py_eq. rewrite Hsa, Hsb. destruct a'; try reflexivity. discriminate.
      - simpl in Ht. destruct (opt_sub (ty_of ps maps a) TBool && opt_sub (ty_of ps maps b) TBool) eqn:E2; [|discriminate].
        inv Ht. apply andb_true_iff in E2. destruct E2 as [Ea Eb].
        destruct (Hdeep a TBool) as (a' & Ha & Hsa); [simpl; lia | assumption|].
        destruct (Hdeep b TBool) as (b' & Hb & Hsb); [simpl; lia | assumption|].
        destruct a'; try discriminate. destruct b'; try discriminate.
        eexists. split; [eapply E_equals; eauto; reflexivity | reflexivity]. }
    apply Hgen. rewrite is_fn_dict_single. unfold is_fn, MODEL_FUNCTIONS, mem_str. cbn [existsb].
    rewrite Ek, Ek0, Ek1, Ek2, Ek3, Ek4, Ek5, Ek6, Ek7, Ek8, Ek9, Ek10, Ek11, Ek12, Ek13, Ek14. reflexivity.
Qed.

Corollary wf_resolves e v : wf_maps (mappings e) = true -> (forall n, exists b, conds e n = Ok b) ->
  forall t, ty_of (params e) (mappings e) v = Some t -> exists r, resolve e v = Ok r /\ shape t r = true.
Proof.
  intros Hm Hc t Ht. destruct (ty_sound e (wf_maps_ok _ Hm) Hc (S (vsize v)) v t) as (r & Hr & Hs); [lia | assumption|].
  exists r. split; [apply eval_complete; assumption | assumption].
Qed.

(* ---- parameters ---- *)
Lemma py_str_ok_ok v : py_str_ok v = true -> exists s, py_str v = Ok s.
Proof. destruct v; simpl; try discriminate; eauto. destruct k; try discriminate; eauto. Qed.
Lemma wf_decl_ok d p : wf_decl d p = true -> exists o, ref_value d p = Ok o.
Proof.
  unfold wf_decl, ref_value. destruct (is_noecho d); [eauto|]. simpl.
  destruct (match p with Some p0 => Some p0 | None => field K_Default d end) as [v|]; [|destruct (is_list_type d); eauto].
  destruct (is_list_type d); simpl.
  - intros H. apply orb_true_iff in H. destruct H as [H|H].
    + destruct v; try discriminate. eauto.
    + destruct (py_str_ok_ok v H) as [s Es]. destruct v; try discriminate; simpl in *; try (inv Es; eauto; fail).
      rewrite Es. simpl. eauto.
  - intros H. destruct (py_str_ok_ok v H) as [s ->]. simpl. eauto.
Qed.
Lemma wf_decls_ok decls extra : wf_decls decls extra = true -> exists l, bind_declared decls extra = Ok l.
Proof.
  unfold wf_decls. induction decls as [|[k d] r IH]; simpl; [eauto|]. intros H. apply andb_true_iff in H. destruct H as [H1 H2].
  destruct (wf_decl_ok d _ H1) as [o ->]. destruct (IH H2) as [l ->]. simpl. eauto.
Qed.
Lemma wf_bind_params pseudo decls extra : wf_decls decls extra = true -> exists ps, bind_params pseudo decls extra = Ok ps.
Proof. intros H. unfold bind_params. destruct (wf_decls_ok decls extra H) as [l ->]. simpl. eauto. Qed.

(* ---- conditions: on-demand evaluation never fails and never runs out of fuel ---- *)
Lemma cond_val_total ps maps decl : wf_maps maps = true ->
  (forall n body, lookup n decl = Some body -> wf_cond ps maps body = true) ->
  forall fuel rem n, (length rem < fuel)%nat -> exists b, cond_val ps maps decl fuel rem n = Ok b.
Proof.
  intros Hm Hd. induction fuel as [|f IH]; intros rem n Hl; [lia|].
  simpl. destruct (mem_str n rem) eqn:Em; [|eauto]. destruct (lookup n decl) as [body|] eqn:L; [|eauto].
  pose proof (Hd n body L) as Hw. unfold wf_cond in Hw. apply opt_sub_inv in Hw. destruct Hw as (a & Ea & Hsub).
  set (e := {| params := ps; mappings := maps; conds := cond_val ps maps decl f (remove_str n rem) |}).
  destruct (wf_resolves e body Hm) with (t := a) as (r & Hr & Hs).
  - intros m. apply IH. pose proof (remove_length n rem Em). lia.
  - exact Ea.
  - rewrite Hr. simpl. destruct a; try discriminate. destruct r; try discriminate. simpl. eauto.
Qed.
Lemma cond_all_total ps maps decl names : wf_maps maps = true ->
  forallb (fun kb => wf_cond ps maps (snd kb)) decl = true -> exists l, cond_all ps maps decl names = Ok l.
Proof.
  intros Hm Hd. induction names as [|n r IH]; simpl; [eauto|].
  assert (Hb : exists b, cond_root ps maps decl n = Ok b).
  { unfold cond_root. apply cond_val_total; [assumption | | unfold keys; rewrite map_length; lia].
    intros m body L. exact (lookup_forallb (wf_cond ps maps) m decl body Hd L). }
  destruct Hb as [b ->]. destruct IH as [l ->]. simpl. eauto.
Qed.

(* ---- resources ---- *)
Lemma resolve_resources_total e resolved rs : wf_maps (mappings e) = true -> (forall n, exists b, conds e n = Ok b) ->
  forallb (fun ir => wf_resource (params e) (mappings e) (snd ir)) rs = true ->
  exists l, resolve_resources e resolved rs = Ok l.
Proof.
  intros Hm Hc. induction rs as [|[id r] rest IH]; [simpl; eauto|]. intros H. cbn [forallb snd] in H.
  apply andb_true_iff in H. destruct H as [H1 H2]. cbn [resolve_resources].
  destruct (IH H2) as [l El]. unfold wf_resource in H1. destruct r; try discriminate.
  apply andb_true_iff in H1. destruct H1 as [Hg Hw]. unfold wf_expr in Hw.
  destruct (ty_of (params e) (mappings e) (VDict d)) as [t|] eqn:Et; [|discriminate].
  destruct (wf_resolves e (VDict d) Hm Hc t Et) as (r' & Er & _).
  assert (Hk : exists keep, gate resolved (VDict d) = Ok keep).
  { unfold gate. destruct (lookup K_Condition d) as [c|]; [|eauto]. destruct c; try discriminate; eauto. }
  destruct Hk as [keep ->]. cbn [bind]. destruct keep; [|eauto]. unfold resolve_resource. rewrite Er. cbn [bind]. rewrite El. cbn [bind]. eauto.
Qed.

(* ---- C05: a valid template goes through resolve_model without any error ---- *)
Theorem valid_template_resolves pseudo decls extra maps cdecl rs :
  valid_template pseudo decls extra maps cdecl rs = true ->
  exists r, resolve_model pseudo decls extra maps cdecl rs = Ok r.
Proof.
  unfold valid_template, resolve_model. intros H. apply andb_true_iff in H. destruct H as [Hd H].
  destruct (bind_params pseudo decls extra) as [ps|]; [|discriminate]. simpl.
  apply andb_true_iff in H. destruct H as [H Hr]. apply andb_true_iff in H. destruct H as [Hm Hc].
  destruct (cond_all_total ps maps cdecl (keys cdecl) Hm Hc) as [resolved ->]. simpl.
  destruct (resolve_resources_total {| params := ps; mappings := maps; conds := conds_fun resolved |} resolved rs) as [l ->]; simpl; eauto.
  intros n. unfold conds_fun. eauto.
Qed.

(* the hypothesis about parameters alone already guarantees parameter binding *)
Theorem valid_template_binds pseudo decls extra maps cdecl rs :
  valid_template pseudo decls extra maps cdecl rs = true -> exists ps, bind_params pseudo decls extra = Ok ps.
Proof. unfold valid_template. intros H. apply andb_true_iff in H. destruct H as [Hd _]. apply wf_bind_params. assumption. Qed.
