(* ALGEBRAIC LAWS of the custom validators of Robust/Validators.v: each validator accepts, unchanged, what it
   produced (the per-validator form of the C15 round trip); the exact acceptance sets of semi_strict_bool, the
   effect validator and check_type; the collision / identity / colon-freedom laws of remove_colon; the base64
   laws of validate_binary; and, per validator, "every refusal is a ValueError".  Every law is for ALL inputs;
   what is false is refuted with a witness. *)
From Coq Require Import List Bool NArith ZArith Lia.
From PV Require Import Base.Str Base.Value Resolver.Consts Resolver.Resolve Resolver.Text Resolver.FnAlgebra
                       Robust.RConsts Robust.Validators Robust.ValidatorsFacts.
Import ListNotations.
Local Open Scope N_scope.

(* ===== 7. error kinds: a refusal is a ValueError, per validator ===== *)
Lemma clean_err {A} (r : res A) e : clean r -> r = Err e -> e = EValue.
Proof. intros H E. subst r. destruct e; simpl in H; try contradiction; reflexivity. Qed.
Lemma never_raises_no_err {A} (r : res A) e : never_raises r -> r <> Err e.
Proof. intros [a E] C. congruence. Qed.

Theorem validators_refuse_with_value_error :
  forall (strict : bool) (modelled : list str) (cast : value -> value) (loads : str -> option value) (float_ok : str -> bool)
         (v : value) (e : err),
    (check_type strict modelled v = Err e -> e = EValue) /\
    (validate_binary v = Err e -> e = EValue) /\
    (semi_strict_bool v = Err e -> e = EValue) /\
    (check_fn_dict v = Err e -> e = EValue) /\
    (generic_casting cast v = Err e -> e = EValue) /\
    (json_prepass loads v = Err e -> e = EValue) /\
    (not_from_numbers float_ok v = Err e -> e = EValue) /\
    (not_from_booleans v = Err e -> e = EValue) /\
    (effect_validator v = Err e -> e = EValue) /\
    remove_colon v <> Err e /\
    tag_coerce v <> Err e.
Proof.
  intros strict modelled cast loads float_ok v e.
  split; [apply clean_err, check_type_clean|]. split; [apply clean_err, validate_binary_clean|].
  split; [apply clean_err, semi_strict_bool_clean|]. split; [apply clean_err, check_fn_dict_clean|].
  split; [apply clean_err, generic_casting_clean|]. split; [apply clean_err, json_prepass_clean|].
  split; [apply clean_err, not_from_numbers_clean|]. split; [apply clean_err, not_from_booleans_clean|].
  split; [apply clean_err, effect_validator_clean|].
  split; [apply never_raises_no_err, remove_colon_total | apply never_raises_no_err, tag_coerce_total].
Qed.

(* ===== 3. semi_strict_bool: exactly the booleans and the (ASCII) case-insensitive texts true / false ===== *)
Theorem semi_strict_bool_exact v w :
  semi_strict_bool v = Ok w <->
  (exists b, v = VBool b /\ w = VBool b) \/
  (exists s, v = VStr s /\ ((lower s = S_true /\ w = VBool true) \/ (lower s = S_false /\ w = VBool false))).
Proof.
  split.
  - destruct v as [| b | z | s | k t | bs | l | d]; simpl; try discriminate.
    + intros H. inv H. left. eauto.
    + destruct (str_eqb (lower s) S_true) eqn:Et.
      * intros H. inv H. apply str_eqb_spec in Et. right. exists s. split; [reflexivity | left; split; [exact Et | reflexivity]].
      * destruct (str_eqb (lower s) S_false) eqn:Ef; [|discriminate].
        intros H. inv H. apply str_eqb_spec in Ef. right. exists s. split; [reflexivity | right; split; [exact Ef | reflexivity]].
  - intros [[b [Hv Hw]] | [s [Hv [[Hl Hw] | [Hl Hw]]]]]; subst v w; simpl.
    + reflexivity.
    + rewrite Hl. reflexivity.
    + rewrite Hl. reflexivity.
Qed.
Corollary semi_strict_bool_result v w : semi_strict_bool v = Ok w -> exists b, w = VBool b.
Proof.
  intros H. apply semi_strict_bool_exact in H. destruct H as [[b [_ Hw]] | [s [_ [[_ Hw] | [_ Hw]]]]]; eauto.
Qed.

(* ===== 4. effect validator: exactly the case-insensitive spellings of allow / deny, capitalised ===== *)
Definition S_allow_l : str := [97; 108; 108; 111; 119].
Definition S_deny_l : str := [100; 101; 110; 121].
Lemma upper_lower_A c : upper_cp c = 65 <-> lower_cp c = 97.
Proof.
  unfold upper_cp, lower_cp.
  destruct ((97 <=? c) && (c <=? 122)) eqn:E1; destruct ((65 <=? c) && (c <=? 90)) eqn:E2;
    rewrite ?andb_true_iff, ?andb_false_iff, ?N.leb_le, ?N.leb_gt in E1, E2; lia.
Qed.
Lemma upper_lower_D c : upper_cp c = 68 <-> lower_cp c = 100.
Proof.
  unfold upper_cp, lower_cp.
  destruct ((97 <=? c) && (c <=? 122)) eqn:E1; destruct ((65 <=? c) && (c <=? 90)) eqn:E2;
    rewrite ?andb_true_iff, ?andb_false_iff, ?N.leb_le, ?N.leb_gt in E1, E2; lia.
Qed.
Lemma capitalize_Allow s : capitalize s = S_Allow <-> lower s = S_allow_l.
Proof.
  destruct s as [|c r]; [split; discriminate|]. unfold capitalize, S_Allow, S_allow_l. cbn [lower map]. fold (lower r).
  split; intros H; injection H as Hc Hr; f_equal; try exact Hr; apply upper_lower_A; exact Hc.
Qed.
Lemma capitalize_Deny s : capitalize s = S_Deny <-> lower s = S_deny_l.
Proof.
  destruct s as [|c r]; [split; discriminate|]. unfold capitalize, S_Deny, S_deny_l. cbn [lower map]. fold (lower r).
  split; intros H; injection H as Hc Hr; f_equal; try exact Hr; apply upper_lower_D; exact Hc.
Qed.
Theorem effect_validator_exact s w :
  effect_validator (VStr s) = Ok w <->
  (lower s = S_allow_l /\ w = VStr S_Allow) \/ (lower s = S_deny_l /\ w = VStr S_Deny).
Proof.
  unfold effect_validator. cbv zeta. split.
  - destruct (str_eqb (capitalize s) S_Allow) eqn:EA.
    + cbn [orb]. intros H. inv H. apply str_eqb_spec in EA. left. split; [apply capitalize_Allow; exact EA | rewrite EA; reflexivity].
    + destruct (str_eqb (capitalize s) S_Deny) eqn:ED; cbn [orb]; [|discriminate].
      intros H. inv H. apply str_eqb_spec in ED. right. split; [apply capitalize_Deny; exact ED | rewrite ED; reflexivity].
  - intros [[Hl Hw] | [Hl Hw]]; subst w.
    + apply capitalize_Allow in Hl. rewrite Hl. reflexivity.
    + apply capitalize_Deny in Hl. rewrite Hl. reflexivity.
Qed.
(* anything that is not text (a FunctionDict at that position) is left alone *)
Lemma effect_validator_non_text v : (forall s, v <> VStr s) -> effect_validator v = Ok v.
Proof. intros H. destruct v; try reflexivity. exfalso. eapply H. reflexivity. Qed.

(* ===== 5. check_type ===== *)
Theorem check_type_exact strict modelled v e :
  check_type strict modelled v = Err e <->
  e = EValue /\ ((exists s, v = VStr s /\ mem_str s modelled = true /\ strict = true) \/
                 (v <> VNull /\ forall s, v <> VStr s)).
Proof.
  split.
  - intros H. split; [exact (clean_err _ _ (check_type_clean strict modelled v) H)|].
    destruct v as [| b | z | s | k t | bs | l | d]; simpl in H; try discriminate;
      try (right; split; [discriminate | intros s0; discriminate]).
    destruct (mem_str s modelled && strict) eqn:E; [|discriminate]. apply andb_true_iff in E. destruct E as [E1 E2].
    left. exists s. auto.
  - intros [He [[s [Hv [Hm Hs]]] | [Hn Hs]]]; subst e.
    + subst v. simpl. rewrite Hm, Hs. reflexivity.
    + destruct v; try reflexivity; [exfalso; apply Hn; reflexivity | exfalso; eapply Hs; reflexivity].
Qed.
Theorem check_type_unchanged strict modelled v w : check_type strict modelled v = Ok w -> w = v.
Proof.
  destruct v; simpl; try discriminate; [intros H; inv H; reflexivity|].
  destruct (mem_str s modelled && strict); [discriminate|]. intros H. inv H. reflexivity.
Qed.
Theorem check_type_lax_accepts modelled s : check_type false modelled (VStr s) = Ok (VStr s).
Proof. simpl. rewrite andb_false_r. reflexivity. Qed.

(* ===== 1. every validator accepts, unchanged, what it produced ===== *)
Lemma semi_strict_bool_idem v w : semi_strict_bool v = Ok w -> semi_strict_bool w = Ok w.
Proof. intros H. destruct (semi_strict_bool_result _ _ H) as [b Hb]. subst w. reflexivity. Qed.
Lemma validate_binary_result v w : validate_binary v = Ok w -> exists bs, w = VBytes bs.
Proof.
  destruct v; simpl; try discriminate; [|intros H; inv H; eauto].
  destruct (b64decode s); [|discriminate]. intros H. inv H. eauto.
Qed.
Lemma validate_binary_idem v w : validate_binary v = Ok w -> validate_binary w = Ok w.
Proof. intros H. destruct (validate_binary_result _ _ H) as [bs Hb]. subst w. reflexivity. Qed.
Lemma tag_coerce_idem v w : tag_coerce v = Ok w -> tag_coerce w = Ok w.
Proof. destruct v; simpl; intros H; inv H; reflexivity. Qed.
Lemma effect_validator_idem v w : effect_validator v = Ok w -> effect_validator w = Ok w.
Proof.
  destruct v as [| b | z | s | k t | bs | l | d]; try (intros H; inv H; reflexivity).
  intros H. apply effect_validator_exact in H. destruct H as [[_ Hw] | [_ Hw]]; subst w; reflexivity.
Qed.
(* the JSON pre-pass: unconditionally -- text stays the same text (F29), and a decoded non-text value is not decoded again
   (the pre-pass does not look inside: a decoded list containing JSON text keeps that text as text) *)
Lemma json_prepass_idem loads v w : json_prepass loads v = Ok w -> json_prepass loads w = Ok w.
Proof.
  intros H. destruct v as [| b | z | s | k t | bs | l | d].
  4: { unfold json_prepass in H. destruct (loads s) as [j|] eqn:L.
       - destruct j as [| b | z | s' | k t | bs | l | [|kv d]]; try discriminate; inv H; try reflexivity.
         unfold json_prepass. rewrite L. reflexivity.
       - inv H. unfold json_prepass. rewrite L. reflexivity. }
  all: try (inv H; reflexivity).
  destruct d as [|kv d]; [discriminate|]. inv H. reflexivity.
Qed.
Lemma generic_casting_idem cast v w : (forall x, cast (cast x) = cast x) ->
  generic_casting cast v = Ok w -> generic_casting cast w = Ok w.
Proof.
  intros Hc H. destruct v; simpl in H; try discriminate. inv H. simpl. rewrite map_map. f_equal. f_equal.
  apply map_ext. intros [k x]. simpl. rewrite Hc. reflexivity.
Qed.
(* without the hypothesis on [cast] it is false: a cast that wraps *)
Lemma generic_casting_idem_refuted : exists cast v w, generic_casting cast v = Ok w /\ generic_casting cast w <> Ok w.
Proof.
  exists (fun x => VList [x]), (VDict [([97], VNull)]), (VDict [([97], VList [VNull])]).
  split; [reflexivity | vm_compute; discriminate].
Qed.
(* the validators that only judge return their argument: idempotent trivially *)
Lemma judges_return_argument strict modelled float_ok v w :
  (check_type strict modelled v = Ok w -> w = v) /\ (check_fn_dict v = Ok w -> w = v) /\
  (not_from_numbers float_ok v = Ok w -> w = v) /\ (not_from_booleans v = Ok w -> w = v).
Proof.
  split; [apply check_type_unchanged|]. unfold check_fn_dict, not_from_numbers, not_from_booleans.
  split; [destruct (is_resolvable_dict v); [intros H; inv H; reflexivity | discriminate]|].
  split; [destruct (existsb (is_number float_ok) (items_of v)); [discriminate | intros H; inv H; reflexivity]|].
  destruct (existsb _ (items_of v)); [discriminate | intros H; inv H; reflexivity].
Qed.

(* ===== 2. remove_colon ===== *)
Definition rc_step (acc : list (str * value)) (kv : str * value) : list (str * value) :=
  dset (strip_colons (fst kv)) (snd kv) acc.
Definition rc_dict (d : list (str * value)) : list (str * value) := fold_left rc_step d [].
Lemma remove_colon_dict d : remove_colon (VDict d) = Ok (VDict (rc_dict d)).
Proof. reflexivity. Qed.
Lemma remove_colon_non_dict v : (forall d, v <> VDict d) -> remove_colon v = Ok v.
Proof. intros H. destruct v; try reflexivity. exfalso. eapply H. reflexivity. Qed.

Definition colon_free (k : str) : bool := forallb (fun c => negb (c =? 58)) k.
Lemma strip_colons_free k : colon_free (strip_colons k) = true.
Proof.
  induction k as [|c r IH]; [reflexivity|]. unfold strip_colons. cbn [filter]. fold (strip_colons r).
  destruct (negb (c =? 58)) eqn:E; [|exact IH]. unfold colon_free. cbn [forallb]. rewrite E. exact IH.
Qed.
Lemma strip_colons_id k : colon_free k = true -> strip_colons k = k.
Proof.
  induction k as [|c r IH]; [reflexivity|]. unfold colon_free. cbn [forallb]. intros H.
  apply andb_true_iff in H. destruct H as [H1 H2]. unfold strip_colons. cbn [filter]. rewrite H1. f_equal. apply IH. exact H2.
Qed.

Lemma lookup_dset_same k x d : lookup k (dset k x d) = Some x.
Proof.
  induction d as [|[k' y] r IH]; cbn [dset lookup]; [rewrite str_eqb_refl; reflexivity|].
  destruct (str_eqb k k') eqn:E; cbn [lookup]; rewrite E; [reflexivity | exact IH].
Qed.
Lemma lookup_dset_other k k' x d : k' <> k -> lookup k' (dset k x d) = lookup k' d.
Proof.
  intros N. induction d as [|[k2 y] r IH]; cbn [dset lookup].
  - apply str_eqb_neq in N. rewrite N. reflexivity.
  - destruct (str_eqb k k2) eqn:E; cbn [lookup].
    + apply str_eqb_spec in E. subst k2. apply str_eqb_neq in N. rewrite N. reflexivity.
    + rewrite IH. reflexivity.
Qed.
Lemma dset_keys k x d : keys (dset k x d) = if mem_str k (keys d) then keys d else keys d ++ [k].
Proof.
  induction d as [|[k' y] r IH]; [reflexivity|]. cbn [dset]. unfold keys, mem_str in *. cbn [map fst existsb].
  destruct (str_eqb k k') eqn:E; cbn [orb map fst]; [reflexivity|]. rewrite IH.
  destruct (existsb (str_eqb k) (map fst r)); reflexivity.
Qed.
Lemma NoDup_snoc {A} (l : list A) a : NoDup l -> ~ In a l -> NoDup (l ++ [a]).
Proof.
  induction l as [|b r IH]; intros ND NI; cbn [app]; [constructor; [intros []|constructor]|].
  inversion ND as [|b' r' Hb Hr]; subst. constructor.
  - intros C. apply in_app_or in C. destruct C as [C | [C | []]]; [exact (Hb C) | subst; apply NI; left; reflexivity].
  - apply IH; [exact Hr | intros C; apply NI; right; exact C].
Qed.
Lemma dset_nodup k x d : NoDup (keys d) -> NoDup (keys (dset k x d)).
Proof.
  intros ND. rewrite dset_keys. destruct (mem_str k (keys d)) eqn:E; [exact ND|].
  apply NoDup_snoc; [exact ND|]. intros C. apply mem_str_In in C. congruence.
Qed.
Definition keys_colon_free (d : list (str * value)) : bool := forallb colon_free (keys d).
Lemma dset_colon_free k x d : colon_free k = true -> keys_colon_free d = true -> keys_colon_free (dset k x d) = true.
Proof.
  intros Hk Hd. unfold keys_colon_free in *. rewrite dset_keys. destruct (mem_str k (keys d)); [exact Hd|].
  rewrite forallb_app, Hd. cbn [forallb]. rewrite Hk. reflexivity.
Qed.
Lemma rc_fold_inv d : forall acc, NoDup (keys acc) -> keys_colon_free acc = true ->
  NoDup (keys (fold_left rc_step d acc)) /\ keys_colon_free (fold_left rc_step d acc) = true.
Proof.
  induction d as [|kv r IH]; intros acc ND CF; cbn [fold_left]; [split; assumption|].
  apply IH; unfold rc_step; [apply dset_nodup; exact ND | apply dset_colon_free; [apply strip_colons_free | exact CF]].
Qed.
(* the result never has a key containing ':' and never has a key twice -- unconditionally *)
Theorem rc_dict_keys d : NoDup (keys (rc_dict d)) /\ keys_colon_free (rc_dict d) = true.
Proof. apply rc_fold_inv; [constructor | reflexivity]. Qed.

(* WHICH ENTRY WINS: the value under a key of the result is the value of the LAST entry of the input whose key, colons
   removed, is that key ... *)
Definition stripped (d : list (str * value)) : list (str * value) := map (fun kv => (strip_colons (fst kv), snd kv)) d.
Theorem rc_dict_lookup d k : lookup k (rc_dict d) = lookup k (rev (stripped d)).
Proof.
  unfold rc_dict. induction d as [|[k' x] r IH] using rev_ind; [reflexivity|].
  rewrite fold_left_app. cbn [fold_left]. unfold rc_step at 1. cbn [fst snd].
  unfold stripped. rewrite map_app, rev_app_distr. cbn [map rev app fst snd lookup].
  destruct (str_eqb k (strip_colons k')) eqn:E.
  - apply str_eqb_spec in E. subst k. apply lookup_dset_same.
  - apply str_eqb_neq in E. rewrite lookup_dset_other by exact E. exact IH.
Qed.
(* ... and its POSITION is that of the first: adding an entry whose stripped key is already there moves nothing *)
Theorem rc_dict_snoc d k x :
  rc_dict (d ++ [(k, x)]) = dset (strip_colons k) x (rc_dict d) /\
  keys (rc_dict (d ++ [(k, x)])) =
    (if mem_str (strip_colons k) (keys (rc_dict d)) then keys (rc_dict d) else keys (rc_dict d) ++ [strip_colons k]) /\
  lookup (strip_colons k) (rc_dict (d ++ [(k, x)])) = Some x /\
  (forall k', k' <> strip_colons k -> lookup k' (rc_dict (d ++ [(k, x)])) = lookup k' (rc_dict d)).
Proof.
  assert (E : rc_dict (d ++ [(k, x)]) = dset (strip_colons k) x (rc_dict d)).
  { unfold rc_dict. rewrite fold_left_app. reflexivity. }
  rewrite E. split; [reflexivity|]. split; [apply dset_keys|]. split; [apply lookup_dset_same|].
  intros k' N. apply lookup_dset_other. exact N.
Qed.

(* identity on an object whose keys are distinct (every JSON object once loaded) and contain no ':' *)
Lemma dset_fresh k x acc : ~ In k (keys acc) -> dset k x acc = acc ++ [(k, x)].
Proof.
  induction acc as [|[k' y] r IH]; intros H; cbn [dset app]; [reflexivity|].
  destruct (str_eqb k k') eqn:E.
  - apply str_eqb_spec in E. subst k'. exfalso. apply H. left. reflexivity.
  - f_equal. apply IH. intros C. apply H. right. exact C.
Qed.
Lemma rc_fold_id d : forall acc, NoDup (keys acc ++ keys d) -> keys_colon_free d = true -> fold_left rc_step d acc = acc ++ d.
Proof.
  induction d as [|[k x] r IH]; intros acc ND CF; cbn [fold_left]; [rewrite app_nil_r; reflexivity|].
  unfold keys_colon_free in CF. cbn [keys map fst forallb] in CF. apply andb_true_iff in CF. destruct CF as [C1 C2].
  cbn [keys map fst] in ND. fold (keys r) in ND.
  unfold rc_step at 2. cbn [fst snd]. rewrite (strip_colons_id k C1).
  rewrite dset_fresh.
  - rewrite IH.
    + rewrite <- app_assoc. reflexivity.
    + unfold keys. rewrite map_app. cbn [map fst]. rewrite <- app_assoc. exact ND.
    + exact C2.
  - intros C. apply NoDup_remove_2 in ND. apply ND. apply in_or_app. left. exact C.
Qed.
Theorem remove_colon_identity d : NoDup (keys d) -> keys_colon_free d = true -> remove_colon (VDict d) = Ok (VDict d).
Proof. intros ND CF. rewrite remove_colon_dict. unfold rc_dict. rewrite rc_fold_id; [reflexivity | exact ND | exact CF]. Qed.
(* hence idempotent on its own output, unconditionally *)
Theorem remove_colon_idem v w : remove_colon v = Ok w -> remove_colon w = Ok w.
Proof.
  destruct v as [| b | z | s | k t | bs | l | d]; try (intros H; inv H; reflexivity).
  rewrite remove_colon_dict. intros H. inv H. destruct (rc_dict_keys d) as [ND CF]. apply remove_colon_identity; assumption.
Qed.
(* with a repeated key in the (non-JSON) input the identity fails: the hypothesis NoDup is needed *)
Lemma remove_colon_identity_needs_distinct_keys :
  exists d, keys_colon_free d = true /\ remove_colon (VDict d) <> Ok (VDict d).
Proof. exists [([97], VNull); ([97], VBool true)]. split; [reflexivity | vm_compute; discriminate]. Qed.

(* ===== 6. validate_binary / base64 ===== *)
Theorem validate_binary_roundtrip bs : Forall (fun b => b < 256) bs ->
  validate_binary (VStr (b64encode bs)) = Ok (VBytes bs).
Proof. intros H. simpl. rewrite (b64_roundtrip bs H). reflexivity. Qed.

(* text made of alphabet characters only (no padding, nothing to discard) decodes exactly when its length is a multiple of 4 *)
Definition b64_plain (s : str) : bool := forallb (fun c => match b64_val c with Some _ => true | None => false end) s.
Lemma b64_val_not_pad c x : b64_val c = Some x -> (c =? 61) = false.
Proof. intros H. destruct (c =? 61) eqn:E; [|reflexivity]. apply N.eqb_eq in E. subst c. vm_compute in H. discriminate. Qed.
Lemma b64dec_go_plain s : forall qp pads left out, qp < 4 -> b64_plain s = true ->
  ((exists bs, b64dec_go s qp pads left out = Some bs) <-> exists n, qp + N.of_nat (length s) = 4 * n).
Proof.
  induction s as [|c r IH]; intros qp pads left out Hq Hp.
  - cbn [b64dec_go length]. destruct (qp =? 0) eqn:E.
    + apply N.eqb_eq in E. split; [intros _; exists 0; lia | intros _; eauto].
    + apply N.eqb_neq in E. split; [intros [bs H]; discriminate | intros [n H]; lia].
  - unfold b64_plain in Hp. cbn [forallb] in Hp. apply andb_true_iff in Hp. destruct Hp as [Hc Hr]. fold (b64_plain r) in Hr.
    destruct (b64_val c) as [x|] eqn:Ev; [|discriminate].
    cbn [b64dec_go]. rewrite (b64_val_not_pad c x Ev), Ev.
    replace (N.of_nat (length (c :: r))) with (N.of_nat (length r) + 1) by (cbn [length]; lia).
    destruct (qp =? 0) eqn:E0; [apply N.eqb_eq in E0; subst qp; rewrite IH by (try lia; exact Hr);
                                 split; intros [n H]; exists n; lia|].
    destruct (qp =? 1) eqn:E1; [apply N.eqb_eq in E1; subst qp; rewrite IH by (try lia; exact Hr);
                                 split; intros [n H]; exists n; lia|].
    destruct (qp =? 2) eqn:E2; [apply N.eqb_eq in E2; subst qp; rewrite IH by (try lia; exact Hr);
                                 split; intros [n H]; exists n; lia|].
    apply N.eqb_neq in E0, E1, E2. assert (qp = 3) by lia. subst qp. rewrite IH by (try lia; exact Hr).
    split; intros [n H]; [exists (n + 1) | exists (n - 1)]; lia.
Qed.
Theorem validate_binary_plain_iff s : b64_plain s = true ->
  ((exists bs, validate_binary (VStr s) = Ok (VBytes bs)) <-> exists n, N.of_nat (length s) = 4 * n).
Proof.
  intros Hp. assert (Ha : forallb (fun c => c <? 128) s = true).
  { unfold b64_plain in Hp. rewrite forallb_forall in Hp. apply forallb_forall. intros c Hc. specialize (Hp c Hc).
    unfold b64_val in Hp. apply N.ltb_lt.
    destruct ((65 <=? c) && (c <=? 90)) eqn:A1; [apply andb_true_iff in A1; rewrite !N.leb_le in A1; lia|].
    destruct ((97 <=? c) && (c <=? 122)) eqn:A2; [apply andb_true_iff in A2; rewrite !N.leb_le in A2; lia|].
    destruct ((48 <=? c) && (c <=? 57)) eqn:A3; [apply andb_true_iff in A3; rewrite !N.leb_le in A3; lia|].
    destruct (c =? 43) eqn:A4; [apply N.eqb_eq in A4; lia|].
    destruct (c =? 47) eqn:A5; [apply N.eqb_eq in A5; lia | discriminate]. }
  pose proof (b64dec_go_plain s 0 0 0 [] ltac:(lia) Hp) as G. cbn [N.add] in G. rewrite <- G.
  cbn [validate_binary]. unfold b64decode. rewrite Ha.
  destruct (b64dec_go s 0 0 0 []) as [bs|]; split; intros [bs' H]; try discriminate; eauto.
Qed.
(* in particular: length = 1 mod 4 is refused *)
Corollary validate_binary_plain_len1_refused s k : b64_plain s = true -> N.of_nat (length s) = 4 * k + 1 ->
  validate_binary (VStr s) = Err EValue.
Proof.
  intros Hp Hl. destruct (validate_binary (VStr s)) as [w|e] eqn:E.
  - exfalso. destruct (validate_binary_result _ _ E) as [bs Hw]. subst w.
    assert (X : exists bs, validate_binary (VStr s) = Ok (VBytes bs)) by eauto.
    apply (validate_binary_plain_iff s Hp) in X. destruct X as [n Hn]. lia.
  - f_equal. exact (clean_err _ _ (validate_binary_clean (VStr s)) E).
Qed.

(* what the decoder yields are bytes, so re-encoding and decoding again gives the same bytes: Binary accepts its own output
   also in its TEXT form (the dumped form of a Binary is the base64 text of its bytes) *)
Lemma b64_val_lt c x : b64_val c = Some x -> x < 64.
Proof.
  unfold b64_val.
  destruct ((65 <=? c) && (c <=? 90)) eqn:A1; [apply andb_true_iff in A1; rewrite !N.leb_le in A1; intros H; inv H; lia|].
  destruct ((97 <=? c) && (c <=? 122)) eqn:A2; [apply andb_true_iff in A2; rewrite !N.leb_le in A2; intros H; inv H; lia|].
  destruct ((48 <=? c) && (c <=? 57)) eqn:A3; [apply andb_true_iff in A3; rewrite !N.leb_le in A3; intros H; inv H; lia|].
  destruct (c =? 43) eqn:A4; [intros H; inv H; lia|].
  destruct (c =? 47) eqn:A5; [intros H; inv H; lia | discriminate].
Qed.
Definition b64_state_ok (qp left : N) : Prop :=
  qp = 0 \/ (qp = 1 /\ left < 64) \/ (qp = 2 /\ left < 16) \/ (qp = 3 /\ left < 4).
Lemma b64dec_go_bytes s : forall qp pads left out bs, b64_state_ok qp left ->
  Forall (fun b => b < 256) out -> b64dec_go s qp pads left out = Some bs -> Forall (fun b => b < 256) bs.
Proof.
  induction s as [|c r IH]; intros qp pads left out bs St Ho H; cbn [b64dec_go] in H.
  - destruct (qp =? 0); [|discriminate]. inv H. apply Forall_rev. exact Ho.
  - destruct (c =? 61).
    + destruct ((2 <=? qp) && (4 <=? qp + (pads + 1))).
      * inv H. apply Forall_rev. exact Ho.
      * eapply IH; [exact St | exact Ho | exact H].
    + destruct (b64_val c) as [x|] eqn:Ev; [|eapply IH; [exact St | exact Ho | exact H]].
      pose proof (b64_val_lt c x Ev) as Hx.
      destruct (qp =? 0) eqn:E0.
      { eapply IH; [|exact Ho | exact H]. right. left. split; [reflexivity | exact Hx]. }
      destruct (qp =? 1) eqn:E1.
      { apply N.eqb_eq in E1. subst qp. destruct St as [St | [[_ St] | [[St _] | [St _]]]]; try discriminate.
        eapply IH; [| |exact H].
        - right. right. left. split; [reflexivity | apply N.mod_lt; lia].
        - constructor; [|exact Ho]. assert (x / 16 < 4) by (apply N.div_lt_upper_bound; lia). lia. }
      destruct (qp =? 2) eqn:E2.
      { apply N.eqb_eq in E2. subst qp. destruct St as [St | [[St _] | [[_ St] | [St _]]]]; try discriminate.
        eapply IH; [| |exact H].
        - right. right. right. split; [reflexivity | apply N.mod_lt; lia].
        - constructor; [|exact Ho]. assert (x / 4 < 16) by (apply N.div_lt_upper_bound; lia). lia. }
      apply N.eqb_neq in E0, E1, E2.
      destruct St as [St | [[St _] | [[St _] | [St Hl]]]]; try (exfalso; lia).
      eapply IH; [| |exact H]; [left; reflexivity | constructor; [lia | exact Ho]].
Qed.
Theorem b64decode_bytes s bs : b64decode s = Some bs -> Forall (fun b => b < 256) bs.
Proof.
  unfold b64decode. destruct (forallb (fun c => c <? 128) s); [|discriminate].
  apply b64dec_go_bytes; [left; reflexivity | constructor].
Qed.
Theorem validate_binary_reencode v bs : (forall bs', v <> VBytes bs') ->
  validate_binary v = Ok (VBytes bs) -> validate_binary (VStr (b64encode bs)) = Ok (VBytes bs).
Proof.
  intros Hn H. destruct v; simpl in H; try discriminate; [|exfalso; eapply Hn; reflexivity].
  destruct (b64decode s) as [b|] eqn:E; [|discriminate]. inv H.
  apply validate_binary_roundtrip. eapply b64decode_bytes. exact E.
Qed.
