(* Every CUSTOM validator / hook that pycfmodel adds to pydantic, as a total function over ARBITRARY
   JSON values with explicit exception kinds, faithful to the code of the working tree (after the
   repairs F11 validate_binary and F13 check_type; the pre-repair versions live in Findings/F11F13.v).

   pydantic's contract for a custom validator is the combinator [pydantic_wrap]: a ValueError (or
   AssertionError) raised inside becomes a ValidationError; ANY OTHER exception propagates unchanged
   out of pycfmodel.parse.  "Malformed input is rejected cleanly" therefore needs every validator to
   answer Ok or Err EValue on every value whatsoever: theorem [validators_clean] in ValidatorsFacts.v.

   JSON object keys are always strings, so [value] (keys : str) represents every JSON value; a Python
   dict with a non-string key (for which StatementCondition.remove_colon would raise AttributeError from
   key.replace) cannot come out of json.load and is not representable here. *)
From Coq Require Import List Bool NArith ZArith Lia.
From PV Require Import Base.Str Base.Value Resolver.Consts Resolver.Resolve Robust.RConsts.
Import ListNotations.
Local Open Scope N_scope.

(* ---- pydantic: ValueError/AssertionError -> ValidationError, everything else propagates ---- *)
Definition pydantic_wrap {A} (r : res A) : res A :=
  match r with
  | Err EValue => Err EValidation
  | x => x
  end.

(* ---- GenericResource.check_type (field validator, mode=before) ----
   [modelled] = the Type literals of the classes in ResourceModels (read from the live source by the harness) *)
Definition check_type (strict : bool) (modelled : list str) (v : value) : res value :=
  match v with
  | VNull => Ok VNull                                   (* None is not in the set: passes, Optional[str] accepts it *)
  | VStr s => if mem_str s modelled && strict then Err EValue else Ok (VStr s)
  | _ => Err EValue                                     (* not a str: ValueError("Resource Type must be a string") *)
  end.

(* ---- base64.b64decode(str) as pycfmodel calls it (validate=False): str.encode('ascii') then
        binascii.a2b_base64 in non-strict mode (non-alphabet characters are discarded; a complete pad
        sequence ends the input).  None = binascii.Error / ValueError. ---- *)
Definition b64_val (c : N) : option N :=
  if (65 <=? c) && (c <=? 90) then Some (c - 65)
  else if (97 <=? c) && (c <=? 122) then Some (c - 71)
  else if (48 <=? c) && (c <=? 57) then Some (c + 4)
  else if c =? 43 then Some 62
  else if c =? 47 then Some 63
  else None.
Fixpoint b64dec_go (s : str) (qp pads left : N) (out : list N) : option (list N) :=
  match s with
  | [] => if qp =? 0 then Some (rev out) else None
  | c :: r =>
      if c =? 61 then
        if (2 <=? qp) && (4 <=? qp + (pads + 1)) then Some (rev out)
        else b64dec_go r qp (if 2 <=? qp then pads + 1 else pads) left out
      else
        match b64_val c with
        | None => b64dec_go r qp pads left out
        | Some x =>
            if qp =? 0 then b64dec_go r 1 0 x out
            else if qp =? 1 then b64dec_go r 2 0 (x mod 16) ((left * 4 + x / 16) :: out)
            else if qp =? 2 then b64dec_go r 3 0 (x mod 4) ((left * 16 + x / 4) :: out)
            else b64dec_go r 0 0 0 ((left * 64 + x) :: out)
        end
  end.
Definition b64decode (s : str) : option (list N) :=
  if forallb (fun c => c <? 128) s then b64dec_go s 0 0 0 [] else None.

(* ---- types.validate_binary (BeforeValidator of Binary) ---- *)
Definition validate_binary (v : value) : res value :=
  match v with
  | VBytes b => Ok (VBytes b)                           (* already decoded: returned as it is *)
  | VStr s => match b64decode s with Some b => Ok (VBytes b) | None => Err EValue end
  | _ => Err EValue                                     (* not text: ValueError("Binary value not valid") *)
  end.

(* ---- types.SemiStrictBool ---- *)
Definition semi_strict_bool (v : value) : res value :=
  match v with
  | VBool b => Ok (VBool b)
  | VStr s => if str_eqb (lower s) S_true then Ok (VBool true)
              else if str_eqb (lower s) S_false then Ok (VBool false) else Err EValue
  | _ => Err EValue
  end.

(* ---- base.FunctionDict.check_if_valid_function (model validator, mode=before) ---- *)
Definition is_resolvable_dict (v : value) : bool :=
  match v with VDict d => is_fn_dict d | _ => false end.
Definition check_fn_dict (v : value) : res value :=
  if is_resolvable_dict v then Ok v else Err EValue.

(* ---- generic.Generic.casting (model validator, mode=before); [cast] = _Auxiliar.cast, total ---- *)
Definition generic_casting (cast : value -> value) (v : value) : res value :=
  match v with
  | VDict d => Ok (VDict (map (fun kv => (fst kv, cast (snd kv))) d))
  | _ => Err EValue                                     (* ValueError("Not supported type") *)
  end.

(* ---- generic._Auxiliar.validate_string_property_formatted_as_json; [loads] = json.loads, None = it raised
        (the code catches Exception: nothing json.loads raises escapes).  Since 4808678 an empty object -- given
        directly or as JSON text -- is refused (ValueError), so that it is not taken for a StatementCondition.  Since 4e7f8be
        (fix F29) text that is a JSON STRING LITERAL is kept as written: what it encodes is text again, and decoding it peeled one
        layer of quotes at every re-validation of the dumped model ---- *)
Definition json_prepass (loads : str -> option value) (v : value) : res value :=
  let v' := match v with
            | VStr s => match loads s with
                        | Some (VStr _) => VStr s
                        | Some j => j
                        | None => VStr s
                        end
            | _ => v
            end in
  match v' with
  | VDict [] => Err EValue
  | _ => Ok v'
  end.

(* ---- generic._not_from_numbers / _not_from_booleans (BeforeValidators of the date / datetime / IP and of the
        integer branches of the generic union, 710f111 / 4718c23); [float_ok] = "float(text) does not raise" ---- *)
Definition items_of (v : value) : list value := match v with VList l => l | _ => [v] end.
Definition is_number (float_ok : str -> bool) (x : value) : bool :=
  match x with
  | VStr s => float_ok s
  | VInt _ | VBool _ | VTyped KFloat _ => true           (* bool is a subclass of int *)
  | _ => false
  end.
Definition not_from_numbers (float_ok : str -> bool) (v : value) : res value :=
  if existsb (is_number float_ok) (items_of v) then Err EValue else Ok v.
Definition not_from_booleans (v : value) : res value :=
  if existsb (fun x => match x with VBool _ => true | _ => false end) (items_of v) then Err EValue else Ok v.

(* ---- StatementCondition.remove_colon (model validator, mode=before): a dict comprehension, so two keys
        that become equal collapse (first position, last value) ---- *)
Definition strip_colons (k : str) : str := filter (fun c => negb (c =? 58)) k.
Fixpoint dset (k : str) (x : value) (d : list (str * value)) : list (str * value) :=
  match d with
  | [] => [(k, x)]
  | (k', y) :: r => if str_eqb k k' then (k', x) :: r else (k', y) :: dset k x r
  end.
Definition remove_colon (v : value) : res value :=
  match v with
  | VDict d => Ok (VDict (fold_left (fun acc kv => dset (strip_colons (fst kv)) (snd kv) acc) d []))
  | _ => Ok v
  end.

(* ---- Statement.allowed_values_for_effect_and_capitalized (field validator, mode=after) ---- *)
Definition capitalize (s : str) : str :=
  match s with [] => [] | c :: r => upper_cp c :: lower r end.
Definition effect_validator (v : value) : res value :=
  match v with
  | VStr s => let c := capitalize s in
              if str_eqb c S_Allow || str_eqb c S_Deny then Ok (VStr c) else Err EValue
  | _ => Ok v                                           (* a FunctionDict: left alone *)
  end.

(* ---- Tag.coerce_bools_to_strings (field validator, mode=before) ---- *)
Definition tag_coerce (v : value) : res value :=
  match v with
  | VBool b => Ok (VStr (if b then S_True else S_False))
  | _ => Ok v
  end.

(* ---- types._out_of_range_is_invalid (WrapValidator of SafeDate / SafeDatetime, the repair of finding F26):
        [std] = pydantic's own date / datetime parser, which answers Ok, ValidationError (Err EValidation) or -- for the
        text "0000-01-01" -- lets datetime's plain ValueError through (Err EValue).  Called from inside a validator
        function, that ValueError is wrapped like any other. ---- *)
Definition safe_date (std : value -> res value) (v : value) : res value := pydantic_wrap (std v).

(* =====================================================================================================
   Field-level compositions: the custom validator together with pydantic's own (standard) acceptance
   rule of the annotated type.  The standard part is pydantic's behaviour, restated here and TIED BY
   CORRESPONDENCE (harness/props/c19.py stream (a)); the custom part is the function above. *)
Definition is_vstr (v : value) : bool := match v with VStr _ => true | _ => false end.

(* Type: Optional[str] of GenericResource *)
Definition type_field (strict : bool) (modelled : list str) (v : value) : res value :=
  pydantic_wrap (check_type strict modelled v).

(* InstanceOrListOf[T] = Union[T, List[T]], left to right *)
Fixpoint all_items (item : value -> res value) (l : list value) : res (list value) :=
  match l with
  | [] => Ok []
  | x :: xs => x' <- item x ;; xs' <- all_items item xs ;; Ok (x' :: xs')
  end.
Definition instance_or_list (item : value -> res value) (v : value) : res value :=
  match item v with
  | Ok x => Ok x
  | Err EValidation =>
      match v with
      | VList l => l' <- all_items item l ;; Ok (VList l')
      | _ => Err EValidation
      end
  | Err e => Err e
  end.

(* Resolvable[T] = Union[T, FunctionDict], left to right *)
Definition resolvable (item : value -> res value) (v : value) : res value :=
  match item v with
  | Ok x => Ok x
  | Err EValidation => pydantic_wrap (check_fn_dict v)
  | Err e => Err e
  end.

(* pydantic's own str (lax mode, JSON input): only a string is a string *)
Definition std_str (v : value) : res value := if is_vstr v then Ok v else Err EValidation.

(* BinaryEquals: Dict[str, InstanceOrListOf[Binary]] -- one policy value *)
Definition binary_field (v : value) : res value :=
  instance_or_list (fun x => pydantic_wrap (validate_binary x)) v.
(* Bool: Dict[str, InstanceOrListOf[Resolvable[SemiStrictBool]]] -- one policy value *)
Definition bool_field (v : value) : res value :=
  instance_or_list (resolvable (fun x => pydantic_wrap (semi_strict_bool x))) v.
(* Statement.Effect: ResolvableStr, then the after-validator *)
Definition effect_field (v : value) : res value :=
  x <- resolvable std_str v ;; pydantic_wrap (effect_validator x).
(* Tag.Value: the before-validator, then ResolvableStr under coerce_numbers_to_str (ints and floats become text) *)
Definition std_str_coerce (v : value) : res value :=
  match v with
  | VStr _ => Ok v
  | VInt z => Ok (VStr (str_of_Z z))
  | VTyped KFloat t => Ok (VStr t)
  | _ => Err EValidation
  end.
Definition tag_value_field (v : value) : res value :=
  x <- pydantic_wrap (tag_coerce v) ;; resolvable std_str_coerce x.
(* a FunctionDict position *)
Definition fn_dict_field (v : value) : res value := pydantic_wrap (check_fn_dict v).
(* a Generic position *)
Definition generic_field (cast : value -> value) (v : value) : res value := pydantic_wrap (generic_casting cast v).

(* =====================================================================================================
   action_expander: the type dispatch of _expand_actions / _expand_action and the tree walk of
   expand_actions().  NOT a pydantic validator: its ValueError escapes CFModel.expand_actions() as it is.
   [exp not_action patterns] = the sorted expansion over the catalogue (C09's subject, abstract here). *)
Fixpoint all_strs (l : list value) : option (list str) :=
  match l with
  | [] => Some []
  | VStr s :: r => match all_strs r with Some r' => Some (s :: r') | None => None end
  | _ :: _ => None
  end.
Definition expand_acts (exp : bool -> list str -> list str) (not_action : bool) (v : value) : res value :=
  match v with
  | VStr s => Ok (VList (map VStr (exp not_action [s])))
  | VList l => match all_strs l with
               | Some ss => Ok (VList (map VStr (exp not_action ss)))
               | None => Err EValue                      (* _expand_action: "Not supported type" *)
               end
  | _ => Err EValue                                      (* _expand_actions: "Not supported type" *)
  end.

(* [guard] = true models the tree walk once the C10 repair ("under Action / NotAction expand only text or a list
   of text; walk into anything else") is present in the working tree; false is the walk without it (a non-textual
   Action value raises).  The harness asks the live code which of the two it is. *)
Definition action_value_ok (x : value) : bool :=
  match x with VStr _ => true | VList l => forallb is_vstr l | _ => false end.

Fixpoint expand_tree (guard : bool) (exp : bool -> list str -> list str) (v : value) {struct v} : res value :=
  match v with
  | VDict d =>
      d' <- (fix go (d : list (str * value)) : res (list (str * value)) :=
               match d with
               | [] => Ok []
               | (k, x) :: r =>
                   x' <- match x with
                         | VNull => Ok VNull
                         | _ => if (str_eqb k K_Action || str_eqb k K_NotAction) && negb (guard && negb (action_value_ok x))
                                then expand_acts exp (str_eqb k K_NotAction) x
                                else expand_tree guard exp x
                         end ;;
                   r' <- go r ;; Ok ((k, x') :: r')
               end) d ;;
      Ok (VDict d')
  | VList l =>
      l' <- (fix go (l : list value) : res (list value) :=
               match l with
               | [] => Ok []
               | x :: r => x' <- expand_tree guard exp x ;; r' <- go r ;; Ok (x' :: r')
               end) l ;;
      Ok (VList l')
  | _ => Ok v
  end.
