(* C05, cost: the tree walk of expand_actions() instrumented with a step counter.
   One step per node visited (a typed atom -- IP network, date, bytes -- is ONE node whatever its magnitude),
   K steps per action pattern (one sweep of the catalogue; K is the catalogue's cost, a constant of the library,
   not of the template).  The instrumented walk computes the same result as Validators.expand_tree and its step
   count is at most (K + 1) * vsize v: linear in the number of nodes, independent of the values' magnitudes.
   This is a statement about the MODELLED walk; real time and memory are measured by the sandbox (partial). *)
From Coq Require Import List Bool NArith ZArith Lia.
From PV Require Import Base.Str Base.Value Robust.RConsts Robust.Validators Robust.ValidatorsFacts.
Import ListNotations.

Definition acts_cost (K : nat) (x : value) : nat :=
  match x with
  | VStr _ => S K
  | VList l => S (length l * K)
  | _ => 1
  end.

Definition lift_dict (r : res (list (str * value))) : res value := match r with Ok d => Ok (VDict d) | Err e => Err e end.
Definition lift_list (r : res (list value)) : res value := match r with Ok l => Ok (VList l) | Err e => Err e end.

Fixpoint expand_tree_c (guard : bool) (exp : bool -> list str -> list str) (K : nat) (v : value) {struct v} : res value * nat :=
  match v with
  | VDict d =>
      let rc := (fix go (d : list (str * value)) : res (list (str * value)) * nat :=
                   match d with
                   | [] => (Ok [], 0)
                   | (k, x) :: rest =>
                       let rx := match x with
                                 | VNull => (Ok VNull, 1)
                                 | _ => if (str_eqb k K_Action || str_eqb k K_NotAction) && negb (guard && negb (action_value_ok x))
                                        then (expand_acts exp (str_eqb k K_NotAction) x, acts_cost K x)
                                        else expand_tree_c guard exp K x
                                 end in
                       match fst rx with
                       | Err e => (Err e, snd rx)                        (* the exception stops the walk *)
                       | Ok x' => let rr := go rest in
                                  (match fst rr with Ok r' => Ok ((k, x') :: r') | Err e => Err e end, snd rx + snd rr)
                       end
                   end) d in
      (lift_dict (fst rc), S (snd rc))
  | VList l =>
      let rc := (fix go (l : list value) : res (list value) * nat :=
                   match l with
                   | [] => (Ok [], 0)
                   | x :: rest =>
                       let rx := expand_tree_c guard exp K x in
                       match fst rx with
                       | Err e => (Err e, snd rx)
                       | Ok x' => let rr := go rest in
                                  (match fst rr with Ok r' => Ok (x' :: r') | Err e => Err e end, snd rx + snd rr)
                       end
                   end) l in
      (lift_list (fst rc), S (snd rc))
  | _ => (Ok v, 1)
  end.

(* named inner loops *)
Definition etc_entry guard exp K (k : str) (x : value) : res value * nat :=
  match x with
  | VNull => (Ok VNull, 1)
  | _ => if (str_eqb k K_Action || str_eqb k K_NotAction) && negb (guard && negb (action_value_ok x))
         then (expand_acts exp (str_eqb k K_NotAction) x, acts_cost K x)
         else expand_tree_c guard exp K x
  end.
Definition etc_dict guard exp K : list (str * value) -> res (list (str * value)) * nat :=
  fix go (d : list (str * value)) : res (list (str * value)) * nat :=
    match d with
    | [] => (Ok [], 0)
    | (k, x) :: rest =>
        let rx := etc_entry guard exp K k x in
        match fst rx with
        | Err e => (Err e, snd rx)
        | Ok x' => let rr := go rest in
                   (match fst rr with Ok r' => Ok ((k, x') :: r') | Err e => Err e end, snd rx + snd rr)
        end
    end.
Definition etc_list guard exp K : list value -> res (list value) * nat :=
  fix go (l : list value) : res (list value) * nat :=
    match l with
    | [] => (Ok [], 0)
    | x :: rest =>
        let rx := expand_tree_c guard exp K x in
        match fst rx with
        | Err e => (Err e, snd rx)
        | Ok x' => let rr := go rest in
                   (match fst rr with Ok r' => Ok (x' :: r') | Err e => Err e end, snd rx + snd rr)
        end
    end.
Lemma etc_unfold_dict guard exp K d : expand_tree_c guard exp K (VDict d) = (lift_dict (fst (etc_dict guard exp K d)), S (snd (etc_dict guard exp K d))).
Proof. reflexivity. Qed.
Lemma etc_unfold_list guard exp K l : expand_tree_c guard exp K (VList l) = (lift_list (fst (etc_list guard exp K l)), S (snd (etc_list guard exp K l))).
Proof. reflexivity. Qed.

Definition lsize (l : list value) : nat := fold_right (fun x acc => vsize x + acc) 0 l.
Definition dsize (d : list (str * value)) : nat := fold_right (fun kv acc => vsize (snd kv) + acc) 0 d.
Lemma vsize_list l : vsize (VList l) = S (lsize l). Proof. reflexivity. Qed.
Lemma vsize_dict d : vsize (VDict d) = S (dsize d). Proof. reflexivity. Qed.
Lemma lsize_length l : length l <= lsize l.
Proof. induction l as [|x xs IH]; simpl; [lia|]. pose proof (vsize_pos x). lia. Qed.

Lemma acts_cost_bound K x : acts_cost K x <= (K + 1) * vsize x.
Proof.
  destruct x; simpl; try lia. pose proof (lsize_length l). fold (lsize l). nia.
Qed.

Section Facts.
Variables (guard : bool) (exp : bool -> list str -> list str) (K : nat).

(* the instrumented walk computes what the plain walk computes *)
Lemma etc_list_fst l : Forall (fun v => fst (expand_tree_c guard exp K v) = expand_tree guard exp v) l ->
  fst (etc_list guard exp K l) = et_list guard exp l.
Proof.
  induction 1 as [|x xs Hx Hxs IH]; [reflexivity|]. simpl. fold (etc_list guard exp K). fold (et_list guard exp).
  rewrite <- Hx, <- IH. destruct (fst (expand_tree_c guard exp K x)); simpl; [|reflexivity].
  destruct (fst (etc_list guard exp K xs)); reflexivity.
Qed.
Lemma etc_entry_fst k x : fst (expand_tree_c guard exp K x) = expand_tree guard exp x -> fst (etc_entry guard exp K k x) = et_entry guard exp k x.
Proof.
  intros Hx. unfold etc_entry, et_entry.
  destruct ((str_eqb k K_Action || str_eqb k K_NotAction) && negb (guard && negb (action_value_ok x))); [destruct x; reflexivity|].
  destruct x; try reflexivity; exact Hx.
Qed.
Lemma etc_dict_fst d : Forall (fun kv => fst (expand_tree_c guard exp K (snd kv)) = expand_tree guard exp (snd kv)) d ->
  fst (etc_dict guard exp K d) = et_dict guard exp d.
Proof.
  induction 1 as [|[k x] xs Hx Hxs IH]; [reflexivity|]. simpl in Hx. cbn [etc_dict et_dict]. fold (etc_dict guard exp K). fold (et_dict guard exp).
  rewrite <- (etc_entry_fst k x Hx), <- IH. destruct (fst (etc_entry guard exp K k x)); simpl; [|reflexivity].
  destruct (fst (etc_dict guard exp K xs)); reflexivity.
Qed.
Theorem expand_tree_c_result v : fst (expand_tree_c guard exp K v) = expand_tree guard exp v.
Proof.
  induction v as [| | | | | | l IH | d IH] using value_ind'; try reflexivity.
  - rewrite etc_unfold_list, expand_tree_list. simpl. rewrite (etc_list_fst l IH). destruct (et_list guard exp l); reflexivity.
  - rewrite etc_unfold_dict, expand_tree_dict. simpl. rewrite (etc_dict_fst d IH). destruct (et_dict guard exp d); reflexivity.
Qed.

(* and takes at most (K + 1) steps per node *)
Lemma etc_list_steps l : Forall (fun v => snd (expand_tree_c guard exp K v) <= (K + 1) * vsize v) l ->
  snd (etc_list guard exp K l) <= (K + 1) * lsize l.
Proof.
  induction 1 as [|x xs Hx Hxs IH]; [simpl; lia|]. simpl. fold (etc_list guard exp K). fold (lsize xs).
  destruct (fst (expand_tree_c guard exp K x)); simpl; nia.
Qed.
Lemma etc_entry_steps k x : snd (expand_tree_c guard exp K x) <= (K + 1) * vsize x -> snd (etc_entry guard exp K k x) <= (K + 1) * vsize x.
Proof.
  intros Hx. unfold etc_entry.
  destruct ((str_eqb k K_Action || str_eqb k K_NotAction) && negb (guard && negb (action_value_ok x)));
    [destruct x; first [apply acts_cost_bound | simpl; lia]|].
  destruct x; exact Hx.
Qed.
Lemma etc_dict_steps d : Forall (fun kv => snd (expand_tree_c guard exp K (snd kv)) <= (K + 1) * vsize (snd kv)) d ->
  snd (etc_dict guard exp K d) <= (K + 1) * dsize d.
Proof.
  induction 1 as [|[k x] xs Hx Hxs IH]; [simpl; lia|]. simpl in Hx. cbn [etc_dict]. fold (etc_dict guard exp K).
  pose proof (etc_entry_steps k x Hx) as He. change (dsize ((k, x) :: xs)) with (vsize x + dsize xs).
  destruct (fst (etc_entry guard exp K k x)); simpl; nia.
Qed.
Theorem expand_tree_c_linear v : snd (expand_tree_c guard exp K v) <= (K + 1) * vsize v.
Proof.
  induction v as [| | | | | | l IH | d IH] using value_ind'; try (simpl; lia).
  - rewrite etc_unfold_list, vsize_list. simpl snd. pose proof (etc_list_steps l IH). nia.
  - rewrite etc_unfold_dict, vsize_dict. simpl snd. pose proof (etc_dict_steps d IH). nia.
Qed.
End Facts.

(* a typed atom costs one step whatever it denotes: a /4 network and a /32 network are the same to the walk *)
Theorem typed_atom_unit_cost guard exp K k text : snd (expand_tree_c guard exp K (VTyped k text)) = 1.
Proof. reflexivity. Qed.
