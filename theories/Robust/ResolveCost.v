(* C05, cost of the resolver: [resolve] (Resolver/Resolve.v, the model of pycfmodel/resolver.py) instrumented
   with a step counter, the proof that the instrumentation does not change the result, and bounds on the counter
   that mention SIZES only (nodes and characters of the expression, of the parameter values and of the mappings),
   never the magnitude of a number, the width of a CIDR block or the distance of a date.

   The counter is a [nat] carried next to the result: [cres A = res A * nat].  It is defined on error runs too
   (the steps made until the exception).

   COST RULES (each is repeated next to the Python line it stands for, below).
     R1  every [value] node that [resolve] is called on costs 1: None, str, bool, int / float / date / IP network
         (ONE step: `str(function)` -- the text of a network does not depend on how many addresses it holds),
         bytes, a list, an object.  A dict entry costs 1 more (the `for k, v in function.items()` iteration).
     R2  Ref / Fn::ImportValue: `resolve(params[resolved_ref], ...)` walks the parameter value: [vsize] of it.
     R3  Fn::FindInMap: `deepcopy(resolved_mapping)` walks the leaf: [vsize] of it.  The case-blind fallback of
         `_mapping_get` (a key "true" / "false" that is not in the mapping level as written: `for candidate, value in
         mapping.items(): candidate.lower() == key`) is a SCAN, not a dict lookup: 1 + the candidate's characters for
         every entry visited, until the first spelling found ([lookup_bk_cost]).
     R4  Fn::Sub: `SUB_PLACEHOLDER.sub(replace, text)` scans the text: [length text]; each `${name}` bound to a
         parameter costs [vsize] of the parameter value (`resolve(replacements[name], ...)`).
     R5  (charges that depend on an INTERMEDIATE result, multiplied by the weight [w], see below)
         Fn::Join: the length of the produced text; Fn::Split: the length of the consumed text; Fn::Base64: the
         length of the encoded text; Fn::Sub with a variable map: [vsize] of the (already resolved) custom value
         that a placeholder inserts.
     not charged beyond the node's 1: the f-strings `UNDEFINED_PARAM_...` / `UNDEFINED_MAPPING_...`, `int(...)` of
     Fn::Select, `==` of Fn::Equals, `_extended_bool`, `.lower()` / the SSM regex on a leaf (linear in that leaf's
     own text, which [tsize] counts; charging them changes constants only), the dict lookups.

   THE WEIGHT [w].  [resolve_c 1] is the full cost, [resolve_c 0] is the cost without the R5 charges ("walk
   cost": nodes visited, parameter / mapping nodes copied, template characters scanned).  What is proved:
     * [resolve_c_result]      for all w e v:  fst (resolve_c w e v) = resolve e v.
     * [resolve_c_bound_refs]  for all e v, if  w = 0  or  [light v] (no Fn::Join, Fn::Split, Fn::Base64, no
                               Fn::Sub with a variable map anywhere in v):
                                  snd (resolve_c w e v) <= tsize v + refs v * psize e
                               where [refs v] counts the Ref / Fn::ImportValue / Fn::FindInMap objects and the
                               ${name} placeholders of the Fn::Sub texts of v, and, since refs v <= tsize v,
       [resolve_c_bound]          snd (resolve_c w e v) <= tsize v * (1 + psize e).
       [tsize] counts nodes and characters (an integer: its digits; a network: the characters of its text), [psize]
       is [tsize] summed over the parameter values and the mappings.  No magnitude occurs in either.
       The bound is MULTIPLICATIVE because every Ref and every Fn::Sub placeholder may copy a whole parameter
       value: ten `{"Ref": "L"}` copy L ten times (example [cx_multiplicative]).
     * [resolve_resources_c_result], [resolve_resources_c_bound]: the same for the resources of a template (the sum).
     * NO polynomial bound of the full cost (w = 1) exists for all expressions, and none is claimed: the R5 charges
       are the sizes of intermediate TEXTS, and those grow geometrically with the nesting depth --
       `{"Fn::Join": [{"Fn::Join": [{"Ref": "S"}, {"Ref": "L"}]}, {"Ref": "L"}]}` more than doubles its text at each
       level: theorem [cx_join_blowup] (18 more characters of template per level, cost >= 2^depth);
       `{"Fn::Sub": ["${a}${a}", {"a": ...}]}` doubles it too (example [cx_sub_blowup_12]).  That growth is the
       function's specified OUTPUT size (CloudFormation itself produces that text); it is a function of sizes and
       nesting only -- no rule above looks at a magnitude -- but it is not polynomial.  What is missing for the full
       cost of non-light expressions is therefore an (exponential-in-nesting) bound on the sizes of intermediate
       results; it needs length lemmas for b64encode / utf8 / join / split / render_str and was not built.  Said
       here rather than faked. *)
From Coq Require Import List Bool NArith ZArith Lia.
From PV Require Import Base.Str Base.Value Resolver.Consts Resolver.Text Resolver.Resolve Resolver.Spec Resolver.Template.
Import ListNotations.
Local Open Scope nat_scope.

(* ---- results with a step counter ---- *)
Definition cres (A : Type) : Type := (res A * nat)%type.
Definition cbind {A B} (r : cres A) (f : A -> cres B) : cres B :=
  match r with
  | (Ok a, n) => (fst (f a), n + snd (f a))
  | (Err e, n) => (Err e, n)                 (* the exception stops the walk; the steps made so far stay *)
  end.
Notation "x <~ r ;; k" := (cbind r (fun x => k)) (at level 61, r at next level, right associativity).
Definition tick {A} (n : nat) (r : cres A) : cres A := (fst r, n + snd r).
Definition pure {A} (r : res A) : cres A := (r, 0).

(* ---- sizes: nodes AND characters ---- *)
Fixpoint tsize (v : value) : nat :=
  match v with
  | VNull | VBool _ => 1
  | VInt z => 1 + length (str_of_Z z)              (* the digits, not the magnitude *)
  | VStr s => 1 + length s
  | VTyped _ t => 1 + length t                     (* "10.0.0.0/8": 10 characters *)
  | VBytes b => 1 + length b
  | VList l => S (fold_right (fun x acc => tsize x + acc) 0 l)
  | VDict d => S (fold_right (fun kv acc => S (length (fst kv)) + tsize (snd kv) + acc) 0 d)
  end.
Definition dtsize (d : list (str * value)) : nat := fold_right (fun kv acc => tsize (snd kv) + acc) 0 d.
(* size of the environment: all parameter values and all mappings *)
Definition psize (e : env) : nat := dtsize (params e) + dtsize (mappings e).

(* ---- R2: resolve_ref ---- *)
Definition do_ref_cost (e : env) (b : value) : nat :=
  match b with
  | VStr s =>
      match lookup s (params e) with
      | Some x => vsize x          (* return resolve(params[resolved_ref], params, mappings, conditions) *)
      | None => 0                  (* return f"UNDEFINED_PARAM_{resolved_ref}" *)
      end
  | _ => 0
  end.
(* ---- R3: resolve_find_in_map ---- *)
(* `for candidate, value in mapping.items(): if isinstance(candidate, str) and candidate.lower() == key: return value` *)
Fixpoint ci_scan_cost {A} (k : str) (d : list (str * A)) : nat :=
  match d with
  | [] => 0
  | (k', _) :: d' => S (length k') + (if str_eqb (lower k') k then 0 else ci_scan_cost k d')
  end.
(* `if key in mapping: return mapping[key]` is a dict lookup (not charged); the scan runs only for "true" / "false" not found *)
Definition lookup_bk_cost {A} (k : str) (d : list (str * A)) : nat :=
  match lookup k d with
  | Some _ => 0
  | None => if is_bool_text k then ci_scan_cost k d else 0
  end.
Definition find_in_map_scan_cost (e : env) (m k1 k2 : value) : nat :=
  match m, k1, k2 with
  | VStr ms, VStr s1, VStr s2 =>
      match lookup ms (mappings e) with
      | Some (VDict top) =>
          lookup_bk_cost s1 top +
          match lookup_bk s1 top with Some (VDict snd_) => lookup_bk_cost s2 snd_ | _ => 0 end
      | _ => 0
      end
  | _, _, _ => 0
  end.
Definition do_find_in_map_cost (e : env) (m k1 k2 : value) : nat :=
  find_in_map_scan_cost e m k1 k2 +
  match do_find_in_map e m k1 k2 with
  | Ok leaf => vsize leaf          (* return deepcopy(resolved_mapping)   (1 for the UNDEFINED_MAPPING text) *)
  | Err _ => 0
  end.
(* ---- R5 ---- *)
Definition do_join_cost (d l : value) : nat :=
  match do_join d l with
  | Ok (VStr t) => length t        (* return resolved_delimiter.join(str(e) for e in resolved_list) *)
  | _ => 0
  end.
Definition do_split_cost (d s : value) : nat :=
  match s with
  | VStr ss => length ss           (* return resolved_source_string.split(resolved_delimiter) *)
  | _ => 0
  end.
Definition do_base64_cost (b : value) : nat :=
  match b with
  | VStr s => length s             (* b64encode(resolved_string.encode("utf-8")) *)
  | _ => 0
  end.

(* ---- R4 / R5: resolve_sub.replace, one placeholder ---- *)
Definition render_var_cost (w : nat) (e : env) (custom : list (str * value)) (name : str) : nat :=
  match lookup name custom with
  | Some x => w * vsize x          (* replacements.update(resolve(custom_replacements, ...)): an intermediate value *)
  | None =>
      match lookup name (params e) with
      | Some x => vsize x          (* return str(resolve(replacements[name], params, mappings, conditions)) *)
      | None => 0                  (* return match.group(0) *)
      end
  end.
Definition render_tok_c (w : nat) (e : env) (custom : list (str * value)) (t : stok) : cres str :=
  (render_tok e custom t, match t with TVar name => render_var_cost w e custom name | _ => 0 end).
Fixpoint render_toks_c (w : nat) (e : env) (custom : list (str * value)) (ts : list stok) : cres str :=
  match ts with
  | [] => pure (Ok [])
  | t :: r => a <~ render_tok_c w e custom t ;; b <~ render_toks_c w e custom r ;; pure (Ok (a ++ b))
  end.
Definition do_sub_c (w : nat) (e : env) (text : str) (custom : list (str * value)) : cres value :=
  (* return SUB_PLACEHOLDER.sub(replace, text): one left-to-right scan of the text *)
  tick (length text) (s <~ render_toks_c w e custom (sub_tokens text) ;; pure (Ok (VStr s))).

(* ---- the instrumented resolver: same shape as [resolve], line by line ---- *)
Fixpoint resolve_c (w : nat) (e : env) (v : value) {struct v} : cres value :=
  match v with
  | VList l =>
      (* for entry in function: resolved_value = resolve(entry, ...)            R1: 1 for the list *)
      tick 1 (
      l' <~ (fix go (l : list value) : cres (list value) :=
               match l with
               | [] => pure (Ok [])
               | x :: xs => x' <~ resolve_c w e x ;; xs' <~ go xs ;;
                            pure (Ok (if is_novalue x' then xs' else x' :: xs'))
               end) l ;;
      pure (Ok (VList l')))
  | VDict d =>
      let generic :=
        (* for k, v in function.items(): resolved_value = resolve(v, ...)       R1: 1 per entry *)
        d' <~ (fix go (d : list (str * value)) : cres (list (str * value)) :=
                 match d with
                 | [] => pure (Ok [])
                 | (k, x) :: xs => x' <~ tick 1 (resolve_c w e x) ;; xs' <~ go xs ;;
                                   pure (Ok (if is_novalue x' then xs' else (k, x') :: xs'))
                 end) d ;;
        pure (Ok (VDict d')) in
      (* R1: 1 for the object (is_resolvable_dict, FUNCTION_MAPPINGS[function_name]) *)
      tick 1 (
      match d with
      | [(k, body)] =>
          if str_eqb k K_Ref || str_eqb k K_ImportValue then
            (* resolve_ref: resolved_ref = resolve(function_body, ...)          R2 *)
            b <~ resolve_c w e body ;; (do_ref e b, do_ref_cost e b)
          else if str_eqb k K_Join then
            match body with
            | VList [dl; l] =>
                (* resolve_join                                                 R5: w * produced text *)
                d' <~ resolve_c w e dl ;; l' <~ resolve_c w e l ;; (do_join d' l', w * do_join_cost d' l')
            | VList _ => pure (Err EValue)
            | _ => pure (Err EUndefined)
            end
          else if str_eqb k K_Split then
            match body with
            | VList [dl; s] =>
                (* resolve_split                                                R5: w * consumed text *)
                d' <~ resolve_c w e dl ;; s' <~ resolve_c w e s ;; (do_split d' s', w * do_split_cost d' s')
            | VList _ => pure (Err EValue)
            | _ => pure (Err EUndefined)
            end
          else if str_eqb k K_Select then
            match body with
            | VList [i; l] =>
                (* resolve_select: int(...), resolved_list[resolved_index]      no charge *)
                i' <~ resolve_c w e i ;; l' <~ resolve_c w e l ;; pure (do_select i' l')
            | VList _ => pure (Err EValue)
            | _ => pure (Err EUndefined)
            end
          else if str_eqb k K_FindInMap then
            match body with
            | VList [m; k1; k2] =>
                (* resolve_find_in_map                                          R3 *)
                m' <~ resolve_c w e m ;; k1' <~ resolve_c w e k1 ;; k2' <~ resolve_c w e k2 ;;
                (do_find_in_map e m' k1' k2', do_find_in_map_cost e m' k1' k2')
            | VList _ => pure (Err EValue)
            | _ => pure (Err EUndefined)
            end
          else if str_eqb k K_Sub then
            match body with
            | VStr text => do_sub_c w e text []                              (* R4 *)
            | VList [VStr text; vars] =>
                (* replacements.update(resolve(custom_replacements, ...))       R4 + R5 *)
                cv <~ resolve_c w e vars ;;
                match cv with VDict custom => do_sub_c w e text custom | _ => pure (Err EUndefined) end
            | VList [_; _] => pure (Err EUndefined)
            | VList _ => pure (Err EValue)
            | _ => pure (Err EUndefined)
            end
          else if str_eqb k K_Base64 then
            (* resolve_base64                                                   R5: w * encoded text *)
            b <~ resolve_c w e body ;; (do_base64 b, w * do_base64_cost b)
          else if str_eqb k K_GetAtt then pure (Ok (VStr S_GETATT))          (* body not visited *)
          else if str_eqb k K_GetAZs then pure (Ok (VStr S_GETAZS))          (* body not visited *)
          else if str_eqb k K_Condition then
            match body with
            | VStr name => pure (b <- conds e name ;; Ok (VBool b))          (* conditions.get(function_body, False) *)
            | _ => pure (Err EUndefined)
            end
          else if str_eqb k K_If then
            match body with
            | VList [VStr c; t; f] =>
                (* resolve_if: only the chosen branch is visited *)
                b <~ pure (conds e c) ;; if b then resolve_c w e t else resolve_c w e f
            | VList [_; _; _] => pure (Err EUndefined)
            | VList _ => pure (Err EValue)
            | _ => pure (Err EUndefined)
            end
          else if str_eqb k K_And then
            match body with
            | VList parts =>
                (* all(_extended_bool(resolve(part, ...)) for part in function_body): stops at the first False *)
                b <~ (fix all_go (l : list value) : cres bool :=
                        match l with
                        | [] => pure (Ok true)
                        | x :: xs => r <~ resolve_c w e x ;; b <~ pure (ext_bool r) ;; if b then all_go xs else pure (Ok false)
                        end) parts ;;
                pure (Ok (VBool b))
            | _ => pure (Err EUndefined)
            end
          else if str_eqb k K_Or then
            match body with
            | VList parts =>
                b <~ (fix any_go (l : list value) : cres bool :=
                        match l with
                        | [] => pure (Ok false)
                        | x :: xs => r <~ resolve_c w e x ;; b <~ pure (ext_bool r) ;; if b then pure (Ok true) else any_go xs
                        end) parts ;;
                pure (Ok (VBool b))
            | _ => pure (Err EUndefined)
            end
          else if str_eqb k K_Not then
            match body with
            | VList (x :: _) => r <~ resolve_c w e x ;; pure (b <- ext_bool r ;; Ok (VBool (negb b)))
            | VList [] => pure (Err EIndex)
            | _ => pure (Err EUndefined)
            end
          else if str_eqb k K_Equals then
            match body with
            | VList [a; b] => a' <~ resolve_c w e a ;; b' <~ resolve_c w e b ;; pure (r <- py_eq a' b' ;; Ok (VBool r))
            | VList _ => pure (Err EValue)
            | _ => pure (Err EUndefined)
            end
          else generic
      | _ => generic
      end)
  (* R1: a leaf is one step, whatever it denotes *)
  | VNull => (Ok VNull, 1)                                   (* if function is None: return function *)
  | VBool b => (Ok (VStr (bool_text b)), 1)                  (* return "true" if function else "false" *)
  | VInt z => (Ok (VStr (str_of_Z z)), 1)                    (* return str(function) *)
  | VStr s => (Ok (VStr (render_str (params e) s)), 1)       (* SSM prefix match / function.lower() in [...] *)
  | VTyped _ t => (Ok (VStr t), 1)                           (* return str(function): date, IPv4Network, ... *)
  | VBytes b => (Ok (VStr (b64encode b)), 1)                 (* return str(b64encode(function), "utf-8") *)
  end.

(* ---- the inner loops, named ---- *)
Definition clist (w : nat) (e : env) : list value -> cres (list value) :=
  fix go (l : list value) : cres (list value) :=
    match l with
    | [] => pure (Ok [])
    | x :: xs => x' <~ resolve_c w e x ;; xs' <~ go xs ;; pure (Ok (if is_novalue x' then xs' else x' :: xs'))
    end.
Definition cdict (w : nat) (e : env) : list (str * value) -> cres (list (str * value)) :=
  fix go (d : list (str * value)) : cres (list (str * value)) :=
    match d with
    | [] => pure (Ok [])
    | (k, x) :: xs => x' <~ tick 1 (resolve_c w e x) ;; xs' <~ go xs ;;
                      pure (Ok (if is_novalue x' then xs' else (k, x') :: xs'))
    end.
Definition call (w : nat) (e : env) : list value -> cres bool :=
  fix all_go (l : list value) : cres bool :=
    match l with
    | [] => pure (Ok true)
    | x :: xs => r <~ resolve_c w e x ;; b <~ pure (ext_bool r) ;; if b then all_go xs else pure (Ok false)
    end.
Definition cany (w : nat) (e : env) : list value -> cres bool :=
  fix any_go (l : list value) : cres bool :=
    match l with
    | [] => pure (Ok false)
    | x :: xs => r <~ resolve_c w e x ;; b <~ pure (ext_bool r) ;; if b then pure (Ok true) else any_go xs
    end.

(* ---- unfolding equations ---- *)
Lemma rc_list w e l : resolve_c w e (VList l) = tick 1 (l' <~ clist w e l ;; pure (Ok (VList l'))).
Proof. reflexivity. Qed.
Lemma rc_dict_generic w e d : is_fn_dict d = false ->
  resolve_c w e (VDict d) = tick 1 (d' <~ cdict w e d ;; pure (Ok (VDict d'))).
Proof.
  intros H. destruct d as [|[k body] [|kv2 rest]]; try reflexivity.
  simpl in H. unfold is_fn, MODEL_FUNCTIONS, mem_str in H. cbn [existsb] in H.
  repeat (apply orb_false_elim in H; destruct H as [?H H]).
  cbn [resolve_c].
  repeat match goal with Hk : str_eqb k ?K = false |- _ => rewrite Hk; clear Hk end.
  reflexivity.
Qed.
Lemma rc_ref w e body : resolve_c w e (VDict [(K_Ref, body)]) = tick 1 (b <~ resolve_c w e body ;; (do_ref e b, do_ref_cost e b)).
Proof. reflexivity. Qed.
Lemma rc_import w e body : resolve_c w e (VDict [(K_ImportValue, body)]) = tick 1 (b <~ resolve_c w e body ;; (do_ref e b, do_ref_cost e b)).
Proof. reflexivity. Qed.
Lemma rc_join w e dl l : resolve_c w e (VDict [(K_Join, VList [dl; l])]) =
  tick 1 (d' <~ resolve_c w e dl ;; l' <~ resolve_c w e l ;; (do_join d' l', w * do_join_cost d' l')).
Proof. reflexivity. Qed.
Lemma rc_split w e dl s : resolve_c w e (VDict [(K_Split, VList [dl; s])]) =
  tick 1 (d' <~ resolve_c w e dl ;; s' <~ resolve_c w e s ;; (do_split d' s', w * do_split_cost d' s')).
Proof. reflexivity. Qed.
Lemma rc_select w e i l : resolve_c w e (VDict [(K_Select, VList [i; l])]) =
  tick 1 (i' <~ resolve_c w e i ;; l' <~ resolve_c w e l ;; pure (do_select i' l')).
Proof. reflexivity. Qed.
Lemma rc_find_in_map w e m k1 k2 : resolve_c w e (VDict [(K_FindInMap, VList [m; k1; k2])]) =
  tick 1 (m' <~ resolve_c w e m ;; k1' <~ resolve_c w e k1 ;; k2' <~ resolve_c w e k2 ;;
          (do_find_in_map e m' k1' k2', do_find_in_map_cost e m' k1' k2')).
Proof. reflexivity. Qed.
Lemma rc_sub_text w e text : resolve_c w e (VDict [(K_Sub, VStr text)]) = tick 1 (do_sub_c w e text []).
Proof. reflexivity. Qed.
Lemma rc_sub_vars w e text vars : resolve_c w e (VDict [(K_Sub, VList [VStr text; vars])]) =
  tick 1 (cv <~ resolve_c w e vars ;; match cv with VDict custom => do_sub_c w e text custom | _ => pure (Err EUndefined) end).
Proof. reflexivity. Qed.
Lemma rc_base64 w e body : resolve_c w e (VDict [(K_Base64, body)]) = tick 1 (b <~ resolve_c w e body ;; (do_base64 b, w * do_base64_cost b)).
Proof. reflexivity. Qed.
Lemma rc_getatt w e body : resolve_c w e (VDict [(K_GetAtt, body)]) = (Ok (VStr S_GETATT), 1).
Proof. reflexivity. Qed.
Lemma rc_getazs w e body : resolve_c w e (VDict [(K_GetAZs, body)]) = (Ok (VStr S_GETAZS), 1).
Proof. reflexivity. Qed.
Lemma rc_condition w e name : resolve_c w e (VDict [(K_Condition, VStr name)]) = (b <- conds e name ;; Ok (VBool b), 1).
Proof. reflexivity. Qed.
Lemma rc_if w e c t f : resolve_c w e (VDict [(K_If, VList [VStr c; t; f])]) =
  tick 1 (b <~ pure (conds e c) ;; if b then resolve_c w e t else resolve_c w e f).
Proof. reflexivity. Qed.
Lemma rc_and w e parts : resolve_c w e (VDict [(K_And, VList parts)]) = tick 1 (b <~ call w e parts ;; pure (Ok (VBool b))).
Proof. reflexivity. Qed.
Lemma rc_or w e parts : resolve_c w e (VDict [(K_Or, VList parts)]) = tick 1 (b <~ cany w e parts ;; pure (Ok (VBool b))).
Proof. reflexivity. Qed.
Lemma rc_not w e x rest : resolve_c w e (VDict [(K_Not, VList (x :: rest))]) =
  tick 1 (r <~ resolve_c w e x ;; pure (b <- ext_bool r ;; Ok (VBool (negb b)))).
Proof. reflexivity. Qed.
Lemma rc_equals w e a b : resolve_c w e (VDict [(K_Equals, VList [a; b])]) =
  tick 1 (a' <~ resolve_c w e a ;; b' <~ resolve_c w e b ;; pure (r <- py_eq a' b' ;; Ok (VBool r))).
Proof. reflexivity. Qed.

Lemma clist_cons w e x xs : clist w e (x :: xs) =
  (x' <~ resolve_c w e x ;; xs' <~ clist w e xs ;; pure (Ok (if is_novalue x' then xs' else x' :: xs'))).
Proof. reflexivity. Qed.
Lemma cdict_cons w e k x xs : cdict w e ((k, x) :: xs) =
  (x' <~ tick 1 (resolve_c w e x) ;; xs' <~ cdict w e xs ;; pure (Ok (if is_novalue x' then xs' else (k, x') :: xs'))).
Proof. reflexivity. Qed.
Lemma call_cons w e x xs : call w e (x :: xs) =
  (r <~ resolve_c w e x ;; b <~ pure (ext_bool r) ;; if b then call w e xs else pure (Ok false)).
Proof. reflexivity. Qed.
Lemma cany_cons w e x xs : cany w e (x :: xs) =
  (r <~ resolve_c w e x ;; b <~ pure (ext_bool r) ;; if b then pure (Ok true) else cany w e xs).
Proof. reflexivity. Qed.
Lemma rlist_cons e x xs : rlist e (x :: xs) = (x' <- resolve e x ;; xs' <- rlist e xs ;; Ok (if is_novalue x' then xs' else x' :: xs')).
Proof. reflexivity. Qed.
Lemma rdict_cons e k x xs : rdict e ((k, x) :: xs) = (x' <- resolve e x ;; xs' <- rdict e xs ;; Ok (if is_novalue x' then xs' else (k, x') :: xs')).
Proof. reflexivity. Qed.
Lemma rall_cons e x xs : rall e (x :: xs) = (r <- resolve e x ;; b <- ext_bool r ;; if b then rall e xs else Ok false).
Proof. reflexivity. Qed.
Lemma rany_cons e x xs : rany e (x :: xs) = (r <- resolve e x ;; b <- ext_bool r ;; if b then Ok true else rany e xs).
Proof. reflexivity. Qed.

(* ================= 1. the instrumentation does not change the result ================= *)
Lemma fst_cbind {A B} (r : cres A) (f : A -> cres B) : fst (cbind r f) = bind (fst r) (fun a => fst (f a)).
Proof. destruct r as [[a|err] n]; reflexivity. Qed.
Lemma fst_tick {A} n (r : cres A) : fst (tick n r) = fst r.
Proof. reflexivity. Qed.
Lemma fst_pure {A} (r : res A) : fst (pure r) = r.
Proof. reflexivity. Qed.
Lemma bind_ext {A B} (r : res A) (f g : A -> res B) : (forall a, f a = g a) -> bind r f = bind r g.
Proof. intros H. destruct r; simpl; [apply H | reflexivity]. Qed.

Lemma render_toks_c_fst w e custom ts : fst (render_toks_c w e custom ts) = render_toks e custom ts.
Proof.
  induction ts as [|t r IH]; [reflexivity|].
  cbn [render_toks_c render_toks]. rewrite fst_cbind. cbn [render_tok_c fst]. apply bind_ext. intros a.
  rewrite fst_cbind, IH. apply bind_ext. intros b. reflexivity.
Qed.
Lemma do_sub_c_fst w e text custom : fst (do_sub_c w e text custom) = do_sub e text custom.
Proof.
  unfold do_sub_c, do_sub. rewrite fst_tick, fst_cbind, render_toks_c_fst. apply bind_ext. intros s. reflexivity.
Qed.

Section ResultLists.
Variables (w : nat) (e : env).
Definition FstAt (v : value) : Prop := fst (resolve_c w e v) = resolve e v.
Lemma clist_fst l : Forall FstAt l -> fst (clist w e l) = rlist e l.
Proof.
  induction 1 as [|x xs Hx Hxs IH]; [reflexivity|].
  rewrite clist_cons, rlist_cons, fst_cbind, Hx. apply bind_ext. intros x'.
  rewrite fst_cbind, IH. apply bind_ext. intros xs'. reflexivity.
Qed.
Lemma cdict_fst d : Forall (fun kv => FstAt (snd kv)) d -> fst (cdict w e d) = rdict e d.
Proof.
  induction 1 as [|[k x] xs Hx Hxs IH]; [reflexivity|]. simpl in Hx.
  rewrite cdict_cons, rdict_cons, fst_cbind, fst_tick, Hx. apply bind_ext. intros x'.
  rewrite fst_cbind, IH. apply bind_ext. intros xs'. reflexivity.
Qed.
Lemma call_fst l : Forall FstAt l -> fst (call w e l) = rall e l.
Proof.
  induction 1 as [|x xs Hx Hxs IH]; [reflexivity|].
  rewrite call_cons, rall_cons, fst_cbind, Hx. apply bind_ext. intros r.
  rewrite fst_cbind, fst_pure. apply bind_ext. intros [|]; [exact IH | reflexivity].
Qed.
Lemma cany_fst l : Forall FstAt l -> fst (cany w e l) = rany e l.
Proof.
  induction 1 as [|x xs Hx Hxs IH]; [reflexivity|].
  rewrite cany_cons, rany_cons, fst_cbind, Hx. apply bind_ext. intros r.
  rewrite fst_cbind, fst_pure. apply bind_ext. intros [|]; [reflexivity | exact IH].
Qed.
End ResultLists.

Lemma not_fn_generic k : str_eqb k K_Ref = false -> str_eqb k K_ImportValue = false -> str_eqb k K_Join = false ->
  str_eqb k K_Split = false -> str_eqb k K_Select = false -> str_eqb k K_FindInMap = false -> str_eqb k K_Sub = false ->
  str_eqb k K_Base64 = false -> str_eqb k K_GetAtt = false -> str_eqb k K_GetAZs = false -> str_eqb k K_Condition = false ->
  str_eqb k K_If = false -> str_eqb k K_And = false -> str_eqb k K_Or = false -> str_eqb k K_Not = false ->
  str_eqb k K_Equals = false -> forall body, is_fn_dict [(k, body)] = false.
Proof.
  intros. rewrite is_fn_dict_single. unfold is_fn, MODEL_FUNCTIONS, mem_str. cbn [existsb].
  repeat match goal with Hk : str_eqb k _ = false |- _ => rewrite Hk; clear Hk end. reflexivity.
Qed.

Theorem resolve_c_result_n w e : forall n v, (vsize v < n)%nat -> fst (resolve_c w e v) = resolve e v.
Proof.
  induction n as [|n IH]; intros v Hs; [lia|].
  destruct v as [| b | z | s | k t | bs | l | d]; try reflexivity.
  - rewrite rc_list, resolve_list, fst_tick, fst_cbind. rewrite (clist_fst w e l); [apply bind_ext; intros; reflexivity|].
    apply Forall_forall. intros x Hx. apply IH. pose proof (vsize_in_list x l Hx). lia.
  - assert (Hsub : forall k x, In (k, x) d -> fst (resolve_c w e x) = resolve e x).
    { intros k x Hx. apply IH. pose proof (vsize_in_dict k x d Hx). lia. }
    assert (Hgen : is_fn_dict d = false -> fst (resolve_c w e (VDict d)) = resolve e (VDict d)).
    { intros Hf. rewrite rc_dict_generic, resolve_dict_generic by assumption. rewrite fst_tick, fst_cbind.
      rewrite (cdict_fst w e d); [apply bind_ext; intros; reflexivity|].
      apply Forall_forall. intros [k0 x0] Hin. simpl. eapply Hsub; eauto. }
    destruct d as [|[k body] [|kv2 rest]]; [apply Hgen; reflexivity | | apply Hgen; reflexivity].
    assert (Hbody : fst (resolve_c w e body) = resolve e body) by (eapply Hsub; left; reflexivity).
    assert (Hdeep : forall x, (vsize x < vsize body)%nat -> fst (resolve_c w e x) = resolve e x).
    { intros x Hx. apply IH. simpl in Hs. lia. }
    key_case k K_Ref. { rewrite rc_ref, resolve_ref, fst_tick, fst_cbind, Hbody. apply bind_ext. intros; reflexivity. }
    key_case k K_ImportValue. { rewrite rc_import, resolve_import, fst_tick, fst_cbind, Hbody. apply bind_ext. intros; reflexivity. }
    key_case k K_Join.
    { destruct body as [| | | | | | l |]; try reflexivity. destruct l as [|dl [|l [|? ?]]]; try reflexivity.
      rewrite rc_join, resolve_join, fst_tick, fst_cbind, (Hdeep dl) by (simpl; lia). apply bind_ext. intros d'.
      rewrite fst_cbind, (Hdeep l) by (simpl; lia). apply bind_ext. intros l'. reflexivity. }
    key_case k K_Split.
    { destruct body as [| | | | | | l |]; try reflexivity. destruct l as [|dl [|l [|? ?]]]; try reflexivity.
      rewrite rc_split, resolve_split, fst_tick, fst_cbind, (Hdeep dl) by (simpl; lia). apply bind_ext. intros d'.
      rewrite fst_cbind, (Hdeep l) by (simpl; lia). apply bind_ext. intros l'. reflexivity. }
    key_case k K_Select.
    { destruct body as [| | | | | | l |]; try reflexivity. destruct l as [|dl [|l [|? ?]]]; try reflexivity.
      rewrite rc_select, resolve_select, fst_tick, fst_cbind, (Hdeep dl) by (simpl; lia). apply bind_ext. intros d'.
      rewrite fst_cbind, (Hdeep l) by (simpl; lia). apply bind_ext. intros l'. reflexivity. }
    key_case k K_FindInMap.
    { destruct body as [| | | | | | l |]; try reflexivity. destruct l as [|m [|k1 [|k2 [|? ?]]]]; try reflexivity.
      rewrite rc_find_in_map, resolve_find_in_map, fst_tick, fst_cbind, (Hdeep m) by (simpl; lia). apply bind_ext. intros m'.
      rewrite fst_cbind, (Hdeep k1) by (simpl; lia). apply bind_ext. intros k1'.
      rewrite fst_cbind, (Hdeep k2) by (simpl; lia). apply bind_ext. intros k2'. reflexivity. }
    key_case k K_Sub.
    { destruct body as [| | | text | | | l |]; try reflexivity.
      - rewrite rc_sub_text, resolve_sub_text, fst_tick. apply do_sub_c_fst.
      - destruct l as [|t0 [|vars [|? ?]]]; try reflexivity; destruct t0 as [| | | text | | | |]; try reflexivity.
        rewrite rc_sub_vars, resolve_sub_vars, fst_tick, fst_cbind, (Hdeep vars) by (simpl; lia).
        apply bind_ext. intros cv. destruct cv; try reflexivity. apply do_sub_c_fst. }
    key_case k K_Base64. { rewrite rc_base64, resolve_base64, fst_tick, fst_cbind, Hbody. apply bind_ext. intros; reflexivity. }
    key_case k K_GetAtt. { reflexivity. }
    key_case k K_GetAZs. { reflexivity. }
    key_case k K_Condition. { destruct body as [| | | name | | | |]; reflexivity. }
    key_case k K_If.
    { destruct body as [| | | | | | l |]; try reflexivity.
      destruct l as [|c [|t [|f [|? ?]]]]; try reflexivity; try (destruct c; reflexivity).
      destruct c as [| | | c | | | |]; try reflexivity.
      rewrite rc_if, resolve_if, fst_tick, fst_cbind, fst_pure. apply bind_ext. intros [|]; apply Hdeep; simpl; lia. }
    key_case k K_And.
    { destruct body as [| | | | | | parts |]; try reflexivity. rewrite rc_and, resolve_and, fst_tick, fst_cbind.
      rewrite (call_fst w e parts); [apply bind_ext; intros; reflexivity|].
      apply Forall_forall. intros x Hx. apply Hdeep. apply vsize_in_list. assumption. }
    key_case k K_Or.
    { destruct body as [| | | | | | parts |]; try reflexivity. rewrite rc_or, resolve_or, fst_tick, fst_cbind.
      rewrite (cany_fst w e parts); [apply bind_ext; intros; reflexivity|].
      apply Forall_forall. intros x Hx. apply Hdeep. apply vsize_in_list. assumption. }
    key_case k K_Not.
    { destruct body as [| | | | | | l |]; try reflexivity. destruct l as [|x rest]; try reflexivity.
      rewrite rc_not, resolve_not, fst_tick, fst_cbind, (Hdeep x) by (simpl; lia). apply bind_ext. intros; reflexivity. }
    key_case k K_Equals.
    { destruct body as [| | | | | | l |]; try reflexivity. destruct l as [|a [|b [|? ?]]]; try reflexivity.
      rewrite rc_equals, resolve_equals, fst_tick, fst_cbind, (Hdeep a) by (simpl; lia). apply bind_ext. intros a'.
      rewrite fst_cbind, (Hdeep b) by (simpl; lia). apply bind_ext. intros b'. reflexivity. }
    apply Hgen. apply not_fn_generic; assumption.
Qed.
Theorem resolve_c_result w e v : fst (resolve_c w e v) = resolve e v.
Proof. apply (resolve_c_result_n w e (S (vsize v))). lia. Qed.

(* ================= 2. sizes ================= *)
Definition ltsize (l : list value) : nat := fold_right (fun x acc => tsize x + acc) 0 l.
Definition dksize (d : list (str * value)) : nat := fold_right (fun kv acc => S (length (fst kv)) + tsize (snd kv) + acc) 0 d.
Lemma tsize_list l : tsize (VList l) = S (ltsize l). Proof. reflexivity. Qed.
Lemma tsize_dict d : tsize (VDict d) = S (dksize d). Proof. reflexivity. Qed.
Lemma tsize_fn_ge k body : 2 + tsize body <= tsize (VDict [(k, body)]).
Proof. rewrite tsize_dict. unfold dksize. cbn [fold_right fst snd]. lia. Qed.
Lemma ltsize_in x l : In x l -> tsize x <= ltsize l.
Proof. induction l as [|y l IH]; simpl; [tauto|]. intros [->|H]; [lia|]. specialize (IH H). lia. Qed.

Lemma vsize_le_tsize v : vsize v <= tsize v.
Proof.
  induction v as [| | | | | | l IH | d IH] using value_ind'; try (simpl; lia).
  - rewrite tsize_list. cbn [vsize]. apply le_n_S. induction IH as [|x xs Hx Hxs IH']; simpl; [lia|]. fold (ltsize xs). lia.
  - rewrite tsize_dict. cbn [vsize]. apply le_n_S. induction IH as [|[k x] xs Hx Hxs IH']; simpl; [lia|]. simpl in Hx. fold (dksize xs). lia.
Qed.
Lemma lookup_dtsize k d x : lookup k d = Some x -> tsize x <= dtsize d.
Proof.
  induction d as [|[k' y] d IH]; simpl; [discriminate|].
  destruct (str_eqb k k'); [intros H; inv H; lia | intros H; specialize (IH H); lia].
Qed.
Lemma lookup_dksize k d x : lookup k d = Some x -> tsize x <= dksize d.
Proof.
  induction d as [|[k' y] d IH]; simpl; [discriminate|].
  destruct (str_eqb k k'); [intros H; inv H; lia | intros H; specialize (IH H); fold (dksize d); lia].
Qed.

Lemma do_ref_cost_le e b : do_ref_cost e b <= psize e.
Proof.
  unfold do_ref_cost, psize. destruct b; try lia. destruct (lookup s (params e)) as [x|] eqn:E; [|lia].
  pose proof (lookup_dtsize _ _ _ E). pose proof (vsize_le_tsize x). lia.
Qed.
(* the scan of a level costs at most its keys; whatever it finds sits in the level next to them *)
Definition kcost (d : list (str * value)) : nat := fold_right (fun kv acc => S (length (fst kv)) + acc) 0 d.
Lemma ci_scan_cost_le k d : ci_scan_cost k d <= kcost d.
Proof.
  induction d as [|[k' y] d IH]; simpl; [lia|]. fold (kcost d).
  destruct (str_eqb (lower k') k); lia.
Qed.
Lemma lookup_bk_cost_le k d : lookup_bk_cost k d <= kcost d.
Proof.
  unfold lookup_bk_cost. destruct (lookup k d); [lia|]. destruct (is_bool_text k); [apply ci_scan_cost_le | lia].
Qed.
Lemma kcost_le_dksize d : kcost d <= dksize d.
Proof. induction d as [|[k' y] d IH]; simpl; [lia|]. fold (kcost d). fold (dksize d). lia. Qed.
Lemma in_kcost_dksize k x d : In (k, x) d -> kcost d + tsize x <= dksize d.
Proof.
  induction d as [|[k' y] d IH]; simpl; [tauto|]. fold (kcost d). fold (dksize d).
  intros [H|H]; [inv H; pose proof (kcost_le_dksize d); lia | specialize (IH H); lia].
Qed.
Lemma lookup_bk_kcost_dksize k d x : lookup_bk k d = Some x -> kcost d + tsize x <= dksize d.
Proof. intros H. destruct (lookup_bk_In k d x H) as (k' & Hin & _). apply (in_kcost_dksize k' x d Hin). Qed.
Lemma do_find_in_map_cost_le e m k1 k2 : do_find_in_map_cost e m k1 k2 <= 1 + psize e.
Proof.
  unfold do_find_in_map_cost, find_in_map_scan_cost, do_find_in_map, psize. destruct m, k1, k2; try lia.
  destruct (lookup s (mappings e)) as [top|] eqn:E1; [|simpl; lia].
  pose proof (lookup_dtsize _ _ _ E1) as H1. destruct top as [| | | | | | | top]; try lia.
  rewrite tsize_dict in H1. pose proof (lookup_bk_cost_le s0 top) as C1. pose proof (kcost_le_dksize top) as K1.
  destruct (lookup_bk s0 top) as [sec|] eqn:E2; [|simpl; lia].
  pose proof (lookup_bk_kcost_dksize _ _ _ E2) as H2. destruct sec as [| | | | | | | sec]; try lia.
  rewrite tsize_dict in H2. pose proof (lookup_bk_cost_le s1 sec) as C2. pose proof (kcost_le_dksize sec) as K2.
  destruct (lookup_bk s1 sec) as [leaf|] eqn:E3; [|simpl; lia].
  pose proof (lookup_bk_kcost_dksize _ _ _ E3) as H3. pose proof (vsize_le_tsize leaf).
  destruct leaf; simpl in *; lia.
Qed.

(* ---- Fn::Sub: at most one token per character ---- *)
Lemma placeholder_at_length s t rest : placeholder_at s = Some (t, rest) -> length rest < length s.
Proof.
  intros H. destruct s as [|c0 [|c1 r]]; try discriminate. unfold placeholder_at in H.
  destruct ((c0 =? 36)%N && (c1 =? 123)%N); [|discriminate]. cbv zeta in H.
  match type of H with context [span is_name_char ?X] =>
    pose proof (span_length is_name_char X) as HL; assert (HX : length X <= length r);
      [|destruct (span is_name_char X) as [name r1]] end.
  { destruct r as [|c2 r']; [simpl; lia|]. destruct (c2 =? 33)%N; simpl; lia. }
  cbn [snd] in HL. destruct name as [|n0 name]; [discriminate|]. destruct r1 as [|c3 r2]; [discriminate|].
  destruct (c3 =? 125)%N; [|discriminate]. inv H. simpl in *. lia.
Qed.
Lemma sub_tokens_go_length f : forall s, length (sub_tokens_go f s) <= length s.
Proof.
  induction f as [|f IH]; intros s; [simpl; rewrite map_length; lia|].
  destruct s as [|c r]; [simpl; lia|]. cbn [sub_tokens_go].
  destruct (placeholder_at (c :: r)) as [[t rest]|] eqn:E.
  - pose proof (placeholder_at_length _ _ _ E). pose proof (IH rest). simpl in *. lia.
  - pose proof (IH r). simpl. lia.
Qed.
Lemma sub_tokens_length text : length (sub_tokens text) <= length text.
Proof. apply sub_tokens_go_length. Qed.

(* ================= 3. the bound ================= *)
(* the constructs whose charge (R5) is the size of an intermediate result *)
Definition is_text (v : value) : bool := match v with VStr _ => true | _ => false end.
Definition heavy_entry (d : list (str * value)) : bool :=
  match d with
  | [(k, body)] => str_eqb k K_Join || str_eqb k K_Split || str_eqb k K_Base64 || (str_eqb k K_Sub && negb (is_text body))
  | _ => false
  end.
(* [light v]: no Fn::Join, Fn::Split, Fn::Base64, Fn::Sub-with-variables object anywhere in v *)
Fixpoint light (v : value) : bool :=
  match v with
  | VList l => forallb light l
  | VDict d => negb (heavy_entry d) && forallb (fun kv => light (snd kv)) d
  | _ => true
  end.
(* the hypothesis of the bound: the walk cost of anything, or the full cost of a light expression *)
Definition okw (w : nat) (v : value) : Prop := w = 0 \/ light v = true.

Lemma okw_in_list w l x : okw w (VList l) -> In x l -> okw w x.
Proof.
  intros [H|H] Hx; [left; exact H | right]. cbn [light] in H. rewrite forallb_forall in H. apply H. exact Hx.
Qed.
Lemma okw_in_dict w d k x : okw w (VDict d) -> In (k, x) d -> okw w x.
Proof.
  intros [H|H] Hx; [left; exact H | right]. cbn [light] in H. apply andb_true_iff in H. destruct H as [_ H].
  rewrite forallb_forall in H. apply (H (k, x)). exact Hx.
Qed.
Lemma okw_heavy w d : heavy_entry d = true -> okw w (VDict d) -> w = 0.
Proof. intros Hh [H|H]; [exact H|]. cbn [light] in H. rewrite Hh in H. discriminate. Qed.

Lemma snd_tick {A} n (r : cres A) : snd (tick n r) = n + snd r.
Proof. reflexivity. Qed.
Lemma snd_cbind_le {A B} (r : cres A) (f : A -> cres B) m :
  (forall a, fst r = Ok a -> snd (f a) <= m) -> snd (cbind r f) <= snd r + m.
Proof. intros H. destruct r as [[a|err] n]; simpl; [specialize (H a eq_refl); lia | lia]. Qed.

(* ---- the places where a parameter value / mapping leaf may be copied: Ref, Fn::ImportValue, Fn::FindInMap
        objects and the ${name} placeholders of Fn::Sub texts ---- *)
Definition is_var (t : stok) : bool := match t with TVar _ => true | _ => false end.
Definition nvars (text : str) : nat := length (filter is_var (sub_tokens text)).
Definition fn_refs (d : list (str * value)) : nat :=
  match d with
  | [(k, body)] =>
      if str_eqb k K_Ref || str_eqb k K_ImportValue || str_eqb k K_FindInMap then 1
      else if str_eqb k K_Sub then
        match body with VStr text => nvars text | VList (VStr text :: _) => nvars text | _ => 0 end
      else 0
  | _ => 0
  end.
Fixpoint refs (v : value) : nat :=
  match v with
  | VList l => fold_right (fun x acc => refs x + acc) 0 l
  | VDict d => fn_refs d + fold_right (fun kv acc => refs (snd kv) + acc) 0 d
  | _ => 0
  end.
Definition lrefs (l : list value) : nat := fold_right (fun x acc => refs x + acc) 0 l.
Definition drefs (d : list (str * value)) : nat := fold_right (fun kv acc => refs (snd kv) + acc) 0 d.
Lemma refs_list l : refs (VList l) = lrefs l. Proof. reflexivity. Qed.
Lemma refs_dict d : refs (VDict d) = fn_refs d + drefs d. Proof. reflexivity. Qed.
Lemma refs_fn_ge k body : refs body <= refs (VDict [(k, body)]).
Proof. rewrite refs_dict. unfold drefs. cbn [fold_right snd]. lia. Qed.
Lemma refs_fn_ref body : refs (VDict [(K_Ref, body)]) = 1 + (refs body + 0). Proof. reflexivity. Qed.
Lemma refs_fn_import body : refs (VDict [(K_ImportValue, body)]) = 1 + (refs body + 0). Proof. reflexivity. Qed.
Lemma refs_fn_find_in_map body : refs (VDict [(K_FindInMap, body)]) = 1 + (refs body + 0). Proof. reflexivity. Qed.
Lemma refs_fn_sub_text text : refs (VDict [(K_Sub, VStr text)]) = nvars text + (0 + 0). Proof. reflexivity. Qed.
Lemma refs_fn_sub_vars text vars : refs (VDict [(K_Sub, VList [VStr text; vars])]) = nvars text + (0 + (refs vars + 0) + 0).
Proof. reflexivity. Qed.

Lemma filter_length {A} (f : A -> bool) l : length (filter f l) <= length l.
Proof. induction l as [|x l IH]; simpl; [lia|]. destruct (f x); simpl; lia. Qed.
Lemma nvars_le text : nvars text <= length text.
Proof. unfold nvars. pose proof (filter_length is_var (sub_tokens text)). pose proof (sub_tokens_length text). lia. Qed.

(* refs v <= tsize v (every counted place occupies at least one node or character of its own) *)
Definition slack (v : value) : nat :=
  match v with VStr s => length s | VList (VStr s :: _) => length s | _ => 0 end.
Lemma fn_refs_le k body : fn_refs [(k, body)] <= 1 + slack body.
Proof.
  unfold fn_refs. destruct (str_eqb k K_Ref || str_eqb k K_ImportValue || str_eqb k K_FindInMap); [lia|].
  destruct (str_eqb k K_Sub); [|lia].
  destruct body as [| | | text | | | l |]; try lia.
  - pose proof (nvars_le text). simpl. lia.
  - destruct l as [|x r]; [lia|]. destruct x; try lia. pose proof (nvars_le s). simpl. lia.
Qed.
Lemma refs_slack_le_tsize v : refs v + slack v <= tsize v.
Proof.
  induction v as [| | | | | | l IH | d IH] using value_ind'; try (simpl; lia).
  - assert (H : lrefs l <= ltsize l).
    { induction IH as [|x xs Hx Hxs IH']; simpl; [lia|]. fold (lrefs xs). fold (ltsize xs). lia. }
    rewrite refs_list, tsize_list. destruct l as [|x xs]; [simpl; lia|].
    inversion IH as [|? ? Hx Hxs]; subst.
    assert (H' : lrefs xs <= ltsize xs).
    { clear -Hxs. induction Hxs as [|y ys Hy Hys IH']; simpl; [lia|]. fold (lrefs ys). fold (ltsize ys). lia. }
    change (lrefs (x :: xs)) with (refs x + lrefs xs). change (ltsize (x :: xs)) with (tsize x + ltsize xs).
    destruct x; simpl in *; lia.
  - rewrite refs_dict, tsize_dict. cbn [slack].
    assert (H : drefs d <= dksize d).
    { induction IH as [|[k x] xs Hx Hxs IH']; simpl; [lia|]. simpl in Hx. fold (drefs xs). fold (dksize xs). lia. }
    destruct d as [|[k body] [|kv2 rest]]; [simpl; lia | | unfold fn_refs; lia].
    pose proof (fn_refs_le k body). inversion IH as [|? ? Hx Hxs]; subst. simpl in Hx.
    unfold drefs, dksize. cbn [fold_right fst snd]. lia.
Qed.
Lemma refs_le_tsize v : refs v <= tsize v.
Proof. pose proof (refs_slack_le_tsize v). lia. Qed.

Lemma render_var_cost_le w e custom name : w = 0 \/ custom = [] -> render_var_cost w e custom name <= psize e.
Proof.
  intros Hw. unfold render_var_cost.
  destruct (lookup name custom) as [x|] eqn:Ec.
  - destruct Hw as [-> | ->]; [lia | discriminate].
  - destruct (lookup name (params e)) as [x|] eqn:E; [|lia].
    pose proof (lookup_dtsize _ _ _ E). pose proof (vsize_le_tsize x). unfold psize. lia.
Qed.
Lemma render_toks_c_snd w e custom ts : w = 0 \/ custom = [] ->
  snd (render_toks_c w e custom ts) <= length (filter is_var ts) * psize e.
Proof.
  intros Hw. induction ts as [|t r IH]; [simpl; lia|]. cbn [render_toks_c].
  eapply Nat.le_trans; [apply snd_cbind_le with (m := length (filter is_var r) * psize e)|].
  - intros a _. eapply Nat.le_trans; [apply snd_cbind_le with (m := 0); intros; simpl; lia|]. lia.
  - cbn [render_tok_c snd filter]. destruct t; cbn [is_var length]; try lia.
    pose proof (render_var_cost_le w e custom name Hw). lia.
Qed.
Lemma do_sub_c_snd w e text custom : w = 0 \/ custom = [] ->
  snd (do_sub_c w e text custom) <= length text + nvars text * psize e.
Proof.
  intros Hw. unfold do_sub_c. rewrite snd_tick.
  assert (H : snd (s <~ render_toks_c w e custom (sub_tokens text) ;; pure (Ok (VStr s))) <= nvars text * psize e + 0).
  { eapply Nat.le_trans; [apply snd_cbind_le with (m := 0); intros; simpl; lia|].
    pose proof (render_toks_c_snd w e custom (sub_tokens text) Hw). unfold nvars. lia. }
  lia.
Qed.

Section BoundLists.
Variables (w : nat) (e : env).
Local Notation P := (psize e).
Definition SndAt (v : value) : Prop := snd (resolve_c w e v) <= tsize v + refs v * P.
Lemma clist_snd l : Forall SndAt l -> snd (clist w e l) <= ltsize l + lrefs l * P.
Proof.
  induction 1 as [|x xs Hx Hxs IH]; [simpl; lia|]. rewrite clist_cons. unfold SndAt in Hx.
  eapply Nat.le_trans; [apply snd_cbind_le with (m := ltsize xs + lrefs xs * P)|].
  - intros a _. eapply Nat.le_trans; [apply snd_cbind_le with (m := 0); intros; simpl; lia|]. lia.
  - change (ltsize (x :: xs)) with (tsize x + ltsize xs). change (lrefs (x :: xs)) with (refs x + lrefs xs). nia.
Qed.
Lemma cdict_snd d : Forall (fun kv => SndAt (snd kv)) d -> snd (cdict w e d) <= dksize d + drefs d * P.
Proof.
  induction 1 as [|[k x] xs Hx Hxs IH]; [simpl; lia|]. rewrite cdict_cons. unfold SndAt in Hx. cbn [snd] in Hx.
  eapply Nat.le_trans; [apply snd_cbind_le with (m := dksize xs + drefs xs * P)|].
  - intros a _. eapply Nat.le_trans; [apply snd_cbind_le with (m := 0); intros; simpl; lia|]. lia.
  - rewrite snd_tick. change (dksize ((k, x) :: xs)) with (S (length k) + tsize x + dksize xs).
    change (drefs ((k, x) :: xs)) with (refs x + drefs xs). nia.
Qed.
Lemma call_snd l : Forall SndAt l -> snd (call w e l) <= ltsize l + lrefs l * P.
Proof.
  induction 1 as [|x xs Hx Hxs IH]; [simpl; lia|]. rewrite call_cons. unfold SndAt in Hx.
  eapply Nat.le_trans; [apply snd_cbind_le with (m := ltsize xs + lrefs xs * P)|].
  - intros a _. eapply Nat.le_trans; [apply snd_cbind_le with (m := ltsize xs + lrefs xs * P)|simpl; lia].
    intros [|] _; [exact IH | simpl; lia].
  - change (ltsize (x :: xs)) with (tsize x + ltsize xs). change (lrefs (x :: xs)) with (refs x + lrefs xs). nia.
Qed.
Lemma cany_snd l : Forall SndAt l -> snd (cany w e l) <= ltsize l + lrefs l * P.
Proof.
  induction 1 as [|x xs Hx Hxs IH]; [simpl; lia|]. rewrite cany_cons. unfold SndAt in Hx.
  eapply Nat.le_trans; [apply snd_cbind_le with (m := ltsize xs + lrefs xs * P)|].
  - intros a _. eapply Nat.le_trans; [apply snd_cbind_le with (m := ltsize xs + lrefs xs * P)|simpl; lia].
    intros [|] _; [simpl; lia | exact IH].
  - change (ltsize (x :: xs)) with (tsize x + ltsize xs). change (lrefs (x :: xs)) with (refs x + lrefs xs). nia.
Qed.
End BoundLists.

Ltac crun := repeat match goal with
  | |- context [cbind (resolve_c ?w ?e ?x) _] =>
      let c := fresh "c" in let r := fresh "r" in
      destruct (resolve_c w e x) as [[r|?] c]; cbn [cbind fst snd tick pure]
  end.
Ltac aux := repeat match goal with
  | |- context [do_ref_cost ?e ?b] => pose proof (do_ref_cost_le e b); generalize dependent (do_ref_cost e b); intros
  | |- context [do_find_in_map_cost ?e ?a ?b ?c] =>
      pose proof (do_find_in_map_cost_le e a b c); generalize dependent (do_find_in_map_cost e a b c); intros
  end.
Ltac fin k body :=
  let HT := fresh "HT" in let HR := fresh "HR" in
  pose proof (tsize_fn_ge k body) as HT; pose proof (refs_fn_ge k body) as HR;
  set (T := tsize (VDict _)) in *; set (R := refs (VDict _)) in *;
  cbn [tsize refs fold_right] in *; aux; nia.
(* shapes on which the function raises at once: the object's own step only *)
Ltac triv :=
  match goal with |- snd ?X <= tsize (VDict [(?k, ?body)]) + _ =>
    let y := eval vm_compute in (snd X) in
    match y with 1 => change (snd X) with 1 end;
    let HT := fresh "HT" in pose proof (tsize_fn_ge k body) as HT; lia
  end.
Ltac trivl l := destruct l as [|? [|? ?]]; triv.
Ltac trivl3 l := destruct l as [|? [|? [|? ?]]]; triv.

Theorem resolve_c_bound_n w e : forall n v, (vsize v < n)%nat -> okw w v ->
  snd (resolve_c w e v) <= tsize v + refs v * psize e.
Proof.
  induction n as [|n IH]; intros v Hs Hok; [lia|].
  destruct v as [| b | z | s | k t | bs | l | d]; try (cbn [resolve_c snd tsize refs]; lia).
  - rewrite rc_list, snd_tick, tsize_list, refs_list.
    assert (HF : Forall (SndAt w e) l).
    { apply Forall_forall. intros x Hx. apply IH; [pose proof (vsize_in_list x l Hx); lia | eapply okw_in_list; eauto]. }
    pose proof (clist_snd w e l HF) as Hc. revert Hc.
    destruct (clist w e l) as [[l'|] c]; cbn [cbind fst snd pure]; intros; lia.
  - assert (Hsub : forall k x, In (k, x) d -> snd (resolve_c w e x) <= tsize x + refs x * psize e).
    { intros k x Hx. apply IH; [pose proof (vsize_in_dict k x d Hx); lia | eapply okw_in_dict; eauto]. }
    assert (Hgen : is_fn_dict d = false -> snd (resolve_c w e (VDict d)) <= tsize (VDict d) + refs (VDict d) * psize e).
    { intros Hf. rewrite rc_dict_generic, snd_tick, tsize_dict, refs_dict by assumption.
      assert (HF : Forall (fun kv => SndAt w e (snd kv)) d).
      { apply Forall_forall. intros [k0 x0] Hin. simpl. eapply Hsub; eauto. }
      pose proof (cdict_snd w e d HF) as Hc. revert Hc.
      destruct (cdict w e d) as [[d'|] c]; cbn [cbind fst snd pure]; intros; nia. }
    destruct d as [|[k body] [|kv2 rest]]; [apply Hgen; reflexivity | | apply Hgen; reflexivity].
    assert (Hokb : okw w body) by (eapply okw_in_dict; [exact Hok | left; reflexivity]).
    assert (Hbody : snd (resolve_c w e body) <= tsize body + refs body * psize e) by (eapply Hsub; left; reflexivity).
    assert (Hin : forall l x, body = VList l -> In x l -> snd (resolve_c w e x) <= tsize x + refs x * psize e).
    { intros l x -> Hx. apply IH; [pose proof (vsize_in_list x l Hx) as Hv; simpl in Hs, Hv; lia | eapply okw_in_list; eauto]. }
    key_case k K_Ref.
    { pose proof (refs_fn_ref body). rewrite rc_ref, snd_tick. revert Hbody. crun; intros; fin K_Ref body. }
    key_case k K_ImportValue.
    { pose proof (refs_fn_import body). rewrite rc_import, snd_tick. revert Hbody. crun; intros; fin K_ImportValue body. }
    key_case k K_Join.
    { assert (w = 0) by (eapply okw_heavy; [|exact Hok]; reflexivity). subst w.
      destruct body as [| | | | | | l |]; [triv|triv|triv|triv|triv|triv| |triv]. destruct l as [|dl [|l [|? ?]]]; [triv|triv| |triv].
      pose proof (Hin _ dl eq_refl (or_introl eq_refl)) as H1. pose proof (Hin _ l eq_refl (or_intror (or_introl eq_refl))) as H2.
      rewrite rc_join, snd_tick. revert H1 H2. crun; intros; fin K_Join (VList [dl; l]). }
    key_case k K_Split.
    { assert (w = 0) by (eapply okw_heavy; [|exact Hok]; reflexivity). subst w.
      destruct body as [| | | | | | l |]; [triv|triv|triv|triv|triv|triv| |triv]. destruct l as [|dl [|l [|? ?]]]; [triv|triv| |triv].
      pose proof (Hin _ dl eq_refl (or_introl eq_refl)) as H1. pose proof (Hin _ l eq_refl (or_intror (or_introl eq_refl))) as H2.
      rewrite rc_split, snd_tick. revert H1 H2. crun; intros; fin K_Split (VList [dl; l]). }
    key_case k K_Select.
    { destruct body as [| | | | | | l |]; [triv|triv|triv|triv|triv|triv| |triv]. destruct l as [|dl [|l [|? ?]]]; [triv|triv| |triv].
      pose proof (Hin _ dl eq_refl (or_introl eq_refl)) as H1. pose proof (Hin _ l eq_refl (or_intror (or_introl eq_refl))) as H2.
      rewrite rc_select, snd_tick. revert H1 H2. crun; intros; fin K_Select (VList [dl; l]). }
    key_case k K_FindInMap.
    { destruct body as [| | | | | | l |]; [triv|triv|triv|triv|triv|triv| |triv].
      destruct l as [|m [|k1 [|k2 [|? ?]]]]; [triv|triv|triv| |triv].
      pose proof (Hin _ m eq_refl (or_introl eq_refl)) as H1. pose proof (Hin _ k1 eq_refl (or_intror (or_introl eq_refl))) as H2.
      pose proof (Hin _ k2 eq_refl (or_intror (or_intror (or_introl eq_refl)))) as H3.
      pose proof (refs_fn_find_in_map (VList [m; k1; k2])).
      rewrite rc_find_in_map, snd_tick. revert H1 H2 H3. crun; intros; fin K_FindInMap (VList [m; k1; k2]). }
    key_case k K_Sub.
    { destruct body as [| | | text | | | l |]; [triv|triv|triv| |triv|triv| |triv].
      - rewrite rc_sub_text, snd_tick. pose proof (do_sub_c_snd w e text [] (or_intror eq_refl)).
        pose proof (refs_fn_sub_text text). fin K_Sub (VStr text).
      - assert (w = 0) by (eapply okw_heavy; [|exact Hok]; reflexivity). subst w.
        destruct l as [|t0 l]; [triv|].
        destruct t0 as [| | | text | | | |];
          [trivl l|trivl l|trivl l| |trivl l|trivl l|trivl l|trivl l].
        destruct l as [|vars [|? ?]]; [triv| |triv].
        pose proof (Hin _ vars eq_refl (or_intror (or_introl eq_refl))) as H2.
        pose proof (refs_fn_sub_vars text vars).
        rewrite rc_sub_vars, snd_tick. revert H2. crun; intros; [|fin K_Sub (VList [VStr text; vars])].
        destruct r as [| | | | | | | custom]; cbn [pure snd]; try fin K_Sub (VList [VStr text; vars]).
        pose proof (do_sub_c_snd 0 e text custom (or_introl eq_refl)). fin K_Sub (VList [VStr text; vars]). }
    key_case k K_Base64.
    { assert (w = 0) by (eapply okw_heavy; [|exact Hok]; reflexivity). subst w.
      rewrite rc_base64, snd_tick. revert Hbody. crun; intros; fin K_Base64 body. }
    key_case k K_GetAtt. { rewrite rc_getatt. cbn [snd]. fin K_GetAtt body. }
    key_case k K_GetAZs. { rewrite rc_getazs. cbn [snd]. fin K_GetAZs body. }
    key_case k K_Condition.
    { destruct body as [| | | name | | | |]; [triv|triv|triv| |triv|triv|triv|triv].
      rewrite rc_condition. cbn [snd]. fin K_Condition (VStr name). }
    key_case k K_If.
    { destruct body as [| | | | | | l |]; [triv|triv|triv|triv|triv|triv| |triv].
      destruct l as [|c l]; [triv|].
      destruct c as [| | | c | | | |];
        [trivl3 l|trivl3 l|trivl3 l| |trivl3 l|trivl3 l|trivl3 l|trivl3 l].
      destruct l as [|t [|f [|? ?]]]; [triv|triv| |triv].
      pose proof (Hin _ t eq_refl (or_intror (or_introl eq_refl))) as H2.
      pose proof (Hin _ f eq_refl (or_intror (or_intror (or_introl eq_refl)))) as H3.
      rewrite rc_if, snd_tick. destruct (conds e c) as [[|]|]; cbn [cbind pure fst snd]; fin K_If (VList [VStr c; t; f]). }
    key_case k K_And.
    { destruct body as [| | | | | | parts |]; [triv|triv|triv|triv|triv|triv| |triv].
      assert (HF : Forall (SndAt w e) parts) by (apply Forall_forall; intros x Hx; eapply Hin; eauto).
      pose proof (call_snd w e parts HF) as Hc. rewrite rc_and, snd_tick. revert Hc.
      destruct (call w e parts) as [[b|] c]; cbn [cbind fst snd pure]; intros;
        pose proof (tsize_fn_ge K_And (VList parts)) as HT; pose proof (refs_fn_ge K_And (VList parts)) as HR;
        rewrite tsize_list in HT; rewrite refs_list in HR; nia. }
    key_case k K_Or.
    { destruct body as [| | | | | | parts |]; [triv|triv|triv|triv|triv|triv| |triv].
      assert (HF : Forall (SndAt w e) parts) by (apply Forall_forall; intros x Hx; eapply Hin; eauto).
      pose proof (cany_snd w e parts HF) as Hc. rewrite rc_or, snd_tick. revert Hc.
      destruct (cany w e parts) as [[b|] c]; cbn [cbind fst snd pure]; intros;
        pose proof (tsize_fn_ge K_Or (VList parts)) as HT; pose proof (refs_fn_ge K_Or (VList parts)) as HR;
        rewrite tsize_list in HT; rewrite refs_list in HR; nia. }
    key_case k K_Not.
    { destruct body as [| | | | | | l |]; [triv|triv|triv|triv|triv|triv| |triv]. destruct l as [|x rest]; [triv|].
      pose proof (Hin _ x eq_refl (or_introl eq_refl)) as H1.
      rewrite rc_not, snd_tick. revert H1. crun; intros; fin K_Not (VList (x :: rest)). }
    key_case k K_Equals.
    { destruct body as [| | | | | | l |]; [triv|triv|triv|triv|triv|triv| |triv]. destruct l as [|a [|b [|? ?]]]; [triv|triv| |triv].
      pose proof (Hin _ a eq_refl (or_introl eq_refl)) as H1. pose proof (Hin _ b eq_refl (or_intror (or_introl eq_refl))) as H2.
      rewrite rc_equals, snd_tick. revert H1 H2. crun; intros; fin K_Equals (VList [a; b]). }
    apply Hgen. apply not_fn_generic; assumption.
Qed.

(* THE BOUND.  [w = 0]: the walk cost of every expression.  Any w (in particular the full cost, w = 1): light
   expressions.  Additive in the size of the expression, and [psize e] once per place that can copy a parameter
   value or a mapping leaf ([refs v]: Ref / Fn::ImportValue / Fn::FindInMap objects and Fn::Sub placeholders). *)
Theorem resolve_c_bound_refs w e v : w = 0 \/ light v = true -> snd (resolve_c w e v) <= tsize v + refs v * psize e.
Proof. intros H. apply (resolve_c_bound_n w e (S (vsize v))); [lia | exact H]. Qed.
(* the same, in terms of the two sizes only *)
Theorem resolve_c_bound w e v : w = 0 \/ light v = true -> snd (resolve_c w e v) <= tsize v * (1 + psize e).
Proof. intros H. pose proof (resolve_c_bound_refs w e v H). pose proof (refs_le_tsize v). nia. Qed.
Corollary resolve_c_walk_bound e v : snd (resolve_c 0 e v) <= tsize v * (1 + psize e).
Proof. apply resolve_c_bound. left. reflexivity. Qed.
Corollary resolve_c_light_bound e v : light v = true -> snd (resolve_c 1 e v) <= tsize v * (1 + psize e).
Proof. intros H. apply resolve_c_bound. right. exact H. Qed.
(* a leaf is one step whatever it denotes *)
Lemma resolve_c_typed_unit w e k text : snd (resolve_c w e (VTyped k text)) = 1.
Proof. reflexivity. Qed.
Lemma resolve_c_int_unit w e z : snd (resolve_c w e (VInt z)) = 1.
Proof. reflexivity. Qed.

(* ================= 4. the template driver: CFModel.resolve over the resources =================
   [resolve_resources] (Resolver/Template.v): one gate test per resource (1 step: a dict lookup), then [resolve]
   of the resource; putting the literal Type back ([keep_type]) is not charged.
   NOT costed: the condition table ([cond_all]).  Its specification [cond_val] re-evaluates a referenced condition at
   every reference (exponential on diamond-shaped reference graphs); the library memoises (Resolver/Memo.v), and a cost
   model of that memoising evaluator was not built. *)
Definition resolve_resource_c (w : nat) (e : env) (r : value) : cres value :=
  r' <~ resolve_c w e r ;; pure (Ok (keep_type r r')).
Fixpoint resolve_resources_c (w : nat) (e : env) (resolved : list (str * bool)) (rs : list (str * value)) : cres (list (str * value)) :=
  match rs with
  | [] => pure (Ok [])
  | (id, r) :: rest =>
      keep <~ (gate resolved r, 1) ;;
      if keep then r' <~ resolve_resource_c w e r ;; rest' <~ resolve_resources_c w e resolved rest ;; pure (Ok ((id, r') :: rest'))
      else resolve_resources_c w e resolved rest
  end.

Theorem resolve_resources_c_result w e resolved rs :
  fst (resolve_resources_c w e resolved rs) = resolve_resources e resolved rs.
Proof.
  induction rs as [|[id r] rest IH]; [reflexivity|].
  cbn [resolve_resources_c resolve_resources]. rewrite fst_cbind. cbn [fst]. apply bind_ext. intros [|]; [|exact IH].
  rewrite fst_cbind. unfold resolve_resource_c, resolve_resource. rewrite fst_cbind, resolve_c_result.
  destruct (resolve e r); cbn [bind fst pure]; [|reflexivity].
  rewrite fst_cbind, IH. apply bind_ext. intros; reflexivity.
Qed.
Theorem resolve_resources_c_bound w e resolved rs :
  w = 0 \/ forallb (fun kv => light (snd kv)) rs = true ->
  snd (resolve_resources_c w e resolved rs) <= dksize rs + drefs rs * psize e.
Proof.
  intros Hw. induction rs as [|[id r] rest IH]; [simpl; lia|].
  assert (Hr : w = 0 \/ light r = true).
  { destruct Hw as [Hw|Hw]; [left; exact Hw | right]. cbn [forallb snd] in Hw. apply andb_true_iff in Hw. tauto. }
  assert (Hrest : w = 0 \/ forallb (fun kv => light (snd kv)) rest = true).
  { destruct Hw as [Hw|Hw]; [left; exact Hw | right]. cbn [forallb snd] in Hw. apply andb_true_iff in Hw. tauto. }
  specialize (IH Hrest). pose proof (resolve_c_bound_refs w e r Hr) as Hc.
  change (dksize ((id, r) :: rest)) with (S (length id) + tsize r + dksize rest).
  change (drefs ((id, r) :: rest)) with (refs r + drefs rest).
  cbn [resolve_resources_c].
  eapply Nat.le_trans; [apply snd_cbind_le with (m := tsize r + refs r * psize e + (dksize rest + drefs rest * psize e))|cbn [snd]; nia].
  intros [|] _; [|lia]. unfold resolve_resource_c.
  eapply Nat.le_trans; [apply snd_cbind_le with (m := dksize rest + drefs rest * psize e)|].
  - intros a _. eapply Nat.le_trans; [apply snd_cbind_le with (m := 0); intros; simpl; lia|]. lia.
  - revert Hc. destruct (resolve_c w e r) as [[r'|] c]; cbn [cbind fst snd pure]; intros; lia.
Qed.
Corollary resolve_resources_c_bound_sizes w e resolved rs :
  w = 0 \/ forallb (fun kv => light (snd kv)) rs = true ->
  snd (resolve_resources_c w e resolved rs) <= tsize (VDict rs) * (1 + psize e).
Proof.
  intros Hw. pose proof (resolve_resources_c_bound w e resolved rs Hw).
  assert (drefs rs <= dksize rs).
  { induction rs as [|[id r] rest IH]; simpl; [lia|]. fold (drefs rest). fold (dksize rest).
    pose proof (refs_le_tsize r).
    assert (Hrest : w = 0 \/ forallb (fun kv => light (snd kv)) rest = true).
    { destruct Hw as [Hw|Hw]; [left; exact Hw | right]. cbn [forallb snd] in Hw. apply andb_true_iff in Hw. tauto. }
    specialize (IH Hrest (resolve_resources_c_bound w e resolved rest Hrest)). lia. }
  rewrite tsize_dict. nia.
Qed.

(* ================= 5. examples ================= *)
Local Open Scope N_scope.
Definition cx_s1 (c : N) : value := VStr [c].
(* parameters: L = ["a", ..., "t"] (20 one-letter strings), S = "abcdefghij" *)
Definition cx_env : env :=
  {| params := [([76], VList (map cx_s1 [97;98;99;100;101;102;103;104;105;106;107;108;109;110;111;112;113;114;115;116]));
                ([83], VStr [97;98;99;100;101;102;103;104;105;106])];
     mappings := []; conds := fun _ => Ok false |}.
Definition cx_refL : value := VDict [(K_Ref, VStr [76])].
Definition cx_refS : value := VDict [(K_Ref, VStr [83])].
Definition cx_net8 : value := VTyped KNet4 [49;48;46;48;46;48;46;48;47;56].          (* 10.0.0.0/8  : 16 777 216 addresses *)
Definition cx_net32 : value := VTyped KNet4 [49;48;46;48;46;48;46;48;47;51;50].      (* 10.0.0.0/32 : 1 address *)
(* {"A": {"Ref": "L"}, "B": {"Ref": "L"}, "C": [<network>, 65535], "D": {"Fn::Sub": "${S}-${S}"}} *)
Definition cx_expr (net : value) : value :=
  VDict [([65], cx_refL); ([66], cx_refL); ([67], VList [net; VInt 65535%Z]);
         ([68], VDict [(K_Sub, VStr [36;123;83;125;45;36;123;83;125])])].
(* the bound is not vacuous: 66 steps, bound 60 + 4 * 52 = 268 (and 60 * 53 = 3180 in terms of the two sizes) *)
Example cx_bound_not_vacuous :
  light (cx_expr cx_net8) = true /\ is_ok (fst (resolve_c 1 cx_env (cx_expr cx_net8))) = true /\
  snd (resolve_c 1 cx_env (cx_expr cx_net8)) = 66%nat /\
  tsize (cx_expr cx_net8) = 60%nat /\ refs (cx_expr cx_net8) = 4%nat /\ psize cx_env = 52%nat.
Proof. vm_compute. repeat split; reflexivity. Qed.
(* the width of the network is irrelevant: a /8 costs what a /32 costs *)
Example cx_network_width_irrelevant :
  snd (resolve_c 1 cx_env (cx_expr cx_net8)) = snd (resolve_c 1 cx_env (cx_expr cx_net32)).
Proof. vm_compute. reflexivity. Qed.
(* why the bound is multiplicative: ten Refs to L copy L ten times -- 231 steps, more than tsize + psize = 71 + 52 *)
Definition cx_tenrefs : value := VList (repeat cx_refL 10).
Example cx_multiplicative :
  snd (resolve_c 1 cx_env cx_tenrefs) = 231%nat /\ tsize cx_tenrefs = 71%nat /\ refs cx_tenrefs = 10%nat /\
  light cx_tenrefs = true.
Proof. vm_compute. repeat split; reflexivity. Qed.

(* ---- no polynomial bound for the full cost: nested Fn::Join doubles the text at every level ----
   parameters  S = "ab",  L = ["a", "b", "c"];   jn 0 = {"Ref": "S"},  jn (d+1) = {"Fn::Join": [jn d, {"Ref": "L"}]} *)
Definition cx_env2 : env :=
  {| params := [([76], VList (map cx_s1 [97;98;99])); ([83], VStr [97;98])]; mappings := []; conds := fun _ => Ok false |}.
Fixpoint cx_jn (d : nat) : value :=
  match d with O => cx_refS | S d' => VDict [(K_Join, VList [cx_jn d'; cx_refL])] end.
Local Close Scope N_scope.
Lemma cx_jn_tsize d : tsize (cx_jn d) = 7 + 18 * d.
Proof.
  induction d as [|d IH]; [reflexivity|].
  change (cx_jn (S d)) with (VDict [(K_Join, VList [cx_jn d; cx_refL])]).
  rewrite tsize_dict. unfold dksize. cbn [fold_right fst snd]. rewrite tsize_list. unfold ltsize. cbn [fold_right].
  rewrite IH. change (tsize cx_refL) with 7. change (length K_Join) with 8. lia.
Qed.
Lemma cx_jn_run d : exists s c, resolve_c 1 cx_env2 (cx_jn d) = (Ok (VStr s), c) /\ 2 ^ d <= length s /\ 2 ^ d <= c.
Proof.
  induction d as [|d (s & c & E & Hs & Hc)].
  - eexists. eexists. split; [vm_compute; reflexivity|]. simpl. lia.
  - change (cx_jn (S d)) with (VDict [(K_Join, VList [cx_jn d; cx_refL])]). rewrite rc_join, E.
    replace (resolve_c 1 cx_env2 cx_refL) with (Ok (VList [VStr [97%N]; VStr [98%N]; VStr [99%N]]), 6) by (vm_compute; reflexivity).
    cbn [cbind tick fst snd]. unfold do_join_cost, do_join. cbn [as_strs bind].
    assert (HL : length (join s [[97%N]; [98%N]; [99%N]]) = 3 + 2 * length s).
    { cbn [join]. rewrite !app_length. simpl. lia. }
    exists (join s [[97%N]; [98%N]; [99%N]]), (1 + (c + (6 + 1 * length (join s [[97%N]; [98%N]; [99%N]])))).
    split; [reflexivity|]. rewrite HL. change (2 ^ S d) with (2 * 2 ^ d). lia.
Qed.
(* the expression grows by 18 characters per level, its full cost at least doubles: no polynomial in tsize and psize
   bounds [snd (resolve_c 1 e v)] for all e, v *)
Theorem cx_join_blowup d : tsize (cx_jn d) = 7 + 18 * d /\ 2 ^ d <= snd (resolve_c 1 cx_env2 (cx_jn d)).
Proof. split; [apply cx_jn_tsize|]. destruct (cx_jn_run d) as (s & c & E & _ & Hc). rewrite E. exact Hc. Qed.
(* concretely: at depth 8 the full cost (2585) exceeds tsize * (1 + psize) (= 151 * 11); the walk cost is 59 *)
Example cx_join_blowup_8 :
  Nat.ltb (tsize (cx_jn 8) * (1 + psize cx_env2)) (snd (resolve_c 1 cx_env2 (cx_jn 8))) = true /\
  snd (resolve_c 0 cx_env2 (cx_jn 8)) = 59.
Proof. vm_compute. split; reflexivity. Qed.
(* the same with Fn::Sub and a variable map: {"Fn::Sub": ["${a}${a}", {"a": ...}]} doubles its text at each level *)
Fixpoint cx_dbl (d : nat) : value :=
  match d with
  | O => VStr [120%N]
  | S d' => VDict [(K_Sub, VList [VStr [36;123;97;125;36;123;97;125]%N; VDict [([97%N], cx_dbl d')]])]
  end.
Definition cx_jdbl (d : nat) : value := VDict [(K_Join, VList [VStr []; VList [cx_dbl d]])].
Example cx_sub_blowup_12 :
  Nat.ltb (tsize (cx_jdbl 12) * (1 + psize cx_env2)) (snd (resolve_c 1 cx_env2 (cx_jdbl 12))) = true /\
  snd (resolve_c 0 cx_env2 (cx_jdbl 12)) = 136.
Proof. vm_compute. split; reflexivity. Qed.
