(* String constants of the robustness models (the only Robust file that opens string_scope). *)
From Coq Require Import List String NArith.
From PV Require Import Base.Str.
Import ListNotations.
Local Open Scope string_scope.

Definition K_Action : str := Eval compute in of_string "Action".
Definition K_NotAction : str := Eval compute in of_string "NotAction".
Definition S_Allow : str := Eval compute in of_string "Allow".
Definition S_Deny : str := Eval compute in of_string "Deny".
Definition K_Properties : str := Eval compute in of_string "Properties".
