(* Entry point of the extracted runner: one request = opcode + one encoded argument value.
   Op 0 loads the live action catalogue; ops n*100 .. n*100+99 belong to property Cn (theories/Run/Rn.v). *)
From Coq Require Import List Bool NArith ZArith.
From PV Require Import Base.Str Base.Value Base.Wire Base.WireFast Run.RState.
From PV Require Import Run.R01.
From PV Require Import Run.R05.
From PV Require Import Run.R06.
From PV Require Import Run.R08.
From PV Require Import Run.R09.
From PV Require Import Run.R10.
From PV Require Import Run.R11.
From PV Require Import Run.R12.
From PV Require Import Run.R13.
From PV Require Import Run.R14.
From PV Require Import Run.R15.
From PV Require Import Run.R16.
From PV Require Import Run.R17.
From PV Require Import Run.R18.
From PV Require Import Run.R19.
Import ListNotations.
Local Open Scope N_scope.

Definition BAD : value := VStr [66; 65; 68].

Definition dispatch (st : rstate) (op : N) (arg : value) : option (rstate * value) :=
  match op / 100 with
  | 1 => run01 st op arg
  | 5 => run05 st op arg
  | 6 => run06 st op arg
  | 8 => run08 st op arg
  | 9 => run09 st op arg
  | 10 => run10 st op arg
  | 11 => run11 st op arg
  | 12 => run12 st op arg
  | 13 => run13 st op arg
  | 14 => run14 st op arg
  | 15 => run15 st op arg
  | 16 => run16 st op arg
  | 17 => run17 st op arg
  | 18 => run18 st op arg
  | 19 => run19 st op arg
  | _ => None
  end.

Definition run (st : rstate) (op : N) (arg : value) : rstate * value :=
  match op with
  | 0 => ({| catalogue := strs_of arg |}, VInt (Z.of_nat (length (strs_of arg))))
  | _ => match dispatch st op arg with Some r => r | None => (st, BAD) end
  end.

Definition step (st : rstate) (req : list N) : rstate * list N :=
  match req with
  | op :: toks =>
      match decode toks with
      | Some arg => let '(st', out) := run st op arg in (st', enc_fast out)   (* = enc out (WireFast.enc_fast_ok), stack-safe *)
      | None => (st, enc BAD)
      end
  | [] => (st, enc BAD)
  end.
