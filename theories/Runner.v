(* Entry point of the extracted runner: one request = opcode + one encoded argument value. *)
From Coq Require Import List Bool NArith ZArith.
From PV Require Import Base.Str Base.Value Base.Wire Glob.Glob.
Import ListNotations.
Local Open Scope N_scope.

Record rstate := { catalogue : list str }.
Definition init : rstate := {| catalogue := [] |}.

Definition STAR : N := 42.
Definition QM : N := 63.
Definition glob_cs (p s : str) : bool := glob_match N N.eqb STAR QM p s.
Definition glob_ci (p s : str) : bool := glob_match_ci N N.eqb STAR QM lower_cp p s.

Definition strs_of (v : value) : list str :=
  match v with
  | VList l => flat_map (fun x => match x with VStr s => [s] | _ => [] end) l
  | _ => []
  end.

Definition BAD : value := VStr [66;65;68].

Definition run (st : rstate) (op : N) (arg : value) : rstate * value :=
  match op, arg with
  | 0, _ => ({| catalogue := strs_of arg |}, VInt (Z.of_nat (length (strs_of arg))))
  | 1, VList [VStr p; VStr s] => (st, VBool (glob_cs p s))
  | 2, VList [VStr p; VStr s] => (st, VBool (glob_ci p s))
  | 3, VList [VStr p] => (st, VList (map VStr (filter (glob_ci p) (catalogue st))))
  | _, _ => (st, BAD)
  end.

Definition step (st : rstate) (req : list N) : rstate * list N :=
  match req with
  | op :: toks =>
      match decode toks with
      | Some arg => let '(st', out) := run st op arg in (st', enc out)
      | None => (st, enc BAD)
      end
  | [] => (st, enc BAD)
  end.
