(* Findings 9 and 10 (both repaired in statement_condition.build_root_evaluator): faithful models of the DEFECTIVE
   behaviour, and the laws of C12 they refute.  Documentation only -- nothing here is used by the property theorems.

   F09  late-binding closures: inside `for arg_a, arg_b in arguments:` the lambdas of the IfExists / ForAllValues /
        ForAnyValue / value-list branches referred to the loop variables, so after the loop EVERY such group tested the
        LAST key (modelled here for the homogeneous case: all keys of the operator take the same branch).
   F10  a negated operator with a value list combined the values with any(): "differs from SOME listed value". *)
From Coq Require Import List Bool NArith ZArith.
From PV Require Import Base.Str Base.Value Iam.Ops Iam.OpNames Iam.Block Iam.BlockFacts.
From PVGen Require Import Operators.
Import ListNotations.
Local Open Scope N_scope.

Section Defects.
Variable test : base_op -> cval -> cval -> option bool.

(* F10: any() whatever the operator *)
Definition value_ok_d (o : base_op) (ps : list cval) (c : cval) : option bool := any_sc (fun p => test o p c) ps.

(* F09: every group of the operator is the group of its last key *)
Definition eval_entry_d (ctx : context) (eg : op_entry * groups) : option bool :=
  match rev (snd eg) with
  | [] => Some true
  | (kl, pvl) :: _ => all_sc (fun _ : str * pvals => eval_key test (fst eg) kl pvl ctx) (snd eg)
  end.
End Defects.

Definition idf (s : str) : str := s.
Definition T := op_test idf.
Definition S (c : N) : cval := CStr [c].
Definition k1 : str := [107; 49].
Definition k2 : str := [107; 50].
Definition e_StringEquals : op_entry :=
  {| e_name := base_name OStringEquals; e_qual := QNone; e_ifx := false; e_base := OStringEquals; e_fam := FStr |}.

(* F10 witness: {"StringNotEquals": {k: ["a","b"]}} on k = "a": the defective combination says True, the specified one
   False, and the specification (value_sat: the test holds for EVERY listed value) is indeed not met *)
Example F10_witness :
  value_ok_d T OStringNotEquals [S 97; S 98] (S 97) = Some true
  /\ value_ok T OStringNotEquals [S 97; S 98] (S 97) = Some false.
Proof. split; vm_compute; reflexivity. Qed.
Example F10_refuted : ~ value_sat T OStringNotEquals [S 97; S 98] (S 97).
Proof.
  intros H. apply (proj2 (value_ok_true T OStringNotEquals [S 97; S 98] (S 97))) in H. vm_compute in H. discriminate.
Qed.

(* F09 witness: {"StringEquals": {"k1": ["a","c"], "k2": ["b"]}} on {k1: "x", k2: "b"} *)
Definition g09 : groups := [(k1, PMany [S 97; S 99]); (k2, PMany [S 98])].
Definition ctx09 : context := [(k1, XOne (S 120)); (k2, XOne (S 98))].
Example F09_witness :
  eval_entry_d T ctx09 (e_StringEquals, g09) = Some true
  /\ eval_entry T ctx09 (e_StringEquals, g09) = Some false.
Proof. split; vm_compute; reflexivity. Qed.
(* ... so under the defect the verdict of the k1 group changes when only the value of ANOTHER key (k2) changes, which
   C12_key_independent_update forbids for the specified evaluation *)
Example F09_refutes_key_independence :
  eval_entry_d T ((k2, XOne (S 120)) :: ctx09) (e_StringEquals, [(k1, PMany [S 120]); (k2, PMany [S 98])]) = Some false
  /\ eval_entry_d T ctx09 (e_StringEquals, [(k1, PMany [S 120]); (k2, PMany [S 98])]) = Some true
  /\ eval_key T e_StringEquals k1 (PMany [S 120]) ((k2, XOne (S 120)) :: ctx09)
     = eval_key T e_StringEquals k1 (PMany [S 120]) ctx09.
Proof. repeat split; vm_compute; reflexivity. Qed.
