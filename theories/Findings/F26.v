(* Documentation of finding F26 (found by the C19 check on tree c71460c, repaired by e16c1a8):
   pydantic 2.7.3 accepts the TEXT of a year-0 date ("0000-01-01", "0000-06-15T12:00:00Z") in its date / datetime parser and
   then lets `ValueError: year 0 is out of range` of datetime.date escape UNWRAPPED.  In the typed fields of pycfmodel
   (AWSTemplateFormatVersion, PolicyDocument.Version, the Date* condition operators) that ValueError left pycfmodel.parse as it is:
   neither a model nor a ValidationError.  (The same text inside a generic resource was already handled by c71460c.) *)
From Coq Require Import List Bool NArith ZArith.
From PV Require Import Base.Str Base.Value Robust.Validators Robust.ValidatorsFacts.
Import ListNotations.
Local Open Scope N_scope.

(* before the repair the field was pydantic's parser itself *)
Definition date_field_pre (std : value -> res value) (v : value) : res value := std v.

(* a parser that behaves like pydantic's on the witness *)
Definition year0 : str := [48; 48; 48; 48; 45; 48; 49; 45; 48; 49].           (* "0000-01-01" *)
Definition std_witness (v : value) : res value :=
  match v with VStr s => if str_eqb s year0 then Err EValue else Ok v | _ => Err EValidation end.

Example F26_date_field_refuted : ~ (forall std v, (clean (std v) \/ std v = Err EValidation) -> parse_clean (date_field_pre std v)).
Proof. intros H. exact (H std_witness (VStr year0) (or_introl I)). Qed.
Example F26_witness : date_field_pre std_witness (VStr year0) = Err EValue.
Proof. reflexivity. Qed.
Example F26_repaired : safe_date std_witness (VStr year0) = Err EValidation /\ safe_date std_witness (VStr [50]) = Ok (VStr [50]).
Proof. split; reflexivity. Qed.
