(* F27 (repaired): CFModel.resolve rendered the NAME in a resource's Condition attribute like any other text, so a condition
   called "True" was referred to as "true" in the resolved model; resolving the resolved model again then gated the resource on
   another condition (or on none).  Found while proving the model-level fixed point (Resolver/ModelFix.v): the proof forced the
   hypothesis "rendering does not rewrite the name", and the witness below fails on the code as found.
   This file keeps the model of the code AS FOUND (only the Type is put back) and the refutation of the fixed point for it. *)
From Coq Require Import List Bool NArith ZArith.
From PV Require Import Base.Str Base.Value Resolver.Consts Resolver.Text Resolver.Resolve Resolver.Template Resolver.ModelFix.
Import ListNotations.

Definition keep_type_found (orig resolved : value) : value :=
  match orig, resolved with
  | VDict o, VDict d => VDict (keep_key K_Type o d)
  | _, _ => resolved
  end.
Definition resolve_resource_found (e : env) (r : value) : res value := r' <- resolve e r ;; Ok (keep_type_found r r').

Definition e_none : env := {| params := []; mappings := []; conds := fun _ => Ok false |}.
Definition resolved_tt : list (str * bool) := [(S_True, true); (S_true, false)].
Definition res_true : value := VDict [(K_Type, VStr s_Bucket); (K_Condition, VStr S_True)].

(* as found: the gate of the definition is open, the gate of its resolved form is closed *)
Example F27_as_found :
  gate resolved_tt res_true = Ok true /\
  exists r', resolve_resource_found e_none res_true = Ok r' /\ gate resolved_tt r' = Ok false.
Proof. split; [vm_compute; reflexivity|]. eexists. split; vm_compute; reflexivity. Qed.
(* repaired: both gates are open, and the resolved form is the definition itself *)
Example F27_repaired :
  resolve_resource e_none res_true = Ok res_true /\ gate resolved_tt res_true = Ok true.
Proof. split; vm_compute; reflexivity. Qed.
