(* Documentation of two REPAIRED findings (known_findings.json F11, F13): faithful models of the code before
   the repair commits a48b8e2 / d8cc80f, and the witnesses on which the cleanliness theorem of C19 fails for
   them.  Nothing here is used by the property theorems. *)
From Coq Require Import List Bool NArith ZArith.
From PV Require Import Base.Str Base.Value Resolver.Consts Resolver.Resolve Robust.RConsts Robust.Validators Robust.ValidatorsFacts.
Import ListNotations.
Local Open Scope N_scope.

(* F13: GenericResource.check_type tested `value in existing_resource_types` (a set) on the raw value:
   hashing a list or a dict raises TypeError; every other non-string falls through to pydantic's str check *)
Definition check_type_pre (strict : bool) (modelled : list str) (v : value) : res value :=
  match v with
  | VList _ | VDict _ => Err EType
  | VStr s => if mem_str s modelled && strict then Err EValue else Ok (VStr s)
  | _ => Ok v
  end.

(* F11: validate_binary handed whatever it got to base64.b64decode: a non-text, non-bytes value raises
   TypeError; bytes (its own output, when a dumped model is validated again) were decoded a second time *)
Definition validate_binary_pre (v : value) : res value :=
  match v with
  | VStr s => match b64decode s with Some b => Ok (VBytes b) | None => Err EValue end
  | VBytes b => match b64dec_go b 0 0 0 [] with Some b' => Ok (VBytes b') | None => Err EValue end
  | _ => Err EType
  end.
(* F11, resolver side: bytes had no branch in resolve() and reached `raise ValueError("Not supported type")` *)
Definition resolve_leaf_pre (ps : list (str * value)) (v : value) : res value :=
  match v with
  | VBytes _ => Err EValue
  | _ => match render_leaf ps v with Some r => Ok r | None => Err EUndefined end
  end.

Definition s_a : str := [97].
Example F13_check_type_refuted : ~ (forall strict modelled v, clean (check_type_pre strict modelled v)).
Proof. intros H. exact (H true [] (VList [VStr s_a])). Qed.
Example F13_witness_list : check_type_pre true [] (VList [VStr s_a]) = Err EType.
Proof. reflexivity. Qed.
Example F13_witness_dict : check_type_pre true [] (VDict [(s_a, VInt 1)]) = Err EType.
Proof. reflexivity. Qed.
Example F13_repaired : check_type true [] (VList [VStr s_a]) = Err EValue /\ check_type true [] (VDict [(s_a, VInt 1)]) = Err EValue.
Proof. split; reflexivity. Qed.

Example F11_validate_binary_refuted : ~ (forall v, clean (validate_binary_pre v)).
Proof. intros H. exact (H (VInt 5)). Qed.
Example F11_witness_number : validate_binary_pre (VInt 5) = Err EType.
Proof. reflexivity. Qed.
Example F11_witness_null_list : validate_binary_pre VNull = Err EType /\ validate_binary_pre (VDict []) = Err EType.
Proof. split; reflexivity. Qed.
Example F11_repaired : validate_binary (VInt 5) = Err EValue /\ pydantic_wrap (validate_binary (VInt 5)) = Err EValidation.
Proof. split; reflexivity. Qed.
(* "YQ==" decodes to "a"; decoding the result again fails (one data character): dump -> validate broke *)
Example F11_witness_roundtrip :
  validate_binary_pre (VStr [89; 81; 61; 61]) = Ok (VBytes [97]) /\ validate_binary_pre (VBytes [97]) = Err EValue /\
  validate_binary (VBytes [97]) = Ok (VBytes [97]).
Proof. repeat split; reflexivity. Qed.
Example F11_witness_resolve : resolve_leaf_pre [] (VBytes [97]) = Err EValue /\
  resolve {| params := []; mappings := []; conds := fun _ => Ok false |} (VBytes [97]) = Ok (VStr [89; 81; 61; 61]).
Proof. split; reflexivity. Qed.
