(* An ALGEBRA of IAM wildcard patterns (C08), over ANY alphabet with decidable equality, for EVERY pattern and EVERY text
   (no bound on lengths).  Nothing here changes Glob.v: these are laws of its matcher [glob_match].

     concatenation   a text matches p ++ q  iff  it is a text matching p followed by a text matching q
     congruence      equivalent patterns may be exchanged inside any context p ++ _ ++ q
     stars           a run of stars is one star                                   ("**"  = "*")
     commutation     star and question mark commute                               ("*?"  = "?*")
     runs            a run of wildcards with k question marks and at least one star is  ?^k *  = "at least k characters"
     BUT             "*?" is NOT "*": it needs one character more                  (the text with nothing in that place)
     normal form     [norm]: every maximal run of wildcards becomes ?^k or ?^k*; same language, idempotent, its fixed
                     points are exactly the normal patterns, no non-star symbol is touched or reordered
     minimal length  a matched text is at least as long as the pattern has non-star symbols (and that is attained)
     prefix/suffix   lit*  = "starts with lit",  *lit = "ends with lit",  *lit* = "contains lit",  l1*l2 = both, disjointly
     case folding    the case-insensitive matcher is the matcher on folded pattern and folded text; all laws carry over. *)
From Coq Require Import List Bool Arith Lia.
From PV Require Import Glob.Glob.
Import ListNotations.

Section GlobAlgebra.
Variable A : Type.
Variable eqb : A -> A -> bool.
Hypothesis eqb_spec : forall a b, eqb a b = true <-> a = b.
Variable star qm : A.   (* the two wildcard characters *)

Local Notation tokA := (tok A).
Local Notation gmA := (gm A).
Local Notation toks := (tokens A eqb star qm).
Local Notation tokof := (tok_of A eqb star qm).
Local Notation glob := (glob_match A eqb star qm).
Local Notation wit := (witness A eqb star).
Local Notation nowild := (no_wild A star qm).

(* ------------------------------------------------------------------------------------------------ *)
(* small facts *)

Lemma eqb_refl a : eqb a a = true.
Proof. apply eqb_spec. reflexivity. Qed.
Lemma eqb_neq a b : a <> b -> eqb a b = false.
Proof. intros Hne. destruct (eqb a b) eqn:E; [apply eqb_spec in E; contradiction | reflexivity]. Qed.
Lemma eqb_false_neq a b : eqb a b = false -> a <> b.
Proof. intros E Heq. subst b. rewrite eqb_refl in E. discriminate. Qed.

Lemma tok_of_star : tokof star = AnyStar.
Proof. unfold tok_of. rewrite eqb_refl. reflexivity. Qed.
Lemma tok_of_qm : star <> qm -> tokof qm = Any1.
Proof.
  intros Hne. unfold tok_of. rewrite (eqb_neq qm star) by congruence. rewrite eqb_refl. reflexivity.
Qed.
Lemma tokens_app p q : toks (p ++ q) = toks p ++ toks q.
Proof. unfold tokens. apply map_app. Qed.
Lemma tokens_repeat_star n : toks (repeat star n) = repeat AnyStar n.
Proof. induction n as [|n IH]; [reflexivity|]. cbn [repeat tokens map]. rewrite tok_of_star. f_equal. exact IH. Qed.
Lemma tokens_repeat_qm n : star <> qm -> toks (repeat qm n) = repeat Any1 n.
Proof.
  intros Hne. induction n as [|n IH]; [reflexivity|]. cbn [repeat tokens map]. rewrite (tok_of_qm Hne). f_equal. exact IH.
Qed.

Lemma glob_gm p s : glob p s = true <-> gmA (toks p) s.
Proof. unfold glob_match. apply gmb_ok. exact eqb_spec. Qed.

Lemma bool_eq_of_iff (b c : bool) : (b = true <-> c = true) -> b = c.
Proof. intros [H1 H2]. destruct b, c; try reflexivity; [symmetry; apply H1; reflexivity | apply H2; reflexivity]. Qed.

(* ------------------------------------------------------------------------------------------------ *)
(* concatenation and congruence, on token lists *)

Lemma gm_app (p q : list tokA) s :
  gmA (p ++ q) s <-> exists s1 s2, s = s1 ++ s2 /\ gmA p s1 /\ gmA q s2.
Proof.
  split.
  - intros H. apply gm_spec in H. destruct H as (segs & Hs & HF).
    apply Forall2_app_inv_l in HF. destruct HF as (g1 & g2 & HF1 & HF2 & Hsegs).
    exists (concat g1), (concat g2). split; [rewrite Hs, Hsegs; apply concat_app|].
    split; apply gm_spec; [exists g1 | exists g2]; split; auto.
  - intros (s1 & s2 & Hs & H1 & H2). apply gm_spec in H1. apply gm_spec in H2.
    destruct H1 as (g1 & Hs1 & HF1). destruct H2 as (g2 & Hs2 & HF2).
    apply gm_spec. exists (g1 ++ g2). split; [rewrite Hs, Hs1, Hs2; symmetry; apply concat_app|].
    apply Forall2_app; assumption.
Qed.

Definition teq (x y : list tokA) : Prop := forall s, gmA x s <-> gmA y s.

Lemma teq_ctx x y p q : teq x y -> teq (p ++ x ++ q) (p ++ y ++ q).
Proof.
  intros Hxy s. rewrite !gm_app. split.
  - intros (s1 & s2 & Hs & Hp & H2). apply gm_app in H2. destruct H2 as (s3 & s4 & Hs2 & Hx & Hq).
    exists s1, s2. split; [exact Hs|]. split; [exact Hp|]. apply gm_app. exists s3, s4.
    split; [exact Hs2|]. split; [apply Hxy; exact Hx | exact Hq].
  - intros (s1 & s2 & Hs & Hp & H2). apply gm_app in H2. destruct H2 as (s3 & s4 & Hs2 & Hy & Hq).
    exists s1, s2. split; [exact Hs|]. split; [exact Hp|]. apply gm_app. exists s3, s4.
    split; [exact Hs2|]. split; [apply Hxy; exact Hy | exact Hq].
Qed.

Lemma gm_star_all s : gmA [AnyStar] s.
Proof. rewrite <- (app_nil_r s). apply gm_star_app. constructor. Qed.

Lemma gm_cons_star (p : list tokA) s : gmA (AnyStar :: p) s <-> exists r s', s = r ++ s' /\ gmA p s'.
Proof.
  change (AnyStar :: p) with ([AnyStar] ++ p). rewrite gm_app. split.
  - intros (r & s' & Hs & _ & Hp). exists r, s'. auto.
  - intros (r & s' & Hs & Hp). exists r, s'. split; [exact Hs|]. split; [apply gm_star_all | exact Hp].
Qed.
Lemma gm_cons_any (p : list tokA) s : gmA (Any1 :: p) s <-> exists c s', s = c :: s' /\ gmA p s'.
Proof.
  split.
  - intros H. inversion H as [| |c p0 s0 Hp| |]; subst. exists c, s0. auto.
  - intros (c & s' & -> & Hp). constructor. exact Hp.
Qed.

(* a run of wildcards is a length constraint and nothing else *)
Fixpoint qcount (w : list tokA) : nat :=
  match w with [] => 0 | Any1 :: w' => S (qcount w') | _ :: w' => qcount w' end.
Fixpoint hasstar (w : list tokA) : bool :=
  match w with [] => false | AnyStar :: _ => true | _ :: w' => hasstar w' end.
Definition wildt (t : tokA) : Prop := match t with Lit _ => False | _ => True end.

Lemma gm_wild w : Forall wildt w ->
  forall s, gmA w s <-> (if hasstar w then qcount w <= length s else length s = qcount w).
Proof.
  induction 1 as [|t w Ht Hw IH]; intros s.
  - cbn [hasstar qcount]. split.
    + intros H. inversion H; subst. reflexivity.
    + intros H. destruct s as [|c s]; [constructor | discriminate].
  - destruct t as [a| |]; [destruct Ht| |].
    + rewrite gm_cons_any. cbn [hasstar qcount]. split.
      * intros (c & s' & -> & Hp). apply IH in Hp. cbn [length]. destruct (hasstar w); lia.
      * intros Hlen. destruct s as [|c s'].
        -- exfalso. cbn [length] in Hlen. destruct (hasstar w); lia.
        -- exists c, s'. split; [reflexivity|]. apply IH. cbn [length] in Hlen. destruct (hasstar w); lia.
    + rewrite gm_cons_star. cbn [hasstar qcount]. split.
      * intros (r & s' & -> & Hp). apply IH in Hp. rewrite app_length. destruct (hasstar w); lia.
      * intros Hlen. destruct (hasstar w) eqn:Ehs.
        -- exists [], s. split; [reflexivity|]. apply IH. exact Hlen.
        -- exists (firstn (length s - qcount w) s), (skipn (length s - qcount w) s).
           split; [symmetry; apply firstn_skipn|]. apply IH. rewrite skipn_length. lia.
Qed.

Lemma wild_teq w1 w2 :
  Forall wildt w1 -> Forall wildt w2 -> hasstar w1 = hasstar w2 -> qcount w1 = qcount w2 -> teq w1 w2.
Proof. intros H1 H2 Hs Hq s. rewrite (gm_wild w1 H1), (gm_wild w2 H2), Hs, Hq. reflexivity. Qed.

(* ------------------------------------------------------------------------------------------------ *)
(* equivalence of patterns: same language *)

Definition geq (x y : list A) : Prop := forall s, glob x s = glob y s.

Lemma geq_refl x : geq x x.
Proof. intros s. reflexivity. Qed.
Lemma geq_sym x y : geq x y -> geq y x.
Proof. intros H s. symmetry. apply H. Qed.
Lemma geq_trans x y z : geq x y -> geq y z -> geq x z.
Proof. intros H1 H2 s. rewrite H1. apply H2. Qed.

Lemma geq_teq x y : geq x y <-> teq (toks x) (toks y).
Proof.
  split.
  - intros H s. rewrite <- !glob_gm, H. reflexivity.
  - intros H s. apply bool_eq_of_iff. rewrite !glob_gm. apply H.
Qed.

(* CONCATENATION: a text matches p ++ q iff it splits into a text matching p and a text matching q *)
Theorem glob_app p q s :
  glob (p ++ q) s = true <-> exists s1 s2, s = s1 ++ s2 /\ glob p s1 = true /\ glob q s2 = true.
Proof.
  rewrite glob_gm, tokens_app, gm_app. split; intros (s1 & s2 & Hs & H1 & H2); exists s1, s2;
    (split; [exact Hs|]); split; apply glob_gm; assumption.
Qed.

(* CONGRUENCE: equivalent patterns may be exchanged in any context *)
Theorem geq_ctx x y p q : geq x y -> geq (p ++ x ++ q) (p ++ y ++ q).
Proof.
  intros H. apply geq_teq. rewrite !tokens_app. apply teq_ctx. apply geq_teq. exact H.
Qed.
Lemma geq_app_l l x y : geq x y -> geq (l ++ x) (l ++ y).
Proof. intros H. generalize (geq_ctx x y l [] H). rewrite !app_nil_r. auto. Qed.
Lemma geq_app_r r x y : geq x y -> geq (x ++ r) (y ++ r).
Proof. intros H. exact (geq_ctx x y [] r H). Qed.
Lemma geq_cons c x y : geq x y -> geq (c :: x) (c :: y).
Proof. intros H. exact (geq_app_l [c] x y H). Qed.
Lemma geq_app x x' y y' : geq x x' -> geq y y' -> geq (x ++ y) (x' ++ y').
Proof. intros Hx Hy. eapply geq_trans; [apply geq_app_l; exact Hy | apply geq_app_r; exact Hx]. Qed.

Theorem glob_star_any s : glob [star] s = true.
Proof. apply glob_gm. cbn [tokens map]. rewrite tok_of_star. apply gm_star_all. Qed.

(* ------------------------------------------------------------------------------------------------ *)
(* 1. a run of stars is one star *)

Theorem star_run p q n s : glob (p ++ repeat star (S n) ++ q) s = glob (p ++ [star] ++ q) s.
Proof.
  apply geq_ctx. apply geq_teq. rewrite tokens_repeat_star. cbn [tokens map]. rewrite tok_of_star.
  apply wild_teq.
  - apply Forall_forall. intros t Ht. apply repeat_spec in Ht. subst t. exact I.
  - repeat constructor.
  - reflexivity.
  - cbn [repeat qcount]. induction n as [|n IH]; [reflexivity | exact IH].
Qed.

Theorem star_star p q s : glob (p ++ [star; star] ++ q) s = glob (p ++ [star] ++ q) s.
Proof. exact (star_run p q 1 s). Qed.

(* 2. star and question mark commute (no hypothesis: if the two wildcard characters coincide the two patterns are the same list) *)
Theorem star_qm_commute p q s : glob (p ++ [star; qm] ++ q) s = glob (p ++ [qm; star] ++ q) s.
Proof.
  destruct (eqb star qm) eqn:E.
  - apply eqb_spec in E. rewrite <- E. reflexivity.
  - apply eqb_false_neq in E. apply geq_ctx. apply geq_teq. cbn [tokens map].
    rewrite tok_of_star, (tok_of_qm E). apply wild_teq; repeat constructor.
Qed.

(* a run of wildcards: k question marks and at least one star, in any order = ?^k *  ("at least k more characters") *)
Definition wild_run (w : list A) : Prop := Forall (fun c => c = star \/ c = qm) w.
Definition qms (w : list A) : nat := length (filter (fun c => eqb c qm) w).

Lemma wild_run_tokens w : star <> qm -> wild_run w ->
  Forall wildt (toks w) /\ qcount (toks w) = qms w /\ (In star w -> hasstar (toks w) = true)
  /\ (~ In star w -> hasstar (toks w) = false).
Proof.
  intros Hne. unfold qms. induction 1 as [|c w Hc Hw IH].
  - cbn. split; [constructor|]. split; [reflexivity|]. split; [intros []|reflexivity].
  - destruct IH as (IH1 & IH2 & IH3 & IH4). cbn [tokens map filter]. destruct Hc as [->| ->].
    + rewrite tok_of_star, (eqb_neq star qm Hne). cbn [qcount hasstar]. split; [|split; [|split]].
      * constructor; [exact I | exact IH1].
      * exact IH2.
      * intros _. reflexivity.
      * intros Hn. exfalso. apply Hn. left. reflexivity.
    + rewrite (tok_of_qm Hne), eqb_refl. cbn [qcount hasstar length]. split; [|split; [|split]].
      * constructor; [exact I | exact IH1].
      * f_equal. exact IH2.
      * intros [Hin|Hin]; [congruence | auto].
      * intros Hn. apply IH4. intros Hin. apply Hn. right. exact Hin.
Qed.

Theorem wild_run_canonical p q w s : star <> qm -> wild_run w -> In star w ->
  glob (p ++ w ++ q) s = glob (p ++ (repeat qm (qms w) ++ [star]) ++ q) s.
Proof.
  intros Hne Hw Hin. apply geq_ctx. apply geq_teq.
  destruct (wild_run_tokens w Hne Hw) as (H1 & H2 & H3 & _).
  assert (Hcanon : wild_run (repeat qm (qms w) ++ [star])).
  { apply Forall_app. split; [|repeat constructor].
    apply Forall_forall. intros c Hc. apply repeat_spec in Hc. right. exact Hc. }
  destruct (wild_run_tokens _ Hne Hcanon) as (H1' & H2' & H3' & _).
  apply wild_teq; [exact H1 | exact H1' | |].
  - rewrite (H3 Hin). symmetry. apply H3'. apply in_or_app. right. left. reflexivity.
  - rewrite H2, H2'. unfold qms at 2. rewrite filter_app, app_length. cbn [filter]. rewrite (eqb_neq star qm Hne).
    cbn [length]. rewrite Nat.add_0_r.
    generalize (qms w). intros k. induction k as [|k IH]; [reflexivity|]. cbn [repeat filter]. rewrite eqb_refl.
    cbn [length]. f_equal. exact IH.
Qed.

(* ... and what such a run means: the part of the text in that place has at least k characters *)
Theorem wild_run_length w s : star <> qm -> wild_run w -> In star w ->
  (glob w s = true <-> qms w <= length s).
Proof.
  intros Hne Hw Hin. destruct (wild_run_tokens w Hne Hw) as (H1 & H2 & H3 & _).
  rewrite glob_gm, (gm_wild _ H1), (H3 Hin), H2. reflexivity.
Qed.
Theorem wild_run_ctx_length p q w s : star <> qm -> wild_run w -> In star w ->
  (glob (p ++ w ++ q) s = true <->
   exists s1 m s2, s = s1 ++ m ++ s2 /\ glob p s1 = true /\ qms w <= length m /\ glob q s2 = true).
Proof.
  intros Hne Hw Hin. rewrite glob_app. split.
  - intros (s1 & s2 & Hs & Hp & H2). apply glob_app in H2. destruct H2 as (m & s3 & Hs2 & Hm & Hq).
    exists s1, m, s3. rewrite <- Hs2. repeat split; auto. apply (wild_run_length w m Hne Hw Hin). exact Hm.
  - intros (s1 & m & s2 & Hs & Hp & Hm & Hq). exists s1, (m ++ s2). repeat split; auto.
    apply glob_app. exists m, s2. repeat split; auto. apply (wild_run_length w m Hne Hw Hin). exact Hm.
Qed.
(* a run of wildcards WITHOUT a star is ?^k: exactly k characters *)
Theorem wild_run_no_star w : star <> qm -> wild_run w -> ~ In star w ->
  w = repeat qm (qms w) /\ forall s, (glob w s = true <-> length s = qms w).
Proof.
  intros Hne Hw Hn. split.
  - unfold qms. induction Hw as [|c w Hc Hw IH]; [reflexivity|]. destruct Hc as [->| ->].
    + exfalso. apply Hn. left. reflexivity.
    + cbn [filter]. rewrite eqb_refl. cbn [length repeat]. f_equal. apply IH. intros Hin. apply Hn. right. exact Hin.
  - intros s. destruct (wild_run_tokens w Hne Hw) as (H1 & H2 & _ & H4).
    rewrite glob_gm, (gm_wild _ H1), (H4 Hn), H2. reflexivity.
Qed.

(* ------------------------------------------------------------------------------------------------ *)
(* 5. minimal length (stated before 3., which uses it) *)

Definition nonstar (p : list A) : nat := length (filter (fun c => negb (eqb c star)) p).

Theorem min_length p s : glob p s = true -> nonstar p <= length s.
Proof. intros H. exact (glob_witness_shortest A eqb eqb_spec star qm p s H). Qed.
Theorem min_length_attained p : glob p (wit p) = true /\ length (wit p) = nonstar p.
Proof. split; [exact (glob_satisfiable A eqb eqb_spec star qm p) | reflexivity]. Qed.

Lemma witness_app p q : wit (p ++ q) = wit p ++ wit q.
Proof. unfold witness. apply filter_app. Qed.
Lemma nonstar_app p q : nonstar (p ++ q) = nonstar p + nonstar q.
Proof. unfold nonstar. rewrite filter_app, app_length. reflexivity. Qed.

(* ------------------------------------------------------------------------------------------------ *)
(* 3. BUT "*?" is not "*": it asks for one character more *)

Theorem star_qm_needs_one p s : star <> qm ->
  (glob (p ++ [star; qm]) s = true <-> exists s' c, s = s' ++ [c] /\ glob (p ++ [star]) s' = true).
Proof.
  intros Hne.
  assert (Hw : wild_run [star; qm]) by (repeat constructor; auto).
  assert (Hin : In star [star; qm]) by (left; reflexivity).
  rewrite glob_app. split.
  - intros (s1 & s2 & Hs & Hp & H2). apply (wild_run_length _ s2 Hne Hw Hin) in H2.
    unfold qms in H2. cbn [filter] in H2. rewrite (eqb_neq star qm Hne), eqb_refl in H2. cbn [length] in H2.
    destruct s2 as [|c0 s2']; [cbn [length] in H2; lia|].
    assert (Hnn : c0 :: s2' <> []) by discriminate.
    pose proof (app_removelast_last c0 Hnn) as Hlast.
    exists (s1 ++ removelast (c0 :: s2')), (last (c0 :: s2') c0). split.
    + rewrite <- app_assoc, <- Hlast. exact Hs.
    + apply glob_app. exists s1, (removelast (c0 :: s2')). repeat split; auto. apply glob_star_any.
  - intros (s' & c & Hs & H). apply glob_app in H. destruct H as (s1 & r & Hs' & Hp & _).
    exists s1, (r ++ [c]). split; [rewrite Hs, Hs', app_assoc; reflexivity|]. split; [exact Hp|].
    apply (wild_run_length _ (r ++ [c]) Hne Hw Hin).
    unfold qms. cbn [filter]. rewrite (eqb_neq star qm Hne), eqb_refl. cbn [length]. rewrite app_length. cbn [length]. lia.
Qed.

Theorem star_qm_length p q s : star <> qm ->
  glob (p ++ [star; qm] ++ q) s = true -> nonstar p + 1 + nonstar q <= length s.
Proof.
  intros Hne H. apply min_length in H. rewrite !nonstar_app in H.
  unfold nonstar at 2 in H. cbn [filter] in H. rewrite eqb_refl, (eqb_neq qm star) in H by congruence.
  cbn [negb length] in H. lia.
Qed.

(* the two patterns differ on the text that has NOTHING in that place *)
Theorem star_qm_is_not_star p q : star <> qm ->
  glob (p ++ [star] ++ q) (wit p ++ wit q) = true /\ glob (p ++ [star; qm] ++ q) (wit p ++ wit q) = false.
Proof.
  intros Hne. split.
  - replace (wit p ++ wit q) with (wit (p ++ [star] ++ q)); [apply min_length_attained|].
    rewrite !witness_app. unfold witness at 2. cbn [filter]. rewrite eqb_refl. reflexivity.
  - destruct (glob (p ++ [star; qm] ++ q) (wit p ++ wit q)) eqn:E; [|reflexivity]. exfalso.
    apply (star_qm_length p q _ Hne) in E. rewrite app_length in E.
    destruct (min_length_attained p) as [_ Hp]. destruct (min_length_attained q) as [_ Hq]. lia.
Qed.

(* ------------------------------------------------------------------------------------------------ *)
(* 4. normal form: read left to right; a star is held back ([pend]) until the run of wildcards ends, question marks pass *)

Definition pre (pend : bool) : list A := if pend then [star] else [].

Fixpoint norm_go (pend : bool) (p : list A) : list A :=
  match p with
  | [] => pre pend
  | c :: p' => if eqb c star then norm_go true p'
               else if eqb c qm then c :: norm_go pend p'
               else pre pend ++ c :: norm_go false p'
  end.
Definition norm (p : list A) : list A := norm_go false p.

Lemma norm_go_correct p : forall pend, geq (norm_go pend p) (pre pend ++ p).
Proof.
  induction p as [|c p IH]; intros pend.
  - cbn [norm_go]. rewrite app_nil_r. apply geq_refl.
  - cbn [norm_go]. destruct (eqb c star) eqn:Es.
    + apply eqb_spec in Es. subst c. eapply geq_trans; [apply IH|]. destruct pend; cbn [pre app].
      * intros s. symmetry. exact (star_star [] p s).
      * apply geq_refl.
    + destruct (eqb c qm) eqn:Eq.
      * apply eqb_spec in Eq. subst c. eapply geq_trans; [apply geq_cons; apply IH|]. destruct pend; cbn [pre app].
        -- intros s. symmetry. exact (star_qm_commute [] p s).
        -- apply geq_refl.
      * apply geq_app_l. apply geq_cons. exact (IH false).
Qed.

Theorem norm_correct p s : glob (norm p) s = glob p s.
Proof. exact (norm_go_correct p false s). Qed.

Lemma norm_go_idem p : forall b pend, norm_go b (norm_go pend p) = norm_go (b || pend) p.
Proof.
  induction p as [|c p IH]; intros b pend.
  - cbn [norm_go]. destruct pend; cbn [pre norm_go].
    + rewrite eqb_refl, orb_true_r. reflexivity.
    + rewrite orb_false_r. reflexivity.
  - cbn [norm_go]. destruct (eqb c star) eqn:Es.
    + rewrite IH, orb_true_r. reflexivity.
    + destruct (eqb c qm) eqn:Eq.
      * cbn [norm_go]. rewrite Es, Eq, IH. reflexivity.
      * destruct pend; cbn [pre app norm_go].
        -- rewrite eqb_refl, Es, Eq, orb_true_r. cbn [pre app]. rewrite (IH false false). reflexivity.
        -- rewrite Es, Eq, orb_false_r. rewrite (IH false false). reflexivity.
Qed.
Theorem norm_idempotent p : norm (norm p) = norm p.
Proof. exact (norm_go_idem p false false). Qed.

(* what "normal" means: no star is followed by a wildcard, i.e. every maximal run of wildcards is ?^k or ?^k* *)
Fixpoint normalb (p : list A) : bool :=
  match p with
  | [] => true
  | c :: p' => (if eqb c star then match p' with [] => true | d :: _ => negb (eqb d star) && negb (eqb d qm) end else true)
               && normalb p'
  end.
Definition normal (p : list A) : Prop :=
  forall l c r, p = l ++ star :: c :: r -> c <> star /\ c <> qm.

Lemma normalb_spec p : normalb p = true <-> normal p.
Proof.
  unfold normal. induction p as [|c p IH].
  - split; [|reflexivity]. intros _ l c r H. destruct l; discriminate.
  - cbn [normalb]. rewrite andb_true_iff, IH. split.
    + intros [Hhd Htl] l d r H. destruct l as [|x l]; cbn [app] in H.
      * injection H as Hc Hp. subst c p. rewrite eqb_refl in Hhd.
        apply andb_true_iff in Hhd. destruct Hhd as [H1 H2]. apply negb_true_iff in H1, H2.
        split; apply eqb_false_neq; assumption.
      * injection H as Hc Hp. exact (Htl l d r Hp).
    + intros H. split.
      * destruct (eqb c star) eqn:Es; [|reflexivity]. apply eqb_spec in Es. subst c.
        destruct p as [|d p']; [reflexivity|]. destruct (H [] d p' eq_refl) as [H1 H2].
        rewrite (eqb_neq d star H1), (eqb_neq d qm H2). reflexivity.
      * intros l d r Hp. apply (H (c :: l) d r). rewrite Hp. reflexivity.
Qed.

Lemma norm_go_normal p : forall pend, normalb (norm_go pend p) = true.
Proof.
  induction p as [|c p IH]; intros pend.
  - destruct pend; cbn [norm_go pre normalb]; [rewrite eqb_refl|]; reflexivity.
  - cbn [norm_go]. destruct (eqb c star) eqn:Es; [apply IH|].
    destruct (eqb c qm) eqn:Eq.
    + cbn [normalb]. rewrite Es, IH. reflexivity.
    + destruct pend; cbn [pre app normalb]; rewrite ?eqb_refl, Es, ?Eq, IH; reflexivity.
Qed.
Theorem norm_is_normal p : normal (norm p).
Proof. apply normalb_spec. apply norm_go_normal. Qed.

Lemma normalb_fixed p : normalb p = true -> norm_go false p = p.
Proof.
  induction p as [|c p IH]; [reflexivity|]. cbn [normalb]. rewrite andb_true_iff. intros [Hhd Htl].
  specialize (IH Htl). cbn [norm_go]. destruct (eqb c star) eqn:Es.
  - apply eqb_spec in Es. subst c. destruct p as [|d p']; [reflexivity|].
    apply andb_true_iff in Hhd. destruct Hhd as [H1 H2]. apply negb_true_iff in H1, H2.
    cbn [norm_go] in IH |- *. rewrite H1, H2 in IH |- *. cbn [pre app] in IH |- *. rewrite IH. reflexivity.
  - destruct (eqb c qm) eqn:Eq; cbn [pre app]; rewrite IH; reflexivity.
Qed.
(* the fixed points of [norm] are exactly the normal patterns *)
Theorem norm_fixed_iff p : norm p = p <-> normal p.
Proof.
  split.
  - intros H. rewrite <- H. apply norm_is_normal.
  - intros H. apply normalb_fixed. apply normalb_spec. exact H.
Qed.

(* norm touches stars only: the non-star symbols (literals AND question marks), in order, are unchanged;
   in particular the literal characters, in order, are unchanged; and nothing gets longer *)
Definition lits (p : list A) : list A := filter (fun c => negb (eqb c star) && negb (eqb c qm)) p.

Lemma witness_pre pend : wit (pre pend) = [].
Proof. destruct pend; cbn [pre witness filter]; [rewrite eqb_refl|]; reflexivity. Qed.
Lemma norm_go_witness p : forall pend, wit (norm_go pend p) = wit p.
Proof.
  induction p as [|c p IH]; intros pend; cbn [norm_go].
  - apply witness_pre.
  - destruct (eqb c star) eqn:Es.
    + rewrite IH. unfold witness. cbn [filter]. rewrite Es. reflexivity.
    + destruct (eqb c qm) eqn:Eq.
      * unfold witness in IH |- *. cbn [filter]. rewrite Es. cbn [negb]. rewrite IH. reflexivity.
      * rewrite witness_app, witness_pre. unfold witness in IH |- *. cbn [app filter]. rewrite Es. cbn [negb].
        rewrite IH. reflexivity.
Qed.
Theorem norm_witness p : wit (norm p) = wit p.
Proof. apply norm_go_witness. Qed.

Lemma lits_pre pend : lits (pre pend) = [].
Proof. destruct pend; cbn [pre lits filter]; [rewrite eqb_refl|]; reflexivity. Qed.
Lemma norm_go_lits p : forall pend, lits (norm_go pend p) = lits p.
Proof.
  induction p as [|c p IH]; intros pend; cbn [norm_go].
  - apply lits_pre.
  - destruct (eqb c star) eqn:Es.
    + rewrite IH. unfold lits. cbn [filter]. rewrite Es. reflexivity.
    + destruct (eqb c qm) eqn:Eq.
      * unfold lits in IH |- *. cbn [filter]. rewrite Es, Eq. cbn [negb andb]. apply IH.
      * unfold lits in IH |- *. rewrite filter_app. fold (lits (pre pend)). rewrite lits_pre. cbn [app filter].
        rewrite Es, Eq. cbn [negb andb]. rewrite IH. reflexivity.
Qed.
Theorem norm_lits p : lits (norm p) = lits p.
Proof. apply norm_go_lits. Qed.

Lemma norm_go_length p : forall pend, length (norm_go pend p) <= length (pre pend) + length p.
Proof.
  induction p as [|c p IH]; intros pend; cbn [norm_go].
  - lia.
  - destruct (eqb c star) eqn:Es.
    + specialize (IH true). cbn [pre length] in IH |- *. lia.
    + destruct (eqb c qm) eqn:Eq.
      * specialize (IH pend). cbn [length]. lia.
      * specialize (IH false). rewrite app_length. cbn [pre length] in IH |- *. lia.
Qed.
Theorem norm_length p : length (norm p) <= length p.
Proof. exact (norm_go_length p false). Qed.
Theorem norm_nonstar p : nonstar (norm p) = nonstar p.
Proof. unfold nonstar. fold (wit (norm p)). fold (wit p). rewrite norm_witness. reflexivity. Qed.

(* ------------------------------------------------------------------------------------------------ *)
(* 7. prefix / suffix / infix laws *)

Theorem prefix_law lit s : nowild lit -> (glob (lit ++ [star]) s = true <-> exists r, s = lit ++ r).
Proof.
  intros Hl. rewrite glob_app. split.
  - intros (s1 & s2 & Hs & H1 & _). apply (glob_literal A eqb eqb_spec star qm lit Hl) in H1. subst s1. exists s2. exact Hs.
  - intros (r & Hs). exists lit, r. split; [exact Hs|]. split; [|apply glob_star_any].
    apply (glob_literal A eqb eqb_spec star qm lit Hl). reflexivity.
Qed.
Theorem suffix_law lit s : nowild lit -> (glob ([star] ++ lit) s = true <-> exists r, s = r ++ lit).
Proof.
  intros Hl. rewrite glob_app. split.
  - intros (s1 & s2 & Hs & _ & H2). apply (glob_literal A eqb eqb_spec star qm lit Hl) in H2. subst s2. exists s1. exact Hs.
  - intros (r & Hs). exists r, lit. split; [exact Hs|]. split; [apply glob_star_any|].
    apply (glob_literal A eqb eqb_spec star qm lit Hl). reflexivity.
Qed.
Theorem infix_law lit s : nowild lit -> (glob ([star] ++ lit ++ [star]) s = true <-> exists l r, s = l ++ lit ++ r).
Proof.
  intros Hl. rewrite glob_app. split.
  - intros (s1 & s2 & Hs & _ & H2). apply (prefix_law lit s2 Hl) in H2. destruct H2 as (r & ->). exists s1, r. exact Hs.
  - intros (l & r & Hs). exists l, (lit ++ r). split; [exact Hs|]. split; [apply glob_star_any|].
    apply (prefix_law lit _ Hl). exists r. reflexivity.
Qed.
Theorem between_law l1 l2 s : nowild l1 -> nowild l2 ->
  (glob (l1 ++ [star] ++ l2) s = true <-> exists m, s = l1 ++ m ++ l2).
Proof.
  intros H1 H2. rewrite glob_app. split.
  - intros (s1 & s2 & Hs & Hp & Hq). apply (glob_literal A eqb eqb_spec star qm l1 H1) in Hp. subst s1.
    apply (suffix_law l2 s2 H2) in Hq. destruct Hq as (m & ->). exists m. exact Hs.
  - intros (m & Hs). exists l1, (m ++ l2). split; [exact Hs|]. split.
    + apply (glob_literal A eqb eqb_spec star qm l1 H1). reflexivity.
    + apply (suffix_law l2 _ H2). exists m. reflexivity.
Qed.

(* ------------------------------------------------------------------------------------------------ *)
(* 6. the case-insensitive matcher: fold both sides, then match.  All laws carry over when the fold neither creates nor
      destroys a wildcard character. *)
Variable fold : A -> A.
Local Notation globci := (glob_match_ci A eqb star qm fold).

Theorem glob_ci_is_folded p s : globci p s = glob (map fold p) (map fold s).
Proof. reflexivity. Qed.
Theorem glob_ci_fold_pattern p s : (forall c, fold (fold c) = fold c) -> globci (map fold p) s = globci p s.
Proof.
  intros Hid. rewrite !glob_ci_is_folded. f_equal. rewrite map_map. apply map_ext. exact Hid.
Qed.

Definition geq_ci (x y : list A) : Prop := forall s, globci x s = globci y s.
Lemma geq_ci_of_geq x y : geq (map fold x) (map fold y) -> geq_ci x y.
Proof. intros H s. rewrite !glob_ci_is_folded. apply H. Qed.

Hypothesis fold_star : forall c, eqb (fold c) star = eqb c star.
Hypothesis fold_qm : forall c, eqb (fold c) qm = eqb c qm.

Lemma fold_star_fixed : fold star = star.
Proof. apply eqb_spec. rewrite fold_star. apply eqb_refl. Qed.
Lemma fold_qm_fixed : fold qm = qm.
Proof. apply eqb_spec. rewrite fold_qm. apply eqb_refl. Qed.

Lemma map_fold_repeat_star n : map fold (repeat star n) = repeat star n.
Proof. induction n as [|n IH]; [reflexivity|]. cbn [repeat map]. rewrite fold_star_fixed, IH. reflexivity. Qed.
Theorem ci_star_run p q n s : globci (p ++ repeat star (S n) ++ q) s = globci (p ++ [star] ++ q) s.
Proof.
  rewrite !glob_ci_is_folded, !map_app.
  rewrite map_fold_repeat_star. cbn [map]. rewrite fold_star_fixed. apply star_run.
Qed.
Theorem ci_star_star p q s : globci (p ++ [star; star] ++ q) s = globci (p ++ [star] ++ q) s.
Proof. exact (ci_star_run p q 1 s). Qed.
Theorem ci_star_qm_commute p q s : globci (p ++ [star; qm] ++ q) s = globci (p ++ [qm; star] ++ q) s.
Proof.
  rewrite !glob_ci_is_folded, !map_app. cbn [map]. rewrite fold_star_fixed, fold_qm_fixed. apply star_qm_commute.
Qed.

Lemma witness_map_fold p : map fold (wit p) = wit (map fold p).
Proof.
  unfold witness. induction p as [|c p IH]; [reflexivity|]. cbn [map filter]. rewrite fold_star.
  destruct (eqb c star); cbn [negb map]; rewrite IH; reflexivity.
Qed.
Theorem ci_star_qm_is_not_star p q : star <> qm ->
  globci (p ++ [star] ++ q) (wit p ++ wit q) = true /\ globci (p ++ [star; qm] ++ q) (wit p ++ wit q) = false.
Proof.
  intros Hne. rewrite !glob_ci_is_folded, !map_app, !witness_map_fold. cbn [map].
  rewrite fold_star_fixed, fold_qm_fixed. apply star_qm_is_not_star. exact Hne.
Qed.
Theorem ci_min_length p s : globci p s = true -> nonstar p <= length s.
Proof.
  rewrite glob_ci_is_folded. intros H. apply min_length in H. rewrite map_length in H.
  unfold nonstar in *. fold (wit (map fold p)) in H. rewrite <- witness_map_fold, map_length in H. exact H.
Qed.

Lemma no_wild_map_fold lit : nowild lit -> nowild (map fold lit).
Proof.
  unfold no_wild. intros H. apply Forall_forall. intros c Hc. apply in_map_iff in Hc. destruct Hc as (d & <- & Hd).
  rewrite Forall_forall in H. destruct (H d Hd) as [H1 H2]. split; intros Heq.
  - apply H1. apply eqb_spec. rewrite <- fold_star. apply eqb_spec. exact Heq.
  - apply H2. apply eqb_spec. rewrite <- fold_qm. apply eqb_spec. exact Heq.
Qed.
Theorem ci_prefix_law lit s : nowild lit ->
  (globci (lit ++ [star]) s = true <-> exists r, map fold s = map fold lit ++ r).
Proof.
  intros Hl. rewrite glob_ci_is_folded, map_app. cbn [map]. rewrite fold_star_fixed.
  apply prefix_law. apply no_wild_map_fold. exact Hl.
Qed.
Theorem ci_suffix_law lit s : nowild lit ->
  (globci ([star] ++ lit) s = true <-> exists r, map fold s = r ++ map fold lit).
Proof.
  intros Hl. rewrite glob_ci_is_folded, map_app. cbn [map]. rewrite fold_star_fixed.
  apply suffix_law. apply no_wild_map_fold. exact Hl.
Qed.

Lemma map_fold_pre pend : map fold (pre pend) = pre pend.
Proof. destruct pend; cbn [pre map]; [rewrite fold_star_fixed|]; reflexivity. Qed.
Lemma norm_go_map_fold p : forall pend, map fold (norm_go pend p) = norm_go pend (map fold p).
Proof.
  induction p as [|c p IH]; intros pend; cbn [norm_go map].
  - apply map_fold_pre.
  - rewrite fold_star, fold_qm. destruct (eqb c star); [apply IH|].
    destruct (eqb c qm).
    + cbn [map]. rewrite IH. reflexivity.
    + rewrite map_app, map_fold_pre. cbn [map]. rewrite IH. reflexivity.
Qed.
Theorem norm_map_fold p : map fold (norm p) = norm (map fold p).
Proof. apply norm_go_map_fold. Qed.
Theorem ci_norm_correct p s : globci (norm p) s = globci p s.
Proof. rewrite !glob_ci_is_folded, norm_map_fold. apply norm_correct. Qed.

End GlobAlgebra.
