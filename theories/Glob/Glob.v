(* IAM wildcard matching: '*' = any run, '?' = exactly one character, anything else itself, whole string.
   Model of regex_from_cf_string(p).match(s) as specified (C08), over ANY alphabet with decidable equality. *)
From Coq Require Import List Bool Arith Lia.
Import ListNotations.

Section Glob.
Variable A : Type.
Variable eqb : A -> A -> bool.
Hypothesis eqb_spec : forall a b, eqb a b = true <-> a = b.
Variable star qm : A.   (* the two wildcard characters *)

Inductive tok := Lit (a : A) | Any1 | AnyStar.

Definition tok_of (c : A) : tok := if eqb c star then AnyStar else if eqb c qm then Any1 else Lit c.
Definition tokens (p : list A) : list tok := map tok_of p.

(* Spec 1: inductive matching relation *)
Inductive gm : list tok -> list A -> Prop :=
| gm_nil : gm [] []
| gm_lit a p s : gm p s -> gm (Lit a :: p) (a :: s)
| gm_any a p s : gm p s -> gm (Any1 :: p) (a :: s)
| gm_star0 p s : gm p s -> gm (AnyStar :: p) s
| gm_star1 a p s : gm (AnyStar :: p) s -> gm (AnyStar :: p) (a :: s).

(* Spec 2: segmentation -- the candidate is cut into one segment per pattern character *)
Inductive seg_ok : tok -> list A -> Prop :=
| seg_lit a : seg_ok (Lit a) [a]
| seg_any a : seg_ok Any1 [a]
| seg_star s : seg_ok AnyStar s.
Definition glob_spec (p : list tok) (s : list A) : Prop :=
  exists segs, s = concat segs /\ Forall2 seg_ok p segs.

(* The model: structural on the pattern, inner fix on the candidate for '*' *)
Fixpoint gmb (p : list tok) : list A -> bool :=
  match p with
  | [] => fun s => match s with [] => true | _ => false end
  | Lit a :: p' => fun s => match s with c :: s' => eqb a c && gmb p' s' | [] => false end
  | Any1 :: p' => fun s => match s with _ :: s' => gmb p' s' | [] => false end
  | AnyStar :: p' =>
      fix star (s : list A) : bool :=
        gmb p' s || match s with [] => false | _ :: s' => star s' end
  end.

Definition glob_match (p s : list A) : bool := gmb (tokens p) s.

Lemma gmb_ok p : forall s, gmb p s = true <-> gm p s.
Proof.
  induction p as [|t p IH]; intros s.
  - destruct s; simpl; split; intro H; try constructor; try discriminate; inversion H.
  - destruct t.
    + destruct s as [|c s]; simpl.
      * split; [discriminate | intro H; inversion H].
      * rewrite andb_true_iff, eqb_spec, IH. split.
        -- intros [-> H]. now constructor.
        -- intro H; inversion H; subst; auto.
    + destruct s as [|c s]; simpl.
      * split; [discriminate | intro H; inversion H].
      * rewrite IH. split; intro H; [now constructor | now inversion H].
    + induction s as [|c s IHs]; simpl.
      * rewrite orb_false_r, IH. split; intro H; [now constructor|]. inversion H; auto.
      * rewrite orb_true_iff, IH. split.
        -- intros [H|H]; [now apply gm_star0|]. apply gm_star1. apply IHs. exact H.
        -- intro H; inversion H; subst; [now left|]. right. apply IHs. assumption.
Qed.

Lemma gm_star_app p s r : gm p s -> gm (AnyStar :: p) (r ++ s).
Proof. intros H. induction r as [|a r IH]; simpl; [now apply gm_star0 | now apply gm_star1]. Qed.

Lemma gm_spec p : forall s, gm p s <-> glob_spec p s.
Proof.
  unfold glob_spec. induction p as [|t p IH]; intros s; split.
  - intros H; inversion H; subst. exists []. split; [reflexivity | constructor].
  - intros (segs & -> & F). inversion F; subst. constructor.
  - intros H. remember (t :: p) as tp eqn:Etp. revert t p IH Etp.
    induction H as [|a p0 s0 H _|a p0 s0 H _|p0 s0 H _|a p0 s0 H IHs]; intros t p IH Etp; inversion Etp; subst.
    + apply IH in H. destruct H as (segs & -> & F). exists ([a] :: segs). split; [reflexivity|].
      constructor; [constructor | assumption].
    + apply IH in H. destruct H as (segs & -> & F). exists ([a] :: segs). split; [reflexivity|].
      constructor; [constructor | assumption].
    + apply IH in H. destruct H as (segs & -> & F). exists ([] :: segs). split; [reflexivity|].
      constructor; [constructor | assumption].
    + destruct (IHs AnyStar p IH eq_refl) as (segs & E & F). inversion F as [|? seg ? segs' Hseg F']; subst.
      exists ((a :: seg) :: segs'). split; [reflexivity|].
      constructor; [constructor | assumption].
  - intros (segs & -> & F). inversion F as [|? seg ? segs' Hseg F']; subst. simpl.
    assert (Hrest : gm p (concat segs')) by (apply IH; exists segs'; auto).
    inversion Hseg; subst; simpl.
    + now constructor.
    + now constructor.
    + now apply gm_star_app.
Qed.

Theorem glob_correct p s : glob_match p s = true <-> glob_spec (tokens p) s.
Proof. unfold glob_match. rewrite gmb_ok. apply gm_spec. Qed.

(* every character other than the two wildcards matches only itself; the whole string must match *)
Definition no_wild (p : list A) : Prop := Forall (fun c => c <> star /\ c <> qm) p.
Lemma tok_of_lit c : c <> star -> c <> qm -> tok_of c = Lit c.
Proof.
  intros H1 H2. unfold tok_of.
  destruct (eqb c star) eqn:E1; [apply eqb_spec in E1; contradiction|].
  destruct (eqb c qm) eqn:E2; [apply eqb_spec in E2; contradiction|]. reflexivity.
Qed.
Theorem glob_literal p : no_wild p -> forall s, glob_match p s = true <-> s = p.
Proof.
  unfold glob_match. induction 1 as [|c p [Hc1 Hc2] Hp IH]; intros s.
  - destruct s; simpl; split; congruence.
  - simpl. rewrite (tok_of_lit c Hc1 Hc2). destruct s as [|d s]; [split; discriminate|].
    rewrite andb_true_iff, eqb_spec, IH. split; [intros [-> ->]; reflexivity | intros H; inversion H; auto].
Qed.

Theorem glob_star_alone s : star <> qm -> glob_match [star] s = true.
Proof.
  intros _. unfold glob_match. apply gmb_ok. unfold tokens, tok_of. simpl.
  replace (eqb star star) with true by (symmetry; apply eqb_spec; reflexivity).
  rewrite <- (app_nil_r s). apply gm_star_app. constructor.
Qed.
Theorem glob_qm_alone s : star <> qm -> (glob_match [qm] s = true <-> exists c, s = [c]).
Proof.
  intros Hne. unfold glob_match, tokens, tok_of. simpl.
  destruct (eqb qm star) eqn:E1; [apply eqb_spec in E1; congruence|].
  replace (eqb qm qm) with true by (symmetry; apply eqb_spec; reflexivity).
  destruct s as [|c [|d s]]; simpl; split; try discriminate; try (intros [x Hx]; discriminate).
  - intros _. exists c. reflexivity.
  - reflexivity.
Qed.

(* "building a matcher never fails": that [glob_match] is a total function into bool is its TYPE (there is no error branch to
   exclude), so nothing is stated about that.  What can be stated is that every pattern is meaningful -- none is rejected, none
   denotes the empty language: the pattern with its stars removed is a string it matches (every other character, '?' included,
   stands for itself or for any one character), and it is the shortest one. *)
Definition witness (p : list A) : list A := filter (fun c => negb (eqb c star)) p.
Lemma gm_witness p : gm (tokens p) (witness p).
Proof.
  induction p as [|c p IH]; simpl; [constructor|]. unfold tok_of.
  destruct (eqb c star) eqn:Es; simpl; [apply gm_star0; exact IH|].
  destruct (eqb c qm); constructor; exact IH.
Qed.
Theorem glob_satisfiable p : glob_match p (witness p) = true.
Proof. unfold glob_match. apply gmb_ok. apply gm_witness. Qed.
Lemma gm_length p : forall s, gm p s -> length (filter (fun t => match t with AnyStar => false | _ => true end) p) <= length s.
Proof.
  intros s H. induction H as [|a p s H IH|a p s H IH|p s H IH|a p s H IH]; cbn [filter length] in *; lia.
Qed.
Lemma witness_length p :
  length (witness p) = length (filter (fun t => match t with AnyStar => false | _ => true end) (tokens p)).
Proof.
  unfold witness, tokens. induction p as [|c p IH]; [reflexivity|]. cbn [filter map]. unfold tok_of at 1.
  destruct (eqb c star); cbn [negb]; [exact IH|]. destruct (eqb c qm); cbn [length]; f_equal; exact IH.
Qed.
Theorem glob_witness_shortest p s : glob_match p s = true -> length (witness p) <= length s.
Proof. unfold glob_match. rewrite gmb_ok. intros H. apply gm_length in H. rewrite witness_length. exact H. Qed.

(* case-insensitive variant used for action names: fold both sides, wildcards are fixed by fold *)
Variable fold : A -> A.
Definition glob_match_ci (p s : list A) : bool := gmb (tokens (map fold p)) (map fold s).
Theorem glob_ci_spec p s : glob_match_ci p s = true <-> glob_spec (tokens (map fold p)) (map fold s).
Proof. unfold glob_match_ci. rewrite gmb_ok. apply gm_spec. Qed.
Theorem glob_ci_fold_invariant p s s' :
  map fold s = map fold s' -> glob_match_ci p s = glob_match_ci p s'.
Proof. unfold glob_match_ci. intros ->. reflexivity. Qed.

End Glob.

Arguments Lit {A}. Arguments Any1 {A}. Arguments AnyStar {A}.
