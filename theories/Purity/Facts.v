(* Proofs about Api.v: frame conditions, freshness of results, independence of history. *)
From Coq Require Import List Bool NArith Lia Permutation.
From PV Require Import Base.Str Base.Value Resolver.Consts Purity.Heap Purity.Api.
Import ListNotations.
Local Open Scope N_scope.

Lemma frame_chain b b' h1 h2 h3 : frame b h1 h2 -> frame b' h2 h3 -> b <= b' -> frame b h1 h3.
Proof. intros F1 F2 Hb. eapply frame_trans; [exact F1|]. eapply frame_weaken; [exact Hb | exact F2]. Qed.
Lemma frame_hi b h h' : frame b h h' -> hi h <= hi h'.
Proof. intros [_ H]. exact H. Qed.
Lemma h_obj_put_same h o ob : h_obj (h_put h o ob) o = ob.
Proof. unfold h_obj. rewrite h_get_put_same. reflexivity. Qed.
Lemma snap_obj_flat n h d : snap_obj n h (flat d) = d.
Proof. unfold snap_obj, flat. induction d as [|[k v] d IH]; simpl; [reflexivity|]. rewrite IH. reflexivity. Qed.
Lemma flat_no_ref d k r : ~ In (k, CRef r) (flat d).
Proof. unfold flat. rewrite in_map_iff. intros ([k' v] & H & _). discriminate. Qed.
Lemma reserved_le h o : o <= RESERVED -> o <= hi h.
Proof. pose proof (hi_reserved h). lia. Qed.

(* ------------------------------------------------------------------------------------------------ *)
(* the expression walk with replacements = dict(params): writes nothing that existed, computes walk_pure *)
Section WalkFacts.
Variables (sm : sem) (mg : oid).
Notation walk' := (walk true sm mg).
Notation wlist' := (wlist true sm mg).
Notation wdict' := (wdict true sm mg).

Definition walk_good (v : value) : Prop := forall h h' x, walk' v h = (h', x) ->
  frame (hi h) h h' /\ (mg <= hi h -> x = walk_pure sm (h_obj h mg) v).

Lemma wlist_good l : Forall walk_good l -> forall h h' l', wlist' l h = (h', l') ->
  frame (hi h) h h' /\ (mg <= hi h -> l' = map (walk_pure sm (h_obj h mg)) l).
Proof.
  induction 1 as [|x xs Hx Hxs IH]; intros h h' l' E; simpl in E.
  - inv E. split; [apply frame_refl | reflexivity].
  - destruct (walk' x h) as [h1 x'] eqn:E1. destruct (wlist' xs h1) as [h2 xs'] eqn:E2. inv E.
    destruct (Hx _ _ _ E1) as [F1 V1]. destruct (IH _ _ _ E2) as [F2 V2].
    split; [eapply frame_chain; [exact F1 | exact F2 | apply (frame_hi _ _ _ F1)]|].
    intros Hm. simpl. rewrite V1 by exact Hm. f_equal.
    rewrite V2 by (apply frame_hi in F1; lia). rewrite (frame_obj _ _ _ _ F1 Hm). reflexivity.
Qed.
Lemma wdict_good d : Forall (fun kv => walk_good (snd kv)) d -> forall h h' d', wdict' d h = (h', d') ->
  frame (hi h) h h' /\ (mg <= hi h -> d' = pdict sm (h_obj h mg) d).
Proof.
  induction 1 as [|[k x] xs Hx Hxs IH]; intros h h' d' E; simpl in E.
  - inv E. split; [apply frame_refl | reflexivity].
  - destruct (walk' x h) as [h1 x'] eqn:E1. destruct (wdict' xs h1) as [h2 xs'] eqn:E2. inv E.
    simpl in Hx. destruct (Hx _ _ _ E1) as [F1 V1]. destruct (IH _ _ _ E2) as [F2 V2].
    split; [eapply frame_chain; [exact F1 | exact F2 | apply (frame_hi _ _ _ F1)]|].
    intros Hm. simpl. rewrite V1 by exact Hm. f_equal.
    rewrite V2 by (apply frame_hi in F1; lia). rewrite (frame_obj _ _ _ _ F1 Hm). reflexivity.
Qed.

Lemma walk_generic d h : Forall (fun kv => walk_good (snd kv)) d -> forall h' x,
  (let '(h', d') := wdict' d h in (h', s_node sm d')) = (h', x) ->
  frame (hi h) h h' /\ (mg <= hi h -> x = s_node sm (pdict sm (h_obj h mg) d)).
Proof.
  intros Hd h' x E. destruct (wdict' d h) as [h1 d'] eqn:E1. inv E.
  destruct (wdict_good d Hd _ _ _ E1) as [F V]. split; [exact F|]. intros Hm. rewrite V by exact Hm. reflexivity.
Qed.

Lemma sub_repl_true h : sub_repl true mg h = h_copy h mg.
Proof. reflexivity. Qed.

Lemma walk_good_size : forall n v, (vsize v < n)%nat -> walk_good v.
Proof.
  induction n as [|n IHn]; intros v Hs; [lia|].
  assert (IHl : forall l, (vsize (VList l) <= n)%nat -> Forall walk_good l).
  { intros l Hl. apply Forall_forall. intros x Hin. apply IHn. pose proof (vsize_in_list x l Hin). lia. }
  assert (IHd : forall d, (vsize (VDict d) <= n)%nat -> Forall (fun kv => walk_good (snd kv)) d).
  { intros d Hl. apply Forall_forall. intros [k x] Hin. simpl. apply IHn. pose proof (vsize_in_dict k x d Hin). lia. }
  destruct v as [| b | z | s | k t | bs | l | d];
    try (intros h h' x E; simpl in E; inv E; split; [apply frame_refl | reflexivity]).
  - (* list *)
    intros h h' x E. change (walk' (VList l) h) with (let '(h', l') := wlist' l h in (h', s_list sm l')) in E.
    destruct (wlist' l h) as [h1 l'] eqn:E1. inv E.
    destruct (wlist_good l (IHl l ltac:(lia)) _ _ _ E1) as [F V]. split; [exact F|]. intros Hm. rewrite V by exact Hm. reflexivity.
  - (* dict *)
    assert (Hd : Forall (fun kv => walk_good (snd kv)) d) by (apply IHd; lia).
    intros h h' x E.
    destruct d as [|[k body] [|kv2 rest]].
    + change (walk' (VDict []) h) with (let '(h', d') := wdict' [] h in (h', s_node sm d')) in E.
      apply (walk_generic [] h Hd _ _ E).
    + change (walk' (VDict [(k, body)]) h) with
        (if str_eqb k K_Ref then (h, s_ref sm (h_obj h mg) body)
         else if str_eqb k K_Sub then
           match body with
           | VList [text; VDict locals] =>
               let '(h1, repl) := sub_repl true mg h in
               let '(h2, locals') := wdict' locals h1 in
               let h3 := h_update h2 repl (flat locals') in
               (h3, s_sub sm text (h_obj h3 repl))
           | _ => let '(h1, repl) := sub_repl true mg h in (h1, s_sub sm body (h_obj h1 repl))
           end
         else (let '(h', d') := wdict' [(k, body)] h in (h', s_node sm d'))) in E.
      change (walk_pure sm (h_obj h mg) (VDict [(k, body)])) with
        (if str_eqb k K_Ref then s_ref sm (h_obj h mg) body
         else if str_eqb k K_Sub then
           match body with
           | VList [text; VDict locals] => s_sub sm text (o_update (h_obj h mg) (flat (pdict sm (h_obj h mg) locals)))
           | _ => s_sub sm body (h_obj h mg)
           end
         else s_node sm (pdict sm (h_obj h mg) [(k, body)])).
      destruct (str_eqb k K_Ref). { inv E. split; [apply frame_refl | reflexivity]. }
      destruct (str_eqb k K_Sub); [|apply (walk_generic _ h Hd _ _ E)].
      assert (Simple : forall h' x, (let '(h1, repl) := sub_repl true mg h in (h1, s_sub sm body (h_obj h1 repl))) = (h', x) ->
                frame (hi h) h h' /\ (mg <= hi h -> x = s_sub sm body (h_obj h mg))).
      { intros h'' x'' E'. rewrite sub_repl_true in E'. unfold h_copy in E'. simpl in E'. inv E'.
        split; [apply frame_put; unfold fresh; lia|]. intros _. rewrite h_obj_put_same. reflexivity. }
      destruct body as [| | | | | | l | ]; try (apply Simple; exact E).
      destruct l as [|text [|vars [|z zs]]]; try (apply Simple; exact E); [|destruct vars; apply Simple; exact E].
      destruct vars as [| | | | | | | locals]; try (apply Simple; exact E).
      clear Simple. rewrite sub_repl_true in E.
      destruct (h_copy h mg) as [h1 repl] eqn:E0.
      destruct (wdict' locals h1) as [h2 locals'] eqn:E1. inv E.
      unfold h_copy in E0. simpl in E0. inv E0.
      assert (Hloc : Forall (fun kv => walk_good (snd kv)) locals).
      { apply Forall_forall. intros [k' x'] Hin. simpl. apply IHn.
        pose proof (vsize_in_dict k' x' locals Hin) as S1.
        pose proof (vsize_in_list (VDict locals) [text; VDict locals] ltac:(right; left; reflexivity)) as S2.
        pose proof (vsize_in_dict k (VList [text; VDict locals]) [(k, VList [text; VDict locals])] ltac:(left; reflexivity)) as S3.
        lia. }
      destruct (wdict_good locals Hloc _ _ _ E1) as [F V].
      set (h1 := h_put h (fresh h) (h_obj h mg)) in *.
      assert (F0 : frame (hi h) h h1) by (apply frame_put; unfold fresh; lia).
      assert (Hr : fresh h <= hi h1) by (unfold h1; rewrite hi_put; lia).
      split.
      * eapply frame_trans; [exact F0|]. eapply frame_trans.
        -- eapply frame_weaken; [|exact F]. apply (frame_hi _ _ _ F0).
        -- apply frame_update. unfold fresh. lia.
      * intros Hm. unfold h_update. rewrite h_obj_put_same.
        rewrite (frame_obj _ _ _ _ F Hr). unfold h1 at 1. rewrite h_obj_put_same.
        rewrite V by (apply frame_hi in F0; lia). rewrite (frame_obj _ _ _ _ F0 Hm). reflexivity.
    + change (walk' (VDict ((k, body) :: kv2 :: rest)) h) with
        (let '(h', d') := wdict' ((k, body) :: kv2 :: rest) h in (h', s_node sm d')) in E.
      apply (walk_generic _ h Hd _ _ E).
Qed.
Lemma walk_is_good v : walk_good v.
Proof. apply (walk_good_size (S (vsize v))). lia. Qed.
End WalkFacts.

Lemma wdict_ok sm mg d h h' d' : wdict true sm mg d h = (h', d') ->
  frame (hi h) h h' /\ (mg <= hi h -> d' = pdict sm (h_obj h mg) d).
Proof. apply wdict_good. apply Forall_forall. intros kv _. apply walk_is_good. Qed.
Lemma walk_ok sm mg v h h' x : walk true sm mg v h = (h', x) ->
  frame (hi h) h h' /\ (mg <= hi h -> x = walk_pure sm (h_obj h mg) v).
Proof. apply walk_is_good. Qed.

(* ------------------------------------------------------------------------------------------------ *)
(* parameter binding on a private dict *)
Lemma pop_all_ok sm b el : b < el -> forall decls h h' ps, pop_all sm h el decls = (h', ps) ->
  frame b h h' /\ ps = bind_pure sm (h_obj h el) decls /\ h_obj h' el = rest_pure (h_obj h el) decls.
Proof.
  intros Hb. induction decls as [|[k d] r IH]; intros h h' ps E; simpl in E.
  - inv E. split; [apply frame_refl|]. split; reflexivity.
  - destruct (pop_all sm (h_put h el (o_del k (h_obj h el))) el r) as [h2 ps2] eqn:E2. inv E.
    destruct (IH _ _ _ E2) as (F & P & R). rewrite h_obj_put_same in P, R.
    split; [eapply frame_trans; [apply frame_put; exact Hb | exact F]|].
    split; [simpl; rewrite P; reflexivity | exact R].
Qed.

Definition ep_obj (h : heap) (ep : option oid) : obj := match ep with Some e => h_obj h e | None => [] end.


(* Fn::FindInMap leaves with the copy in place *)
Arguments snap : simpl never.
Arguments h_deepcopy : simpl never.
Lemma mappings_of_frame h h' m : frame (hi h) h h' -> m <= hi h -> mappings_of h' m = mappings_of h m.
Proof.
  intros F Hm. unfold mappings_of. rewrite (frame_obj _ _ _ _ F Hm).
  destruct (lookup K_Mappings (h_obj h m)) as [[v|mid]|] eqn:E; try reflexivity.
  apply (frame_obj _ _ _ _ F). apply lookup_In in E. eapply ref_below. exact E.
Qed.
Lemma mappings_of_hi h m : obj_hi (mappings_of h m) <= hi h.
Proof. unfold mappings_of. destruct (lookup K_Mappings (h_obj h m)) as [[v|mid]|]; simpl; try lia. apply h_obj_hi. Qed.
Lemma leaf_vals_frame h h' mobj ks : frame (hi h) h h' -> obj_hi mobj <= hi h -> leaf_vals h' mobj ks = leaf_vals h mobj ks.
Proof.
  intros F Hb. induction ks as [|k r IH]; simpl; [reflexivity|].
  destruct (lookup k mobj) as [[v|leaf]|] eqn:E; rewrite IH; try reflexivity.
  rewrite (snap_frame _ _ _ _ F); [reflexivity|]. apply lookup_In in E. apply obj_hi_in in E. lia.
Qed.

Lemma leaf_cells_ok b mobj : forall ks h h' lc,
  leaf_cells true h mobj ks = (h', lc) -> b <= hi h -> closed_above b h -> obj_hi mobj <= hi h ->
  frame (hi h) h h' /\ closed_above b h' /\ (forall k r, In (k, CRef r) lc -> b < r /\ r <= hi h') /\
  snap_obj LEAF_DEPTH h' lc = leaf_vals h mobj ks.
Proof.
  induction ks as [|k r IH]; intros h h' lc E Hb C Hm; simpl in E.
  - inv E. split; [apply frame_refl|]. split; [exact C|]. split; [intros k r []|reflexivity].
  - destruct (lookup k mobj) as [[v|leaf]|] eqn:El.
    + destruct (leaf_cells true h mobj r) as [h2 r'] eqn:E2. inv E.
      destruct (IH _ _ _ E2 Hb C Hm) as (F & C' & R & S). split; [exact F|]. split; [exact C'|]. split.
      * intros k' r0 [H|H]; [inv H | apply (R _ _ H)].
      * simpl. rewrite El. rewrite S. reflexivity.
    + destruct (h_deepcopy LEAF_DEPTH h leaf) as [h1 l'] eqn:E1.
      destruct (leaf_cells true h1 mobj r) as [h2 r'] eqn:E2. inv E.
      destruct (h_deepcopy_ok b _ _ _ _ _ Hb C E1) as (F1 & Hl & Hl' & C1 & S1).
      pose proof (frame_hi _ _ _ F1) as M1.
      destruct (IH _ _ _ E2 ltac:(lia) C1 ltac:(lia)) as (F2 & C2 & R2 & S2).
      pose proof (frame_hi _ _ _ F2) as M2.
      assert (Hleaf : leaf <= hi h) by (apply lookup_In in El; apply obj_hi_in in El; lia).
      split; [eapply frame_chain; [exact F1 | exact F2 | lia]|]. split; [exact C2|]. split.
      * intros k' r0 [H|H]; [inv H; lia | apply (R2 _ _ H)].
      * simpl. rewrite El. f_equal.
        -- f_equal. rewrite (snap_frame _ _ _ _ F2 Hl'). apply S1. exact Hleaf.
        -- rewrite S2. apply leaf_vals_frame; assumption.
    + simpl. rewrite El. apply (IH _ _ _ E Hb C Hm).
Qed.

Lemma snap_obj_app n h a b : snap_obj n h (a ++ b) = snap_obj n h a ++ snap_obj n h b.
Proof. unfold snap_obj. apply map_app. Qed.

Lemma api_resolve_spec sm h0 m ep h' r : api_resolve REPAIRED sm h0 m ep = (h', r) ->
  frame (hi h0) h0 h' /\ hi h0 < r /\ r <= hi h' /\
  (forall o', reach h' r o' -> hi h0 < o') /\
  (m <= hi h0 -> snap DEPTH h' r = pure_val sm h0 (CResolve m ep)).
Proof.
  unfold api_resolve. intros E.
  (* api_step 1: the private copy of extra_params *)
  destruct (match ep with
            | Some e => if flag_copy_extra REPAIRED then h_copy h0 e else h_alias h0 e
            | None => h_alloc h0 []
            end) as [h1 el] eqn:E1.
  assert (A1 : frame (hi h0) h0 h1 /\ hi h0 < el /\ el <= hi h1 /\ h_obj h1 el = ep_obj h0 ep).
  { destruct ep as [e|]; simpl in E1; inv E1.
    - split; [apply frame_put; unfold fresh; lia|]. split; [unfold fresh; lia|]. split; [rewrite hi_put; lia|]. apply h_obj_put_same.
    - split; [apply frame_put; unfold fresh; lia|]. split; [unfold fresh; lia|]. split; [rewrite hi_put; lia|]. apply h_obj_put_same. }
  destruct A1 as (F1 & Hel & Hel' & Oel).
  set (mv1 := snap DEPTH h1 m) in *.
  destruct (pop_all sm h1 el (vdict (vfield K_Parameters mv1))) as [h2 params] eqn:E2.
  destruct (pop_all_ok sm (hi h0) el Hel _ _ _ _ E2) as (F2 & P2 & R2).
  destruct (h_alloc h2 (h_obj h2 el ++ params ++ h_obj h2 PSEUDO_ID)) as [h3 mg] eqn:E3.
  assert (A3 : frame (hi h2) h2 h3 /\ hi h2 < mg /\ mg <= hi h3 /\ h_obj h3 mg = h_obj h2 el ++ params ++ h_obj h2 PSEUDO_ID).
  { unfold h_alloc in E3. inv E3. split; [apply frame_put; unfold fresh; lia|]. split; [unfold fresh; lia|].
    split; [rewrite hi_put; lia | apply h_obj_put_same]. }
  destruct A3 as (F3 & Hmg & Hmg' & Omg).
  destruct (h_deepcopy DEPTH h3 m) as [h4 d] eqn:E4.
  destruct (h_deepcopy_fresh _ _ _ _ _ E4) as (F4 & Hd & Hd' & _ & S4).
  set (dv := snap DEPTH h4 d) in *.
  destruct (h_pop h4 d K_Conditions) as [h5 x5] eqn:E5.
  assert (F5 : frame (hi h3) h4 h5) by (unfold h_pop in E5; inv E5; apply frame_put; exact Hd).
  destruct (wdict (flag_copy_sub REPAIRED) sm mg (vdict (vfield K_Conditions dv)) h5) as [h6 rconds] eqn:E6.
  destruct (wdict_ok _ _ _ _ _ _ E6) as (F6 & V6).
  destruct (h_pop h6 d K_Resources) as [h7 x7] eqn:E7.
  assert (F7 : frame (hi h3) h6 h7) by (unfold h_pop in E7; inv E7; apply frame_put; exact Hd).
  destruct (wdict (flag_copy_sub REPAIRED) sm mg (gated sm rconds (vdict (vfield K_Resources dv))) h7) as [h8 rres] eqn:E8.
  destruct (wdict_ok _ _ _ _ _ _ E8) as (F8 & V8).
  set (rv := s_model sm dv (h_obj h8 mg) rconds rres) in *.
  set (ks := s_pick sm dv (h_obj h8 mg)) in *.
  destruct (leaf_cells (flag_copy_leaf REPAIRED) h8 (mappings_of h8 m) ks) as [h9 lc] eqn:E9.
  destruct (leaf_cells_ok (hi h8) _ _ _ _ _ E9 ltac:(lia) (closed_above_frame_init h8) (mappings_of_hi h8 m)) as (F9 & C9 & R9 & S9).
  unfold h_alloc in E. inv E.
  pose proof (frame_hi _ _ _ F1) as M1. pose proof (frame_hi _ _ _ F2) as M2. pose proof (frame_hi _ _ _ F3) as M3.
  pose proof (frame_hi _ _ _ F4) as M4. pose proof (frame_hi _ _ _ F5) as M5. pose proof (frame_hi _ _ _ F6) as M6.
  pose proof (frame_hi _ _ _ F7) as M7. pose proof (frame_hi _ _ _ F8) as M8. pose proof (frame_hi _ _ _ F9) as M9.
  (* everything up to hi h3 (in particular the merged dict) is the same from h3 to h8 *)
  assert (G35 : frame (hi h3) h3 h5) by (eapply frame_trans; [exact F4 | exact F5]).
  assert (G36 : frame (hi h3) h3 h6) by (eapply frame_chain; [exact G35 | exact F6 | lia]).
  assert (G37 : frame (hi h3) h3 h7) by (eapply frame_trans; [exact G36 | exact F7]).
  assert (G38 : frame (hi h3) h3 h8) by (eapply frame_chain; [exact G37 | exact F8 | lia]).
  assert (G03 : frame (hi h0) h0 h3).
  { eapply frame_trans; [exact F1|]. eapply frame_trans; [exact F2|]. eapply frame_weaken; [|exact F3]. lia. }
  assert (G08 : frame (hi h0) h0 h8) by (eapply (frame_chain _ (hi h3)); [exact G03 | exact G38 | lia]).
  assert (Flast : frame (hi h9) h9 (h_put h9 (fresh h9) (flat rv ++ lc))) by (apply frame_put; unfold fresh; lia).
  split. { eapply (frame_chain _ (hi h8)); [exact G08| |lia]. eapply frame_chain; [exact F9 | exact Flast | lia]. }
  split. { unfold fresh. lia. }
  split. { rewrite hi_put. lia. }
  split.
  { intros o' R.
    assert (CA : closed_above (hi h8) (h_put h9 (fresh h9) (flat rv ++ lc))).
    { apply closed_above_put; [exact C9|]. intros k r Hin. apply in_app_or in Hin. destruct Hin as [Hin|Hin].
      - exfalso. eapply flat_no_ref; eauto.
      - apply (R9 _ _ Hin). }
    assert (Hr : hi h8 < fresh h9) by (unfold fresh; lia).
    pose proof (reach_above _ _ _ _ CA Hr R). lia. }
  intros Hm. unfold DEPTH. rewrite snap_S, h_obj_put_same, snap_obj_app, snap_obj_flat.
  assert (Hlc : obj_hi lc <= hi h9) by (apply obj_hi_bound; intros k r Hin; apply (R9 _ _ Hin)).
  change 3%nat with LEAF_DEPTH. rewrite (snap_obj_frame _ _ _ _ Flast Hlc), S9.
  assert (Smv : mv1 = snap DEPTH h0 m) by (unfold mv1; apply snap_frame; [exact F1 | exact Hm]).
  assert (Sdv : dv = snap DEPTH h0 m).
  { rewrite S4 by lia. apply (snap_frame DEPTH h0 h3 m G03 Hm). }
  assert (Opseudo : h_obj h2 PSEUDO_ID = h_obj h0 PSEUDO_ID).
  { assert (Hp : PSEUDO_ID <= hi h0) by (apply reserved_le; unfold PSEUDO_ID, RESERVED; lia).
    rewrite (frame_obj _ _ _ _ F2 Hp). apply (frame_obj _ _ _ _ F1 Hp). }
  assert (Omerged : h_obj h3 mg = pure_merged sm (snap DEPTH h0 m) (ep_obj h0 ep) (h_obj h0 PSEUDO_ID)).
  { unfold pure_merged. rewrite Omg, R2, Oel, Opseudo, Smv. reflexivity. }
  assert (O5 : h_obj h5 mg = h_obj h3 mg) by (apply (frame_obj _ _ _ _ G35 Hmg')).
  assert (O7 : h_obj h7 mg = h_obj h3 mg) by (apply (frame_obj _ _ _ _ G37 Hmg')).
  assert (O8 : h_obj h8 mg = h_obj h3 mg) by (apply (frame_obj _ _ _ _ G38 Hmg')).
  rewrite (mappings_of_frame _ _ _ G08 Hm).
  rewrite (leaf_vals_frame _ _ _ _ G08 (mappings_of_hi h0 m)).
  unfold ks, rv. rewrite V8 by lia. rewrite V6 by lia. rewrite O5, O7, O8, Omerged, Sdv.
  simpl. unfold pure_resolve, ep_obj. reflexivity.
Qed.

Lemma api_expand_spec sm h0 m h' r : api_expand sm h0 m = (h', r) ->
  frame (hi h0) h0 h' /\ hi h0 < r /\ r <= hi h' /\
  exists rv, h_obj h' r = flat rv /\ (m <= hi h0 -> rv = s_expand sm (h_obj h0 CATALOGUE_ID) (snap DEPTH h0 m)).
Proof.
  unfold api_expand. intros E.
  destruct (h_deepcopy DEPTH h0 m) as [h1 d] eqn:E1.
  destruct (h_deepcopy_fresh _ _ _ _ _ E1) as (F1 & Hd & Hd' & _ & S1).
  pose proof (frame_hi _ _ _ F1) as M1.
  set (ex := s_expand sm (h_obj h1 CATALOGUE_ID) (snap DEPTH h1 d)) in *.
  set (h2 := h_set h1 d K_Resources (CVal (vfield K_Resources (VDict ex)))) in *.
  assert (F2 : frame (hi h0) h1 h2) by (apply frame_set; exact Hd).
  unfold h_alloc in E. inv E.
  pose proof (frame_hi _ _ _ F2) as M2.
  split. { eapply frame_trans; [exact F1|]. eapply frame_trans; [exact F2|]. apply frame_put. unfold fresh. lia. }
  split. { unfold fresh. lia. }
  split. { rewrite hi_put. lia. }
  eexists. split; [apply h_obj_put_same|]. intros Hm. unfold ex.
  rewrite S1 by exact Hm. rewrite (frame_obj _ _ _ _ F1) by (apply reserved_le; unfold CATALOGUE_ID, RESERVED; lia). reflexivity.
Qed.

Lemma api_parse_spec sm h0 t h' r : api_parse sm h0 t = (h', r) ->
  frame (hi h0) h0 h' /\ hi h0 < r /\ r <= hi h' /\
  exists rv, h_obj h' r = flat rv /\ (t <= hi h0 -> rv = s_validate sm (h_obj h0 STRICT_ID) (snap DEPTH h0 t)).
Proof.
  unfold api_parse. intros E.
  destruct (h_deepcopy DEPTH h0 t) as [h1 d] eqn:E1.
  destruct (h_deepcopy_fresh _ _ _ _ _ E1) as (F1 & Hd & Hd' & _ & S1).
  set (rv0 := s_validate sm (h_obj h1 STRICT_ID) (snap DEPTH h1 d)) in *.
  unfold h_alloc in E. inv E. pose proof (frame_hi _ _ _ F1) as M1.
  split. { eapply frame_trans; [exact F1|]. apply frame_put. unfold fresh. lia. }
  split. { unfold fresh. lia. }
  split. { rewrite hi_put. lia. }
  eexists. split; [apply h_obj_put_same|]. intros Hm. unfold rv0.
  rewrite S1 by exact Hm. rewrite (frame_obj _ _ _ _ F1) by (apply reserved_le; unfold STRICT_ID, RESERVED; lia). reflexivity.
Qed.

Lemma ctx_copies_frame ctx ws : forall h, frame (hi h) h (ctx_copies h ctx ws).
Proof.
  induction ws as [|[k item] r IH]; intros h; simpl; [apply frame_refl|].
  set (h1 := h_put h (fresh h) (h_obj h ctx)).
  assert (F1 : frame (hi h) h (h_set h1 (fresh h) k item)).
  { eapply (frame_trans _ _ h1); [apply frame_put; unfold fresh; lia|]. apply frame_set. unfold fresh. lia. }
  eapply frame_chain; [exact F1 | apply IH | apply (frame_hi _ _ _ F1)].
Qed.

Lemma snap_flat_obj h r rv : h_obj h r = flat rv -> snap DEPTH h r = VDict rv.
Proof. intros H. unfold DEPTH. rewrite snap_S, H, snap_obj_flat. reflexivity. Qed.

(* ------------------------------------------------------------------------------------------------ *)
(* one call *)
Arguments snap : simpl never.
Arguments h_deepcopy : simpl never.
Lemma e_get_cons e c v o : e_get ((c, v) :: e) o = if N.eqb o c then Some v else e_get e o.
Proof. reflexivity. Qed.

Lemma step_frame sm s c :
  frame (hi (hp s)) (hp s) (hp (fst (api_step REPAIRED sm s c))) /\
  (forall o, cache_owner c <> Some o -> e_get (ev (fst (api_step REPAIRED sm s c))) o = e_get (ev s) o).
Proof.
  destruct c as [t | m ep | m | q m | c ctx | e ps]; simpl.
  - destruct (api_parse sm (hp s) t) as [h' r] eqn:E. destruct (api_parse_spec _ _ _ _ _ E) as (F & _). simpl. auto.
  - destruct (api_resolve REPAIRED sm (hp s) m ep) as [h' r] eqn:E. destruct (api_resolve_spec _ _ _ _ _ _ E) as (F & _). simpl. auto.
  - destruct (api_expand sm (hp s) m) as [h' r] eqn:E. destruct (api_expand_spec _ _ _ _ _ E) as (F & _). simpl. auto.
  - split; [apply frame_refl | auto].
  - destruct (e_get (ev s) c) as [v|] eqn:Ec; simpl.
    + split; [apply ctx_copies_frame | auto].
    + split; [apply ctx_copies_frame|]. intros o Ho. destruct (N.eqb o c) eqn:Eo; [|reflexivity].
      apply N.eqb_eq in Eo. subst. contradiction Ho. reflexivity.
  - destruct (walk true sm ps e (hp s)) as [h1 v] eqn:E. destruct (walk_ok _ _ _ _ _ _ E) as (F & _). simpl. auto.
Qed.

Lemma step_val sm s c : cache_ok s -> within (hp s) c -> rval (snd (api_step REPAIRED sm s c)) = pure_val sm (hp s) c.
Proof.
  intros Hc Hw. unfold within in Hw.
  destruct c as [t | m ep | m | q m | c ctx | e ps]; simpl in *.
  - inversion Hw as [|? ? Ht _]; subst.
    destruct (api_parse sm (hp s) t) as [h' r] eqn:E. destruct (api_parse_spec _ _ _ _ _ E) as (_ & _ & _ & rv & O & V). simpl.
    rewrite (snap_flat_obj _ _ _ O), (V Ht). reflexivity.
  - assert (Hm : m <= hi (hp s)) by (destruct ep; inversion Hw; assumption).
    destruct (api_resolve REPAIRED sm (hp s) m ep) as [h' r] eqn:E.
    destruct (api_resolve_spec _ _ _ _ _ _ E) as (_ & _ & _ & _ & V). simpl.
    rewrite (V Hm). reflexivity.
  - inversion Hw as [|? ? Hm _]; subst.
    destruct (api_expand sm (hp s) m) as [h' r] eqn:E. destruct (api_expand_spec _ _ _ _ _ E) as (_ & _ & _ & rv & O & V). simpl.
    rewrite (snap_flat_obj _ _ _ O), (V Hm). reflexivity.
  - reflexivity.
  - destruct (e_get (ev s) c) as [v|] eqn:Ec; simpl; [|reflexivity].
    destruct (Hc _ _ Ec) as [_ ->]. reflexivity.
  - inversion Hw as [|? ? Hp _]; subst.
    destruct (walk true sm ps e (hp s)) as [h1 v] eqn:E. destruct (walk_ok _ _ _ _ _ _ E) as (_ & V). simpl. apply V. exact Hp.
Qed.

Lemma cache_ok_frame s h' e' : cache_ok s -> frame (hi (hp s)) (hp s) h' ->
  (forall c v, e_get e' c = Some v -> e_get (ev s) c = Some v \/ (c <= hi (hp s) /\ v = snap DEPTH (hp s) c)) ->
  cache_ok {| hp := h'; ev := e' |}.
Proof.
  intros Hc F He c v E. simpl in *.
  assert (A : c <= hi (hp s) /\ v = snap DEPTH (hp s) c) by (destruct (He _ _ E) as [E0|A]; [apply (Hc _ _ E0) | exact A]).
  destruct A as [Hle ->]. split; [apply frame_hi in F; lia|]. symmetry. apply snap_frame; assumption.
Qed.

Lemma step_cache_ok sm s c : cache_ok s -> within (hp s) c -> cache_ok (fst (api_step REPAIRED sm s c)).
Proof.
  intros Hc Hw. pose proof (step_frame sm s c) as [F _].
  destruct c as [t | m ep | m | q m | c ctx | e ps]; simpl in *.
  - destruct (api_parse sm (hp s) t) as [h' r]. simpl in *. apply (cache_ok_frame s); auto.
  - destruct (api_resolve REPAIRED sm (hp s) m ep) as [h' r]. simpl in *. apply (cache_ok_frame s); auto.
  - destruct (api_expand sm (hp s) m) as [h' r]. simpl in *. apply (cache_ok_frame s); auto.
  - exact Hc.
  - inversion Hw as [|? ? Hcc _]; subst.
    destruct (e_get (ev s) c) as [v|] eqn:Ec; simpl in *.
    + apply (cache_ok_frame s); auto.
    + apply (cache_ok_frame s); auto. intros c' v' E'. rewrite e_get_cons in E'.
      destruct (N.eqb c' c) eqn:Eo; [|left; exact E']. apply N.eqb_eq in Eo. subst. inv E'. right. split; [exact Hcc | reflexivity].
  - destruct (walk true sm ps e (hp s)) as [h1 v]. simpl in *. apply (cache_ok_frame s); auto.
Qed.

Lemma within_frame b h h' c : frame b h h' -> within h c -> within h' c.
Proof. intros F. unfold within. apply Forall_impl. intros o Ho. apply frame_hi in F. lia. Qed.

Lemma pure_val_frame sm h h2 c : frame (hi h) h h2 -> within h c -> pure_val sm h2 c = pure_val sm h c.
Proof.
  intros F Hw. unfold within in Hw.
  assert (G : forall o, o <= RESERVED -> h_obj h2 o = h_obj h o) by (intros o Ho; apply (frame_obj _ _ _ _ F); apply reserved_le; exact Ho).
  destruct c as [t | m ep | m | q m | c ctx | e ps]; simpl in *.
  - inversion Hw as [|? ? Ht _]; subst. rewrite (snap_frame _ _ _ _ F Ht), G by (unfold STRICT_ID, RESERVED; lia). reflexivity.
  - assert (Hm : m <= hi h) by (destruct ep; inversion Hw; assumption).
    rewrite (snap_frame _ _ _ _ F Hm), G by (unfold PSEUDO_ID, RESERVED; lia).
    rewrite (mappings_of_frame _ _ _ F Hm), (leaf_vals_frame _ _ _ _ F (mappings_of_hi h m)).
    destruct ep as [e|]; [|reflexivity].
    inversion Hw as [|? ? _ Hw']; subst. inversion Hw' as [|? ? He _]; subst. rewrite (frame_obj _ _ _ _ F He). reflexivity.
  - inversion Hw as [|? ? Hm _]; subst. rewrite (snap_frame _ _ _ _ F Hm), G by (unfold CATALOGUE_ID, RESERVED; lia). reflexivity.
  - inversion Hw as [|? ? Hm _]; subst. rewrite (snap_frame _ _ _ _ F Hm). reflexivity.
  - inversion Hw as [|? ? Hc Hw']; subst. inversion Hw' as [|? ? Hx _]; subst.
    rewrite (snap_frame _ _ _ _ F Hc), (frame_obj _ _ _ _ F Hx). reflexivity.
  - inversion Hw as [|? ? Hp _]; subst. rewrite (frame_obj _ _ _ _ F Hp). reflexivity.
Qed.

(* ------------------------------------------------------------------------------------------------ *)
(* histories *)
Lemma run_pure sm h0 : forall cs s, frame (hi h0) h0 (hp s) -> cache_ok s -> Forall (within h0) cs ->
  map rval (snd (api_run REPAIRED sm s cs)) = map (pure_val sm h0) cs /\
  frame (hi h0) h0 (hp (fst (api_run REPAIRED sm s cs))) /\ cache_ok (fst (api_run REPAIRED sm s cs)).
Proof.
  induction cs as [|c cs IH]; intros s F Hc Hw; simpl.
  - split; [reflexivity|]. split; assumption.
  - inversion Hw as [|? ? Hwc Hws]; subst.
    assert (Hwc' : within (hp s) c) by (eapply within_frame; eauto).
    pose proof (step_val sm s c Hc Hwc') as V. pose proof (step_cache_ok sm s c Hc Hwc') as Hc1.
    pose proof (step_frame sm s c) as [F1 _].
    destruct (api_step REPAIRED sm s c) as [s1 x] eqn:E. simpl in *.
    assert (F01 : frame (hi h0) h0 (hp s1)) by (eapply frame_chain; [exact F | exact F1 | apply (frame_hi _ _ _ F)]).
    destruct (IH s1 F01 Hc1 Hws) as (V2 & F2 & C2).
    destruct (api_run REPAIRED sm s1 cs) as [s2 xs] eqn:E2. simpl in *.
    split; [|split; assumption]. f_equal; [|exact V2]. rewrite V. apply pure_val_frame; assumption.
Qed.

Lemma run_frame sm : forall cs s, frame (hi (hp s)) (hp s) (hp (fst (api_run REPAIRED sm s cs))).
Proof.
  induction cs as [|c cs IH]; intros s; simpl; [apply frame_refl|].
  pose proof (step_frame sm s c) as [F1 _]. destruct (api_step REPAIRED sm s c) as [s1 x]. simpl in *.
  specialize (IH s1). destruct (api_run REPAIRED sm s1 cs) as [s2 xs]. simpl in *.
  eapply frame_chain; [exact F1 | exact IH | apply (frame_hi _ _ _ F1)].
Qed.

Lemma e_get_filter e c o v : e_get (filter (fun ov => negb (N.eqb c (fst ov))) e) o = Some v -> e_get e o = Some v.
Proof.
  induction e as [|[o' v'] e IH]; simpl; [discriminate|].
  destruct (N.eqb c o') eqn:Ec; simpl.
  - intros H. specialize (IH H). destruct (N.eqb o o') eqn:Eo; [|exact IH].
    apply N.eqb_eq in Ec, Eo. subst. exfalso. clear - H.
    induction e as [|[o2 v2] e IH]; simpl in H; [discriminate|].
    destruct (N.eqb o' o2) eqn:E2; simpl in H; [auto|]. rewrite E2 in H. auto.
  - destruct (N.eqb o o'); [auto | exact IH].
Qed.
Lemma clear_cache_ok s c : cache_ok s -> cache_ok (clear_cache s c).
Proof. intros H c' v E. simpl in *. apply e_get_filter in E. apply (H _ _ E). Qed.

(* ------------------------------------------------------------------------------------------------ *)
(* main statements (re-exported by Properties/C06.v) *)
Theorem frame_thm (sm : sem) (s : state) (c : call) :
  let s' := fst (api_step REPAIRED sm s c) in
  (forall o ob, h_get (hp s) o = Some ob -> h_get (hp s') o = Some ob) /\
  (forall o, o <= hi (hp s) -> h_get (hp s') o = h_get (hp s) o) /\
  (forall o, cache_owner c <> Some o -> e_get (ev s') o = e_get (ev s) o).
Proof.
  intros s'. destruct (step_frame sm s c) as [[F M] C]. split; [|split; [exact F | exact C]].
  intros o ob H. unfold s'. rewrite F; [exact H|]. apply h_get_hi in H. lia.
Qed.

Theorem frame_run_thm (sm : sem) (s : state) (cs : list call) :
  let s' := fst (api_run REPAIRED sm s cs) in
  (forall o ob, h_get (hp s) o = Some ob -> h_get (hp s') o = Some ob) /\
  (forall n o, o <= hi (hp s) -> snap n (hp s') o = snap n (hp s) o).
Proof.
  intros s'. pose proof (run_frame sm cs s) as F. split.
  - intros o ob H. destruct F as [F _]. unfold s'. rewrite F; [exact H|]. apply h_get_hi in H. lia.
  - intros n o Ho. apply snap_frame; assumption.
Qed.

Theorem defaults_thm (sm : sem) (s : state) (cs : list call) :
  let s' := fst (api_run REPAIRED sm s cs) in
  h_get (hp s') PSEUDO_ID = h_get (hp s) PSEUDO_ID /\
  h_get (hp s') CATALOGUE_ID = h_get (hp s) CATALOGUE_ID /\
  h_get (hp s') STRICT_ID = h_get (hp s) STRICT_ID.
Proof.
  intros s'. destruct (run_frame sm cs s) as [F _].
  repeat split; apply F; apply reserved_le; unfold PSEUDO_ID, CATALOGUE_ID, STRICT_ID, RESERVED; lia.
Qed.

Definition returns_model (c : call) : bool :=
  match c with CParse _ | CResolve _ _ | CExpand _ => true | _ => false end.

Lemma flat_reach h r rv o' : h_obj h r = flat rv -> reach h r o' -> o' = r.
Proof.
  intros O R. inversion R as [|? k t ? Hin _]; subst; [reflexivity|]. rewrite O in Hin. exfalso. eapply flat_no_ref; eauto.
Qed.

Lemma step_rid sm s c r : rid (snd (api_step REPAIRED sm s c)) = Some r ->
  hi (hp s) < r /\ forall o', reach (hp (fst (api_step REPAIRED sm s c))) r o' -> hi (hp s) < o'.
Proof.
  destruct c as [t | m ep | m | q m | c ctx | e ps]; simpl.
  - destruct (api_parse sm (hp s) t) as [h' r'] eqn:E. destruct (api_parse_spec _ _ _ _ _ E) as (_ & Hr & _ & rv & O & _).
    simpl. intros H. inv H. split; [exact Hr|]. intros o' R. rewrite (flat_reach _ _ _ _ O R). exact Hr.
  - destruct (api_resolve REPAIRED sm (hp s) m ep) as [h' r'] eqn:E. destruct (api_resolve_spec _ _ _ _ _ _ E) as (_ & Hr & _ & R & _).
    simpl. intros H. inv H. split; [exact Hr | exact R].
  - destruct (api_expand sm (hp s) m) as [h' r'] eqn:E. destruct (api_expand_spec _ _ _ _ _ E) as (_ & Hr & _ & rv & O & _).
    simpl. intros H. inv H. split; [exact Hr|]. intros o' R. rewrite (flat_reach _ _ _ _ O R). exact Hr.
  - discriminate.
  - destruct (e_get (ev s) c); simpl; discriminate.
  - destruct (walk true sm ps e (hp s)); simpl; discriminate.
Qed.

Theorem returns_thm (sm : sem) (s : state) (c : call) :
  if returns_model c then exists r, rid (snd (api_step REPAIRED sm s c)) = Some r
  else rid (snd (api_step REPAIRED sm s c)) = None.
Proof.
  destruct c as [t | m ep | m | q m | c ctx | e ps]; simpl.
  - destruct (api_parse sm (hp s) t). simpl. eauto.
  - destruct (api_resolve REPAIRED sm (hp s) m ep). simpl. eauto.
  - destruct (api_expand sm (hp s) m). simpl. eauto.
  - reflexivity.
  - destruct (e_get (ev s) c); reflexivity.
  - destruct (walk true sm ps e (hp s)); reflexivity.
Qed.

Theorem fresh_thm (sm : sem) (s : state) (c : call) (r : oid) :
  rid (snd (api_step REPAIRED sm s c)) = Some r ->
  let s' := fst (api_step REPAIRED sm s c) in
  h_get (hp s) r = None /\
  (forall o', reach (hp s') r o' -> h_get (hp s) o' = None) /\
  (forall m o', m <= hi (hp s) -> reach (hp s) m o' \/ reach (hp s') m o' -> ~ reach (hp s') r o').
Proof.
  intros H s'. destruct (step_rid sm s c r H) as (Hr & Only). fold s' in Only.
  split; [apply h_get_above; exact Hr|]. split.
  - intros o' R. apply h_get_above. apply (Only _ R).
  - intros m o' Hm Rm Rr. pose proof (Only _ Rr) as Hlt.
    assert (reach (hp s) m o').
    { destruct Rm as [Rm|Rm]; [exact Rm|]. destruct (step_frame sm s c) as [F _]. apply (reach_frame _ _ _ _ F Hm Rm). }
    pose proof (reach_below _ _ _ Hm H0). lia.
Qed.

Theorem history_thm (sm : sem) (s : state) (cs : list call) :
  cache_ok s -> Forall (within (hp s)) cs ->
  map rval (snd (api_run REPAIRED sm s cs)) = map (fun c => rval (snd (api_step REPAIRED sm s c))) cs.
Proof.
  intros Hc Hw. destruct (run_pure sm (hp s) cs s (frame_refl _ _) Hc Hw) as (V & _). rewrite V.
  apply map_ext_in. intros c Hin. symmetry. apply step_val; [exact Hc|]. rewrite Forall_forall in Hw. auto.
Qed.

Theorem prefix_thm (sm : sem) (s : state) (pre : list call) (c : call) :
  cache_ok s -> Forall (within (hp s)) pre -> within (hp s) c ->
  rval (snd (api_step REPAIRED sm (fst (api_run REPAIRED sm s pre)) c)) = rval (snd (api_step REPAIRED sm s c)).
Proof.
  intros Hc Hp Hw. destruct (run_pure sm (hp s) pre s (frame_refl _ _) Hc Hp) as (_ & F & C).
  rewrite step_val by (try assumption; eapply within_frame; eauto).
  rewrite step_val by assumption. apply pure_val_frame; assumption.
Qed.

Theorem cache_thm (sm : sem) (s : state) (c ctx : oid) :
  cache_ok s ->
  rval (snd (api_step REPAIRED sm s (CEval c ctx))) = rval (snd (api_step REPAIRED sm (clear_cache s c) (CEval c ctx))) /\
  cache_ok (clear_cache s c) /\ e_get (ev (clear_cache s c)) c = None.
Proof.
  intros Hc. split; [|split; [apply clear_cache_ok; exact Hc|]].
  - simpl. set (e' := filter (fun ov => negb (N.eqb c (fst ov))) (ev s)).
    destruct (e_get (ev s) c) as [v|] eqn:E1; destruct (e_get e' c) as [v'|] eqn:E2; simpl; try reflexivity.
    + apply e_get_filter in E2. assert (v = v') by congruence. subst. reflexivity.
    + destruct (Hc _ _ E1) as [_ ->]. reflexivity.
    + apply e_get_filter in E2. congruence.
  - simpl. induction (ev s) as [|[o v] e IH]; simpl; [reflexivity|].
    destruct (N.eqb c o) eqn:E; simpl; [exact IH | rewrite E; exact IH].
Qed.

Lemma no_cache_ok h : cache_ok {| hp := h; ev := [] |}.
Proof. intros c v E. discriminate. Qed.

Theorem commute_thm (sm : sem) (s : state) (c1 c2 : call) :
  cache_ok s -> within (hp s) c1 -> within (hp s) c2 ->
  let v1 := rval (snd (api_step REPAIRED sm s c1)) in
  let v2 := rval (snd (api_step REPAIRED sm s c2)) in
  map rval (snd (api_run REPAIRED sm s [c1; c2])) = [v1; v2] /\
  map rval (snd (api_run REPAIRED sm s [c2; c1])) = [v2; v1] /\
  (forall o, o <= hi (hp s) ->
     h_get (hp (fst (api_run REPAIRED sm s [c1; c2]))) o = h_get (hp (fst (api_run REPAIRED sm s [c2; c1]))) o).
Proof.
  intros Hc H1 H2 v1 v2.
  split; [apply (history_thm sm s [c1; c2] Hc); repeat constructor; assumption|].
  split; [apply (history_thm sm s [c2; c1] Hc); repeat constructor; assumption|].
  intros o Ho. destruct (run_frame sm [c1; c2] s) as [F1 _]. destruct (run_frame sm [c2; c1] s) as [F2 _].
  rewrite F1, F2 by exact Ho. reflexivity.
Qed.

Theorem interleaving_thm (sm : sem) (s : state) (cs cs' : list call) :
  cache_ok s -> Forall (within (hp s)) cs -> Permutation cs cs' ->
  map rval (snd (api_run REPAIRED sm s cs')) = map (fun c => rval (snd (api_step REPAIRED sm s c))) cs'.
Proof.
  intros Hc Hw P. apply history_thm; [exact Hc|]. rewrite Forall_forall in *. intros c Hin. apply Hw.
  eapply Permutation_in; [apply Permutation_sym; exact P | exact Hin].
Qed.

Theorem deepcopy_thm (n : nat) (h : heap) (o : oid) :
  let h' := fst (h_deepcopy n h o) in let o' := snd (h_deepcopy n h o) in
  (forall x, x <= hi h -> h_get h' x = h_get h x) /\
  (forall x, reach h' o' x -> hi h < x /\ h_get h x = None) /\
  (o <= hi h -> snap n h' o' = snap n h o).
Proof.
  intros h' o'. destruct (h_deepcopy n h o) as [h1 o1] eqn:E. simpl in *.
  destruct (h_deepcopy_fresh _ _ _ _ _ E) as ([F _] & Ho & _ & C & S).
  split; [exact F|]. split; [|exact S].
  intros x R. pose proof (reach_above _ _ _ _ C Ho R). split; [exact H | apply h_get_above; exact H].
Qed.

Theorem cache_invariant_thm (sm : sem) (s : state) (c : call) :
  (forall h, cache_ok {| hp := h; ev := [] |}) /\
  (cache_ok s -> within (hp s) c -> cache_ok (fst (api_step REPAIRED sm s c))).
Proof. split; [exact no_cache_ok | exact (step_cache_ok sm s c)]. Qed.
