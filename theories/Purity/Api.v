(* The public entry points of pycfmodel as state-passing functions over the object heap of Heap.v.
   Each definition follows the READS and WRITES the code performs on mutable objects (caller's dicts, the receiver
   model, class-level defaults, per-call temporaries); the VALUES computed are delegated to an arbitrary [sem]
   (a record of pure functions), so every theorem holds whatever the resolver / expander / evaluator compute.

   Two switches reproduce the code before two recorded repairs with the SAME definitions:
     flag_copy_extra = false : CFModel.resolve pops the declared names out of the caller's extra_params   (F04, f4b0474)
     flag_copy_sub   = false : resolve_sub does  replacements = params  (alias) and then  update            (F01, 59d9dc0)
   and a third one reproduces a defect found by this property's check:
     flag_copy_leaf  = false : Fn::FindInMap returns the list / dict leaf of self.Mappings itself, so the resolved
                               model shares that object with the model it was resolved from *)
From Coq Require Import List Bool NArith Lia.
From PV Require Import Base.Str Base.Value Resolver.Consts Purity.Heap.
Import ListNotations.
Local Open Scope N_scope.

Record flags := { flag_copy_extra : bool; flag_copy_sub : bool; flag_copy_leaf : bool }.
Definition REPAIRED : flags := {| flag_copy_extra := true; flag_copy_sub := true; flag_copy_leaf := true |}.

(* library-level defaults live at reserved ids *)
Definition PSEUDO_ID : oid := 1.       (* CFModel.PSEUDO_PARAMETERS (ClassVar dict) *)
Definition CATALOGUE_ID : oid := 2.    (* cloudformation_actions.CLOUDFORMATION_ACTIONS (module-level list) *)
Definition STRICT_ID : oid := 3.       (* GenericResource._strict (ClassVar) *)
Definition DEPTH : nat := 4.           (* nesting depth of the modelled object graphs *)
Definition LEAF_DEPTH : nat := 3.      (* = DEPTH - 1: a Mappings leaf sits one level below the model that refers to it *)

Record sem := {
  s_leaf : obj -> value -> value;                    (* rendering of a scalar (may consult the parameters: SSM pattern) *)
  s_ref : obj -> value -> value;                     (* {"Ref": body} against the parameters dict *)
  s_sub : value -> obj -> value;                     (* Fn::Sub text against its replacements dict *)
  s_list : list value -> value;                      (* a list whose members are resolved (AWS::NoValue pruning) *)
  s_node : list (str * value) -> value;              (* an object whose members are resolved: function application or the object *)
  s_refvalue : value -> option cell -> option cell;  (* Parameter.get_ref_value(passed) *)
  s_gate : list (str * value) -> value -> bool;      (* is the resource kept, given the resolved conditions *)
  s_pick : value -> obj -> list str;                 (* the Mappings entries that some Fn::FindInMap of the template selects *)
  s_model : value -> obj -> list (str * value) -> list (str * value) -> list (str * value);
                                                     (* CFModel( **dict_value, Conditions=.., Resources=..); the obj = merged parameters *)
  s_expand : obj -> value -> list (str * value);     (* dumped model with Action/NotAction rewritten against the catalogue *)
  s_validate : obj -> value -> list (str * value);   (* parse: template value -> model (reads _strict) *)
  s_query : N -> value -> value;                     (* the read-only queries, numbered *)
  s_eval : value -> obj -> value;                    (* evaluator built from the condition's dump, applied to the context *)
  s_ctxwrites : value -> obj -> list (str * cell);   (* the (key, item) pairs of the {**kwargs, key: item} copies *)
}.

Definition vdict (v : value) : list (str * value) := match v with VDict d => d | _ => [] end.
Definition vfield (k : str) (v : value) : value := match lookup k (vdict v) with Some x => x | None => VNull end.
Definition flat (d : list (str * value)) : obj := map (fun kv => (fst kv, CVal (snd kv))) d.

(* ---- resolver.resolve(expr, params, ...) : [mg] is the params dict it is given ---- *)
Section Walk.
Variables (copy_sub : bool) (sm : sem) (mg : oid).
Definition sub_repl (h : heap) : heap * oid := if copy_sub then h_copy h mg else h_alias h mg.

Fixpoint walk (v : value) (h : heap) {struct v} : heap * value :=
  match v with
  | VList l =>
      let '(h', l') :=
        (fix go (l : list value) (h : heap) {struct l} : heap * list value :=
           match l with
           | [] => (h, [])
           | x :: xs => let '(h1, x') := walk x h in let '(h2, xs') := go xs h1 in (h2, x' :: xs')
           end) l h in
      (h', s_list sm l')
  | VDict d =>
      let generic := fun (_ : unit) =>
        let '(h', d') :=
          (fix go (d : list (str * value)) (h : heap) {struct d} : heap * list (str * value) :=
             match d with
             | [] => (h, [])
             | (k, x) :: xs => let '(h1, x') := walk x h in let '(h2, xs') := go xs h1 in (h2, (k, x') :: xs')
             end) d h in
        (h', s_node sm d') in
      match d with
      | [(k, body)] =>
          if str_eqb k K_Ref then (h, s_ref sm (h_obj h mg) body)
          else if str_eqb k K_Sub then
            match body with
            | VList [text; VDict locals] =>
                let '(h1, repl) := sub_repl h in                      (* replacements = dict(params) | = params *)
                let '(h2, locals') :=                                  (* resolve(custom_replacements, params, ...) *)
                  (fix go (d : list (str * value)) (h : heap) {struct d} : heap * list (str * value) :=
                     match d with
                     | [] => (h, [])
                     | (k, x) :: xs => let '(h1, x') := walk x h in let '(h2, xs') := go xs h1 in (h2, (k, x') :: xs')
                     end) locals h1 in
                let h3 := h_update h2 repl (flat locals') in           (* replacements.update(...) *)
                (h3, s_sub sm text (h_obj h3 repl))
            | _ => let '(h1, repl) := sub_repl h in (h1, s_sub sm body (h_obj h1 repl))
            end
          else generic tt
      | _ => generic tt
      end
  | _ => (h, s_leaf sm (h_obj h mg) v)
  end.

Definition wlist :=
  fix go (l : list value) (h : heap) {struct l} : heap * list value :=
    match l with
    | [] => (h, [])
    | x :: xs => let '(h1, x') := walk x h in let '(h2, xs') := go xs h1 in (h2, x' :: xs')
    end.
Definition wdict :=
  fix go (d : list (str * value)) (h : heap) {struct d} : heap * list (str * value) :=
    match d with
    | [] => (h, [])
    | (k, x) :: xs => let '(h1, x') := walk x h in let '(h2, xs') := go xs h1 in (h2, (k, x') :: xs')
    end.
End Walk.

(* the same traversal without a heap: what the walk computes when nothing is written into [ob] *)
Section WalkPure.
Variables (sm : sem) (ob : obj).
Fixpoint walk_pure (v : value) {struct v} : value :=
  match v with
  | VList l => s_list sm (map walk_pure l)
  | VDict d =>
      let generic := fun (_ : unit) =>
        s_node sm ((fix go (d : list (str * value)) : list (str * value) :=
                      match d with [] => [] | (k, x) :: xs => (k, walk_pure x) :: go xs end) d) in
      match d with
      | [(k, body)] =>
          if str_eqb k K_Ref then s_ref sm ob body
          else if str_eqb k K_Sub then
            match body with
            | VList [text; VDict locals] =>
                s_sub sm text (o_update ob (flat ((fix go (d : list (str * value)) : list (str * value) :=
                      match d with [] => [] | (k, x) :: xs => (k, walk_pure x) :: go xs end) locals)))
            | _ => s_sub sm body ob
            end
          else generic tt
      | _ => generic tt
      end
  | _ => s_leaf sm ob v
  end.
Definition pdict :=
  fix go (d : list (str * value)) : list (str * value) :=
    match d with [] => [] | (k, x) :: xs => (k, walk_pure x) :: go xs end.
End WalkPure.

(* ---- CFModel.resolve ---- *)
Fixpoint pop_all (sm : sem) (h : heap) (el : oid) (decls : list (str * value)) : heap * obj :=
  match decls with
  | [] => (h, [])
  | (k, d) :: r =>
      let '(h1, passed) := h_pop h el k in                          (* extra_params.pop(key, None) *)
      let '(h2, ps) := pop_all sm h1 el r in
      (h2, match s_refvalue sm d passed with Some c => (k, c) :: ps | None => ps end)
  end.
Fixpoint bind_pure (sm : sem) (ob : obj) (decls : list (str * value)) : obj :=
  match decls with
  | [] => []
  | (k, d) :: r =>
      let ps := bind_pure sm (o_del k ob) r in
      match s_refvalue sm d (lookup k ob) with Some c => (k, c) :: ps | None => ps end
  end.
Fixpoint rest_pure (ob : obj) (decls : list (str * value)) : obj :=
  match decls with [] => ob | (k, _) :: r => rest_pure (o_del k ob) r end.

Definition gated (sm : sem) (rconds : list (str * value)) (rs : list (str * value)) : list (str * value) :=
  filter (fun kv => s_gate sm rconds (snd kv)) rs.

(* self.Mappings is handed to the resolver as it is (not a dump): name -> leaf; a list / dict leaf is an object *)
Definition mappings_of (h : heap) (m : oid) : obj :=
  match lookup K_Mappings (h_obj h m) with Some (CRef mid) => h_obj h mid | _ => [] end.
(* what resolve_find_in_map returns for each selected entry: the leaf itself, or a deep copy of it *)
Fixpoint leaf_cells (copy : bool) (h : heap) (mobj : obj) (ks : list str) : heap * obj :=
  match ks with
  | [] => (h, [])
  | k :: r =>
      match lookup k mobj with
      | Some (CRef leaf) =>
          let '(h1, c) := if copy then (let '(h1, l') := h_deepcopy LEAF_DEPTH h leaf in (h1, CRef l')) else (h, CRef leaf) in
          let '(h2, r') := leaf_cells copy h1 mobj r in (h2, (k, c) :: r')
      | Some (CVal v) => let '(h2, r') := leaf_cells copy h mobj r in (h2, (k, CVal v) :: r')
      | None => leaf_cells copy h mobj r
      end
  end.
Fixpoint leaf_vals (h : heap) (mobj : obj) (ks : list str) : list (str * value) :=
  match ks with
  | [] => []
  | k :: r =>
      match lookup k mobj with
      | Some (CRef leaf) => (k, snap LEAF_DEPTH h leaf) :: leaf_vals h mobj r
      | Some (CVal v) => (k, v) :: leaf_vals h mobj r
      | None => leaf_vals h mobj r
      end
  end.

Definition api_resolve (fl : flags) (sm : sem) (h0 : heap) (m : oid) (ep : option oid) : heap * oid :=
  let '(h1, el) := match ep with
                   | None => h_alloc h0 []                                             (* {} *)
                   | Some e => if flag_copy_extra fl then h_copy h0 e else h_alias h0 e  (* dict(extra_params) | extra_params *)
                   end in
  let decls := vdict (vfield K_Parameters (snap DEPTH h1 m)) in                        (* self.Parameters.items() *)
  let '(h2, params) := pop_all sm h1 el decls in
  let '(h3, mg) := h_alloc h2 (h_obj h2 el ++ params ++ h_obj h2 PSEUDO_ID) in         (* {**PSEUDO, **params, **extra} *)
  let '(h4, d) := h_deepcopy DEPTH h3 m in                                             (* self.model_dump() *)
  let dv := snap DEPTH h4 d in
  let '(h5, _) := h_pop h4 d K_Conditions in                                           (* dict_value.pop("Conditions") *)
  let '(h6, rconds) := wdict (flag_copy_sub fl) sm mg (vdict (vfield K_Conditions dv)) h5 in
  let '(h7, _) := h_pop h6 d K_Resources in                                            (* dict_value.pop("Resources") *)
  let '(h8, rres) := wdict (flag_copy_sub fl) sm mg (gated sm rconds (vdict (vfield K_Resources dv))) h7 in
  let rv := s_model sm dv (h_obj h8 mg) rconds rres in
  let '(h9, lc) := leaf_cells (flag_copy_leaf fl) h8 (mappings_of h8 m) (s_pick sm dv (h_obj h8 mg)) in   (* Fn::FindInMap leaves *)
  h_alloc h9 (flat rv ++ lc).                                                          (* CFModel( **dict_value, ...) : new *)

Definition pure_merged (sm : sem) (mv : value) (epo pseudo : obj) : obj :=
  let decls := vdict (vfield K_Parameters mv) in
  rest_pure epo decls ++ bind_pure sm epo decls ++ pseudo.
Definition pure_resolve (sm : sem) (mv : value) (epo pseudo : obj) : list (str * value) :=
  let merged := pure_merged sm mv epo pseudo in
  let rconds := pdict sm merged (vdict (vfield K_Conditions mv)) in
  let rres := pdict sm merged (gated sm rconds (vdict (vfield K_Resources mv))) in
  s_model sm mv merged rconds rres.

(* ---- CFModel.expand_actions ---- *)
Definition api_expand (sm : sem) (h0 : heap) (m : oid) : heap * oid :=
  let '(h1, d) := h_deepcopy DEPTH h0 m in                                             (* self.model_dump() *)
  let ex := s_expand sm (h_obj h1 CATALOGUE_ID) (snap DEPTH h1 d) in
  let h2 := h_set h1 d K_Resources (CVal (vfield K_Resources (VDict ex))) in           (* in-place rewrite of the dump *)
  h_alloc h2 (flat ex).                                                                (* CFModel( **dict_value, ...) : new *)

(* ---- pycfmodel.parse ---- *)
Definition api_parse (sm : sem) (h0 : heap) (t : oid) : heap * oid :=
  let '(h1, d) := h_deepcopy DEPTH h0 t in                                             (* validation builds new objects *)
  h_alloc h1 (flat (s_validate sm (h_obj h1 STRICT_ID) (snap DEPTH h1 d))).

(* ---- StatementCondition.__call__ / eval ---- *)
Fixpoint ctx_copies (h : heap) (ctx : oid) (ws : list (str * cell)) : heap :=
  match ws with
  | [] => h
  | (k, item) :: r => let '(h1, cp) := h_copy h ctx in ctx_copies (h_set h1 cp k item) ctx r   (* {**kwargs, key: item} *)
  end.

Record state := { hp : heap; ev : list (oid * value) }.    (* ev: the private _eval attribute of condition objects *)
Fixpoint e_get (e : list (oid * value)) (o : oid) : option value :=
  match e with [] => None | (o', v) :: r => if N.eqb o o' then Some v else e_get r o end.

Inductive call :=
| CParse (t : oid)
| CResolve (m : oid) (ep : option oid)
| CExpand (m : oid)
| CQuery (q : N) (m : oid)
| CEval (c ctx : oid)
| CExpr (e : value) (ps : oid).
Record result := { rid : option oid; rval : value }.

Definition model_result (s : state) (hr : heap * oid) : state * result :=
  ({| hp := fst hr; ev := ev s |}, {| rid := Some (snd hr); rval := snap DEPTH (fst hr) (snd hr) |}).

Definition api_step (fl : flags) (sm : sem) (s : state) (c : call) : state * result :=
  match c with
  | CParse t => model_result s (api_parse sm (hp s) t)
  | CResolve m ep => model_result s (api_resolve fl sm (hp s) m ep)
  | CExpand m => model_result s (api_expand sm (hp s) m)
  | CQuery q m => (s, {| rid := None; rval := s_query sm q (snap DEPTH (hp s) m) |})
  | CEval c ctx =>
      let fields := snap DEPTH (hp s) c in                                             (* self.model_dump() *)
      let '(closure, ev') := match e_get (ev s) c with
                             | Some v => (v, ev s)
                             | None => (fields, (c, fields) :: ev s)                   (* self._eval = build_eval(dump) *)
                             end in
      let h1 := ctx_copies (hp s) ctx (s_ctxwrites sm closure (h_obj (hp s) ctx)) in
      ({| hp := h1; ev := ev' |}, {| rid := None; rval := s_eval sm closure (h_obj (hp s) ctx) |})
  | CExpr e ps =>
      let '(h1, v) := walk (flag_copy_sub fl) sm ps e (hp s) in
      ({| hp := h1; ev := ev s |}, {| rid := None; rval := v |})
  end.

Fixpoint api_run (fl : flags) (sm : sem) (s : state) (cs : list call) : state * list result :=
  match cs with
  | [] => (s, [])
  | c :: r => let '(s1, x) := api_step fl sm s c in let '(s2, xs) := api_run fl sm s1 r in (s2, x :: xs)
  end.

(* what a call reads: the value it returns on a state in which nothing was ever written by earlier calls *)
Definition pure_val (sm : sem) (h : heap) (c : call) : value :=
  match c with
  | CParse t => VDict (s_validate sm (h_obj h STRICT_ID) (snap DEPTH h t))
  | CResolve m ep =>
      let mv := snap DEPTH h m in
      let epo := match ep with Some e => h_obj h e | None => [] end in
      VDict (pure_resolve sm mv epo (h_obj h PSEUDO_ID) ++
             leaf_vals h (mappings_of h m) (s_pick sm mv (pure_merged sm mv epo (h_obj h PSEUDO_ID))))
  | CExpand m => VDict (s_expand sm (h_obj h CATALOGUE_ID) (snap DEPTH h m))
  | CQuery q m => s_query sm q (snap DEPTH h m)
  | CEval c ctx => s_eval sm (snap DEPTH h c) (h_obj h ctx)
  | CExpr e ps => walk_pure sm (h_obj h ps) e
  end.

Definition call_args (c : call) : list oid :=
  match c with
  | CParse t => [t]
  | CResolve m (Some e) => [m; e]
  | CResolve m None => [m]
  | CExpand m => [m]
  | CQuery _ m => [m]
  | CEval c ctx => [c; ctx]
  | CExpr _ ps => [ps]
  end.
(* every object the call names is already in use (it is not an id that a later allocation could hand out) *)
Definition within (h : heap) (c : call) : Prop := Forall (fun o => o <= hi h) (call_args c).
Definition cache_owner (c : call) : option oid := match c with CEval c _ => Some c | _ => None end.
Definition receiver (c : call) : option oid :=
  match c with CResolve m _ | CExpand m => Some m | _ => None end.

(* a filled cache holds the evaluator of the condition's own (unchanged) fields *)
Definition cache_ok (s : state) : Prop :=
  forall c v, e_get (ev s) c = Some v -> c <= hi (hp s) /\ v = snap DEPTH (hp s) c.
Definition clear_cache (s : state) (c : oid) : state :=
  {| hp := hp s; ev := filter (fun ov => negb (N.eqb c (fst ov))) (ev s) |}.
