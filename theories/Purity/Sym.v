(* A concrete [sem] for running the heap model (runner ops, vm_compute examples).
   The pieces that touch the mutable dicts are the real ones (Parameter.get_ref_value, Ref lookup, Fn::Sub
   tokenising and substitution, SSM / boolean leaf rendering); every other operation is left SYMBOLIC and
   records all of its inputs, so two symbolic results are equal exactly when the same operation was applied to
   equal inputs.  Hence "equal in the symbolic model" implies "equal for any deterministic implementation". *)
From Coq Require Import List Bool NArith ZArith.
From PV Require Import Base.Str Base.Value Resolver.Consts Resolver.Text Resolver.Resolve Resolver.Template
  Purity.Heap Purity.Api.
Import ListNotations.
Local Open Scope N_scope.

Definition T_OP : str := [36;111;112].                     (* "$op" *)
Definition T_resolve : str := [114;101;115;111;108;118;101].
Definition T_expand : str := [101;120;112;97;110;100].
Definition T_parse : str := [112;97;114;115;101].
Definition T_query : str := [113;117;101;114;121].
Definition T_eval : str := [101;118;97;108].

Definition vals (ob : obj) : list (str * value) :=
  flat_map (fun kc => match snd kc with CVal v => [(fst kc, v)] | CRef _ => [] end) ob.
Definition without (ks : list str) (d : list (str * value)) : list (str * value) :=
  filter (fun kv => negb (mem_str (fst kv) ks)) d.

Definition sym_ref (ob : obj) (body : value) : value :=
  match body with
  | VStr n => match lookup n ob with
              | Some (CVal v) => v
              | Some (CRef _) => VNull
              | None => VStr (undefined_param n)
              end
  | _ => VNull
  end.
Definition sym_sub (text : value) (ob : obj) : value :=
  match text with
  | VStr t =>
      match do_sub {| params := vals ob; mappings := []; conds := fun _ => Ok false |} t [] with
      | Ok v => v
      | Err _ => VList [VStr t; VDict (vals ob)]
      end
  | _ => VNull
  end.
Definition sym_leaf (ob : obj) (v : value) : value :=
  match v with VStr s => VStr (render_str (vals ob) s) | _ => v end.
Definition sym_refvalue (d : value) (passed : option cell) : option cell :=
  let prov := match passed with Some (CVal VNull) | None | Some (CRef _) => None | Some (CVal v) => Some v end in
  match ref_value d prov with
  | Ok (Some v) => Some (CVal v)
  | Ok None => None
  | Err _ => passed
  end.

Definition SYM : sem := {|
  s_leaf := sym_leaf;
  s_ref := sym_ref;
  s_sub := sym_sub;
  s_list := VList;
  s_node := VDict;
  s_refvalue := sym_refvalue;
  s_gate := fun _ _ => true;
  s_pick := fun dv _ => keys (vdict (vfield K_Mappings dv));
  s_model := fun dv merged rconds rres =>
    (T_OP, VList [VStr T_resolve; vfield T_OP dv; VDict (vals merged)]) ::
    (K_Conditions, VDict rconds) :: (K_Resources, VDict rres) :: without [T_OP; K_Conditions; K_Resources] (vdict dv);
  s_expand := fun cat dv =>
    (T_OP, VList [VStr T_expand; vfield T_OP dv; VDict (vals cat)]) :: without [T_OP] (vdict dv);
  s_validate := fun strict v => (T_OP, VList [VStr T_parse; VDict (vals strict)]) :: without [T_OP] (vdict v);
  s_query := fun q v => VList [VStr T_query; VInt (Z.of_N q); v];
  s_eval := fun closure ctx => VList [VStr T_eval; closure; VDict (vals ctx)];
  s_ctxwrites := fun _ ctx => match ctx with (k, c) :: _ => [(k, c)] | [] => [] end;
|}.
