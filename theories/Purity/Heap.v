(* A tiny object heap: the MUTABLE objects of the implementation (Python dicts and the objects built from them)
   are modelled explicitly, so that "this call does not modify that object" is a statement with content.
   An object is a dict whose cells hold an immutable JSON value or a reference to another object. *)
From Coq Require Import List Bool NArith Lia.
From PV Require Import Base.Str Base.Value.
Import ListNotations.
Local Open Scope N_scope.

Definition oid := N.
Inductive cell := CVal (v : value) | CRef (o : oid).
Definition obj := list (str * cell).            (* a Python dict: first binding of a key wins *)
Definition heap := list (oid * obj).            (* newest binding of an id wins *)

(* ids 1..3 are reserved for the library-level defaults (see Api.v) *)
Definition RESERVED : N := 3.

Fixpoint h_get (h : heap) (o : oid) : option obj :=
  match h with
  | [] => None
  | (o', ob) :: r => if N.eqb o o' then Some ob else h_get r o
  end.
Definition h_put (h : heap) (o : oid) (ob : obj) : heap := (o, ob) :: h.
Definition h_obj (h : heap) (o : oid) : obj := match h_get h o with Some ob => ob | None => [] end.

Definition cell_hi (c : cell) : N := match c with CRef r => r | CVal _ => 0 end.
Fixpoint obj_hi (ob : obj) : N :=
  match ob with [] => 0 | (_, c) :: r => N.max (cell_hi c) (obj_hi r) end.
(* highest id in use: reserved ids, ids of objects, ids mentioned inside objects *)
Fixpoint hi (h : heap) : N :=
  match h with [] => RESERVED | (o, ob) :: r => N.max (N.max o (obj_hi ob)) (hi r) end.
Definition fresh (h : heap) : oid := N.succ (hi h).
Definition h_alloc (h : heap) (ob : obj) : heap * oid := (h_put h (fresh h) ob, fresh h).

(* ---- dict operations on one object ---- *)
Definition o_del (k : str) (ob : obj) : obj := filter (fun kc => negb (str_eqb k (fst kc))) ob.
Definition o_set (k : str) (c : cell) (ob : obj) : obj := (k, c) :: o_del k ob.
(* dict.update: bindings of src replace those of dst *)
Definition o_update (dst src : obj) : obj := src ++ filter (fun kc => negb (mem_str (fst kc) (keys src))) dst.

(* ---- heap operations ---- *)
Definition h_copy (h : heap) (o : oid) : heap * oid := h_alloc h (h_obj h o).       (* dict(d): shallow, fresh id *)
Definition h_alias (h : heap) (o : oid) : heap * oid := (h, o).                      (* x = d *)
Definition h_update (h : heap) (dst : oid) (src : obj) : heap := h_put h dst (o_update (h_obj h dst) src).
Definition h_pop (h : heap) (o : oid) (k : str) : heap * option cell :=
  (h_put h o (o_del k (h_obj h o)), lookup k (h_obj h o)).
Definition h_set (h : heap) (o : oid) (k : str) (c : cell) : heap := h_put h o (o_set k c (h_obj h o)).
Definition h_getk (h : heap) (o : oid) (k : str) : option cell := lookup k (h_obj h o).

(* model_dump / deepcopy: fresh ids for everything reachable, down to depth n (deeper references are cut) *)
Fixpoint h_deepcopy (n : nat) (h : heap) (o : oid) {struct n} : heap * oid :=
  match n with
  | O => h_alloc h []
  | S n' =>
      let '(h', ob') :=
        (fix go (h : heap) (ob : obj) {struct ob} : heap * obj :=
           match ob with
           | [] => (h, [])
           | (k, CVal v) :: r => let '(h1, r') := go h r in (h1, (k, CVal v) :: r')
           | (k, CRef t) :: r =>
               let '(h1, t') := h_deepcopy n' h t in
               let '(h2, r') := go h1 r in (h2, (k, CRef t') :: r')
           end) h (h_obj h o) in
      h_alloc h' ob'
  end.

(* deep snapshot of an object as a JSON value (what model_dump / canonical JSON of a dict shows), depth n *)
Fixpoint snap (n : nat) (h : heap) (o : oid) {struct n} : value :=
  match n with
  | O => VDict []
  | S n' => VDict (map (fun kc => (fst kc, match snd kc with CVal v => v | CRef t => snap n' h t end)) (h_obj h o))
  end.
Definition snap_obj (n : nat) (h : heap) (ob : obj) : list (str * value) :=
  map (fun kc => (fst kc, match snd kc with CVal v => v | CRef t => snap n h t end)) ob.
Lemma snap_S n h o : snap (S n) h o = VDict (snap_obj n h (h_obj h o)).
Proof. reflexivity. Qed.

(* reachability through reference cells *)
Inductive reach (h : heap) : oid -> oid -> Prop :=
| reach_refl o : reach h o o
| reach_step o k r o' : In (k, CRef r) (h_obj h o) -> reach h r o' -> reach h o o'.

(* ---- frame: h' agrees with h on every id <= b, and no id went out of use ---- *)
Definition frame (b : N) (h h' : heap) : Prop :=
  (forall o, o <= b -> h_get h' o = h_get h o) /\ hi h <= hi h'.

Lemma frame_refl b h : frame b h h.
Proof. split; [reflexivity | lia]. Qed.
Lemma frame_trans b h1 h2 h3 : frame b h1 h2 -> frame b h2 h3 -> frame b h1 h3.
Proof. intros [A1 B1] [A2 B2]. split; [intros o Ho; rewrite A2, A1; auto | lia]. Qed.
Lemma frame_weaken b b' h h' : b' <= b -> frame b h h' -> frame b' h h'.
Proof. intros Hb [A B]. split; [intros o Ho; apply A; lia | exact B]. Qed.
Lemma frame_obj b h h' o : frame b h h' -> o <= b -> h_obj h' o = h_obj h o.
Proof. intros [A _] Ho. unfold h_obj. rewrite A; auto. Qed.

Lemma hi_reserved h : RESERVED <= hi h.
Proof. induction h as [|[o ob] r IH]; simpl; lia. Qed.
Lemma h_get_hi h o ob : h_get h o = Some ob -> o <= hi h /\ obj_hi ob <= hi h.
Proof.
  induction h as [|[o' ob'] r IH]; simpl; [discriminate|].
  destruct (N.eqb o o') eqn:E.
  - apply N.eqb_eq in E. subst. intros H. inv H. lia.
  - intros H. specialize (IH H). lia.
Qed.
(* reading is unaffected by allocation: an id above [hi] names nothing *)
Lemma h_get_above h o : hi h < o -> h_get h o = None.
Proof. intros H. destruct (h_get h o) eqn:E; [|reflexivity]. apply h_get_hi in E. lia. Qed.
Lemma fresh_unused h : h_get h (fresh h) = None.
Proof. apply h_get_above. unfold fresh. lia. Qed.
Lemma obj_hi_in k r ob : In (k, CRef r) ob -> r <= obj_hi ob.
Proof.
  induction ob as [|[k' c] ob IH]; simpl; [tauto|]. intros [H|H]; [inv H; simpl; lia|]. specialize (IH H). lia.
Qed.
Lemma h_obj_hi h o : obj_hi (h_obj h o) <= hi h.
Proof. unfold h_obj. destruct (h_get h o) eqn:E; [apply h_get_hi in E; lia | simpl; lia]. Qed.
Lemma ref_below h o k r : In (k, CRef r) (h_obj h o) -> r <= hi h.
Proof. intros H. apply obj_hi_in in H. pose proof (h_obj_hi h o). lia. Qed.

Lemma h_get_put_same h o ob : h_get (h_put h o ob) o = Some ob.
Proof. simpl. rewrite N.eqb_refl. reflexivity. Qed.
Lemma h_get_put_other h o ob o' : o' <> o -> h_get (h_put h o ob) o' = h_get h o'.
Proof. intros H. simpl. destruct (N.eqb o' o) eqn:E; [apply N.eqb_eq in E; contradiction | reflexivity]. Qed.
Lemma hi_put h o ob : hi (h_put h o ob) = N.max (N.max o (obj_hi ob)) (hi h).
Proof. reflexivity. Qed.

(* writing to an id above b leaves every object up to b unchanged *)
Lemma frame_put b h o ob : b < o -> frame b h (h_put h o ob).
Proof.
  intros Hb. split; [|rewrite hi_put; lia].
  intros o' Ho. apply h_get_put_other. lia.
Qed.
Lemma frame_alloc h ob : frame (hi h) h (fst (h_alloc h ob)).
Proof. apply frame_put. unfold fresh. lia. Qed.
Lemma alloc_fresh h ob : hi h < snd (h_alloc h ob).
Proof. simpl. unfold fresh. lia. Qed.
Lemma alloc_get h ob : h_obj (fst (h_alloc h ob)) (snd (h_alloc h ob)) = ob.
Proof. unfold h_obj. simpl. rewrite N.eqb_refl. reflexivity. Qed.
Lemma alloc_hi h ob : snd (h_alloc h ob) <= hi (fst (h_alloc h ob)).
Proof. simpl. lia. Qed.
Lemma frame_update b h dst src : b < dst -> frame b h (h_update h dst src).
Proof. apply frame_put. Qed.
Lemma frame_set b h o k c : b < o -> frame b h (h_set h o k c).
Proof. apply frame_put. Qed.
Lemma frame_pop b h o k : b < o -> frame b h (fst (h_pop h o k)).
Proof. apply frame_put. Qed.

(* snapshots of old objects do not change under a frame *)
Lemma snap_frame n : forall h h' o, frame (hi h) h h' -> o <= hi h -> snap n h' o = snap n h o.
Proof.
  induction n as [|n IH]; intros h h' o F Ho; [reflexivity|].
  simpl. rewrite (frame_obj _ _ _ _ F Ho). f_equal.
  apply map_ext_in. intros [k c] Hin. simpl. destruct c as [v|t]; [reflexivity|].
  f_equal. apply IH; [exact F|]. eapply ref_below. exact Hin.
Qed.
Lemma snap_obj_frame n h h' ob : frame (hi h) h h' -> obj_hi ob <= hi h -> snap_obj n h' ob = snap_obj n h ob.
Proof.
  intros F Hb. unfold snap_obj. apply map_ext_in. intros [k c] Hin. simpl. destruct c as [v|t]; [reflexivity|].
  f_equal. apply snap_frame; [exact F|]. apply obj_hi_in in Hin. lia.
Qed.

(* objects above b whose references all point above b: "fresh objects only point to fresh objects" *)
Definition closed_above (b : N) (h : heap) : Prop :=
  forall o k r, b < o -> In (k, CRef r) (h_obj h o) -> b < r.
Lemma reach_above b h o o' : closed_above b h -> b < o -> reach h o o' -> b < o'.
Proof. intros C Ho R. induction R as [|o k r o' Hin R IH]; [exact Ho|]. apply IH. eapply C; eauto. Qed.
Lemma reach_below h o o' : o <= hi h -> reach h o o' -> o' <= hi h.
Proof. intros Ho R. induction R as [|o k r o' Hin R IH]; [exact Ho|]. apply IH. eapply ref_below; eauto. Qed.
Lemma reach_frame h h' o o' : frame (hi h) h h' -> o <= hi h -> reach h' o o' -> reach h o o'.
Proof.
  intros F Ho R. induction R as [|o k r o' Hin R IH]; [constructor|].
  rewrite (frame_obj _ _ _ _ F Ho) in Hin. econstructor; [exact Hin|]. apply IH. eapply ref_below; eauto.
Qed.

Lemma closed_above_put b h o ob : closed_above b h -> (forall k r, In (k, CRef r) ob -> b < r) -> closed_above b (h_put h o ob).
Proof.
  intros C Hob o' k r Ho' Hin. unfold h_obj in Hin. destruct (N.eq_dec o' o) as [->|Hne].
  - rewrite h_get_put_same in Hin. eapply Hob; eauto.
  - rewrite h_get_put_other in Hin by exact Hne. eapply C; eauto.
Qed.
Lemma closed_above_frame_init h : closed_above (hi h) h.
Proof. intros o k r Ho Hin. unfold h_obj in Hin. rewrite h_get_above in Hin by exact Ho. destruct Hin. Qed.

(* ---- deep copy: allocates only; the copy is fresh, closed, and has the same snapshot ---- *)
Section DeepCopy.
Variable b : N.
Definition dc_go (n' : nat) :=
  fix go (h : heap) (ob : obj) {struct ob} : heap * obj :=
    match ob with
    | [] => (h, [])
    | (k, CVal v) :: r => let '(h1, r') := go h r in (h1, (k, CVal v) :: r')
    | (k, CRef t) :: r =>
        let '(h1, t') := h_deepcopy n' h t in
        let '(h2, r') := go h1 r in (h2, (k, CRef t') :: r')
    end.
Lemma h_deepcopy_S n' h o : h_deepcopy (S n') h o = let '(h', ob') := dc_go n' h (h_obj h o) in h_alloc h' ob'.
Proof. reflexivity. Qed.

Definition dc_ok (n : nat) : Prop := forall h o h' o',
  b <= hi h -> closed_above b h -> h_deepcopy n h o = (h', o') ->
  frame (hi h) h h' /\ hi h < o' /\ o' <= hi h' /\ closed_above b h' /\
  (o <= hi h -> snap n h' o' = snap n h o).

Lemma dc_go_ok n' : dc_ok n' -> forall ob h h' ob',
  b <= hi h -> closed_above b h -> dc_go n' h ob = (h', ob') ->
  frame (hi h) h h' /\ closed_above b h' /\ (forall k r, In (k, CRef r) ob' -> hi h < r /\ r <= hi h') /\
  (obj_hi ob <= hi h -> snap_obj n' h' ob' = snap_obj n' h ob).
Proof.
  intros IHn. induction ob as [|[k c] r IH]; intros h h' ob' Hb C E.
  - simpl in E. inv E. split; [apply frame_refl|]. split; [exact C|]. split; [intros k r []|]. reflexivity.
  - destruct c as [v|t]; simpl in E.
    + destruct (dc_go n' h r) as [h1 r'] eqn:E1. inv E.
      destruct (IH _ _ _ Hb C E1) as (F & C' & R & S).
      split; [exact F|]. split; [exact C'|]. split.
      * intros k' r0 [H|H]; [inv H | apply (R _ _ H)].
      * intros Hh. simpl in Hh. simpl. f_equal. apply S. lia.
    + destruct (h_deepcopy n' h t) as [h1 t'] eqn:E0.
      destruct (dc_go n' h1 r) as [h2 r'] eqn:E1. inv E.
      destruct (IHn _ _ _ _ Hb C E0) as (F0 & Hf & Hle & C0 & S0).
      assert (Hb1 : b <= hi h1) by (destruct F0; lia).
      destruct (IH _ _ _ Hb1 C0 E1) as (F1 & C1 & R1 & S1).
      assert (F01 : frame (hi h) h h').
      { eapply frame_trans; [exact F0|]. eapply frame_weaken; [|exact F1]. destruct F0; lia. }
      split; [exact F01|]. split; [exact C1|]. split.
      * intros k' r0 [H|H].
        -- inv H. destruct F1. lia.
        -- destruct (R1 _ _ H). destruct F0. lia.
      * intros Hh. simpl in Hh. simpl. f_equal.
        -- f_equal. rewrite (snap_frame n' h1 h' t' F1 Hle). apply S0. lia.
        -- rewrite S1 by (destruct F0; lia). apply snap_obj_frame; [exact F0 | lia].
Qed.

Lemma obj_hi_bound ob m : (forall k r, In (k, CRef r) ob -> r <= m) -> obj_hi ob <= m.
Proof.
  induction ob as [|[k c] ob IH]; simpl; intros H; [lia|].
  assert (obj_hi ob <= m) by (apply IH; intros k' r' Hin; eapply H; right; exact Hin).
  destruct c as [v|t]; simpl; [lia|]. specialize (H k t (or_introl eq_refl)). lia.
Qed.

Lemma h_deepcopy_ok n : dc_ok n.
Proof.
  induction n as [|n IHn]; intros h o h' o' Hb C E.
  - simpl in E. inv E. split; [apply frame_put; unfold fresh; lia|].
    split; [unfold fresh; lia|]. split; [rewrite hi_put; lia|].
    split; [apply closed_above_put; [exact C | intros k r []]|]. reflexivity.
  - rewrite h_deepcopy_S in E. destruct (dc_go n h (h_obj h o)) as [h1 ob1] eqn:E1. inv E.
    destruct (dc_go_ok n IHn _ _ _ _ Hb C E1) as (F & C1 & R & S).
    split. { eapply frame_trans; [exact F|]. eapply frame_weaken; [|apply frame_alloc]. destruct F; lia. }
    split. { destruct F. unfold fresh. lia. }
    split. { rewrite hi_put. lia. }
    split. { apply closed_above_put; [exact C1|]. intros k r Hin. destruct (R _ _ Hin). lia. }
    intros Ho. rewrite snap_S. unfold h_obj at 1. rewrite h_get_put_same.
    rewrite snap_S. f_equal.
    rewrite <- S by apply h_obj_hi.
    apply snap_obj_frame.
    + apply frame_put. unfold fresh. lia.
    + apply obj_hi_bound. intros k r Hin. apply (R _ _ Hin).
Qed.
End DeepCopy.

(* the usual instance: b = hi h *)
Lemma h_deepcopy_fresh n h o h' o' : h_deepcopy n h o = (h', o') ->
  frame (hi h) h h' /\ hi h < o' /\ o' <= hi h' /\ closed_above (hi h) h' /\ (o <= hi h -> snap n h' o' = snap n h o).
Proof. intros E. eapply (h_deepcopy_ok (hi h)); [lia | apply closed_above_frame_init | exact E]. Qed.
