(* Laws over whole HISTORIES (lists of calls) for the repaired flags.  Each is an induction over the call list that
   uses the one-step lemmas of Facts.v (step_frame, step_val, step_cache_ok, pure_val_frame, run_pure, run_frame).

   A history is a list of calls with CONCRETE object ids, and the heap hands out ids deterministically
   (fresh = succ hi).  A call may name the result of an earlier call (an id above the initial high-water mark);
   [valid_run] says only that every call names objects that exist when it runs.
   Consequence for DELETION / DUPLICATION / PERMUTATION: removing, repeating or moving a call shifts the ids of every
   object allocated after it, so a later call that names such an object BY ITS ID would name another (or no) object
   in the edited history.  The laws are therefore stated for an arbitrary valid prefix [pre] (whose calls may use each
   other's results freely) and a suffix whose calls name objects existing at the edit point (initial objects or
   results of the prefix).  That this side condition is needed for id-named histories is shown by
   C06_delete_needs_side_condition in Properties/C06.v (an artefact of naming by id, not a behaviour of the library). *)
From Coq Require Import List Bool NArith PeanoNat Lia Permutation.
From PV Require Import Base.Str Base.Value Resolver.Consts Purity.Heap Purity.Api Purity.Facts.
Import ListNotations.
Local Open Scope N_scope.

(* every call names objects that exist when it runs (initial ones or results of earlier calls) *)
Fixpoint valid_run (sm : sem) (s : state) (cs : list call) : Prop :=
  match cs with
  | [] => True
  | c :: r => within (hp s) c /\ valid_run sm (fst (api_step REPAIRED sm s c)) r
  end.

Definition run_state (sm : sem) (s : state) (cs : list call) : state := fst (api_run REPAIRED sm s cs).
Definition run_vals (sm : sem) (s : state) (cs : list call) : list value := map rval (snd (api_run REPAIRED sm s cs)).
Definition drop_nth {A} (n : nat) (l : list A) : list A := firstn n l ++ skipn (S n) l.

Lemma run_app sm : forall a s b,
  api_run REPAIRED sm s (a ++ b) =
  (fst (api_run REPAIRED sm (fst (api_run REPAIRED sm s a)) b),
   snd (api_run REPAIRED sm s a) ++ snd (api_run REPAIRED sm (fst (api_run REPAIRED sm s a)) b)).
Proof.
  induction a as [|c a IH]; intros s b; simpl.
  - destruct (api_run REPAIRED sm s b) as [s2 xs]. reflexivity.
  - destruct (api_step REPAIRED sm s c) as [s1 x]. rewrite IH.
    destruct (api_run REPAIRED sm s1 a) as [s2 xs]. simpl. reflexivity.
Qed.

Lemma run_vals_app sm s a b : run_vals sm s (a ++ b) = run_vals sm s a ++ run_vals sm (run_state sm s a) b.
Proof. unfold run_vals, run_state. rewrite run_app. simpl. apply map_app. Qed.
Lemma run_vals_length sm : forall cs s, length (run_vals sm s cs) = length cs.
Proof.
  unfold run_vals. induction cs as [|c cs IH]; intros s; simpl; [reflexivity|].
  destruct (api_step REPAIRED sm s c) as [s1 x]. specialize (IH s1).
  destruct (api_run REPAIRED sm s1 cs) as [s2 xs]. simpl in *. f_equal. exact IH.
Qed.

(* a valid history keeps the cache invariant and the initial heap *)
Lemma valid_run_ok sm h0 : forall cs s, frame (hi h0) h0 (hp s) -> cache_ok s -> valid_run sm s cs ->
  frame (hi h0) h0 (hp (run_state sm s cs)) /\ cache_ok (run_state sm s cs).
Proof.
  unfold run_state. induction cs as [|c cs IH]; intros s F Hc Hv; simpl; [split; assumption|].
  destruct Hv as [Hw Hv].
  pose proof (step_cache_ok sm s c Hc Hw) as Hc1. pose proof (step_frame sm s c) as [F1 _].
  destruct (api_step REPAIRED sm s c) as [s1 x] eqn:E. simpl in *.
  assert (F01 : frame (hi h0) h0 (hp s1)) by (eapply frame_chain; [exact F | exact F1 | apply (frame_hi _ _ _ F)]).
  specialize (IH s1 F01 Hc1 Hv). destruct (api_run REPAIRED sm s1 cs) as [s2 xs]. simpl in *. exact IH.
Qed.

(* ---- 1. REPLAY ---- *)
Lemma replay_gen sm h0 : forall cs s k c, frame (hi h0) h0 (hp s) -> cache_ok s -> valid_run sm s cs ->
  nth_error cs k = Some c -> within h0 c -> nth_error (run_vals sm s cs) k = Some (pure_val sm h0 c).
Proof.
  unfold run_vals. induction cs as [|c0 cs IH]; intros s k c F Hc Hv Hk Hw; [destruct k; discriminate|].
  simpl in Hv. destruct Hv as [Hw0 Hv]. simpl.
  pose proof (step_val sm s c0 Hc Hw0) as V. pose proof (step_cache_ok sm s c0 Hc Hw0) as Hc1.
  pose proof (step_frame sm s c0) as [F1 _].
  destruct (api_step REPAIRED sm s c0) as [s1 x] eqn:E. simpl in *.
  assert (F01 : frame (hi h0) h0 (hp s1)) by (eapply frame_chain; [exact F | exact F1 | apply (frame_hi _ _ _ F)]).
  destruct k as [|k]; simpl in Hk.
  - inversion Hk; subst c0. destruct (api_run REPAIRED sm s1 cs) as [s2 xs]. simpl. f_equal.
    rewrite V. apply pure_val_frame; assumption.
  - specialize (IH s1 k c F01 Hc1 Hv Hk Hw). destruct (api_run REPAIRED sm s1 cs) as [s2 xs]. simpl in *. exact IH.
Qed.

Theorem replay_thm (sm : sem) (s : state) (cs : list call) (k : nat) (c : call) :
  cache_ok s -> valid_run sm s cs -> nth_error cs k = Some c -> within (hp s) c ->
  nth_error (run_vals sm s cs) k = Some (pure_val sm (hp s) c) /\
  pure_val sm (hp s) c = rval (snd (api_step REPAIRED sm s c)).
Proof.
  intros Hc Hv Hk Hw. split.
  - eapply replay_gen; eauto. apply frame_refl.
  - symmetry. apply step_val; assumption.
Qed.

(* the suffix of a history whose calls name objects of the edit point only *)
Lemma suffix_vals sm s post : cache_ok s -> Forall (within (hp s)) post ->
  run_vals sm s post = map (pure_val sm (hp s)) post.
Proof. intros Hc Hw. apply (run_pure sm (hp s) post s (frame_refl _ _) Hc Hw). Qed.

Lemma prefix_state_ok sm s pre : cache_ok s -> valid_run sm s pre -> cache_ok (run_state sm s pre).
Proof. intros Hc Hv. apply (valid_run_ok sm (hp s) pre s (frame_refl _ _) Hc Hv). Qed.

(* ---- 2. DELETION ---- *)
Lemma drop_nth_app {A} (a : list A) x b : drop_nth (length a) (a ++ x :: b) = a ++ b.
Proof. unfold drop_nth. induction a as [|y a IH]; simpl; [reflexivity | f_equal; exact IH]. Qed.
Theorem delete_thm (sm : sem) (s : state) (pre post : list call) (c : call) :
  cache_ok s -> valid_run sm s pre ->
  let s1 := run_state sm s pre in
  within (hp s1) c -> Forall (within (hp s1)) post ->
  run_vals sm s (pre ++ post) = drop_nth (length pre) (run_vals sm s (pre ++ c :: post)).
Proof.
  intros Hc Hv s1 Hwc Hwp. pose proof (prefix_state_ok sm s pre Hc Hv) as Hc1. fold s1 in Hc1.
  rewrite !run_vals_app. fold s1.
  rewrite (suffix_vals sm s1 post Hc1 Hwp).
  rewrite (suffix_vals sm s1 (c :: post) Hc1 (Forall_cons _ Hwc Hwp)).
  rewrite <- (run_vals_length sm pre s). simpl. rewrite drop_nth_app. reflexivity.
Qed.

(* ---- 3. DUPLICATION ---- *)
Theorem repeat_thm (sm : sem) (s : state) (pre post : list call) (c : call) :
  cache_ok s -> valid_run sm s pre ->
  let s1 := run_state sm s pre in
  within (hp s1) c -> Forall (within (hp s1)) post ->
  let x1 := snd (api_step REPAIRED sm s1 c) in
  let x2 := snd (api_step REPAIRED sm (fst (api_step REPAIRED sm s1 c)) c) in
  rval x2 = rval x1 /\
  (if returns_model c then exists r1 r2, rid x1 = Some r1 /\ rid x2 = Some r2 /\ r1 < r2 /\
                                         h_get (hp (fst (api_step REPAIRED sm s1 c))) r2 = None
   else rid x1 = None /\ rid x2 = None) /\
  run_vals sm s (pre ++ c :: c :: post) = run_vals sm s pre ++ rval x1 :: rval x1 :: run_vals sm s1 post /\
  run_vals sm s (pre ++ c :: post) = run_vals sm s pre ++ rval x1 :: run_vals sm s1 post.
Proof.
  intros Hc Hv s1 Hwc Hwp x1 x2. pose proof (prefix_state_ok sm s pre Hc Hv) as Hc1. fold s1 in Hc1.
  pose proof (step_val sm s1 c Hc1 Hwc) as V1.
  pose proof (step_cache_ok sm s1 c Hc1 Hwc) as Hc2.
  pose proof (step_frame sm s1 c) as [F1 _].
  assert (Hwc2 : within (hp (fst (api_step REPAIRED sm s1 c))) c) by (eapply within_frame; eauto).
  pose proof (step_val sm _ c Hc2 Hwc2) as V2.
  split; [unfold x1, x2; rewrite V2, V1; apply pure_val_frame; assumption|].
  split.
  - pose proof (returns_thm sm s1 c) as R1. pose proof (returns_thm sm (fst (api_step REPAIRED sm s1 c)) c) as R2.
    destruct (returns_model c).
    + destruct R1 as [r1 R1]. destruct R2 as [r2 R2]. exists r1, r2. fold x1 in R1. fold x2 in R2.
      split; [exact R1|]. split; [exact R2|].
      pose proof (fresh_thm sm _ c r2 R2) as [G _].
      split; [|exact G].
      pose proof (step_rid sm _ c r2 R2) as [L2 _].
      assert (r1 <= hi (hp (fst (api_step REPAIRED sm s1 c)))) as L1; [|lia].
      unfold x1 in R1. clear -R1. destruct c; simpl in R1; inversion R1; subst; simpl.
      * unfold api_parse. destruct (h_deepcopy DEPTH (hp s1) t) as [h1 d]. simpl. lia.
      * pose proof (api_resolve_spec sm (hp s1) m ep) as Sp.
        destruct (api_resolve REPAIRED sm (hp s1) m ep) as [h' r]. destruct (Sp h' r eq_refl) as (_ & _ & L & _). exact L.
      * pose proof (api_expand_spec sm (hp s1) m) as Sp.
        destruct (api_expand sm (hp s1) m) as [h' r]. destruct (Sp h' r eq_refl) as (_ & _ & L & _). exact L.
      * destruct (e_get (ev s1) c) in R1; discriminate.
      * destruct (walk true sm ps e (hp s1)); discriminate.
    + split; [exact R1 | exact R2].
  - rewrite !run_vals_app. fold s1.
    rewrite (suffix_vals sm s1 post Hc1 Hwp).
    rewrite (suffix_vals sm s1 (c :: post) Hc1 (Forall_cons _ Hwc Hwp)).
    rewrite (suffix_vals sm s1 (c :: c :: post) Hc1 (Forall_cons _ Hwc (Forall_cons _ Hwc Hwp))).
    simpl. unfold x1. rewrite V1. split; reflexivity.
Qed.

(* ---- 4. PERMUTATION ---- *)
Lemma combine_map_perm {A B} (f : A -> B) (l l' : list A) :
  Permutation l l' -> Permutation (combine l (map f l)) (combine l' (map f l')).
Proof.
  intros P. assert (E : forall l, combine l (map f l) = map (fun a => (a, f a)) l).
  { induction l0 as [|a l0 IH]; simpl; [reflexivity | rewrite IH; reflexivity]. }
  rewrite !E. apply Permutation_map. exact P.
Qed.

Lemma combine_app' {A B} : forall (a a' : list A) (b b' : list B), length a = length b ->
  combine (a ++ a') (b ++ b') = combine a b ++ combine a' b'.
Proof.
  induction a as [|x a IH]; intros a' b b' L; destruct b as [|y b]; simpl in *; try discriminate; [reflexivity|].
  f_equal. apply IH. lia.
Qed.

Theorem swap_thm (sm : sem) (s : state) (pre post post' : list call) :
  cache_ok s -> valid_run sm s pre ->
  let s1 := run_state sm s pre in
  Forall (within (hp s1)) post -> Permutation post post' ->
  Permutation (combine (pre ++ post) (run_vals sm s (pre ++ post)))
              (combine (pre ++ post') (run_vals sm s (pre ++ post'))) /\
  (forall o, o <= hi (hp s1) ->
     h_get (hp (run_state sm s (pre ++ post))) o = h_get (hp (run_state sm s (pre ++ post'))) o).
Proof.
  intros Hc Hv s1 Hwp P. pose proof (prefix_state_ok sm s pre Hc Hv) as Hc1. fold s1 in Hc1.
  assert (Hwp' : Forall (within (hp s1)) post').
  { rewrite Forall_forall in *. intros c Hin. apply Hwp. eapply Permutation_in; [apply Permutation_sym; exact P | exact Hin]. }
  split.
  - rewrite !run_vals_app. fold s1.
    rewrite (suffix_vals sm s1 post Hc1 Hwp), (suffix_vals sm s1 post' Hc1 Hwp').
    rewrite !combine_app' by (symmetry; apply run_vals_length).
    apply Permutation_app_head. apply combine_map_perm. exact P.
  - intros o Ho. unfold run_state. rewrite !run_app. simpl. fold (run_state sm s pre). fold s1.
    pose proof (run_frame sm post s1) as [A _]. pose proof (run_frame sm post' s1) as [A' _].
    rewrite (A o Ho), (A' o Ho). reflexivity.
Qed.

(* adjacent swap as the special case *)
Corollary swap_adjacent_thm (sm : sem) (s : state) (pre post : list call) (c1 c2 : call) :
  cache_ok s -> valid_run sm s pre ->
  let s1 := run_state sm s pre in
  within (hp s1) c1 -> within (hp s1) c2 -> Forall (within (hp s1)) post ->
  Permutation (combine (pre ++ c1 :: c2 :: post) (run_vals sm s (pre ++ c1 :: c2 :: post)))
              (combine (pre ++ c2 :: c1 :: post) (run_vals sm s (pre ++ c2 :: c1 :: post))).
Proof.
  intros Hc Hv s1 H1 H2 Hp.
  apply (swap_thm sm s pre (c1 :: c2 :: post) (c2 :: c1 :: post) Hc Hv).
  - repeat constructor; assumption.
  - apply perm_swap.
Qed.

(* ---- 5. INITIAL OBJECTS ARE IMMUTABLE ---- *)
Theorem initial_immutable_thm (sm : sem) (s : state) (cs : list call) (o : oid) :
  o <= hi (hp s) \/ o = PSEUDO_ID \/ o = CATALOGUE_ID \/ o = STRICT_ID ->
  let s' := run_state sm s cs in
  h_get (hp s') o = h_get (hp s) o /\ h_obj (hp s') o = h_obj (hp s) o /\
  (forall n, snap n (hp s') o = snap n (hp s) o) /\
  (forall o', reach (hp s) o o' -> h_get (hp s') o' = h_get (hp s) o').
Proof.
  intros Ho s'. pose proof (run_frame sm cs s) as F. fold (run_state sm s cs) in F. fold s' in F.
  assert (Ho' : o <= hi (hp s)).
  { destruct Ho as [Ho|[Ho|[Ho|Ho]]]; [exact Ho| | |]; subst o; apply reserved_le; vm_compute; discriminate. }
  split; [apply F; exact Ho'|]. split; [apply (frame_obj _ _ _ _ F Ho')|].
  split; [intros n; apply snap_frame; assumption|].
  intros o' R. apply F. clear -R Ho'. induction R as [o|o k r o' Hin R IH]; [exact Ho'|].
  apply IH. eapply ref_below; exact Hin.
Qed.
