(* C18 -- Generic property casting preserves values.
   Statements only; every proof is [exact] of a lemma proved in Typed/CastOk.v.  Model: Typed/Cast.v ([cast], the
   algorithm of pycfmodel/model/generic.py; [spec_cfg] = the specified algorithm, [orig_cfg] = the code as found before
   fix-float-datetime / fix-bool-int-list / fix-empty-object).  Spec: [cast_ok] in Typed/CastOk.v.
   Oracle hypotheses: [all_confirmed g] -- the leaf annotations of g (answers of pydantic / ipaddress computed in isolation
   by the harness) are confirmed by the Gallina checkers of Typed/Literals.v. *)
From Coq Require Import List Bool NArith ZArith.
From PV Require Import Base.Str Base.Value Typed.GValue Typed.Cast Typed.Literals Typed.Collect Typed.CastOk Typed.Witness.
From PV Require Import Typed.CastShape.
Import ListNotations.

(* For every JSON value used as a property of an unmodelled resource: what the specified casting presents is an allowed
   presentation of the value -- bool only from true/false (any case) or a JSON boolean, int only from an integer literal or
   a whole number, numbers stay numbers, date/timestamp/network only from text the checker confirms, JSON text may become
   what it encodes, every other string unchanged, containers keep keys, order, length and members. *)
Theorem C18_preserves :
  forall (funcs : list str) (g : gvalue),
    all_confirmed g = true -> cast_ok (spec_cfg funcs) g (cast (spec_cfg funcs) g) = true.
Proof. exact cast_preserves. Qed.
Print Assumptions C18_preserves.

(* Text becomes a boolean only when it is true/false in some letter case, or JSON text of a boolean, or JSON text of such
   a string.  Holds for EVERY configuration and for arbitrary annotations: SemiStrictBool is modelled, not an oracle. *)
Theorem C18_not_bool :
  forall (c : cfg) (s : str) (j : option gvalue) (a : sann) (b : bool),
    cast c (GStr s j a) = TBool b ->
    bool_literal s = Some b
    \/ (exists a', j = Some (GBool b a'))
    \/ (exists s' j' a', j = Some (GStr s' j' a') /\ bool_literal s' = Some b).
Proof. exact bool_only_from_literal. Qed.
Print Assumptions C18_not_bool.

Theorem C18_not_bool_plain :
  forall (c : cfg) (s : str) (a : sann), bool_literal s = None -> forall b, cast c (GStr s None a) <> TBool b.
Proof. exact never_bool. Qed.
Print Assumptions C18_not_bool_plain.

Theorem C18_not_bool_json :
  forall (c : cfg) (s : str) (j : option gvalue) (a : sann),
    bool_literal s = None -> (forall b a', j <> Some (GBool b a')) -> (forall s' j' a', j <> Some (GStr s' j' a')) ->
    forall b, cast c (GStr s j a) <> TBool b.
Proof. exact never_bool_json. Qed.
Print Assumptions C18_not_bool_json.

(* a string no alternative reads stays the same string *)
Theorem C18_other_string_id :
  forall (c : cfg) (s : str) (a : sann), no_reading s a -> cast c (GStr s None a) = TStr s.
Proof. exact other_string_same. Qed.
Print Assumptions C18_other_string_id.

(* ... and so does JSON text whose decoded value no alternative accepts *)
Theorem C18_rejected_json_text_id :
  forall (c : cfg) (s : str) (j : gvalue) (a : sann), choose c j = CNone -> cast c (GStr s (Some j) a) = TStr s.
Proof. exact rejected_json_text_same. Qed.
Print Assumptions C18_rejected_json_text_id.

Theorem C18_shape_list :
  forall (c : cfg) (l : list gvalue), exists ts, cast c (GList l) = TList ts /\ length ts = length l.
Proof. exact list_shape. Qed.
Print Assumptions C18_shape_list.

(* an object stays an object with the same keys in the same order, or is a function call kept as written, or -- never when
   empty, under the specified algorithm -- an instance of the property model the recogniser names *)
Theorem C18_shape_object :
  forall (c : cfg) (d : list (str * gvalue)) (r : option recog),
    (exists d', cast c (GDict d r) = TGeneric d' /\ map fst d' = map fst d)
    \/ (cast c (GDict d r) = TFn (strip (GDict d r)) /\ fnb c (GDict d r) = true)
    \/ (exists r', cast c (GDict d r) = TProp r' /\ r = Some r' /\ (c_empty_plain c = true -> d <> [])).
Proof. exact object_shape. Qed.
Print Assumptions C18_shape_object.

Theorem C18_empty_object :
  forall (funcs : list str) (r : option recog), cast (spec_cfg funcs) (GDict [] r) = TGeneric [].
Proof. exact empty_object_stays_empty. Qed.
Print Assumptions C18_empty_object.


(* ================= structural theorems (Typed/CastShape.v): every value, every depth and width ================= *)

(* ---- 1. SHAPE ---- *)
(* nth-wise: the i-th member of the cast array is the cast of the i-th member, or -- in a typed list -- what the list's
   alternative reads that member as *)
Theorem C18_shape_list_nth :
  forall (c : cfg) (l : list gvalue) (i : nat) (x : gvalue),
    nth_error l i = Some x ->
    exists ts t, cast c (GList l) = TList ts /\ length ts = length l /\ nth_error ts i = Some t /\
      (t = cast c x \/
       exists b, b <> BStr /\ choose c (GList l) = CList b /\ guard_item c b x = true /\ member c b x = Some t).
Proof. exact list_nth. Qed.
Print Assumptions C18_shape_list_nth.
(* an object that is not recognised: the same keys in the same order, the i-th value the cast of the i-th value *)
Theorem C18_shape_object_nth :
  forall (c : cfg) (d : list (str * gvalue)) (r : option recog) (i : nat) (k : str) (x : gvalue),
    choose c (GDict d r) = CNone -> nth_error d i = Some (k, x) ->
    exists d', cast c (GDict d r) = TGeneric d' /\ map fst d' = map fst d /\ nth_error d' i = Some (k, cast c x).
Proof. exact object_nth. Qed.
Print Assumptions C18_shape_object_nth.
(* nested paths: below containers the cast goes through member by member, the node at a path of the cast is the cast of the
   node at that path -- it depends on that node only, not on siblings, position or depth *)
Theorem C18_cast_at :
  forall (c : cfg) (p : path) (g x : gvalue),
    along (transparent c) g p = true -> gat g p = Some x -> tat (cast c g) p = Some (cast c x).
Proof. exact cast_at. Qed.
Print Assumptions C18_cast_at.
(* ... through typed lists as well when the node at the end is local (see 2.) *)
Theorem C18_cast_at_local :
  forall (c : cfg) (p : path) (g x : gvalue),
    along (passable c) g p = true -> gat g p = Some x -> local_value c x -> tat (cast c g) p = Some (cast c x).
Proof. exact cast_at_local. Qed.
Print Assumptions C18_cast_at_local.
(* where nothing is recognised the whole skeleton -- array lengths, object keys in order, nesting -- is preserved, hence the
   same nodes at the same paths in the same order, in particular the same paths to scalar leaves *)
Theorem C18_skeleton :
  forall (c : cfg) (g : gvalue), shape_plain c g = true -> tskel (cast c g) = gskel g.
Proof. exact skel_preserved. Qed.
Print Assumptions C18_skeleton.
Theorem C18_paths :
  forall (c : cfg) (g : gvalue), shape_plain c g = true -> tpaths (cast c g) = gpaths g.
Proof. exact paths_preserved. Qed.
Print Assumptions C18_paths.
Theorem C18_leaf_paths :
  forall (c : cfg) (g : gvalue), shape_plain c g = true -> leaf_paths (tpaths (cast c g)) = leaf_paths (gpaths g).
Proof. exact leaf_paths_preserved. Qed.
Print Assumptions C18_leaf_paths.

(* what the enumerations enumerate: exactly the paths of the value that do not enter JSON text (resp. the paths of its
   cast), each with the kind of node it leads to -- so the theorem above says: a path leads to a scalar leaf / an array / an
   object of the value iff it leads to one of its cast *)
Theorem C18_gpaths_spec :
  forall (g : gvalue) (p : path) (k : nkind),
    In (p, k) (gpaths g) <-> json_free p = true /\ exists x, gat g p = Some x /\ gkind x = k.
Proof. exact gpaths_spec. Qed.
Print Assumptions C18_gpaths_spec.
Theorem C18_tpaths_spec :
  forall (t : tval) (p : path) (k : nkind), In (p, k) (tpaths t) <-> exists x, tat t p = Some x /\ tkind_of x = k.
Proof. exact tpaths_spec. Qed.
Print Assumptions C18_tpaths_spec.
Theorem C18_same_paths :
  forall (c : cfg) (g : gvalue) (p : path) (k : nkind),
    shape_plain c g = true -> json_free p = true ->
    ((exists x, gat g p = Some x /\ gkind x = k) <-> (exists y, tat (cast c g) p = Some y /\ tkind_of y = k)).
Proof. exact same_paths. Qed.
Print Assumptions C18_same_paths.

(* ---- 2. LEAF LOCALITY ---- *)
(* a member that every alternative reads as the cast reads it on its own ([local_value]) is cast to the same thing wherever
   it stands in an array ... *)
Theorem C18_list_locality :
  forall (c : cfg) (l1 : list gvalue) (v : gvalue) (l2 : list gvalue),
    local_value c v -> tat (cast c (GList (l1 ++ v :: l2))) [Idx (length l1)] = Some (cast c v).
Proof. exact list_locality. Qed.
Print Assumptions C18_list_locality.
(* ... every member is, in an array no alternative reads as a typed list ... *)
Theorem C18_list_locality_untyped :
  forall (c : cfg) (l1 : list gvalue) (v : gvalue) (l2 : list gvalue),
    transparent c (GList (l1 ++ v :: l2)) = true ->
    cast c (GList (l1 ++ v :: l2)) = TList (map (cast c) l1 ++ cast c v :: map (cast c) l2).
Proof. exact list_locality_untyped. Qed.
Print Assumptions C18_list_locality_untyped.
(* ... and every member of an object that is not recognised; whether it is recognised depends on keys and recogniser only *)
Theorem C18_object_locality :
  forall (c : cfg) (d1 : list (str * gvalue)) (k : str) (v : gvalue) (d2 : list (str * gvalue)) (r : option recog),
    choose c (GDict (d1 ++ (k, v) :: d2) r) = CNone ->
    cast c (GDict (d1 ++ (k, v) :: d2) r) = TGeneric (cast_props c d1 ++ (k, cast c v) :: cast_props c d2).
Proof. exact object_locality. Qed.
Print Assumptions C18_object_locality.
Theorem C18_object_recognition_keys_only :
  forall (c : cfg) (d d' : list (str * gvalue)) (r : option recog),
    map fst d = map fst d' -> choose c (GDict d r) = choose c (GDict d' r).
Proof. exact choose_dict_keys_only. Qed.
Print Assumptions C18_object_recognition_keys_only.
(* which values are local: arrays, objects, null always; numbers and booleans under the guards of the specified algorithm;
   text no alternative reads; any scalar the decidable check [localb] accepts *)
Theorem C18_local_nonscalar : forall (c : cfg) (g : gvalue), is_scalar g = false -> local_value c g.
Proof. exact local_nonscalar. Qed.
Print Assumptions C18_local_nonscalar.
Theorem C18_local_int : forall (c : cfg) (z : Z) (a : sann), c_guard_num c = true -> local_value c (GInt z a).
Proof. exact local_int. Qed.
Print Assumptions C18_local_int.
Theorem C18_local_bool :
  forall (c : cfg) (b : bool) (a : sann), c_guard_num c = true -> c_guard_bool c = true -> local_value c (GBool b a).
Proof. exact local_bool. Qed.
Print Assumptions C18_local_bool.
Theorem C18_local_float : forall (c : cfg) (x : str) (a : sann), c_guard_num c = true -> local_value c (GFloat x a).
Proof. exact local_float. Qed.
Print Assumptions C18_local_float.
Theorem C18_local_plain_text :
  forall (c : cfg) (s : str) (j : option gvalue) (a : sann), no_reading s a -> local_value c (GStr s j a).
Proof. exact local_plain_text. Qed.
Print Assumptions C18_local_plain_text.
Theorem C18_localb_sound : forall (c : cfg) (v : gvalue), localb c v = true -> local_value c v.
Proof. exact localb_sound. Qed.
Print Assumptions C18_localb_sound.
(* REFUTED without the hypothesis, for the specified algorithm and confirmed annotations: date-only text next to a timestamp
   becomes a timestamp (midnight), on its own a date.  pycfmodel does the same:
   ["2020-01-01", "2020-01-01T10:00:00"] -> [datetime(2020,1,1,0,0), datetime(2020,1,1,10,0)],  "2020-01-01" -> date(2020,1,1) *)
Theorem C18_list_locality_refuted :
  exists c l1 v l2, all_confirmed (GList (l1 ++ v :: l2)) = true /\
    tat (cast c (GList (l1 ++ v :: l2))) [Idx (length l1)] <> Some (cast c v).
Proof. exact list_locality_refuted. Qed.
Print Assumptions C18_list_locality_refuted.

(* ---- 3. NUMBERS, BOOLEANS, NULL ---- *)
(* every configuration (the code as found included), every annotation *)
Theorem C18_null_stays : forall c : cfg, cast c GNull = TNull.
Proof. exact null_stays. Qed.
Print Assumptions C18_null_stays.
Theorem C18_bool_stays : forall (c : cfg) (b : bool) (a : sann), cast c (GBool b a) = TBool b.
Proof. exact bool_stays. Qed.
Print Assumptions C18_bool_stays.
Theorem C18_int_stays : forall (c : cfg) (z : Z) (a : sann), cast c (GInt z a) = TInt z.
Proof. exact int_stays. Qed.
Print Assumptions C18_int_stays.
(* a float stays that float, or -- a whole number -- becomes the integer the integer parser reads; under the numbers guard *)
Theorem C18_float_stays :
  forall (c : cfg) (x : str) (a : sann),
    c_guard_num c = true -> cast c (GFloat x a) = match a_int a with Some z => TInt z | None => TFloat x end.
Proof. exact float_stays. Qed.
Print Assumptions C18_float_stays.
Theorem C18_number_stays_number :
  forall (c : cfg) (g : gvalue),
    c_guard_num c = true -> leaf_confirmed g = true -> is_json_number g = true -> number_kept g (cast c g) = true.
Proof. exact number_stays_number. Qed.
Print Assumptions C18_number_stays_number.
(* at every path: through plain objects and ALL arrays (typed or not) under the guards ... *)
Theorem C18_null_at_path :
  forall (c : cfg) (g : gvalue) (p : path),
    along (passable c) g p = true -> gat g p = Some GNull -> tat (cast c g) p = Some TNull.
Proof. exact null_at_path. Qed.
Print Assumptions C18_null_at_path.
Theorem C18_int_at_path :
  forall (c : cfg) (g : gvalue) (p : path) (z : Z) (a : sann),
    c_guard_num c = true -> along (passable c) g p = true -> gat g p = Some (GInt z a) -> tat (cast c g) p = Some (TInt z).
Proof. exact int_at_path. Qed.
Print Assumptions C18_int_at_path.
Theorem C18_bool_at_path :
  forall (c : cfg) (g : gvalue) (p : path) (b : bool) (a : sann),
    c_guard_num c = true -> c_guard_bool c = true ->
    along (passable c) g p = true -> gat g p = Some (GBool b a) -> tat (cast c g) p = Some (TBool b).
Proof. exact bool_at_path. Qed.
Print Assumptions C18_bool_at_path.
Theorem C18_float_at_path :
  forall (c : cfg) (g : gvalue) (p : path) (x : str) (a : sann),
    c_guard_num c = true -> along (passable c) g p = true -> gat g p = Some (GFloat x a) ->
    tat (cast c g) p = Some (match a_int a with Some z => TInt z | None => TFloat x end).
Proof. exact float_at_path. Qed.
Print Assumptions C18_float_at_path.
(* ... and for every configuration at every path that crosses no typed list *)
Theorem C18_int_at_open_path :
  forall (c : cfg) (g : gvalue) (p : path) (z : Z) (a : sann),
    along (transparent c) g p = true -> gat g p = Some (GInt z a) -> tat (cast c g) p = Some (TInt z).
Proof. exact int_at_open_path. Qed.
Print Assumptions C18_int_at_open_path.
Theorem C18_bool_at_open_path :
  forall (c : cfg) (g : gvalue) (p : path) (b : bool) (a : sann),
    along (transparent c) g p = true -> gat g p = Some (GBool b a) -> tat (cast c g) p = Some (TBool b).
Proof. exact bool_at_open_path. Qed.
Print Assumptions C18_bool_at_open_path.

(* ---- 4. STRING CLASSIFICATION ---- *)
(* plain text: the classifier is a total function of the text's own readings and decides what the text becomes *)
Theorem C18_plain_text_classified :
  forall (c : cfg) (s : str) (a : sann), cast c (GStr s None a) = fam_result s a (classify c s a).
Proof. exact plain_text_classified. Qed.
Print Assumptions C18_plain_text_classified.
(* the families, each by its own defining condition, are exactly the classes of the classifier: exhaustive and exclusive *)
Theorem C18_family_partition :
  forall (c : cfg) (s : str) (a : sann) (f : fam), in_fam c s a f <-> classify c s a = f.
Proof. exact in_fam_iff. Qed.
Print Assumptions C18_family_partition.
Theorem C18_family_exhaustive : forall (c : cfg) (s : str) (a : sann), exists f, in_fam c s a f.
Proof. exact fam_exhaustive. Qed.
Print Assumptions C18_family_exhaustive.
Theorem C18_family_exclusive :
  forall (c : cfg) (s : str) (a : sann) (f1 f2 : fam), in_fam c s a f1 -> in_fam c s a f2 -> f1 = f2.
Proof. exact fam_exclusive. Qed.
Print Assumptions C18_family_exclusive.
Theorem C18_family_decides :
  forall (c : cfg) (s : str) (a : sann) (f : fam), in_fam c s a f -> cast c (GStr s None a) = fam_result s a f.
Proof. exact fam_decides. Qed.
Print Assumptions C18_family_decides.
(* a string in no converting family is returned unchanged; in a converting family it is no string any more *)
Theorem C18_kept_family_unchanged :
  forall (c : cfg) (s : str) (a : sann), fam_kept (classify c s a) = true -> cast c (GStr s None a) = TStr s.
Proof. exact kept_family_unchanged. Qed.
Print Assumptions C18_kept_family_unchanged.
Theorem C18_converting_family_converts :
  forall (c : cfg) (s : str) (a : sann), fam_kept (classify c s a) = false -> forall s', cast c (GStr s None a) <> TStr s'.
Proof. exact converting_family_converts. Qed.
Print Assumptions C18_converting_family_converts.
Theorem C18_no_reading_kept :
  forall (c : cfg) (s : str) (a : sann), no_reading s a -> fam_kept (classify c s a) = true.
Proof. exact no_reading_kept. Qed.
Print Assumptions C18_no_reading_kept.
(* of the configuration only the numbers guard takes part *)
Theorem C18_plain_text_cfg :
  forall (c c' : cfg) (s : str) (a : sann),
    c_guard_num c = c_guard_num c' -> cast c (GStr s None a) = cast c' (GStr s None a).
Proof. exact plain_text_cfg. Qed.
Print Assumptions C18_plain_text_cfg.
(* JSON text: stays the text when the union rejects what it encodes, otherwise becomes the cast of what it encodes (text inside
   JSON text is not decoded a second time); every string leaf falls in one of the three cases *)
Theorem C18_json_text_is_decoded_value :
  forall (c : cfg) (s : str) (j : gvalue) (a : sann),
    choose c j <> CNone -> cast c (GStr s (Some j) a) = cast c (unjson j).
Proof. exact json_text_is_decoded_value. Qed.
Print Assumptions C18_json_text_is_decoded_value.
Theorem C18_string_leaf_total :
  forall (c : cfg) (s : str) (j : option gvalue) (a : sann),
    (j = None /\ cast c (GStr s j a) = fam_result s a (classify c s a))
    \/ (exists j', j = Some j' /\ choose c j' = CNone /\ cast c (GStr s j a) = TStr s)
    \/ (exists j', j = Some j' /\ choose c j' <> CNone /\ cast c (GStr s j a) = cast c (unjson j')).
Proof. exact string_leaf_total. Qed.
Print Assumptions C18_string_leaf_total.

(* the number half of C18_not_bool: plain text becomes an integer only when the integer parser reads it -- and the checker
   then confirms the text denotes that integer; plain text never becomes a float *)
Theorem C18_int_only_from_int_reading :
  forall (c : cfg) (s : str) (a : sann) (z : Z),
    cast c (GStr s None a) = TInt z -> bool_literal s = None /\ a_int a = Some z.
Proof. exact int_only_from_int_reading. Qed.
Print Assumptions C18_int_only_from_int_reading.
Theorem C18_int_from_text_confirmed :
  forall (c : cfg) (s : str) (a : sann) (z : Z),
    leaf_confirmed (GStr s None a) = true -> cast c (GStr s None a) = TInt z -> denotes_int s z = true.
Proof. exact int_from_text_confirmed. Qed.
Print Assumptions C18_int_from_text_confirmed.
Theorem C18_text_never_float : forall (c : cfg) (s : str) (a : sann) (x : str), cast c (GStr s None a) <> TFloat x.
Proof. exact text_never_float. Qed.
Print Assumptions C18_text_never_float.

(* ---- 5. FIXED POINT / IDEMPOTENCE ---- *)
(* a value in which the oracles see nothing to convert is cast to itself, and its dump is the JSON it came from *)
Theorem C18_cast_inert : forall (c : cfg) (g : gvalue), inert c g = true -> cast c g = inj g.
Proof. exact cast_inert. Qed.
Print Assumptions C18_cast_inert.
Theorem C18_dump_cast_inert : forall (c : cfg) (g : gvalue), inert c g = true -> tdump (cast c g) = strip g.
Proof. exact dump_cast_inert. Qed.
Print Assumptions C18_dump_cast_inert.
(* casting the dump of a value with kept leaves only (t = cast c g in particular) gives the value back, whenever the oracles,
   asked about the leaves of the dump, see nothing to convert: the instance for class Generic of the hypothesis
   "a validator accepts its own output" of C15 (Typed/Leaves.v leaf_accepts_own_output, leaf LGeneric) *)
Theorem C18_idempotent_on_kept :
  forall (c : cfg) (t : tval) (g' : gvalue),
    kept t = true -> strip g' = tdump t -> inert c g' = true -> cast c g' = t.
Proof. exact idempotent_on_kept. Qed.
Print Assumptions C18_idempotent_on_kept.
(* REFUTED without [inert] WHEN a string may carry a JSON reading that is text again: JSON text of JSON text is then decoded once
   per cast.  This refutation, replayed on pycfmodel as found, was finding F29 ("\"\\\"x\\\"\"" parsed to the text "\"x\"", whose
   model_dump(), validated again, gave x: the C15 round trip lost a layer of quotes per validation); repaired in /repo commit 4e7f8be
   (a JSON string literal is kept as written).  Since then the oracle that supplies the JSON readings (harness/generic_oracle.py
   annotate) gives a string literal NO reading, so the witness below is outside what the correspondence can produce; the theorem
   stays as the reason why the pre-pass must not decode text to text. *)
Theorem C18_idempotence_refuted :
  exists c g g', kept (cast c g) = true /\ all_confirmed g = true /\ all_confirmed g' = true /\
    strip g' = tdump (cast c g) /\ cast c g' <> cast c g.
Proof. exact idempotence_refuted. Qed.
Print Assumptions C18_idempotence_refuted.

(* ---- non-vacuity: the hypotheses are satisfiable on an input that exercises every kind of conversion ---- *)
From Coq Require Import String.
Local Open Scope string_scope.
Example C18_ex_confirmed : all_confirmed g_mixed = true.
Proof. vm_compute. reflexivity. Qed.
Example C18_ex_mixed :
  cast SPEC g_mixed =
  TGeneric [(s "Flags", TList [TBool true; TStr (s "yes")]); (s "Count", TInt 1000); (s "When", TDate (s "2019-12-04"));
            (s "At", TDatetime (s "2011-11-04T00:05:23+00:00")); (s "Cidr", TNet KNet4 (s "10.0.0.0/24")); (s "Name", TStr (s "potato"));
            (s "Nested", TGeneric [(s "Ratio", TFloat (s "1.5")); (s "Empty", TGeneric [])]);
            (s "Ref", TFn (VDict [(s "Ref", VStr (s "AWS::Region"))]))].
Proof. vm_compute. reflexivity. Qed.
(* never 1, 0, yes, on *)
Example C18_ex_never_bool :
  cast SPEC g_str_1 = TInt 1 /\ cast SPEC g_str_0 = TInt 0 /\ cast SPEC g_str_yes = TStr (s "yes") /\ cast SPEC g_str_on = TStr (s "on")
  /\ cast ORIG g_str_1 = TInt 1 /\ cast ORIG g_str_yes = TStr (s "yes") /\ cast SPEC g_str_TRUE = TBool true.
Proof. vm_compute. repeat split; reflexivity. Qed.
(* liberal literals pydantic accepts, confirmed by the checker: same number *)
Example C18_ex_liberal_int :
  cast SPEC g_str_1e3 = TInt 1000 /\ cast SPEC g_str_1_000 = TInt 1000 /\ all_confirmed g_str_1e3 = true /\ all_confirmed g_str_1_000 = true
  /\ cast SPEC g_float_whole = TInt 1577836800 /\ cast SPEC g_str_midnight = TDate (s "2020-01-01") /\ all_confirmed g_str_midnight = true.
Proof. vm_compute. repeat split; reflexivity. Qed.
Example C18_ex_strings_kept :
  cast SPEC g_str_bad_date = TStr (s "2020-02-30") /\ cast SPEC g_str_json_obj = TStr (s "{""a"":1}") /\ cast SPEC g_str_json_str = TStr (s "x").
Proof. vm_compute. repeat split; reflexivity. Qed.
(* a parser that raises aborts the union: the value stays as written (before fix-year-zero the whole template was rejected) *)
Example C18_ex_year_zero :
  cast SPEC g_str_year0 = TStr (s "0000-01-01") /\ cast SPEC g_str_json_year0 = TStr (s """0000-01-01""")
  /\ cast SPEC (GList [g_str_year0; g_str_date]) = TList [TStr (s "0000-01-01"); TDate (s "2019-12-04")].
Proof. vm_compute. repeat split; reflexivity. Qed.
(* after the repair: numbers stay numbers *)
Example C18_ex_numbers_stay :
  cast SPEC g_float_1_5 = TFloat (s "1.5") /\ cast SPEC g_str_1_5 = TStr (s "1.5") /\ cast SPEC g_float_epoch = TFloat (s "1577836800.5")
  /\ cast SPEC g_str_5dot = TStr (s "5.") /\ cast SPEC g_list_int_bool = TList [TInt 1; TBool true]
  /\ cast SPEC g_list_int_ip = TList [TInt 1; TNet KNet4 (s "10.0.0.1/32")].
Proof. vm_compute. repeat split; reflexivity. Qed.

(* ---- the code as found violates the property (witnesses replayed on the code through corpus/C18.json) ---- *)
(* finding 15: a float falls through int and date to the datetime alternative, which reads numbers as epoch seconds *)
Example C18_float_datetime_refuted :
  exists g, all_confirmed g = true /\ cast_ok ORIG g (cast ORIG g) = false.
Proof. exists g_float_1_5. vm_compute. split; reflexivity. Qed.
Example C18_float_datetime_witnesses :
  cast ORIG g_float_1_5 = TDatetime (s "1970-01-01T00:00:01.500000+00:00")
  /\ cast ORIG g_str_1_5 = TDatetime (s "1970-01-01T00:00:01.500000+00:00")
  /\ cast ORIG g_float_epoch = TDatetime (s "2020-01-01T00:00:00.500000+00:00")
  /\ cast ORIG g_str_5dot = TDatetime (s "1970-01-01T00:00:05+00:00")
  /\ cast_ok ORIG g_str_1_5 (cast ORIG g_str_1_5) = false /\ cast_ok ORIG g_float_epoch (cast ORIG g_float_epoch) = false
  /\ cast_ok ORIG g_str_5dot (cast ORIG g_str_5dot) = false.
Proof. vm_compute. repeat split; reflexivity. Qed.
(* finding 19: every field of StatementCondition is optional, so {} anywhere became a condition block *)
Example C18_empty_object_refuted :
  exists g, all_confirmed g = true /\ cast_ok ORIG g (cast ORIG g) = false.
Proof. exists g_waf_block. vm_compute. split; reflexivity. Qed.
Example C18_empty_object_witness :
  cast ORIG g_waf_block = TGeneric [(s "Block", TProp cond_recog)] /\ cast SPEC g_waf_block = TGeneric [(s "Block", TGeneric [])].
Proof. vm_compute. split; reflexivity. Qed.
(* found by this check: inside a list the int alternative read JSON true as 1, and the network alternative read 1 as 0.0.0.1/32 *)
Example C18_bool_in_int_list_refuted :
  cast ORIG g_list_int_bool = TList [TInt 1; TInt 1] /\ cast_ok ORIG g_list_int_bool (cast ORIG g_list_int_bool) = false.
Proof. vm_compute. split; reflexivity. Qed.
Example C18_number_as_network_refuted :
  cast ORIG g_list_int_ip = TList [TNet KNet4 (s "0.0.0.1/32"); TNet KNet4 (s "10.0.0.1/32")]
  /\ cast_ok ORIG g_list_int_ip (cast ORIG g_list_int_ip) = false.
Proof. vm_compute. split; reflexivity. Qed.

(* ================= Typed/CastShape.v: non-vacuity ================= *)
(* a nested value in which nothing is recognised: skeleton and paths preserved (16 nodes, 9 scalar leaves) *)
Example C18_ex_shape :
  shape_plain SPEC g_plain = true /\ tskel (cast SPEC g_plain) = gskel g_plain
  /\ List.length (gpaths g_plain) = 16%nat /\ List.length (leaf_paths (gpaths g_plain)) = 9%nat
  /\ shape_plain SPEC g_mixed = false.
Proof. vm_compute. repeat split; reflexivity. Qed.
(* $.Nested.Deep[0][1] is reached through plain objects and untyped arrays; $.Nums[1] through a typed array *)
Example C18_ex_paths :
  along (transparent SPEC) g_plain [Mem 4 (s "Nested"); Mem 2 (s "Deep"); Idx 0; Idx 1] = true
  /\ gat g_plain [Mem 4 (s "Nested"); Mem 2 (s "Deep"); Idx 0; Idx 1] = Some g_true
  /\ tat (cast SPEC g_plain) [Mem 4 (s "Nested"); Mem 2 (s "Deep"); Idx 0; Idx 1] = Some (TBool true)
  /\ along (transparent SPEC) g_plain [Mem 3 (s "Nums"); Idx 1] = false
  /\ along (passable SPEC) g_plain [Mem 3 (s "Nums"); Idx 1] = true
  /\ tat (cast SPEC g_plain) [Mem 3 (s "Nums"); Idx 1] = Some (TInt 2)
  /\ choose SPEC (GList [g_int_1; g_int_1]) = CList BInt /\ choose SPEC g_plain = CNone.
Proof. vm_compute. repeat split; reflexivity. Qed.
(* which witnesses are local: everything but text that is both a date and a timestamp; without the guards numbers are not *)
Example C18_ex_local :
  map (localb SPEC) [g_int_1; g_true; g_float_1_5; g_str_1; g_str_time; g_str_net; g_str_potato] = [true; true; true; true; true; true; true]
  /\ map (localb SPEC) [g_str_date; g_str_midnight; g_date_only] = [false; false; false]
  /\ map (localb ORIG) [g_int_1; g_true; g_str_1] = [false; false; false]
  /\ no_reading (s "potato") no_ann.
Proof. split; [vm_compute; reflexivity|]. split; [vm_compute; reflexivity|]. split; [vm_compute; reflexivity|]. vm_compute. repeat split; reflexivity. Qed.
Example C18_ex_locality_witness :
  cast SPEC g_date_only = TDate (s "2020-01-01")
  /\ cast SPEC (GList [g_date_only; g_timestamp]) = TList [TDatetime (s "2020-01-01T00:00:00"); TDatetime (s "2020-01-01T10:00:00")]
  /\ cast SPEC (GList [g_date_only; text "x"]) = TList [TDate (s "2020-01-01"); TStr (s "x")]
  /\ cast_ok SPEC (GList [g_date_only; g_timestamp]) (cast SPEC (GList [g_date_only; g_timestamp])) = true.
Proof. vm_compute. repeat split; reflexivity. Qed.
(* numbers: confirmed annotations, the same number *)
Example C18_ex_numbers :
  leaf_confirmed g_float_whole = true /\ number_kept g_float_whole (cast SPEC g_float_whole) = true
  /\ cast SPEC g_float_whole = TInt 1577836800 /\ cast ORIG g_int_1 = TInt 1 /\ cast ORIG g_true = TBool true.
Proof. vm_compute. repeat split; reflexivity. Qed.
(* one witness per family *)
Example C18_ex_families :
  classify SPEC (s "TRUE") no_ann = FamBool
  /\ classify SPEC (s "1_000") (ann_of g_str_1_000) = FamInt
  /\ classify SPEC (s "5.") (ann_of g_str_5dot) = FamNumText /\ classify ORIG (s "5.") (ann_of g_str_5dot) = FamDatetime
  /\ classify SPEC (s "0000-01-01") ann_year0 = FamAborted
  /\ classify SPEC (s "2019-12-04") (ann_of g_str_date) = FamDate
  /\ classify SPEC (s "2011-11-04 00:05:23Z") (ann_of g_str_time) = FamDatetime
  /\ classify SPEC (s "10.0.0.7/24") (ann_of g_str_net) = FamNet
  /\ classify SPEC (s "potato") no_ann = FamKept /\ classify SPEC (s "yes") no_ann = FamKept.
Proof. vm_compute. repeat split; reflexivity. Qed.
Example C18_ex_int_from_text :
  leaf_confirmed g_str_1_000 = true /\ cast SPEC g_str_1_000 = TInt 1000 /\ denotes_int (s "1_000") 1000 = true.
Proof. vm_compute. repeat split; reflexivity. Qed.
Example C18_ex_json_text :
  choose SPEC g_int_1 <> CNone /\ cast SPEC g_str_1 = cast SPEC g_int_1
  /\ choose SPEC (GDict [(s "a", g_int_1)] None) = CNone /\ cast SPEC g_str_json_obj = TStr (s "{""a"":1}").
Proof. split; [vm_compute; discriminate|]. vm_compute. repeat split; reflexivity. Qed.
(* a nested inert value is a fixed point and its dump is the JSON it came from; 1000 (from "1e3") is cast to itself *)
Example C18_ex_inert :
  inert SPEC g_inert = true /\ cast SPEC g_inert = inj g_inert /\ tdump (cast SPEC g_inert) = strip g_inert
  /\ kept (cast SPEC g_inert) = true /\ inert ORIG g_inert = false
  /\ cast SPEC g_str_1e3 = TInt 1000 /\ strip g_int_1000 = tdump (cast SPEC g_str_1e3) /\ inert SPEC g_int_1000 = true
  /\ cast SPEC g_int_1000 = cast SPEC g_str_1e3.
Proof. vm_compute. repeat split; reflexivity. Qed.
Example C18_ex_idempotence_witness :
  cast SPEC g_json_twice = TStr (s """x""") /\ cast SPEC g_str_json_str = TStr (s "x") /\ inert SPEC g_str_json_str = false.
Proof. vm_compute. repeat split; reflexivity. Qed.
