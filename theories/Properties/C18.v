(* C18 -- Generic property casting preserves values.
   Statements only; every proof is [exact] of a lemma proved in Typed/CastOk.v.  Model: Typed/Cast.v ([cast], the
   algorithm of pycfmodel/model/generic.py; [spec_cfg] = the specified algorithm, [orig_cfg] = the code as found before
   fix-float-datetime / fix-bool-int-list / fix-empty-object).  Spec: [cast_ok] in Typed/CastOk.v.
   Oracle hypotheses: [all_confirmed g] -- the leaf annotations of g (answers of pydantic / ipaddress computed in isolation
   by the harness) are confirmed by the Gallina checkers of Typed/Literals.v. *)
From Coq Require Import List Bool NArith ZArith.
From PV Require Import Base.Str Base.Value Typed.GValue Typed.Cast Typed.Literals Typed.Collect Typed.CastOk Typed.Witness.
Import ListNotations.

(* For every JSON value used as a property of an unmodelled resource: what the specified casting presents is an allowed
   presentation of the value -- bool only from true/false (any case) or a JSON boolean, int only from an integer literal or
   a whole number, numbers stay numbers, date/timestamp/network only from text the checker confirms, JSON text may become
   what it encodes, every other string unchanged, containers keep keys, order, length and members. *)
Theorem C18_preserves :
  forall (funcs : list str) (g : gvalue),
    all_confirmed g = true -> cast_ok (spec_cfg funcs) g (cast (spec_cfg funcs) g) = true.
Proof. exact cast_preserves. Qed.
Print Assumptions C18_preserves.

(* Text becomes a boolean only when it is true/false in some letter case, or JSON text of a boolean, or JSON text of such
   a string.  Holds for EVERY configuration and for arbitrary annotations: SemiStrictBool is modelled, not an oracle. *)
Theorem C18_not_bool :
  forall (c : cfg) (s : str) (j : option gvalue) (a : sann) (b : bool),
    cast c (GStr s j a) = TBool b ->
    bool_literal s = Some b
    \/ (exists a', j = Some (GBool b a'))
    \/ (exists s' j' a', j = Some (GStr s' j' a') /\ bool_literal s' = Some b).
Proof. exact bool_only_from_literal. Qed.
Print Assumptions C18_not_bool.

Theorem C18_not_bool_plain :
  forall (c : cfg) (s : str) (a : sann), bool_literal s = None -> forall b, cast c (GStr s None a) <> TBool b.
Proof. exact never_bool. Qed.
Print Assumptions C18_not_bool_plain.

Theorem C18_not_bool_json :
  forall (c : cfg) (s : str) (j : option gvalue) (a : sann),
    bool_literal s = None -> (forall b a', j <> Some (GBool b a')) -> (forall s' j' a', j <> Some (GStr s' j' a')) ->
    forall b, cast c (GStr s j a) <> TBool b.
Proof. exact never_bool_json. Qed.
Print Assumptions C18_not_bool_json.

(* a string no alternative reads stays the same string *)
Theorem C18_other_string_id :
  forall (c : cfg) (s : str) (a : sann), no_reading s a -> cast c (GStr s None a) = TStr s.
Proof. exact other_string_same. Qed.
Print Assumptions C18_other_string_id.

(* ... and so does JSON text whose decoded value no alternative accepts *)
Theorem C18_rejected_json_text_id :
  forall (c : cfg) (s : str) (j : gvalue) (a : sann), choose c j = CNone -> cast c (GStr s (Some j) a) = TStr s.
Proof. exact rejected_json_text_same. Qed.
Print Assumptions C18_rejected_json_text_id.

Theorem C18_shape_list :
  forall (c : cfg) (l : list gvalue), exists ts, cast c (GList l) = TList ts /\ length ts = length l.
Proof. exact list_shape. Qed.
Print Assumptions C18_shape_list.

(* an object stays an object with the same keys in the same order, or is a function call kept as written, or -- never when
   empty, under the specified algorithm -- an instance of the property model the recogniser names *)
Theorem C18_shape_object :
  forall (c : cfg) (d : list (str * gvalue)) (r : option recog),
    (exists d', cast c (GDict d r) = TGeneric d' /\ map fst d' = map fst d)
    \/ (cast c (GDict d r) = TFn (strip (GDict d r)) /\ fnb c (GDict d r) = true)
    \/ (exists r', cast c (GDict d r) = TProp r' /\ r = Some r' /\ (c_empty_plain c = true -> d <> [])).
Proof. exact object_shape. Qed.
Print Assumptions C18_shape_object.

Theorem C18_empty_object :
  forall (funcs : list str) (r : option recog), cast (spec_cfg funcs) (GDict [] r) = TGeneric [].
Proof. exact empty_object_stays_empty. Qed.
Print Assumptions C18_empty_object.

(* ---- non-vacuity: the hypotheses are satisfiable on an input that exercises every kind of conversion ---- *)
From Coq Require Import String.
Local Open Scope string_scope.
Example C18_ex_confirmed : all_confirmed g_mixed = true.
Proof. vm_compute. reflexivity. Qed.
Example C18_ex_mixed :
  cast SPEC g_mixed =
  TGeneric [(s "Flags", TList [TBool true; TStr (s "yes")]); (s "Count", TInt 1000); (s "When", TDate (s "2019-12-04"));
            (s "At", TDatetime (s "2011-11-04T00:05:23+00:00")); (s "Cidr", TNet KNet4 (s "10.0.0.0/24")); (s "Name", TStr (s "potato"));
            (s "Nested", TGeneric [(s "Ratio", TFloat (s "1.5")); (s "Empty", TGeneric [])]);
            (s "Ref", TFn (VDict [(s "Ref", VStr (s "AWS::Region"))]))].
Proof. vm_compute. reflexivity. Qed.
(* never 1, 0, yes, on *)
Example C18_ex_never_bool :
  cast SPEC g_str_1 = TInt 1 /\ cast SPEC g_str_0 = TInt 0 /\ cast SPEC g_str_yes = TStr (s "yes") /\ cast SPEC g_str_on = TStr (s "on")
  /\ cast ORIG g_str_1 = TInt 1 /\ cast ORIG g_str_yes = TStr (s "yes") /\ cast SPEC g_str_TRUE = TBool true.
Proof. vm_compute. repeat split; reflexivity. Qed.
(* liberal literals pydantic accepts, confirmed by the checker: same number *)
Example C18_ex_liberal_int :
  cast SPEC g_str_1e3 = TInt 1000 /\ cast SPEC g_str_1_000 = TInt 1000 /\ all_confirmed g_str_1e3 = true /\ all_confirmed g_str_1_000 = true
  /\ cast SPEC g_float_whole = TInt 1577836800 /\ cast SPEC g_str_midnight = TDate (s "2020-01-01") /\ all_confirmed g_str_midnight = true.
Proof. vm_compute. repeat split; reflexivity. Qed.
Example C18_ex_strings_kept :
  cast SPEC g_str_bad_date = TStr (s "2020-02-30") /\ cast SPEC g_str_json_obj = TStr (s "{""a"":1}") /\ cast SPEC g_str_json_str = TStr (s "x").
Proof. vm_compute. repeat split; reflexivity. Qed.
(* a parser that raises aborts the union: the value stays as written (before fix-year-zero the whole template was rejected) *)
Example C18_ex_year_zero :
  cast SPEC g_str_year0 = TStr (s "0000-01-01") /\ cast SPEC g_str_json_year0 = TStr (s """0000-01-01""")
  /\ cast SPEC (GList [g_str_year0; g_str_date]) = TList [TStr (s "0000-01-01"); TDate (s "2019-12-04")].
Proof. vm_compute. repeat split; reflexivity. Qed.
(* after the repair: numbers stay numbers *)
Example C18_ex_numbers_stay :
  cast SPEC g_float_1_5 = TFloat (s "1.5") /\ cast SPEC g_str_1_5 = TStr (s "1.5") /\ cast SPEC g_float_epoch = TFloat (s "1577836800.5")
  /\ cast SPEC g_str_5dot = TStr (s "5.") /\ cast SPEC g_list_int_bool = TList [TInt 1; TBool true]
  /\ cast SPEC g_list_int_ip = TList [TInt 1; TNet KNet4 (s "10.0.0.1/32")].
Proof. vm_compute. repeat split; reflexivity. Qed.

(* ---- the code as found violates the property (witnesses replayed on the code through corpus/C18.json) ---- *)
(* finding 15: a float falls through int and date to the datetime alternative, which reads numbers as epoch seconds *)
Example C18_float_datetime_refuted :
  exists g, all_confirmed g = true /\ cast_ok ORIG g (cast ORIG g) = false.
Proof. exists g_float_1_5. vm_compute. split; reflexivity. Qed.
Example C18_float_datetime_witnesses :
  cast ORIG g_float_1_5 = TDatetime (s "1970-01-01T00:00:01.500000+00:00")
  /\ cast ORIG g_str_1_5 = TDatetime (s "1970-01-01T00:00:01.500000+00:00")
  /\ cast ORIG g_float_epoch = TDatetime (s "2020-01-01T00:00:00.500000+00:00")
  /\ cast ORIG g_str_5dot = TDatetime (s "1970-01-01T00:00:05+00:00")
  /\ cast_ok ORIG g_str_1_5 (cast ORIG g_str_1_5) = false /\ cast_ok ORIG g_float_epoch (cast ORIG g_float_epoch) = false
  /\ cast_ok ORIG g_str_5dot (cast ORIG g_str_5dot) = false.
Proof. vm_compute. repeat split; reflexivity. Qed.
(* finding 19: every field of StatementCondition is optional, so {} anywhere became a condition block *)
Example C18_empty_object_refuted :
  exists g, all_confirmed g = true /\ cast_ok ORIG g (cast ORIG g) = false.
Proof. exists g_waf_block. vm_compute. split; reflexivity. Qed.
Example C18_empty_object_witness :
  cast ORIG g_waf_block = TGeneric [(s "Block", TProp cond_recog)] /\ cast SPEC g_waf_block = TGeneric [(s "Block", TGeneric [])].
Proof. vm_compute. split; reflexivity. Qed.
(* found by this check: inside a list the int alternative read JSON true as 1, and the network alternative read 1 as 0.0.0.1/32 *)
Example C18_bool_in_int_list_refuted :
  cast ORIG g_list_int_bool = TList [TInt 1; TInt 1] /\ cast_ok ORIG g_list_int_bool (cast ORIG g_list_int_bool) = false.
Proof. vm_compute. split; reflexivity. Qed.
Example C18_number_as_network_refuted :
  cast ORIG g_list_int_ip = TList [TNet KNet4 (s "0.0.0.1/32"); TNet KNet4 (s "10.0.0.1/32")]
  /\ cast_ok ORIG g_list_int_ip (cast ORIG g_list_int_ip) = false.
Proof. vm_compute. split; reflexivity. Qed.
