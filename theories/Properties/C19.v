(* C19 -- Malformed templates are rejected cleanly.
   "For every JSON value handed to parse - however malformed - the call either returns a model or raises the
   library's validation error; it never raises any other exception type ..."

   pydantic runs pycfmodel's custom validators on RAW input and converts only ValueError / AssertionError into
   its ValidationError; every other exception leaves pycfmodel.parse as it is (C19_pydantic_contract,
   C19_other_exceptions_escape).  The statements below are therefore about every value whatsoever (the type
   [value] holds every JSON value; object keys are strings, as in JSON).  What is proved is the logic of
   pycfmodel's own validators (Robust/Validators.v, tied to the code by harness/props/c19.py stream (a));
   pydantic-core's internals, the interpreter's recursion limit (known finding F17), time and memory are
   runtime, tied by the sandboxed fuzzer of stream (b): partial. *)
From Coq Require Import List Bool NArith ZArith.
From PV Require Import Base.Str Base.Value Resolver.Consts Resolver.Resolve Robust.RConsts Robust.Validators Robust.ValidatorsFacts.
Import ListNotations.
Local Open Scope N_scope.

(* Every custom validator, on EVERY value, returns or raises ValueError -- never TypeError, AttributeError,
   KeyError, IndexError ... *)
Theorem C19_validators_clean :
  forall (strict : bool) (modelled : list str) (cast : value -> value) (loads : str -> option value) (float_ok : str -> bool)
         (exp : bool -> list str -> list str) (not_action : bool) (v : value),
    clean (check_type strict modelled v) /\
    clean (validate_binary v) /\
    clean (semi_strict_bool v) /\
    clean (check_fn_dict v) /\
    clean (generic_casting cast v) /\
    clean (json_prepass loads v) /\
    clean (remove_colon v) /\
    clean (effect_validator v) /\
    clean (tag_coerce v) /\
    clean (not_from_numbers float_ok v) /\
    clean (not_from_booleans v) /\
    clean (expand_acts exp not_action v).
Proof.
  intros. repeat split.
  - apply check_type_clean.
  - apply validate_binary_clean.
  - apply semi_strict_bool_clean.
  - apply check_fn_dict_clean.
  - apply generic_casting_clean.
  - apply json_prepass_clean.
  - apply never_raises_clean, remove_colon_total.
  - apply effect_validator_clean.
  - apply never_raises_clean, tag_coerce_total.
  - apply not_from_numbers_clean.
  - apply not_from_booleans_clean.
  - apply expand_acts_clean.
Qed.
Print Assumptions C19_validators_clean.

(* two of the hooks cannot fail at all; the JSON pre-pass refuses exactly the empty object (whatever json.loads does) *)
Theorem C19_hooks_never_raise : forall (v : value), never_raises (remove_colon v) /\ never_raises (tag_coerce v).
Proof. intros. split; [apply remove_colon_total | apply tag_coerce_total]. Qed.
Print Assumptions C19_hooks_never_raise.
Theorem C19_json_prepass_refuses_only_empty : forall (loads : str -> option value) (v : value) (e : err),
  json_prepass loads v = Err e -> e = EValue /\ (v = VDict [] \/ exists s, v = VStr s /\ loads s = Some (VDict [])).
Proof. exact json_prepass_refuses_only_empty. Qed.
Print Assumptions C19_json_prepass_refuses_only_empty.

(* pydantic's contract: a clean validator can only make parse return or raise ValidationError ... *)
Theorem C19_pydantic_contract : forall (A : Type) (r : res A), clean r -> parse_clean (pydantic_wrap r).
Proof. intros A r. apply wrap_clean. Qed.
Print Assumptions C19_pydantic_contract.
(* ... and an unclean one shows through: cleanliness of every validator is necessary, not only sufficient *)
Theorem C19_other_exceptions_escape : forall (A : Type) (r : res A) (e : err),
  r = Err e -> e <> EValue -> pydantic_wrap r = Err e.
Proof. intros A r e. apply wrap_propagates. Qed.
Print Assumptions C19_other_exceptions_escape.

(* the annotated fields that carry a custom validator: model or ValidationError, for every value *)
Theorem C19_fields_clean :
  forall (strict : bool) (modelled : list str) (cast : value -> value) (v : value),
    parse_clean (type_field strict modelled v) /\
    parse_clean (binary_field v) /\
    parse_clean (bool_field v) /\
    parse_clean (effect_field v) /\
    parse_clean (tag_value_field v) /\
    parse_clean (fn_dict_field v) /\
    parse_clean (generic_field cast v).
Proof.
  intros. repeat split.
  - apply type_field_clean.
  - apply binary_field_clean.
  - apply bool_field_clean.
  - apply effect_field_clean.
  - apply tag_value_field_clean.
  - apply fn_dict_field_clean.
  - apply generic_field_clean.
Qed.
Print Assumptions C19_fields_clean.

(* a typed date / datetime field (repair of F26): whatever pydantic's own parser lets through -- a result, a ValidationError or
   the plain ValueError of a year-0 date -- the field yields a model or a ValidationError *)
Theorem C19_date_fields_clean : forall (std : value -> res value) (v : value),
  clean (std v) \/ std v = Err EValidation -> parse_clean (safe_date std v).
Proof. exact safe_date_clean. Qed.
Print Assumptions C19_date_fields_clean.

(* ---- the repaired witnesses now give ValueError, i.e. ValidationError from parse (the pre-repair models
        and their refutations are in Findings/F11F13.v) ---- *)
Definition s_a : str := [97].
Example C19_type_list : type_field true [] (VList [VStr s_a]) = Err EValidation.
Proof. reflexivity. Qed.
Example C19_type_object : type_field true [] (VDict [(s_a, VInt 1)]) = Err EValidation.
Proof. reflexivity. Qed.
Example C19_type_number_bool_null :
  type_field true [] (VInt 5) = Err EValidation /\ type_field true [] (VBool true) = Err EValidation /\
  type_field true [] VNull = Ok VNull.
Proof. repeat split; reflexivity. Qed.
Example C19_type_modelled_strict : type_field true [s_a] (VStr s_a) = Err EValidation /\ type_field false [s_a] (VStr s_a) = Ok (VStr s_a).
Proof. split; reflexivity. Qed.
Example C19_binary_number : binary_field (VInt 5) = Err EValidation.
Proof. reflexivity. Qed.
Example C19_binary_null_list_object :
  binary_field VNull = Err EValidation /\ binary_field (VList [VInt 1]) = Err EValidation /\ binary_field (VDict []) = Err EValidation.
Proof. repeat split; reflexivity. Qed.
(* "YQ==" is accepted, alone or in a list; "Y" (one data character) and non-ASCII text are not *)
Example C19_binary_text :
  binary_field (VStr [89; 81; 61; 61]) = Ok (VBytes [97]) /\
  binary_field (VList [VStr [89; 81; 61; 61]; VStr []]) = Ok (VList [VBytes [97]; VBytes []]) /\
  binary_field (VStr [89]) = Err EValidation /\ binary_field (VStr [233]) = Err EValidation.
Proof. repeat split; reflexivity. Qed.
Example C19_effect : effect_field (VStr [97; 76; 76; 79; 87]) = Ok (VStr S_Allow) /\ effect_field (VStr s_a) = Err EValidation /\
  effect_field (VInt 1) = Err EValidation /\ effect_field (VDict [(K_Ref, VStr s_a)]) = Ok (VDict [(K_Ref, VStr s_a)]).
Proof. repeat split; reflexivity. Qed.
Example C19_fn_dict_keys : fn_dict_field (VDict []) = Err EValidation /\ fn_dict_field (VDict [(K_Ref, VNull)]) = Ok (VDict [(K_Ref, VNull)]) /\
  fn_dict_field (VDict [(K_Ref, VNull); (K_Sub, VNull)]) = Err EValidation /\ fn_dict_field (VList []) = Err EValidation.
Proof. repeat split; reflexivity. Qed.
Example C19_remove_colon_collapses :
  remove_colon (VDict [([97; 58; 98], VInt 1); ([97; 98], VInt 2)]) = Ok (VDict [([97; 98], VInt 2)]) /\
  remove_colon (VList []) = Ok (VList []).
Proof. split; reflexivity. Qed.
