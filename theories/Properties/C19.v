(* C19 -- Malformed templates are rejected cleanly.
   "For every JSON value handed to parse - however malformed - the call either returns a model or raises the
   library's validation error; it never raises any other exception type ..."

   pydantic runs pycfmodel's custom validators on RAW input and converts only ValueError / AssertionError into
   its ValidationError; every other exception leaves pycfmodel.parse as it is (C19_pydantic_contract,
   C19_other_exceptions_escape).  The statements below are therefore about every value whatsoever (the type
   [value] holds every JSON value; object keys are strings, as in JSON).  What is proved is the logic of
   pycfmodel's own validators (Robust/Validators.v, tied to the code by harness/props/c19.py stream (a));
   pydantic-core's internals, the interpreter's recursion limit (known finding F17), time and memory are
   runtime, tied by the sandboxed fuzzer of stream (b): partial.

   WHOLE parse (second half of this file) is the schema interpreter of Typed/Roundtrip.v -- pydantic validating plain
   data against the class table generated from the live classes -- composed with its leaf validators:
   C19_parse_clean (for every table and every value the outcome is a model, ValidationError, "declined" or the nesting
   limit, PROVIDED every leaf validator is clean: no structure, union, default, extra-mode or hook adds an exception kind),
   C19_parse_clean_depth (the nesting limit is reached only by values nested deeper than the fuel), C19_parse_fuel_monotone,
   C19_leaf_exception_escapes (the converse), C19_parse_clean_live_schema / _runner (the instances on gen/Schema.v),
   C19_interpreter_leaves_are_the_validators (the leaves of the interpreter ARE the validators of the first half), and the
   magnitude-free cost: C19_cost_same_result, C19_cost_bound (steps <= weight(table, annotation, fuel) * nodes),
   C19_cost_bound_closed_form, C19_cost_linear_union_free, C19_cost_bound_live_schema. *)
From Coq Require Import List Bool NArith ZArith.
From PV Require Import Base.Str Base.Value Resolver.Consts Resolver.Resolve Robust.RConsts Robust.Validators Robust.ValidatorsFacts.
(* the interpreter and its vocabulary are used under qualified names (Roundtrip.validate, Typed.Schema.ftype, Leaves.validate_binary
   ...): several of its leaves bear the names of the validators above *)
From PV Require Import Base.WireFacts.
From PV Require Typed.Schema Typed.Leaves Typed.Roundtrip Typed.RoundtripRun Typed.RoundtripExamples.
From PV Require Import Typed.ParseClean Typed.ParseCost.
From PV Require Resolver.Text.
From PV Require Import Robust.ValidatorLaws.
From PVGen Require Schema.
Import ListNotations.
Local Open Scope N_scope.

(* Every custom validator, on EVERY value, returns or raises ValueError -- never TypeError, AttributeError,
   KeyError, IndexError ... *)
Theorem C19_validators_clean :
  forall (strict : bool) (modelled : list str) (cast : value -> value) (loads : str -> option value) (float_ok : str -> bool)
         (exp : bool -> list str -> list str) (not_action : bool) (v : value),
    clean (check_type strict modelled v) /\
    clean (validate_binary v) /\
    clean (semi_strict_bool v) /\
    clean (check_fn_dict v) /\
    clean (generic_casting cast v) /\
    clean (json_prepass loads v) /\
    clean (remove_colon v) /\
    clean (effect_validator v) /\
    clean (tag_coerce v) /\
    clean (not_from_numbers float_ok v) /\
    clean (not_from_booleans v) /\
    clean (expand_acts exp not_action v).
Proof.
  intros. repeat split.
  - apply check_type_clean.
  - apply validate_binary_clean.
  - apply semi_strict_bool_clean.
  - apply check_fn_dict_clean.
  - apply generic_casting_clean.
  - apply json_prepass_clean.
  - apply never_raises_clean, remove_colon_total.
  - apply effect_validator_clean.
  - apply never_raises_clean, tag_coerce_total.
  - apply not_from_numbers_clean.
  - apply not_from_booleans_clean.
  - apply expand_acts_clean.
Qed.
Print Assumptions C19_validators_clean.

(* two of the hooks cannot fail at all; the JSON pre-pass refuses exactly the empty object (whatever json.loads does) *)
Theorem C19_hooks_never_raise : forall (v : value), never_raises (remove_colon v) /\ never_raises (tag_coerce v).
Proof. intros. split; [apply remove_colon_total | apply tag_coerce_total]. Qed.
Print Assumptions C19_hooks_never_raise.
Theorem C19_json_prepass_refuses_only_empty : forall (loads : str -> option value) (v : value) (e : err),
  json_prepass loads v = Err e -> e = EValue /\ (v = VDict [] \/ exists s, v = VStr s /\ loads s = Some (VDict [])).
Proof. exact json_prepass_refuses_only_empty. Qed.
Print Assumptions C19_json_prepass_refuses_only_empty.
(* F29 (fixed 4e7f8be): the pre-pass maps text to the SAME text or to a non-text value, never to other text; validating its own
   textual output again therefore changes nothing (each re-validation used to peel one layer of quotes off "\"\\\"x\\\"\"") *)
Theorem C19_json_prepass_text_to_text : forall (loads : str -> option value) (s t : str),
  json_prepass loads (VStr s) = Ok (VStr t) -> t = s /\ json_prepass loads (VStr t) = Ok (VStr t).
Proof. intros loads s t H. split; [exact (json_prepass_text_to_text loads s t H) | exact (json_prepass_idempotent_on_text loads s t H)]. Qed.
Print Assumptions C19_json_prepass_text_to_text.

(* pydantic's contract: a clean validator can only make parse return or raise ValidationError ... *)
Theorem C19_pydantic_contract : forall (A : Type) (r : res A), clean r -> parse_clean (pydantic_wrap r).
Proof. intros A r. apply wrap_clean. Qed.
Print Assumptions C19_pydantic_contract.
(* ... and an unclean one shows through: cleanliness of every validator is necessary, not only sufficient *)
Theorem C19_other_exceptions_escape : forall (A : Type) (r : res A) (e : err),
  r = Err e -> e <> EValue -> pydantic_wrap r = Err e.
Proof. intros A r e. apply wrap_propagates. Qed.
Print Assumptions C19_other_exceptions_escape.

(* the annotated fields that carry a custom validator: model or ValidationError, for every value *)
Theorem C19_fields_clean :
  forall (strict : bool) (modelled : list str) (cast : value -> value) (v : value),
    parse_clean (type_field strict modelled v) /\
    parse_clean (binary_field v) /\
    parse_clean (bool_field v) /\
    parse_clean (effect_field v) /\
    parse_clean (tag_value_field v) /\
    parse_clean (fn_dict_field v) /\
    parse_clean (generic_field cast v).
Proof.
  intros. repeat split.
  - apply type_field_clean.
  - apply binary_field_clean.
  - apply bool_field_clean.
  - apply effect_field_clean.
  - apply tag_value_field_clean.
  - apply fn_dict_field_clean.
  - apply generic_field_clean.
Qed.
Print Assumptions C19_fields_clean.

(* a typed date / datetime field (repair of F26): whatever pydantic's own parser lets through -- a result, a ValidationError or
   the plain ValueError of a year-0 date -- the field yields a model or a ValidationError *)
Theorem C19_date_fields_clean : forall (std : value -> res value) (v : value),
  clean (std v) \/ std v = Err EValidation -> parse_clean (safe_date std v).
Proof. exact safe_date_clean. Qed.
Print Assumptions C19_date_fields_clean.

(* ---- the repaired witnesses now give ValueError, i.e. ValidationError from parse (the pre-repair models
        and their refutations are in Findings/F11F13.v) ---- *)
Definition s_a : str := [97].
Example C19_type_list : type_field true [] (VList [VStr s_a]) = Err EValidation.
Proof. reflexivity. Qed.
Example C19_type_object : type_field true [] (VDict [(s_a, VInt 1)]) = Err EValidation.
Proof. reflexivity. Qed.
Example C19_type_number_bool_null :
  type_field true [] (VInt 5) = Err EValidation /\ type_field true [] (VBool true) = Err EValidation /\
  type_field true [] VNull = Ok VNull.
Proof. repeat split; reflexivity. Qed.
Example C19_type_modelled_strict : type_field true [s_a] (VStr s_a) = Err EValidation /\ type_field false [s_a] (VStr s_a) = Ok (VStr s_a).
Proof. split; reflexivity. Qed.
Example C19_binary_number : binary_field (VInt 5) = Err EValidation.
Proof. reflexivity. Qed.
Example C19_binary_null_list_object :
  binary_field VNull = Err EValidation /\ binary_field (VList [VInt 1]) = Err EValidation /\ binary_field (VDict []) = Err EValidation.
Proof. repeat split; reflexivity. Qed.
(* "YQ==" is accepted, alone or in a list; "Y" (one data character) and non-ASCII text are not *)
Example C19_binary_text :
  binary_field (VStr [89; 81; 61; 61]) = Ok (VBytes [97]) /\
  binary_field (VList [VStr [89; 81; 61; 61]; VStr []]) = Ok (VList [VBytes [97]; VBytes []]) /\
  binary_field (VStr [89]) = Err EValidation /\ binary_field (VStr [233]) = Err EValidation.
Proof. repeat split; reflexivity. Qed.
Example C19_effect : effect_field (VStr [97; 76; 76; 79; 87]) = Ok (VStr S_Allow) /\ effect_field (VStr s_a) = Err EValidation /\
  effect_field (VInt 1) = Err EValidation /\ effect_field (VDict [(K_Ref, VStr s_a)]) = Ok (VDict [(K_Ref, VStr s_a)]).
Proof. repeat split; reflexivity. Qed.
Example C19_fn_dict_keys : fn_dict_field (VDict []) = Err EValidation /\ fn_dict_field (VDict [(K_Ref, VNull)]) = Ok (VDict [(K_Ref, VNull)]) /\
  fn_dict_field (VDict [(K_Ref, VNull); (K_Sub, VNull)]) = Err EValidation /\ fn_dict_field (VList []) = Err EValidation.
Proof. repeat split; reflexivity. Qed.
Example C19_remove_colon_collapses :
  remove_colon (VDict [([97; 58; 98], VInt 1); ([97; 98], VInt 2)]) = Ok (VDict [([97; 98], VInt 2)]) /\
  remove_colon (VList []) = Ok (VList []).
Proof. split; reflexivity. Qed.

(* ================================================================================================================== *)
(* WHOLE parse: the schema interpreter composed with its leaf validators.
   [Roundtrip.validate tbl modelled strict leafv n t v]: the class table, the (Type string, class) list of the resource union,
   GenericResource._strict, the leaf validators, the fuel (how deep model classes may nest), the annotation, the data. *)
Local Close Scope N_scope.

(* If every leaf validator answers -- on every value -- with a value, with ValidationError, or is declined by the model, then
   for EVERY class table and EVERY value (wrong container kinds, numbers where objects are expected, unknown or repeated keys,
   anything) parse answers with a model, ValidationError, "declined", or the nesting limit. *)
Theorem C19_parse_clean :
  forall (tbl : list Typed.Schema.cschema) (modelled : list (str * str)) (strict : bool)
         (leafv : Typed.Schema.leaf -> value -> res value),
    (forall k v, (exists w, leafv k v = Ok w) \/ leafv k v = Err EValidation \/ leafv k v = Err EUndefined) ->
    forall (n : nat) (t : Typed.Schema.ftype) (v : value),
      (exists x, Roundtrip.validate tbl modelled strict leafv n t v = Ok x) \/
      Roundtrip.validate tbl modelled strict leafv n t v = Err EValidation \/
      Roundtrip.validate tbl modelled strict leafv n t v = Err EUndefined \/
      Roundtrip.validate tbl modelled strict leafv n t v = Err ERecursion.
Proof. exact validate_clean. Qed.
Print Assumptions C19_parse_clean.
(* ... never TypeError, ValueError, AttributeError, IndexError, KeyError *)
Theorem C19_parse_never_other_exception :
  forall tbl modelled strict leafv,
    (forall k v, (exists w, leafv k v = Ok w) \/ leafv k v = Err EValidation \/ leafv k v = Err EUndefined) ->
    forall n t v e, Roundtrip.validate tbl modelled strict leafv n t v = Err e ->
      e <> EType /\ e <> EValue /\ e <> EAttr /\ e <> EIndex /\ e <> EKey.
Proof. exact validate_never_other. Qed.
Print Assumptions C19_parse_never_other_exception.
(* the nesting limit is reached only by a value nested deeper than the fuel (whatever the table, cyclic ones included):
   below it the answer is a model, ValidationError, or declined *)
Theorem C19_parse_clean_depth :
  forall tbl modelled strict leafv,
    (forall k v, (exists w, leafv k v = Ok w) \/ leafv k v = Err EValidation \/ leafv k v = Err EUndefined) ->
    forall n t v, (vdepth v <= n)%nat ->
      (exists x, Roundtrip.validate tbl modelled strict leafv n t v = Ok x) \/
      Roundtrip.validate tbl modelled strict leafv n t v = Err EValidation \/
      Roundtrip.validate tbl modelled strict leafv n t v = Err EUndefined.
Proof. exact validate_clean_depth. Qed.
Print Assumptions C19_parse_clean_depth.
(* more fuel never changes a model or a ValidationError into anything else (no hypothesis at all) *)
Theorem C19_parse_fuel_monotone :
  forall tbl modelled strict leafv (n m : nat) t v r, (n <= m)%nat ->
    Roundtrip.validate tbl modelled strict leafv n t v = r -> (exists x, r = Ok x) \/ r = Err EValidation ->
    Roundtrip.validate tbl modelled strict leafv m t v = r.
Proof. exact validate_fuel_monotone. Qed.
Print Assumptions C19_parse_fuel_monotone.
(* the converse: what a leaf validator raises leaves parse as it is -- cleanliness of the leaves is necessary *)
Theorem C19_leaf_exception_escapes :
  forall tbl modelled strict leafv n k v e,
    leafv k v = Err e -> Roundtrip.validate tbl modelled strict leafv n (Typed.Schema.TLeaf k) v = Err e.
Proof. exact leaf_error_escapes. Qed.
Print Assumptions C19_leaf_exception_escapes.

(* On the class table generated from the live classes, with the leaf validators the runner uses (Leaves.leaf_validate):
   pycfmodel's own leaf validators are models and PROVED clean; [core] stands for the validators of pydantic-core and class
   Generic, whose cleanliness is the hypothesis (it is what the sandboxed fuzzer observes; F26 was a violation of it). *)
Theorem C19_parse_clean_live_schema :
  forall (core : Typed.Schema.leaf -> value -> res value),
    (forall k v, Leaves.is_core k = true ->
       (exists w, core k v = Ok w) \/ core k v = Err EValidation \/ core k v = Err EUndefined) ->
    forall strict n t v,
      let r := Roundtrip.validate PVGen.Schema.CLASSES PVGen.Schema.RESOURCE_MODELS strict (Leaves.leaf_validate core) n t v in
      ((exists x, r = Ok x) \/ r = Err EValidation \/ r = Err EUndefined \/ r = Err ERecursion) /\
      ((vdepth v <= n)%nat -> (exists x, r = Ok x) \/ r = Err EValidation \/ r = Err EUndefined).
Proof. exact validate_clean_live. Qed.
Print Assumptions C19_parse_clean_live_schema.
(* the executable instance (RoundtripRun.val_dumped: the same table, fuel 64, the runner's oracle): nothing is assumed *)
Theorem C19_parse_clean_runner :
  forall strict t v,
    let r := RoundtripRun.val_dumped strict t v in
    ((exists x, r = Ok x) \/ r = Err EValidation \/ r = Err EUndefined \/ r = Err ERecursion) /\
    ((vdepth v <= 64)%nat -> (exists x, r = Ok x) \/ r = Err EValidation \/ r = Err EUndefined).
Proof. exact validate_clean_runner. Qed.
Print Assumptions C19_parse_clean_runner.
(* the leaves and hooks of the interpreter are the custom validators of the first half under pydantic's contract *)
Theorem C19_interpreter_leaves_are_the_validators :
  (forall v, Leaves.semi_strict_bool v = pydantic_wrap (semi_strict_bool v)) /\
  (forall v, Leaves.validate_binary v = pydantic_wrap (validate_binary v)) /\
  (forall v, Leaves.function_dict v = pydantic_wrap (check_fn_dict v)) /\
  (forall modelled strict v, Roundtrip.check_type modelled strict v = pydantic_wrap (check_type strict (keys modelled) v)) /\
  (forall w, Leaves.effect_hook w = pydantic_wrap (effect_validator w)) /\
  (forall v, Ok (Leaves.tag_value_hook v) = tag_coerce v).
Proof. exact leaves_are_the_validators. Qed.
Print Assumptions C19_interpreter_leaves_are_the_validators.

(* ---- the cost of whole parse: [validate_c] = the same interpreter with a step counter (one step per node of the input
        visited, per union alternative that visits it; a leaf costs 1 whatever is in it) ---- *)
Theorem C19_cost_same_result :
  forall tbl modelled strict leafv n t v,
    fst (validate_c tbl modelled strict leafv n t v) = Roundtrip.validate tbl modelled strict leafv n t v.
Proof. exact validate_c_fst. Qed.
Print Assumptions C19_cost_same_result.
(* steps <= weight * number of nodes, for every table, annotation, value, fuel and leaf validators; [weight] is computed
   from the table, the annotation and the fuel: it never sees the value, so neither numeric magnitudes nor the width of
   address ranges nor the length of texts can matter *)
Theorem C19_cost_bound :
  forall tbl modelled strict leafv n t v,
    (snd (validate_c tbl modelled strict leafv n t v) <= weight tbl modelled n t * vsize v)%nat.
Proof. exact cost_bound. Qed.
Print Assumptions C19_cost_bound.
(* in closed form: (alternatives of the annotation) * (largest number of alternatives of one field of the table) ^ fuel *)
Theorem C19_cost_bound_closed_form :
  forall tbl modelled strict leafv n t v,
    (snd (validate_c tbl modelled strict leafv n t v) <= fwidth modelled t * table_width tbl modelled ^ n * vsize v)%nat.
Proof. exact cost_bound_pow. Qed.
Print Assumptions C19_cost_bound_closed_form.
(* no unions (Optional, List, Dict, classes and leaves only; field names distinct): linear with constant 1 *)
Theorem C19_cost_linear_union_free :
  forall tbl modelled strict leafv n t v,
    plain_table tbl = true -> plain t = true -> (snd (validate_c tbl modelled strict leafv n t v) <= vsize v)%nat.
Proof. exact cost_linear_plain. Qed.
Print Assumptions C19_cost_linear_union_free.
(* the live classes: linear in the size of the template (the table is acyclic; the kernel computes its weight) *)
Theorem C19_cost_bound_live_schema :
  forall strict leafv v,
    (snd (validate_c PVGen.Schema.CLASSES PVGen.Schema.RESOURCE_MODELS strict leafv 64 CFMODEL_T v) <= 64 * vsize v)%nat.
Proof. exact cost_bound_live. Qed.
Print Assumptions C19_cost_bound_live_schema.

(* ---- examples ---- *)
Definition k_Resources : str := [82;101;115;111;117;114;99;101;115]%N.
Definition k_Type : str := [84;121;112;101]%N.
Definition k_r : str := [114]%N.
Definition parse_live (v : value) : res Roundtrip.tval := RoundtripRun.val_dumped true CFMODEL_T v.
(* garbage against the live table: a number, a list, Resources a list, a resource a number, Type a list, an unknown section:
   ValidationError; a repeated key (not JSON): declined *)
Example C19_ex_parse_garbage :
  parse_live (VInt 5) = Err EValidation /\
  parse_live (VList []) = Err EValidation /\
  parse_live (VDict [(k_Resources, VList [])]) = Err EValidation /\
  parse_live (VDict [(k_Resources, VDict [(k_r, VInt 5)])]) = Err EValidation /\
  parse_live (VDict [(k_Resources, VDict [(k_r, VDict [(k_Type, VList [VStr s_a])])])]) = Err EValidation /\
  parse_live (VDict [(s_a, VInt 1)]) = Err EValidation /\
  parse_live (VDict [(k_Resources, VDict []); (k_Resources, VDict [])]) = Err EUndefined.
Proof. repeat split; vm_compute; reflexivity. Qed.
(* a valid template: accepted, 64 steps for 54 nodes (bound 64 * 54) *)
Example C19_ex_parse_template :
  (exists x, fst (validate_c PVGen.Schema.CLASSES PVGen.Schema.RESOURCE_MODELS true (Leaves.leaf_validate RoundtripRun.core_dumped)
                    64 CFMODEL_T RoundtripExamples.EX_RAW) = Ok x) /\
  vsize RoundtripExamples.EX_RAW = 54%nat /\ vdepth RoundtripExamples.EX_RAW = 11%nat /\
  (snd (validate_c PVGen.Schema.CLASSES PVGen.Schema.RESOURCE_MODELS true (Leaves.leaf_validate RoundtripRun.core_dumped)
          64 CFMODEL_T RoundtripExamples.EX_RAW) <= 2 * 54)%nat.
Proof. split; [eexists; vm_compute; reflexivity|]. split; [vm_compute; reflexivity|]. split; [vm_compute; reflexivity|]. apply Nat.leb_le. vm_compute. reflexivity. Qed.
(* the leaf hypothesis is not idle: the pre-repair validate_binary (finding F11) lets TypeError out of the interpreter *)
Example C19_ex_unclean_leaf_escapes :
  Roundtrip.validate [] [] true (fun _ v => Leaves.validate_binary_old v) 0 (Typed.Schema.TLeaf Typed.Schema.LBinary) (VInt 5) = Err EType /\
  Roundtrip.validate [] [] true (fun _ v => Leaves.validate_binary v) 0 (Typed.Schema.TLeaf Typed.Schema.LBinary) (VInt 5) = Err EValidation.
Proof. split; reflexivity. Qed.
(* the nesting limit: six levels need fuel 6 (table T_REC: a class that reaches itself through a union) *)
Example C19_ex_depth :
  vdepth (chain 5) = 6%nat /\
  Roundtrip.validate T_REC [] true (Leaves.leaf_validate RoundtripRun.core_dumped) 5 (Typed.Schema.TModel [78%N]) (chain 5) = Err ERecursion /\
  Roundtrip.validate T_REC [] true (Leaves.leaf_validate RoundtripRun.core_dumped) 6 (Typed.Schema.TModel [78%N]) (chain 5) = Err EValidation /\
  Roundtrip.validate T_REC [] true (Leaves.leaf_validate RoundtripRun.core_dumped) 64 (Typed.Schema.TModel [78%N]) (chain 5) = Err EValidation.
Proof. repeat split; vm_compute; reflexivity. Qed.
(* a class that reaches itself through a union of width 2: 2^(k+1) - 1 steps for k+1 nodes (exponential in the depth is
   inherent); bound at fuel 8: weight 2^8 per node *)
Example C19_ex_cost_exponential :
  map (fun k => snd (validate_c T_REC [] true (Leaves.leaf_validate RoundtripRun.core_dumped) 8 (Typed.Schema.TModel [78%N]) (chain k)))
      [0; 1; 2; 3; 4; 5]%nat = [1; 3; 7; 15; 31; 63]%nat /\
  map (fun k => vsize (chain k)) [0; 1; 2; 3; 4; 5]%nat = [1; 2; 3; 4; 5; 6]%nat /\
  weight T_REC [] 8 (Typed.Schema.TModel [78%N]) = 256%nat /\ table_width T_REC [] = 2%nat.
Proof. repeat split; vm_compute; reflexivity. Qed.
(* a union-free table: every node once; and garbage costs no more *)
Example C19_ex_cost_linear :
  plain_table T_PLAIN = true /\ vsize plain_value = 8%nat /\
  (exists x, validate_c T_PLAIN [] true (Leaves.leaf_validate RoundtripRun.core_dumped) 8 (Typed.Schema.TModel [80%N]) plain_value = (Ok x, 8%nat)) /\
  validate_c T_PLAIN [] true (Leaves.leaf_validate RoundtripRun.core_dumped) 8 (Typed.Schema.TModel [80%N])
             (VDict [([97%N], VInt 7); ([98%N], VList [VList []])]) = (Err EValidation, 3%nat).
Proof. split; [vm_compute; reflexivity|]. split; [vm_compute; reflexivity|]. split; [eexists; vm_compute; reflexivity | vm_compute; reflexivity]. Qed.
(* a leaf costs one step whatever is in it: 10^30 like 1; 0.0.0.0/0 (2^32 addresses) like 10.0.0.0/8 *)
Example C19_ex_cost_magnitude_free :
  snd (validate_c [] [] true (Leaves.leaf_validate RoundtripRun.core_dumped) 0 (Typed.Schema.TLeaf Typed.Schema.LInt) (VInt (10 ^ 30))) = 1%nat /\
  snd (validate_c [] [] true (Leaves.leaf_validate RoundtripRun.core_dumped) 0 (Typed.Schema.TLeaf Typed.Schema.LInt) (VInt 1)) = 1%nat /\
  validate_c [] [] true (Leaves.leaf_validate RoundtripRun.core_dumped) 0 (Typed.Schema.TList (Typed.Schema.TLeaf Typed.Schema.LNet4))
             (VList [VStr [48;46;48;46;48;46;48;47;48]%N; VStr [49;48;46;48;46;48;46;48;47;56]%N]) =
    (Ok (Roundtrip.XList [Roundtrip.XLeaf (VTyped KNet4 [48;46;48;46;48;46;48;47;48]%N);
                          Roundtrip.XLeaf (VTyped KNet4 [49;48;46;48;46;48;46;48;47;56]%N)]), 3%nat).
Proof. repeat split; vm_compute; reflexivity. Qed.

(* =====================================================================================================
   ALGEBRAIC LAWS of the custom validators (Robust/ValidatorLaws.v) *)
Definition k_FAV_colon : str := [70;111;114;65;108;108;86;97;108;117;101;115;58;83;116;114;105;110;103;76;105;107;101]%N. (* ForAllValues:StringLike *)
Definition k_FAV : str := [70;111;114;65;108;108;86;97;108;117;101;115;83;116;114;105;110;103;76;105;107;101]%N.             (* ForAllValuesStringLike *)
Definition k_StringEquals : str := [83;116;114;105;110;103;69;113;117;97;108;115]%N.

(* every refusal of every custom validator is a ValueError (the per-validator reading of C19_validators_clean);
   remove_colon and the tag coercion refuse nothing *)
Theorem C19_validators_refuse_with_value_error :
  forall (strict : bool) (modelled : list str) (cast : value -> value) (loads : str -> option value) (float_ok : str -> bool)
         (v : value) (e : err),
    (check_type strict modelled v = Err e -> e = EValue) /\
    (validate_binary v = Err e -> e = EValue) /\
    (semi_strict_bool v = Err e -> e = EValue) /\
    (check_fn_dict v = Err e -> e = EValue) /\
    (generic_casting cast v = Err e -> e = EValue) /\
    (json_prepass loads v = Err e -> e = EValue) /\
    (not_from_numbers float_ok v = Err e -> e = EValue) /\
    (not_from_booleans v = Err e -> e = EValue) /\
    (effect_validator v = Err e -> e = EValue) /\
    remove_colon v <> Err e /\
    tag_coerce v <> Err e.
Proof. exact validators_refuse_with_value_error. Qed.
Print Assumptions C19_validators_refuse_with_value_error.
Example C19_ex_refusals :
  check_type true [k_Type] (VStr k_Type) = Err EValue /\ validate_binary (VInt 5) = Err EValue /\
  semi_strict_bool (VInt 1) = Err EValue /\ check_fn_dict (VDict []) = Err EValue /\
  generic_casting (fun x => x) (VList []) = Err EValue /\ json_prepass (fun _ => None) (VDict []) = Err EValue /\
  not_from_numbers (fun _ => false) (VInt 3) = Err EValue /\ not_from_booleans (VList [VBool true]) = Err EValue /\
  effect_validator (VStr k_Type) = Err EValue.
Proof. repeat split; reflexivity. Qed.

(* each validator ACCEPTS, UNCHANGED, WHAT IT PRODUCED -- unconditionally for all of them; the generic casting under the
   hypothesis that [cast] is idempotent, and not without it (C19_generic_casting_needs_idempotent_cast) *)
Theorem C19_validators_accept_own_output :
  forall (strict : bool) (modelled : list str) (cast : value -> value) (loads : str -> option value) (float_ok : str -> bool)
         (v w : value),
    (semi_strict_bool v = Ok w -> semi_strict_bool w = Ok w) /\
    (validate_binary v = Ok w -> validate_binary w = Ok w) /\
    (remove_colon v = Ok w -> remove_colon w = Ok w) /\
    (tag_coerce v = Ok w -> tag_coerce w = Ok w) /\
    (effect_validator v = Ok w -> effect_validator w = Ok w) /\
    (json_prepass loads v = Ok w -> json_prepass loads w = Ok w) /\
    ((forall x, cast (cast x) = cast x) -> generic_casting cast v = Ok w -> generic_casting cast w = Ok w) /\
    (check_type strict modelled v = Ok w -> w = v) /\ (check_fn_dict v = Ok w -> w = v) /\
    (not_from_numbers float_ok v = Ok w -> w = v) /\ (not_from_booleans v = Ok w -> w = v).
Proof.
  intros strict modelled cast loads float_ok v w.
  split; [apply semi_strict_bool_idem|]. split; [apply validate_binary_idem|]. split; [apply remove_colon_idem|].
  split; [apply tag_coerce_idem|]. split; [apply effect_validator_idem|]. split; [apply json_prepass_idem|].
  split; [apply generic_casting_idem|]. apply judges_return_argument.
Qed.
Print Assumptions C19_validators_accept_own_output.
Theorem C19_generic_casting_needs_idempotent_cast :
  exists cast v w, generic_casting cast v = Ok w /\ generic_casting cast w <> Ok w.
Proof. exact generic_casting_idem_refuted. Qed.
Print Assumptions C19_generic_casting_needs_idempotent_cast.
(* the hypotheses are satisfiable non-trivially: text that decodes to a LIST CONTAINING JSON TEXT -- the pre-pass yields the list,
   and on the list it yields the list again, the inner text still text; "TRUE" -> true -> true; "aLLOW" -> "Allow" -> "Allow";
   a colon key -> stripped -> the same *)
Example C19_ex_accept_own_output :
  let loads := fun s : str => if str_eqb s [91;93]%N then Some (VList [VStr [123;125]%N]) else
                               if str_eqb s [123;125]%N then Some (VDict []) else None in
  json_prepass loads (VStr [91;93]%N) = Ok (VList [VStr [123;125]%N]) /\
  json_prepass loads (VList [VStr [123;125]%N]) = Ok (VList [VStr [123;125]%N]) /\
  json_prepass loads (VStr [123;125]%N) = Err EValue /\
  semi_strict_bool (VStr [84;82;85;69]%N) = Ok (VBool true) /\ semi_strict_bool (VBool true) = Ok (VBool true) /\
  effect_validator (VStr [97;76;76;79;87]%N) = Ok (VStr S_Allow) /\ effect_validator (VStr S_Allow) = Ok (VStr S_Allow) /\
  tag_coerce (VBool true) = Ok (VStr S_True) /\ tag_coerce (VStr S_True) = Ok (VStr S_True) /\
  remove_colon (VDict [(k_FAV_colon, VInt 1)]) = Ok (VDict [(k_FAV, VInt 1)]) /\
  remove_colon (VDict [(k_FAV, VInt 1)]) = Ok (VDict [(k_FAV, VInt 1)]).
Proof. repeat split; vm_compute; reflexivity. Qed.

(* remove_colon: the result has no ':' in a key and no key twice (always); the value under a key is that of the LAST input entry
   whose key, colons removed, is that key, at the POSITION of the first; appending an entry changes no other key; identity on an
   object with distinct colon-free keys *)
Theorem C19_remove_colon_laws :
  (forall d, NoDup (keys (rc_dict d)) /\ keys_colon_free (rc_dict d) = true) /\
  (forall d, remove_colon (VDict d) = Ok (VDict (rc_dict d))) /\
  (forall d k, lookup k (rc_dict d) = lookup k (rev (stripped d))) /\
  (forall d k x,
     rc_dict (d ++ [(k, x)]) = dset (strip_colons k) x (rc_dict d) /\
     keys (rc_dict (d ++ [(k, x)])) =
       (if mem_str (strip_colons k) (keys (rc_dict d)) then keys (rc_dict d) else keys (rc_dict d) ++ [strip_colons k]) /\
     lookup (strip_colons k) (rc_dict (d ++ [(k, x)])) = Some x /\
     (forall k', k' <> strip_colons k -> lookup k' (rc_dict (d ++ [(k, x)])) = lookup k' (rc_dict d))) /\
  (forall d, NoDup (keys d) -> keys_colon_free d = true -> remove_colon (VDict d) = Ok (VDict d)) /\
  (forall v, (forall d, v <> VDict d) -> remove_colon v = Ok v).
Proof.
  split; [exact rc_dict_keys|]. split; [exact remove_colon_dict|]. split; [exact rc_dict_lookup|].
  split; [exact rc_dict_snoc|]. split; [exact remove_colon_identity | exact remove_colon_non_dict].
Qed.
Print Assumptions C19_remove_colon_laws.
Theorem C19_remove_colon_identity_needs_distinct_keys :
  exists d, keys_colon_free d = true /\ remove_colon (VDict d) <> Ok (VDict d).
Proof. exact remove_colon_identity_needs_distinct_keys. Qed.
Print Assumptions C19_remove_colon_identity_needs_distinct_keys.
(* "ForAllValues:StringLike" and "ForAllValuesStringLike" both present: ONE key, in the place of the first, with the value of the
   second -- whichever the order; StringEquals beside them is untouched *)
Example C19_ex_remove_colon_collision :
  remove_colon (VDict [(k_FAV_colon, VInt 1); (k_StringEquals, VInt 3); (k_FAV, VInt 2)]) =
    Ok (VDict [(k_FAV, VInt 2); (k_StringEquals, VInt 3)]) /\
  remove_colon (VDict [(k_FAV, VInt 2); (k_StringEquals, VInt 3); (k_FAV_colon, VInt 1)]) =
    Ok (VDict [(k_FAV, VInt 1); (k_StringEquals, VInt 3)]) /\
  NoDup (keys [(k_FAV, VInt 2); (k_StringEquals, VInt 3)]) /\ keys_colon_free [(k_FAV, VInt 2); (k_StringEquals, VInt 3)] = true.
Proof.
  split; [vm_compute; reflexivity|]. split; [vm_compute; reflexivity|]. split; [|reflexivity].
  constructor; [intros [C | []]; discriminate | constructor; [intros [] | constructor]].
Qed.

(* semi_strict_bool: exactly the booleans and the ASCII-case-insensitive texts true / false; the result is a boolean *)
Theorem C19_semi_strict_bool_exact :
  forall v w, semi_strict_bool v = Ok w <->
    (exists b, v = VBool b /\ w = VBool b) \/
    (exists s, v = VStr s /\ ((lower s = S_true /\ w = VBool true) \/ (lower s = S_false /\ w = VBool false))).
Proof. exact semi_strict_bool_exact. Qed.
Print Assumptions C19_semi_strict_bool_exact.
(* "False" accepted; 0, 1, "yes", null and "falſe" (long s, U+017F: Python's lower() leaves it, so does the model) refused *)
Example C19_ex_semi_strict_bool :
  semi_strict_bool (VStr [70;97;108;115;101]%N) = Ok (VBool false) /\
  semi_strict_bool (VInt 0) = Err EValue /\ semi_strict_bool (VInt 1) = Err EValue /\
  semi_strict_bool (VStr [121;101;115]%N) = Err EValue /\ semi_strict_bool VNull = Err EValue /\
  semi_strict_bool (VStr [102;97;108;383;101]%N) = Err EValue /\ semi_strict_bool (VStr [70;65;76;383;69]%N) = Err EValue.
Proof. repeat split; vm_compute; reflexivity. Qed.

(* the effect validator: exactly the case-insensitive spellings of allow / deny, answered capitalised; other values untouched *)
Theorem C19_effect_exact :
  (forall s w, effect_validator (VStr s) = Ok w <->
     (lower s = S_allow_l /\ w = VStr S_Allow) \/ (lower s = S_deny_l /\ w = VStr S_Deny)) /\
  (forall v, (forall s, v <> VStr s) -> effect_validator v = Ok v).
Proof. split; [exact effect_validator_exact | exact effect_validator_non_text]. Qed.
Print Assumptions C19_effect_exact.
Example C19_ex_effect :
  effect_validator (VStr [68;69;78;89]%N) = Ok (VStr S_Deny) /\ lower [68;69;78;89]%N = S_deny_l /\
  effect_validator (VStr [65;108;108;111;119;101;100]%N) = Err EValue /\                 (* "Allowed" *)
  effect_validator (VStr [256;108;108;111;119]%N) = Err EValue /\                        (* A-macron + "llow" *)
  effect_validator (VDict [(k_r, VInt 1)]) = Ok (VDict [(k_r, VInt 1)]).
Proof. repeat split; vm_compute; reflexivity. Qed.

(* check_type: refuses exactly (a) a modelled type string when strict and (b) anything that is neither text nor null -- the
   number 18, a list of modelled strings; never changes the value; with strict off every text passes *)
Theorem C19_check_type_exact :
  (forall strict modelled v e, check_type strict modelled v = Err e <->
     e = EValue /\ ((exists s, v = VStr s /\ mem_str s modelled = true /\ strict = true) \/
                    (v <> VNull /\ forall s, v <> VStr s))) /\
  (forall strict modelled v w, check_type strict modelled v = Ok w -> w = v) /\
  (forall modelled s, check_type false modelled (VStr s) = Ok (VStr s)).
Proof. split; [exact check_type_exact|]. split; [exact check_type_unchanged | exact check_type_lax_accepts]. Qed.
Print Assumptions C19_check_type_exact.
Example C19_ex_check_type :
  check_type true [k_Type] (VStr k_Type) = Err EValue /\ check_type false [k_Type] (VStr k_Type) = Ok (VStr k_Type) /\
  check_type true [k_Type] (VStr k_r) = Ok (VStr k_r) /\ check_type true [k_Type] VNull = Ok VNull /\
  check_type false [k_Type] (VInt 18) = Err EValue /\ check_type false [k_Type] (VList [VStr k_Type]) = Err EValue.
Proof. repeat split; reflexivity. Qed.

(* Binary: decoding inverts the encoder (Resolver/FnAlgebra.b64_roundtrip, the C01 law); text of alphabet characters only
   decodes exactly when its length is a multiple of four, so length 4k+1 is refused *)
Theorem C19_binary_roundtrip :
  (forall bs, Forall (fun b : N => (b < 256)%N) bs -> validate_binary (VStr (Resolver.Text.b64encode bs)) = Ok (VBytes bs)) /\
  (forall s, b64_plain s = true ->
     ((exists bs, validate_binary (VStr s) = Ok (VBytes bs)) <-> exists n : N, N.of_nat (length s) = (4 * n)%N)) /\
  (forall (s : str) (k : N), b64_plain s = true -> N.of_nat (length s) = (4 * k + 1)%N -> validate_binary (VStr s) = Err EValue).
Proof. split; [exact validate_binary_roundtrip|]. split; [exact validate_binary_plain_iff | exact validate_binary_plain_len1_refused]. Qed.
Print Assumptions C19_binary_roundtrip.
(* "QUJD" = ABC; an embedded blank is discarded ("QU JD"); missing padding is refused ("QUI", "QQ") and complete padding accepted
   ("QUI=", "QQ=="); one data character ("A") and five ("QUJDR") are refused; a complete pad ENDS the input ("QQ==QUJD" = A);
   a stray '=' before two data characters is skipped ("Q=UJD" = ABC); non-ASCII text is refused; bytes pass as they are *)
Example C19_ex_binary :
  validate_binary (VStr [81;85;74;68]%N) = Ok (VBytes [65;66;67]%N) /\ Resolver.Text.b64encode [65;66;67]%N = [81;85;74;68]%N /\
  validate_binary (VStr [81;85;32;74;68]%N) = Ok (VBytes [65;66;67]%N) /\
  validate_binary (VStr [81;85;73]%N) = Err EValue /\ validate_binary (VStr [81;81]%N) = Err EValue /\
  validate_binary (VStr [81;85;73;61]%N) = Ok (VBytes [65;66]%N) /\ validate_binary (VStr [81;81;61;61]%N) = Ok (VBytes [65]%N) /\
  validate_binary (VStr [65]%N) = Err EValue /\ b64_plain [65]%N = true /\
  validate_binary (VStr [81;85;74;68;82]%N) = Err EValue /\
  validate_binary (VStr [81;81;61;61;81;85;74;68]%N) = Ok (VBytes [65]%N) /\
  validate_binary (VStr [81;61;85;74;68]%N) = Ok (VBytes [65;66;67]%N) /\
  validate_binary (VStr [81;85;74;68;233]%N) = Err EValue /\
  validate_binary (VBytes [1;2]%N) = Ok (VBytes [1;2]%N).
Proof. repeat split; vm_compute; reflexivity. Qed.

(* what Binary decodes are BYTES (< 256), hence the text form of its own output -- the base64 of the decoded bytes, which is what a
   dumped Binary is -- is accepted and decodes to the same bytes, whatever blanks, strays or trailing text the original had *)
Theorem C19_binary_reencode :
  (forall s bs, b64decode s = Some bs -> Forall (fun b : N => (b < 256)%N) bs) /\
  (forall v bs, (forall bs', v <> VBytes bs') ->
     validate_binary v = Ok (VBytes bs) -> validate_binary (VStr (Resolver.Text.b64encode bs)) = Ok (VBytes bs)).
Proof. split; [exact b64decode_bytes | exact validate_binary_reencode]. Qed.
Print Assumptions C19_binary_reencode.
(* "QQ==QUJD" decodes to A; A encodes to "QQ==": the text changes, the bytes do not *)
Example C19_ex_binary_reencode :
  validate_binary (VStr [81;81;61;61;81;85;74;68]%N) = Ok (VBytes [65]%N) /\
  Resolver.Text.b64encode [65]%N = [81;81;61;61]%N /\ validate_binary (VStr [81;81;61;61]%N) = Ok (VBytes [65]%N).
Proof. repeat split; vm_compute; reflexivity. Qed.
