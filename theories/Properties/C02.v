(* C02 -- Conditions, conditional resources, Fn::If and AWS::NoValue follow CloudFormation.
   Statements only; proofs are [exact] of lemmas in Resolver/CondFacts.v and Resolver/Spec.v. *)
From Coq Require Import List Bool NArith ZArith Permutation.
From PV Require Import Base.Str Base.Value Resolver.Consts Resolver.Text Resolver.Resolve Resolver.Spec Resolver.Ext
  Resolver.Template Resolver.CondFacts Resolver.Memo Resolver.QTree Resolver.MemoFacts.
Import ListNotations.
Local Open Scope N_scope.

(* whatever the order in which the conditions are declared *)
Theorem C02_order_independent : forall ps maps decl decl' n, Permutation decl decl' -> NoDup (keys decl) ->
  cond_root ps maps decl n = cond_root ps maps decl' n.
Proof. exact cond_root_perm. Qed.
Print Assumptions C02_order_independent.

(* the value is a function of the MAP of declarations only *)
Theorem C02_depends_on_lookups_only : forall ps maps decl decl' fuel rem rem' n,
  same_lookups decl decl' -> same_members rem rem' ->
  cond_val ps maps decl fuel rem n = cond_val ps maps decl' fuel rem' n.
Proof. intros ps maps decl decl' fuel rem rem' n H1 H2. apply cond_val_ext; assumption. Qed.
Print Assumptions C02_depends_on_lookups_only.

(* the fuel never matters once it exceeds the number of declared names (the out-of-fuel branch is unreachable) *)
Theorem C02_fuel_adequate : forall ps maps decl fuel fuel' rem n,
  (length rem < fuel)%nat -> (length rem < fuel')%nat ->
  cond_val ps maps decl fuel rem n = cond_val ps maps decl fuel' rem n.
Proof. exact cond_val_fuel. Qed.
Print Assumptions C02_fuel_adequate.

(* a cyclic (in progress) or undeclared condition reference counts as false *)
Theorem C02_cycle_false : forall ps maps decl fuel rem n, mem_str n rem = false -> cond_val ps maps decl (S fuel) rem n = Ok false.
Proof. exact cond_val_not_in. Qed.
Print Assumptions C02_cycle_false.
Theorem C02_undeclared_false : forall ps maps decl fuel rem n, lookup n decl = None -> cond_val ps maps decl (S fuel) rem n = Ok false.
Proof. exact cond_val_undeclared. Qed.
Print Assumptions C02_undeclared_false.

(* the defining equation: a declared condition is its body, evaluated with references to the other conditions
   resolved the same way and with itself marked as in progress *)
Theorem C02_equation : forall ps maps decl fuel rem n body, mem_str n rem = true -> lookup n decl = Some body ->
  cond_val ps maps decl (S fuel) rem n =
  (r <- resolve (cenv ps maps (cond_val ps maps decl fuel (remove_str n rem))) body ;; ext_bool r).
Proof. exact cond_val_step. Qed.
Print Assumptions C02_equation.

(* truth tables: Fn::And = all, Fn::Or = any, Fn::Not, Fn::Equals over the string renderings *)
Theorem C02_and_true_iff : forall e l,
  resolve e (VDict [(K_And, VList l)]) = Ok (VBool true) <->
  Forall (fun x => exists r, resolve e x = Ok r /\ ext_bool r = Ok true) l.
Proof.
  intros e l. rewrite resolve_and, <- rall_true_iff. split.
  - intros H. destruct (rall e l) as [[|]|]; simpl in H; try discriminate; reflexivity.
  - intros ->. reflexivity.
Qed.
Print Assumptions C02_and_true_iff.
Theorem C02_or_false_iff : forall e l,
  resolve e (VDict [(K_Or, VList l)]) = Ok (VBool false) <->
  Forall (fun x => exists r, resolve e x = Ok r /\ ext_bool r = Ok false) l.
Proof.
  intros e l. rewrite resolve_or, <- rany_false_iff. split.
  - intros H. destruct (rany e l) as [[|]|]; simpl in H; try discriminate; reflexivity.
  - intros ->. reflexivity.
Qed.
Print Assumptions C02_or_false_iff.
Theorem C02_not : forall e x rest,
  resolve e (VDict [(K_Not, VList (x :: rest))]) = (r <- resolve e x ;; b <- ext_bool r ;; Ok (VBool (negb b))).
Proof. exact resolve_not. Qed.
Print Assumptions C02_not.
Theorem C02_equals_renderings : forall e a b a' b',
  resolve e a = Ok (VStr a') -> resolve e b = Ok (VStr b') ->
  resolve e (VDict [(K_Equals, VList [a; b])]) = Ok (VBool (str_eqb a' b')).
Proof. exact equals_renderings. Qed.
Print Assumptions C02_equals_renderings.

(* Fn::If yields the branch selected by its condition (only that branch is evaluated) *)
Theorem C02_if_selects : forall e c t f,
  resolve e (VDict [(K_If, VList [VStr c; t; f])]) = (b <- conds e c ;; if b then resolve e t else resolve e f).
Proof. exact resolve_if. Qed.
Print Assumptions C02_if_selects.

(* a resource is absent exactly when its Condition names a declared condition that is false *)
Theorem C02_gate : forall resolved fields,
  gate resolved (VDict fields) =
  match lookup K_Condition fields with
  | None | Some VNull => Ok true
  | Some (VStr c) => Ok (negb (match lookup c resolved with Some false => true | _ => false end))
  | Some _ => Err EUndefined
  end.
Proof. exact gate_spec. Qed.
Print Assumptions C02_gate.
Theorem C02_resources_present_iff : forall e resolved rs rs', resolve_resources e resolved rs = Ok rs' -> NoDup (keys rs) ->
  forall id,
    match lookup id rs with
    | None => lookup id rs' = None
    | Some r =>
        match gate resolved r with
        | Ok true => exists r', resolve_resource e r = Ok r' /\ lookup id rs' = Some r'
        | Ok false => lookup id rs' = None
        | Err _ => False
        end
    end.
Proof. exact resolve_resources_spec. Qed.
Print Assumptions C02_resources_present_iff.

(* a property or list element that resolves to AWS::NoValue is removed rather than kept *)
Theorem C02_novalue_pruned : forall e v r, resolve e v = Ok r ->
  match r with
  | VList l' => match v with VList _ => Forall (fun x => is_novalue x = false) l' | _ => True end
  | VDict d' => match v with VDict d => is_fn_dict d = false -> Forall (fun kv => is_novalue (snd kv) = false) d' | _ => True end
  | _ => True
  end.
Proof. exact novalue_pruned. Qed.
Print Assumptions C02_novalue_pruned.

(* ---- the algorithm the code actually runs: _ConditionResolver (depth-first, a list of names in progress, a cache, and a
        "tainted" flag that keeps every value computed while a cycle was being cut out of the cache) ---- *)

(* every expression the resolver can evaluate is a query tree: its only access to condition values is an explicit question *)
Theorem C02_resolver_is_a_query_tree : forall ps maps c v,
  qrun c (resolve_t ps maps v) = resolve (QTree.cenv ps maps c) v.
Proof. exact resolve_t_run. Qed.
Print Assumptions C02_resolver_is_a_query_tree.

(* resolve_all() of the memoising resolver returns exactly the specified condition values (same values, same order, same
   error if there is one), for EVERY set of declarations: cycles, self references, undeclared names, any declaration order *)
Theorem C02_memo_resolver_correct : forall ps maps decl,
  match cond_all ps maps decl (keys decl) with
  | Ok l => exists s', memo_resolve_all ps maps decl = Ok (l, s')
  | Err e => memo_resolve_all ps maps decl = Err e
  end.
Proof. exact memo_resolve_all_correct. Qed.
Print Assumptions C02_memo_resolver_correct.

(* a later question to the same resolver object, in any state it can be in (a sound cache that holds no name still in
   progress), is answered with the specified value and leaves such a state behind *)
Theorem C02_memo_get_any_state : forall ps maps decl prog n s,
  good (bodies_of ps maps decl) (cache s) prog ->
  match cond_val ps maps decl (S (length decl)) (rem_of (bodies_of ps maps decl) prog) n with
  | Ok b => exists s', mget (bodies_of ps maps decl) (S (length decl)) prog n s = Ok (b, s') /\ good (bodies_of ps maps decl) (cache s') prog
  | Err e => mget (bodies_of ps maps decl) (S (length decl)) prog n s = Err e
  end.
Proof. exact memo_get_correct. Qed.
Print Assumptions C02_memo_get_any_state.

(* why the cache is safe: an entry is only ever the specified value, whatever happens to be in progress when it is read *)
Theorem C02_cache_sound : forall bodies C, cache_ok bodies C ->
  forall fuel rem, (forall m b, lookup m C = Some b -> mem_str m rem = true) -> (length rem < fuel)%nat ->
  forall m b, lookup m C = Some b -> cvt bodies fuel rem m = Ok b.
Proof. exact cache_sound. Qed.
Print Assumptions C02_cache_sound.

(* ---- witnesses ---- *)
(* {B: {Condition: A}, A: {Fn::Equals: [a, a]}} : B is true although declared before A *)
Definition declBA : list (str * value) :=
  [([66], VDict [(K_Condition, VStr [65])]); ([65], VDict [(K_Equals, VList [VStr [97]; VStr [97]])])].
Example C02_ex_order : cond_root [] [] declBA [66] = Ok true /\ cond_root [] [] (rev declBA) [66] = Ok true.
Proof. split; vm_compute; reflexivity. Qed.
(* a self-reference and a two-cycle are false; Not of a cycle is true *)
Definition declCyc : list (str * value) :=
  [([65], VDict [(K_Condition, VStr [65])]);
   ([66], VDict [(K_Condition, VStr [67])]); ([67], VDict [(K_Condition, VStr [66])]);
   ([68], VDict [(K_Not, VList [VDict [(K_Condition, VStr [68])]])])].
Example C02_ex_cycles : map (cond_root [] [] declCyc) [[65]; [66]; [67]; [68]; [90]] = [Ok false; Ok false; Ok false; Ok true; Ok false].
Proof. vm_compute. reflexivity. Qed.
Example C02_ex_equals_renderings :
  resolve (cenv [] [] (fun _ => Ok false)) (VDict [(K_Equals, VList [VInt 1; VStr [49]])]) = Ok (VBool true)
  /\ resolve (cenv [] [] (fun _ => Ok false)) (VDict [(K_Equals, VList [VBool true; VStr [84;82;85;69]])]) = Ok (VBool true).
Proof. split; vm_compute; reflexivity. Qed.

(* the memoising resolver on the cyclic declarations above: same values; only [65]... nothing computed under a cut cycle
   is cached (here every name sits on a cycle, so the cache stays empty), while an acyclic chain is cached entirely *)
Example C02_ex_memo_cycles :
  match memo_resolve_all [] [] declCyc with
  | Ok (l, s) => (l, cache s)
  | Err _ => ([], [])
  end = ([([65], false); ([66], false); ([67], false); ([68], true)], []).
Proof. vm_compute. reflexivity. Qed.
Example C02_ex_memo_chain :
  match memo_resolve_all [] [] declBA with
  | Ok (l, s) => (l, cache s)
  | Err _ => ([], [])
  end = ([([66], true); ([65], true)], [([66], true); ([65], true)]).
Proof. vm_compute. reflexivity. Qed.
