(* C02 -- Conditions, conditional resources, Fn::If and AWS::NoValue follow CloudFormation.
   Statements only; proofs are [exact] of lemmas in Resolver/CondFacts.v and Resolver/Spec.v. *)
From Coq Require Import List Bool NArith ZArith Permutation.
From PV Require Import Base.Str Base.Value Resolver.Consts Resolver.Text Resolver.Resolve Resolver.Spec Resolver.Ext
  Resolver.Template Resolver.CondFacts Resolver.Memo Resolver.QTree Resolver.MemoFacts
  Resolver.PermFacts Resolver.Trace Resolver.CondAlgebra.
Import ListNotations.
Local Open Scope N_scope.

(* whatever the order in which the conditions are declared *)
Theorem C02_order_independent : forall ps maps decl decl' n, Permutation decl decl' -> NoDup (keys decl) ->
  cond_root ps maps decl n = cond_root ps maps decl' n.
Proof. exact cond_root_perm. Qed.
Print Assumptions C02_order_independent.

(* the value is a function of the MAP of declarations only *)
Theorem C02_depends_on_lookups_only : forall ps maps decl decl' fuel rem rem' n,
  same_lookups decl decl' -> same_members rem rem' ->
  cond_val ps maps decl fuel rem n = cond_val ps maps decl' fuel rem' n.
Proof. intros ps maps decl decl' fuel rem rem' n H1 H2. apply cond_val_ext; assumption. Qed.
Print Assumptions C02_depends_on_lookups_only.

(* the fuel never matters once it exceeds the number of declared names (the out-of-fuel branch is unreachable) *)
Theorem C02_fuel_adequate : forall ps maps decl fuel fuel' rem n,
  (length rem < fuel)%nat -> (length rem < fuel')%nat ->
  cond_val ps maps decl fuel rem n = cond_val ps maps decl fuel' rem n.
Proof. exact cond_val_fuel. Qed.
Print Assumptions C02_fuel_adequate.

(* a cyclic (in progress) or undeclared condition reference counts as false *)
Theorem C02_cycle_false : forall ps maps decl fuel rem n, mem_str n rem = false -> cond_val ps maps decl (S fuel) rem n = Ok false.
Proof. exact cond_val_not_in. Qed.
Print Assumptions C02_cycle_false.
Theorem C02_undeclared_false : forall ps maps decl fuel rem n, lookup n decl = None -> cond_val ps maps decl (S fuel) rem n = Ok false.
Proof. exact cond_val_undeclared. Qed.
Print Assumptions C02_undeclared_false.

(* the defining equation: a declared condition is its body, evaluated with references to the other conditions
   resolved the same way and with itself marked as in progress *)
Theorem C02_equation : forall ps maps decl fuel rem n body, mem_str n rem = true -> lookup n decl = Some body ->
  cond_val ps maps decl (S fuel) rem n =
  (r <- resolve (cenv ps maps (cond_val ps maps decl fuel (remove_str n rem))) body ;; ext_bool r).
Proof. exact cond_val_step. Qed.
Print Assumptions C02_equation.

(* truth tables: Fn::And = all, Fn::Or = any, Fn::Not, Fn::Equals over the string renderings *)
Theorem C02_and_true_iff : forall e l,
  resolve e (VDict [(K_And, VList l)]) = Ok (VBool true) <->
  Forall (fun x => exists r, resolve e x = Ok r /\ ext_bool r = Ok true) l.
Proof.
  intros e l. rewrite resolve_and, <- rall_true_iff. split.
  - intros H. destruct (rall e l) as [[|]|]; simpl in H; try discriminate; reflexivity.
  - intros ->. reflexivity.
Qed.
Print Assumptions C02_and_true_iff.
Theorem C02_or_false_iff : forall e l,
  resolve e (VDict [(K_Or, VList l)]) = Ok (VBool false) <->
  Forall (fun x => exists r, resolve e x = Ok r /\ ext_bool r = Ok false) l.
Proof.
  intros e l. rewrite resolve_or, <- rany_false_iff. split.
  - intros H. destruct (rany e l) as [[|]|]; simpl in H; try discriminate; reflexivity.
  - intros ->. reflexivity.
Qed.
Print Assumptions C02_or_false_iff.
Theorem C02_not : forall e x rest,
  resolve e (VDict [(K_Not, VList (x :: rest))]) = (r <- resolve e x ;; b <- ext_bool r ;; Ok (VBool (negb b))).
Proof. exact resolve_not. Qed.
Print Assumptions C02_not.
Theorem C02_equals_renderings : forall e a b a' b',
  resolve e a = Ok (VStr a') -> resolve e b = Ok (VStr b') ->
  resolve e (VDict [(K_Equals, VList [a; b])]) = Ok (VBool (str_eqb a' b')).
Proof. exact equals_renderings. Qed.
Print Assumptions C02_equals_renderings.

(* Fn::If yields the branch selected by its condition (only that branch is evaluated) *)
Theorem C02_if_selects : forall e c t f,
  resolve e (VDict [(K_If, VList [VStr c; t; f])]) = (b <- conds e c ;; if b then resolve e t else resolve e f).
Proof. exact resolve_if. Qed.
Print Assumptions C02_if_selects.

(* a resource is absent exactly when its Condition names a declared condition that is false *)
Theorem C02_gate : forall resolved fields,
  gate resolved (VDict fields) =
  match lookup K_Condition fields with
  | None | Some VNull => Ok true
  | Some (VStr c) => Ok (negb (match lookup c resolved with Some false => true | _ => false end))
  | Some _ => Err EUndefined
  end.
Proof. exact gate_spec. Qed.
Print Assumptions C02_gate.
Theorem C02_resources_present_iff : forall e resolved rs rs', resolve_resources e resolved rs = Ok rs' -> NoDup (keys rs) ->
  forall id,
    match lookup id rs with
    | None => lookup id rs' = None
    | Some r =>
        match gate resolved r with
        | Ok true => exists r', resolve_resource e r = Ok r' /\ lookup id rs' = Some r'
        | Ok false => lookup id rs' = None
        | Err _ => False
        end
    end.
Proof. exact resolve_resources_spec. Qed.
Print Assumptions C02_resources_present_iff.

(* a property or list element that resolves to AWS::NoValue is removed rather than kept *)
Theorem C02_novalue_pruned : forall e v r, resolve e v = Ok r ->
  match r with
  | VList l' => match v with VList _ => Forall (fun x => is_novalue x = false) l' | _ => True end
  | VDict d' => match v with VDict d => is_fn_dict d = false -> Forall (fun kv => is_novalue (snd kv) = false) d' | _ => True end
  | _ => True
  end.
Proof. exact novalue_pruned. Qed.
Print Assumptions C02_novalue_pruned.

(* ---- the algorithm the code actually runs: _ConditionResolver (depth-first, a list of names in progress, a cache, and a
        "tainted" flag that keeps every value computed while a cycle was being cut out of the cache) ---- *)

(* every expression the resolver can evaluate is a query tree: its only access to condition values is an explicit question *)
Theorem C02_resolver_is_a_query_tree : forall ps maps c v,
  qrun c (resolve_t ps maps v) = resolve (QTree.cenv ps maps c) v.
Proof. exact resolve_t_run. Qed.
Print Assumptions C02_resolver_is_a_query_tree.

(* resolve_all() of the memoising resolver returns exactly the specified condition values (same values, same order, same
   error if there is one), for EVERY set of declarations: cycles, self references, undeclared names, any declaration order *)
Theorem C02_memo_resolver_correct : forall ps maps decl,
  match cond_all ps maps decl (keys decl) with
  | Ok l => exists s', memo_resolve_all ps maps decl = Ok (l, s')
  | Err e => memo_resolve_all ps maps decl = Err e
  end.
Proof. exact memo_resolve_all_correct. Qed.
Print Assumptions C02_memo_resolver_correct.

(* a later question to the same resolver object, in any state it can be in (a sound cache that holds no name still in
   progress), is answered with the specified value and leaves such a state behind *)
Theorem C02_memo_get_any_state : forall ps maps decl prog n s,
  good (bodies_of ps maps decl) (cache s) prog ->
  match cond_val ps maps decl (S (length decl)) (rem_of (bodies_of ps maps decl) prog) n with
  | Ok b => exists s', mget (bodies_of ps maps decl) (S (length decl)) prog n s = Ok (b, s') /\ good (bodies_of ps maps decl) (cache s') prog
  | Err e => mget (bodies_of ps maps decl) (S (length decl)) prog n s = Err e
  end.
Proof. exact memo_get_correct. Qed.
Print Assumptions C02_memo_get_any_state.

(* why the cache is safe: an entry is only ever the specified value, whatever happens to be in progress when it is read *)
Theorem C02_cache_sound : forall bodies C, cache_ok bodies C ->
  forall fuel rem, (forall m b, lookup m C = Some b -> mem_str m rem = true) -> (length rem < fuel)%nat ->
  forall m b, lookup m C = Some b -> cvt bodies fuel rem m = Ok b.
Proof. exact cache_sound. Qed.
Print Assumptions C02_cache_sound.

(* ---- witnesses ---- *)
(* {B: {Condition: A}, A: {Fn::Equals: [a, a]}} : B is true although declared before A *)
Definition declBA : list (str * value) :=
  [([66], VDict [(K_Condition, VStr [65])]); ([65], VDict [(K_Equals, VList [VStr [97]; VStr [97]])])].
Example C02_ex_order : cond_root [] [] declBA [66] = Ok true /\ cond_root [] [] (rev declBA) [66] = Ok true.
Proof. split; vm_compute; reflexivity. Qed.
(* a self-reference and a two-cycle are false; Not of a cycle is true *)
Definition declCyc : list (str * value) :=
  [([65], VDict [(K_Condition, VStr [65])]);
   ([66], VDict [(K_Condition, VStr [67])]); ([67], VDict [(K_Condition, VStr [66])]);
   ([68], VDict [(K_Not, VList [VDict [(K_Condition, VStr [68])]])])].
Example C02_ex_cycles : map (cond_root [] [] declCyc) [[65]; [66]; [67]; [68]; [90]] = [Ok false; Ok false; Ok false; Ok true; Ok false].
Proof. vm_compute. reflexivity. Qed.
Example C02_ex_equals_renderings :
  resolve (cenv [] [] (fun _ => Ok false)) (VDict [(K_Equals, VList [VInt 1; VStr [49]])]) = Ok (VBool true)
  /\ resolve (cenv [] [] (fun _ => Ok false)) (VDict [(K_Equals, VList [VBool true; VStr [84;82;85;69]])]) = Ok (VBool true).
Proof. split; vm_compute; reflexivity. Qed.

(* the memoising resolver on the cyclic declarations above: same values; only [65]... nothing computed under a cut cycle
   is cached (here every name sits on a cycle, so the cache stays empty), while an acyclic chain is cached entirely *)
Example C02_ex_memo_cycles :
  match memo_resolve_all [] [] declCyc with
  | Ok (l, s) => (l, cache s)
  | Err _ => ([], [])
  end = ([([65], false); ([66], false); ([67], false); ([68], true)], []).
Proof. vm_compute. reflexivity. Qed.
Example C02_ex_memo_chain :
  match memo_resolve_all [] [] declBA with
  | Ok (l, s) => (l, cache s)
  | Err _ => ([], [])
  end = ([([66], true); ([65], true)], [([66], true); ([65], true)]).
Proof. vm_compute. reflexivity. Qed.

(* ================================================================================================================== *)
(* The boolean algebra of condition expressions as the model evaluates them (Resolver/CondAlgebra.v).

   [EAnd l], [EOr l], [ENot x], [EEquals a b], [ECond n], [EIf c t f]  the function objects {"Fn::And": l}, ..., {"Fn::If": [c, t, f]};
   [tv e x]      the TRUTH VALUE of x: its resolved value read through _extended_bool (a condition function returns a Python bool, a leaf
                 such as "true" resolves to the text "true": different values, same truth value);
   [tv_ok e x]   x evaluates, and to something that reads as a boolean;  [tvb e x] that boolean;
   Fn::And / Fn::Or evaluate their operands LEFT TO RIGHT AND STOP at the first deciding one (all / any over a generator), so an
   operand that raises is hidden behind a deciding operand and not in front of it: laws that move operands need [tv_ok].          *)
(* ================================================================================================================== *)

(* Fn::And is the conjunction, Fn::Or the disjunction of the truth values of the operands -- for ANY number of operands *)
Theorem C02_and_is_conjunction : forall e l, Forall (tv_ok e) l -> resolve e (EAnd l) = Ok (VBool (forallb (tvb e) l)).
Proof. exact and_is_conjunction. Qed.
Print Assumptions C02_and_is_conjunction.
Theorem C02_or_is_disjunction : forall e l, Forall (tv_ok e) l -> resolve e (EOr l) = Ok (VBool (existsb (tvb e) l)).
Proof. exact or_is_disjunction. Qed.
Print Assumptions C02_or_is_disjunction.
(* in general: the short-circuit conjunction / disjunction of the operands' truth values, errors included *)
Theorem C02_and_or_short_circuit_fold : forall e l,
  resolve e (EAnd l) = (b <- sc_all (map (tv e) l) ;; Ok (VBool b)) /\ resolve e (EOr l) = (b <- sc_any (map (tv e) l) ;; Ok (VBool b)).
Proof. intros e l. split; [apply resolve_and_tv | apply resolve_or_tv]. Qed.
Print Assumptions C02_and_or_short_circuit_fold.

(* permutation invariance, and more: only the SET of operands matters (order, repetitions) *)
Theorem C02_and_perm : forall e l l', Permutation l l' -> Forall (tv_ok e) l -> resolve e (EAnd l) = resolve e (EAnd l').
Proof. exact and_perm. Qed.
Print Assumptions C02_and_perm.
Theorem C02_or_perm : forall e l l', Permutation l l' -> Forall (tv_ok e) l -> resolve e (EOr l) = resolve e (EOr l').
Proof. exact or_perm. Qed.
Print Assumptions C02_or_perm.
Theorem C02_and_same_operands : forall e l l', Forall (tv_ok e) l -> Forall (tv_ok e) l' -> incl l l' -> incl l' l ->
  resolve e (EAnd l) = resolve e (EAnd l').
Proof. exact and_same_operands. Qed.
Print Assumptions C02_and_same_operands.
Theorem C02_or_same_operands : forall e l l', Forall (tv_ok e) l -> Forall (tv_ok e) l' -> incl l l' -> incl l' l ->
  resolve e (EOr l) = resolve e (EOr l').
Proof. exact or_same_operands. Qed.
Print Assumptions C02_or_same_operands.
(* without [tv_ok] the law is FALSE: {"Fn::And": ["false", "maybe"]} is false, {"Fn::And": ["maybe", "false"]} raises *)
Theorem C02_and_perm_refuted : exists e l l', Permutation l l' /\
  resolve e (EAnd l) = Ok (VBool false) /\ resolve e (EAnd l') = Err EValidation.
Proof. exact and_perm_refuted. Qed.
Print Assumptions C02_and_perm_refuted.
Theorem C02_or_perm_refuted : exists e l l', Permutation l l' /\
  resolve e (EOr l) = Ok (VBool true) /\ resolve e (EOr l') = Err EValidation.
Proof. exact or_perm_refuted. Qed.
Print Assumptions C02_or_perm_refuted.
(* what does survive every reordering: two orders that both give a value give the same value *)
Theorem C02_and_order_value_stable : forall e l l' b b', Permutation l l' ->
  resolve e (EAnd l) = Ok (VBool b) -> resolve e (EAnd l') = Ok (VBool b') -> b = b'.
Proof. exact and_order_value_stable. Qed.
Print Assumptions C02_and_order_value_stable.

(* idempotence, unconditionally: a second occurrence of an operand, anywhere after the first, can be deleted *)
Theorem C02_and_duplicate : forall e l1 x l2 l3, resolve e (EAnd (l1 ++ x :: l2 ++ x :: l3)) = resolve e (EAnd (l1 ++ x :: l2 ++ l3)).
Proof. exact and_duplicate. Qed.
Print Assumptions C02_and_duplicate.
Theorem C02_or_duplicate : forall e l1 x l2 l3, resolve e (EOr (l1 ++ x :: l2 ++ x :: l3)) = resolve e (EOr (l1 ++ x :: l2 ++ l3)).
Proof. exact or_duplicate. Qed.
Print Assumptions C02_or_duplicate.

(* associativity / flattening, unconditionally (same value, same exception) *)
Theorem C02_and_flatten : forall e l1 l2 l3, resolve e (EAnd (l1 ++ EAnd l2 :: l3)) = resolve e (EAnd (l1 ++ l2 ++ l3)).
Proof. exact and_flatten. Qed.
Print Assumptions C02_and_flatten.
Theorem C02_or_flatten : forall e l1 l2 l3, resolve e (EOr (l1 ++ EOr l2 :: l3)) = resolve e (EOr (l1 ++ l2 ++ l3)).
Proof. exact or_flatten. Qed.
Print Assumptions C02_or_flatten.

(* identity elements (deleted wherever they stand) and absorbing elements (decide when what stands in front of them evaluates) *)
Theorem C02_and_unit : forall e l1 x l2, tv e x = Ok true -> resolve e (EAnd (l1 ++ x :: l2)) = resolve e (EAnd (l1 ++ l2)).
Proof. exact and_unit. Qed.
Print Assumptions C02_and_unit.
Theorem C02_or_unit : forall e l1 x l2, tv e x = Ok false -> resolve e (EOr (l1 ++ x :: l2)) = resolve e (EOr (l1 ++ l2)).
Proof. exact or_unit. Qed.
Print Assumptions C02_or_unit.
Theorem C02_and_zero : forall e l1 x l2, Forall (tv_ok e) l1 -> tv e x = Ok false -> resolve e (EAnd (l1 ++ x :: l2)) = Ok (VBool false).
Proof. exact and_zero. Qed.
Print Assumptions C02_and_zero.
Theorem C02_or_zero : forall e l1 x l2, Forall (tv_ok e) l1 -> tv e x = Ok true -> resolve e (EOr (l1 ++ x :: l2)) = Ok (VBool true).
Proof. exact or_zero. Qed.
Print Assumptions C02_or_zero.
Theorem C02_text_constants : forall e l1 l2,
  resolve e (EAnd (l1 ++ VStr S_true :: l2)) = resolve e (EAnd (l1 ++ l2)) /\
  resolve e (EOr (l1 ++ VStr S_false :: l2)) = resolve e (EOr (l1 ++ l2)) /\
  (Forall (tv_ok e) l1 -> resolve e (EAnd (l1 ++ VStr S_false :: l2)) = Ok (VBool false)) /\
  (Forall (tv_ok e) l1 -> resolve e (EOr (l1 ++ VStr S_true :: l2)) = Ok (VBool true)).
Proof.
  intros e l1 l2. split; [apply and_true_text | split; [apply or_false_text | split; [apply and_false_text | apply or_true_text]]].
Qed.
Print Assumptions C02_text_constants.
Theorem C02_and_zero_refuted : exists e l1 l2, resolve e (EAnd (l1 ++ VStr S_false :: l2)) <> Ok (VBool false).
Proof. exact and_zero_refuted. Qed.
Print Assumptions C02_and_zero_refuted.

(* De Morgan, unconditionally *)
Theorem C02_de_morgan : forall e l,
  resolve e (ENot (EAnd l)) = resolve e (EOr (map ENot l)) /\ resolve e (ENot (EOr l)) = resolve e (EAnd (map ENot l)).
Proof. intros e l. split; [apply de_morgan_and | apply de_morgan_or]. Qed.
Print Assumptions C02_de_morgan.
(* double negation: the truth value of x, as a boolean *)
Theorem C02_double_negation : forall e x,
  tv e (ENot (ENot x)) = tv e x /\ resolve e (ENot (ENot x)) = (b <- tv e x ;; Ok (VBool b)).
Proof. intros e x. split; [apply double_negation_tv | apply double_negation]. Qed.
Print Assumptions C02_double_negation.
(* ... not x's own value: Not (Not "true") is the boolean True, "true" resolves to the text "true" *)
Theorem C02_double_negation_value_refuted : exists e x, tv e (ENot (ENot x)) = tv e x /\ resolve e (ENot (ENot x)) <> resolve e x.
Proof. exact double_negation_value_refuted. Qed.
Print Assumptions C02_double_negation_value_refuted.
Theorem C02_complement : forall e x, tv_ok e x ->
  resolve e (EAnd [x; ENot x]) = Ok (VBool false) /\ resolve e (EOr [x; ENot x]) = Ok (VBool true).
Proof. intros e x H. split; [apply and_complement | apply or_complement]; exact H. Qed.
Print Assumptions C02_complement.
Theorem C02_distributivity : forall e a b c, tv_ok e a -> tv_ok e b -> tv_ok e c ->
  resolve e (EAnd [a; EOr [b; c]]) = resolve e (EOr [EAnd [a; b]; EAnd [a; c]]) /\
  resolve e (EOr [a; EAnd [b; c]]) = resolve e (EAnd [EOr [a; b]; EOr [a; c]]).
Proof. intros e a b c Ha Hb Hc. split; [apply and_distributes_over_or | apply or_distributes_over_and]; assumption. Qed.
Print Assumptions C02_distributivity.
Theorem C02_absorption : forall e a b, tv_ok e a -> tv_ok e b ->
  tv e (EAnd [a; EOr [a; b]]) = tv e a /\ tv e (EOr [a; EAnd [a; b]]) = tv e a.
Proof. intros e a b Ha Hb. split; [apply absorption_and_or | apply absorption_or_and]; assumption. Qed.
Print Assumptions C02_absorption.

(* SHORT-CIRCUITING.  The model (and the library: all(...) / any(...) over a generator) stops at the first deciding operand: what
   follows it is never evaluated, so an operand that would raise is hidden there -- and only there *)
Theorem C02_short_circuit : forall e l1 x l2, Forall (fun y => tv e y = Ok true) l1 -> tv e x = Ok false ->
  resolve e (EAnd (l1 ++ x :: l2)) = Ok (VBool false).
Proof. exact and_short_circuit. Qed.
Print Assumptions C02_short_circuit.
Theorem C02_short_circuit_or : forall e l1 x l2, Forall (fun y => tv e y = Ok false) l1 -> tv e x = Ok true ->
  resolve e (EOr (l1 ++ x :: l2)) = Ok (VBool true).
Proof. exact or_short_circuit. Qed.
Print Assumptions C02_short_circuit_or.
(* the three outcomes of Fn::And characterised (true: [C02_and_true_iff] above) *)
Theorem C02_and_false_iff : forall e l, resolve e (EAnd l) = Ok (VBool false) <->
  exists l1 x l2, l = l1 ++ x :: l2 /\ Forall (fun y => tv e y = Ok true) l1 /\ tv e x = Ok false.
Proof. exact and_false_iff. Qed.
Print Assumptions C02_and_false_iff.
Theorem C02_and_error_iff : forall e l k, resolve e (EAnd l) = Err k <->
  exists l1 x l2, l = l1 ++ x :: l2 /\ Forall (fun y => tv e y = Ok true) l1 /\ tv e x = Err k.
Proof. exact and_error_iff. Qed.
Print Assumptions C02_and_error_iff.
Theorem C02_or_true_iff : forall e l, resolve e (EOr l) = Ok (VBool true) <->
  exists l1 x l2, l = l1 ++ x :: l2 /\ Forall (fun y => tv e y = Ok false) l1 /\ tv e x = Ok true.
Proof. exact or_true_iff. Qed.
Print Assumptions C02_or_true_iff.
Theorem C02_or_error_iff : forall e l k, resolve e (EOr l) = Err k <->
  exists l1 x l2, l = l1 ++ x :: l2 /\ Forall (fun y => tv e y = Ok false) l1 /\ tv e x = Err k.
Proof. exact or_error_iff. Qed.
Print Assumptions C02_or_error_iff.

(* Fn::Equals.  Symmetric unless BOTH operands raise (then the exception of the first one met is reported) *)
Theorem C02_equals_symmetric : forall e a b, env_nodup e -> nodup_keys a -> nodup_keys b ->
  is_ok (resolve e a) = true \/ is_ok (resolve e b) = true ->
  resolve e (EEquals a b) = resolve e (EEquals b a).
Proof. exact equals_symmetric. Qed.
Print Assumptions C02_equals_symmetric.
Theorem C02_equals_symmetric_refuted : exists e a b, resolve e (EEquals a b) <> resolve e (EEquals b a).
Proof. exact equals_symmetric_refuted. Qed.
Print Assumptions C02_equals_symmetric_refuted.
(* reflexive on every operand that resolves to text (all scalars) and on every value the model compares *)
Theorem C02_equals_reflexive : forall e a,
  (forall s, resolve e a = Ok (VStr s) -> resolve e (EEquals a a) = Ok (VBool true)) /\
  (forall a', resolve e a = Ok a' -> nodup_keys a' -> is_ok (py_eq a' a') = true -> resolve e (EEquals a a) = Ok (VBool true)).
Proof. intros e a. split; [intros s; apply equals_reflexive_scalar | intros a'; apply equals_reflexive]. Qed.
Print Assumptions C02_equals_reflexive.
(* characterised: scalars by the text of their rendering; lists (of lists ...) of texts by equality of the resolved lists; in
   general by equality of the resolved values up to the order of the keys of objects *)
Theorem C02_equals_scalars_iff : forall e a b sa sb, resolve e a = Ok (VStr sa) -> resolve e b = Ok (VStr sb) ->
  (resolve e (EEquals a b) = Ok (VBool true) <-> sa = sb) /\ (resolve e (EEquals a b) = Ok (VBool false) <-> sa <> sb).
Proof. exact equals_scalars_iff. Qed.
Print Assumptions C02_equals_scalars_iff.
Theorem C02_scalar_renderings : forall e,
  (forall b, resolve e (VBool b) = Ok (VStr (bool_text b))) /\
  (forall z, resolve e (VInt z) = Ok (VStr (str_of_Z z))) /\
  (forall s, resolve e (VStr s) = Ok (VStr (render_str (params e) s))) /\
  (forall k t, resolve e (VTyped k t) = Ok (VStr t)) /\
  (forall bs, resolve e (VBytes bs) = Ok (VStr (b64encode bs))).
Proof. exact scalar_renderings. Qed.
Print Assumptions C02_scalar_renderings.
Theorem C02_equals_flat_iff : forall e a b a' b', resolve e a = Ok a' -> resolve e b = Ok b' ->
  no_dict a' = true -> has_numeric a' = false -> has_numeric b' = false ->
  exists r, resolve e (EEquals a b) = Ok (VBool r) /\ (r = true <-> a' = b').
Proof. exact equals_flat_iff. Qed.
Print Assumptions C02_equals_flat_iff.
Theorem C02_equals_characterised : forall e a b a' b', resolve e a = Ok a' -> resolve e b = Ok b' ->
  has_numeric a' = false -> has_numeric b' = false -> nodup_keys a' -> nodup_keys b' ->
  exists r, resolve e (EEquals a b) = Ok (VBool r) /\ (r = true <-> vperm a' b').
Proof. exact equals_iff_vperm. Qed.
Print Assumptions C02_equals_characterised.

(* CONDITION REFERENCES.  [cond_ranked ps maps decl rk]: every condition that the body of a declared condition ASKS ABOUT (when
   evaluated with the template's own condition values) has a smaller rank -- the references are acyclic.  Then the condition
   values satisfy the defining equations, in every evaluation context, and are their only solution *)
Theorem C02_acyclic_equations : forall ps maps decl rk, cond_ranked ps maps decl rk ->
  (forall n body, lookup n decl = Some body ->
     cond_root ps maps decl n = tv (CondFacts.cenv ps maps (cond_root ps maps decl)) body) /\
  (forall n, lookup n decl = None -> cond_root ps maps decl n = Ok false).
Proof. intros ps maps decl rk H. split; [apply (ranked_equation ps maps decl rk H) | apply undeclared_false]. Qed.
Print Assumptions C02_acyclic_equations.
Theorem C02_acyclic_context_free : forall ps maps decl rk, cond_ranked ps maps decl rk ->
  forall n fuel rem, covers decl rk rem n -> (length rem < fuel)%nat ->
  cond_val ps maps decl fuel rem n = cond_root ps maps decl n.
Proof. exact ranked_context_free. Qed.
Print Assumptions C02_acyclic_context_free.
Theorem C02_acyclic_unique_solution : forall ps maps decl rk, cond_ranked ps maps decl rk ->
  forall f : str -> res bool,
  (forall n, lookup n decl = None -> f n = Ok false) ->
  (forall n body, lookup n decl = Some body -> f n = tv (CondFacts.cenv ps maps f) body) ->
  forall n, f n = cond_root ps maps decl n.
Proof. exact ranked_unique. Qed.
Print Assumptions C02_acyclic_unique_solution.
Theorem C02_acyclic_checkable : forall ps maps decl rk, cond_rankedb ps maps decl rk = true -> cond_ranked ps maps decl rk.
Proof. exact cond_rankedb_sound. Qed.
Print Assumptions C02_acyclic_checkable.

(* a boolean position ([bctx]: operand of Fn::And / Fn::Or / Fn::Not at any depth, where CloudFormation allows {"Condition": n})
   uses only the truth value of what stands in it *)
Theorem C02_boolean_position_congruence : forall e c x y, tv e x = tv e y -> tv e (plug c x) = tv e (plug c y).
Proof. exact tv_plug. Qed.
Print Assumptions C02_boolean_position_congruence.
(* UNFOLDING: replacing, in the body of condition m, a reference {"Condition": n} by the declared body of n changes no condition
   value, and the resolved model (Conditions and Resources) is the same *)
Theorem C02_reference_unfolding : forall ps maps decl rk m n C bn,
  cond_ranked ps maps decl rk ->
  lookup m decl = Some (plug C (ECond n)) -> lookup n decl = Some bn ->
  forall k, cond_root ps maps (set_key m (plug C bn) decl) k = cond_root ps maps decl k.
Proof. exact unfold_reference. Qed.
Print Assumptions C02_reference_unfolding.
Theorem C02_reference_unfolding_model : forall pseudo decls extra maps cdecl rs rk m n C bn,
  (forall ps, bind_params pseudo decls extra = Ok ps -> cond_ranked ps maps cdecl rk) ->
  lookup m cdecl = Some (plug C (ECond n)) -> lookup n cdecl = Some bn ->
  resolve_model pseudo decls extra maps (set_key m (plug C bn) cdecl) rs = resolve_model pseudo decls extra maps cdecl rs.
Proof. exact unfold_reference_model. Qed.
Print Assumptions C02_reference_unfolding_model.
(* acyclicity is needed: A = Not (Condition A) is true (the self reference is cut as false); unfolded once, A = Not (Not (Condition A)), it is false *)
Definition declSelf : list (str * value) := [([65], ENot (ECond [65]))].
Theorem C02_reference_unfolding_cyclic_refuted :
  lookup [65] declSelf = Some (plug (BNot BHole []) (ECond [65])) /\
  cond_root [] [] declSelf [65] = Ok true /\
  cond_root [] [] (set_key [65] (plug (BNot BHole []) (ENot (ECond [65]))) declSelf) [65] = Ok false.
Proof. vm_compute. repeat split; reflexivity. Qed.
Print Assumptions C02_reference_unfolding_cyclic_refuted.
(* inside a RESOURCE, Condition / Fn::If see exactly the value of the declared condition *)
Theorem C02_resource_sees_condition_values : forall ps maps decl resolved, cond_all ps maps decl (keys decl) = Ok resolved ->
  forall n, conds_fun resolved n = cond_root ps maps decl n.
Proof. exact conds_fun_is_cond_root. Qed.
Print Assumptions C02_resource_sees_condition_values.
(* REMOVING a condition that nobody asks about (no other condition, transitively; no resource gate; no kept resource): every other
   condition keeps its value and the resources resolve to the same result.  (The same on the table of resolved values:
   C07_resources_add_unused_condition; on parameters and mappings: C07_add_unused_parameter_declaration.) *)
Theorem C02_remove_unasked_condition : forall ps maps decl n k, k <> n -> ~ In (ACond n) (cond_root_trace ps maps decl k) ->
  cond_root ps maps (remove_key n decl) k = cond_root ps maps decl k.
Proof. exact remove_unasked_condition. Qed.
Print Assumptions C02_remove_unasked_condition.
Theorem C02_remove_unasked_condition_model : forall ps maps decl rs n resolved,
  (forall k, k <> n -> ~ In (ACond n) (cond_root_trace ps maps decl k)) ->
  ~ In n (gate_names rs) ->
  cond_all ps maps decl (keys decl) = Ok resolved ->
  ~ In (ACond n) (resources_trace (renv ps maps resolved) resolved rs) ->
  exists resolved', cond_all ps maps (remove_key n decl) (keys (remove_key n decl)) = Ok resolved' /\
    (forall k, k <> n -> lookup k resolved' = lookup k resolved) /\
    resolve_resources (renv ps maps resolved') resolved' rs = resolve_resources (renv ps maps resolved) resolved rs.
Proof. exact remove_unasked_condition_model. Qed.
Print Assumptions C02_remove_unasked_condition_model.

(* Fn::If *)
Theorem C02_if_same_branches : forall e c x b, conds e c = Ok b -> resolve e (EIf c x x) = resolve e x.
Proof. exact if_same_branches. Qed.
Print Assumptions C02_if_same_branches.
Theorem C02_if_same_branches_resource : forall ps maps resolved c x,
  resolve (renv ps maps resolved) (EIf c x x) = resolve (renv ps maps resolved) x.
Proof. exact if_same_branches_resource. Qed.
Print Assumptions C02_if_same_branches_resource.
Theorem C02_if_same_branches_refuted : exists e c x, resolve e (EIf c x x) <> resolve e x.
Proof. exact if_same_branches_refuted. Qed.
Print Assumptions C02_if_same_branches_refuted.
(* the first operand of Fn::If is the NAME of a condition: If on a condition whose value is the negation of c's swaps the branches *)
Theorem C02_if_negated : forall e c c' t f, conds e c' = rneg (conds e c) -> resolve e (EIf c' t f) = resolve e (EIf c f t).
Proof. exact if_negated. Qed.
Print Assumptions C02_if_negated.
Theorem C02_if_negated_resource : forall ps maps decl rk resolved c c' t f,
  cond_ranked ps maps decl rk -> lookup c' decl = Some (ENot (ECond c)) -> cond_all ps maps decl (keys decl) = Ok resolved ->
  resolve (renv ps maps resolved) (EIf c' t f) = resolve (renv ps maps resolved) (EIf c f t).
Proof. exact if_negated_resource. Qed.
Print Assumptions C02_if_negated_resource.
Theorem C02_if_nested : forall e c a b d,
  resolve e (EIf c (EIf c a b) d) = resolve e (EIf c a d) /\ resolve e (EIf c a (EIf c b d)) = resolve e (EIf c a d).
Proof. intros e c a b d. split; [apply if_nested_then | apply if_nested_else]. Qed.
Print Assumptions C02_if_nested.
(* AWS::NoValue: the resolved list is the list of the members' results with exactly the AWS::NoValue results removed; its length *)
Theorem C02_list_pruned_exactly : forall e l l', rlist e l = Ok l' <->
  exists rs, Forall2 (fun x r => resolve e x = Ok r) l rs /\ l' = filter (fun r => negb (is_novalue r)) rs.
Proof. exact rlist_spec. Qed.
Print Assumptions C02_list_pruned_exactly.
Theorem C02_list_length_after_pruning : forall e l l', resolve e (VList l) = Ok (VList l') ->
  exists rs, Forall2 (fun x r => resolve e x = Ok r) l rs /\ l' = filter (fun r => negb (is_novalue r)) rs /\
    (length l' + length (filter is_novalue rs) = length l)%nat.
Proof. exact list_length_after_pruning. Qed.
Print Assumptions C02_list_length_after_pruning.
Theorem C02_object_pruned_exactly : forall e d d', rdict e d = Ok d' <->
  exists rs, Forall2 (fun kx kr => fst kx = fst kr /\ resolve e (snd kx) = Ok (snd kr)) d rs /\
             d' = filter (fun kr => negb (is_novalue (snd kr))) rs.
Proof. exact rdict_spec. Qed.
Print Assumptions C02_object_pruned_exactly.
Theorem C02_if_novalue_member : forall e c nv x l, conds e c = Ok true -> resolve e nv = Ok (VStr S_NOVALUE) ->
  rlist e (EIf c nv x :: l) = rlist e l.
Proof. exact if_novalue_member. Qed.
Print Assumptions C02_if_novalue_member.
Theorem C02_if_value_member : forall e c nv x r l, conds e c = Ok false -> resolve e x = Ok r -> is_novalue r = false ->
  rlist e (EIf c nv x :: l) = (l' <- rlist e l ;; Ok (r :: l')).
Proof. exact if_value_member. Qed.
Print Assumptions C02_if_value_member.

(* THE GATE.  Which resources are present is decided by the gates alone; parameters / mappings that no condition reads (also
   through the conditions it asks about: [conds_trace], Resolver/Trace.v) change no condition value, hence no resource's presence *)
Theorem C02_present_resources : forall e resolved rs out, resolve_resources e resolved rs = Ok out ->
  keys out = keys (filter (fun kv => gate_open resolved (snd kv)) rs).
Proof. exact resolve_resources_keys. Qed.
Print Assumptions C02_present_resources.
Theorem C02_presence_unread_parameters : forall ps ps' maps maps' cdecl rs resolved out,
  (forall k, In (AParam k) (conds_trace ps maps cdecl (keys cdecl)) -> lookup k ps = lookup k ps') ->
  (forall m, In (AMap m) (conds_trace ps maps cdecl (keys cdecl)) -> lookup m maps = lookup m maps') ->
  cond_all ps maps cdecl (keys cdecl) = Ok resolved ->
  resolve_resources (renv ps maps resolved) resolved rs = Ok out ->
  cond_all ps' maps' cdecl (keys cdecl) = Ok resolved /\
  forall out', resolve_resources (renv ps' maps' resolved) resolved rs = Ok out' -> keys out' = keys out.
Proof. exact presence_unread_parameters. Qed.
Print Assumptions C02_presence_unread_parameters.
Theorem C02_presence_one_parameter : forall ps maps cdecl k x,
  ~ In (AParam k) (conds_trace ps maps cdecl (keys cdecl)) ->
  cond_all ((k, x) :: ps) maps cdecl (keys cdecl) = cond_all ps maps cdecl (keys cdecl).
Proof. exact presence_one_parameter. Qed.
Print Assumptions C02_presence_one_parameter.

(* ---- witnesses for the algebra: the hypotheses above are satisfiable on non-trivial instances ---- *)
(* an environment: parameter P = "yes"; condition A true, B false, E raises, every other name false *)
Definition exE : env :=
  {| params := [([80], VStr [121;101;115])]; mappings := [];
     conds := fun n => if str_eqb n [65] then Ok true else if str_eqb n [66] then Ok false
                       else if str_eqb n [69] then Err ERecursion else Ok false |}.
(* twelve operands (more than CloudFormation's ten), of every kind that reads as a boolean: a reference, the texts true / TRUE /
   on / y / t, a negation, a Ref to "yes", the integer 1, a boolean, an Equals, an Or *)
Definition exTrue12 : list value :=
  [ECond [65]; VStr S_true; ENot (ECond [66]); VDict [(K_Ref, VStr [80])]; VInt 1; VBool true;
   EEquals (VInt 1) (VStr [49]); EOr [ECond [66]; ECond [65]]; VStr [84;82;85;69]; VStr [111;110]; VStr [121]; VStr [116]].
Example C02_ex_and_conjunction :
  length exTrue12 = 12%nat /\ Forall (tv_ok exE) exTrue12 /\ Forall (tv_ok exE) (ECond [66] :: exTrue12) /\
  resolve exE (EAnd exTrue12) = Ok (VBool true) /\ resolve exE (EAnd (ECond [66] :: exTrue12)) = Ok (VBool false) /\
  resolve exE (EOr [ECond [66]; ECond [67]]) = Ok (VBool false) /\ resolve exE (EAnd []) = Ok (VBool true) /\ resolve exE (EOr []) = Ok (VBool false).
Proof. repeat split; try (vm_compute; reflexivity); repeat constructor. Qed.
Example C02_ex_and_perm :
  Permutation (ECond [66] :: exTrue12) (rev (ECond [66] :: exTrue12)) /\ Forall (tv_ok exE) (ECond [66] :: exTrue12) /\
  resolve exE (EAnd (ECond [66] :: exTrue12)) = Ok (VBool false) /\ resolve exE (EAnd (rev (ECond [66] :: exTrue12))) = Ok (VBool false).
Proof. split; [apply Permutation_rev | split; [repeat constructor | split; vm_compute; reflexivity]]. Qed.
(* same operands, other order and multiplicities *)
Example C02_ex_and_same_operands :
  incl [ECond [65]; ECond [66]; ECond [65]] [ECond [66]; ECond [65]] /\ incl [ECond [66]; ECond [65]] [ECond [65]; ECond [66]; ECond [65]] /\
  Forall (tv_ok exE) [ECond [65]; ECond [66]; ECond [65]] /\ Forall (tv_ok exE) [ECond [66]; ECond [65]] /\
  resolve exE (EAnd [ECond [65]; ECond [66]; ECond [65]]) = resolve exE (EAnd [ECond [66]; ECond [65]]).
Proof.
  split; [|split; [|split; [repeat constructor | split; [repeat constructor | vm_compute; reflexivity]]]].
  - intros x [<-|[<-|[<-|[]]]]; simpl; auto.
  - intros x [<-|[<-|[]]]; simpl; auto.
Qed.
(* the refutation, concretely: {"Fn::And": ["false", "maybe"]} / {"Fn::And": ["maybe", "false"]}, and with an operand E that raises *)
Example C02_ex_order_matters :
  resolve exE (EAnd [VStr S_false; VStr S_maybe]) = Ok (VBool false) /\ resolve exE (EAnd [VStr S_maybe; VStr S_false]) = Err EValidation /\
  resolve exE (EOr [VStr S_true; VStr S_maybe]) = Ok (VBool true) /\ resolve exE (EOr [VStr S_maybe; VStr S_true]) = Err EValidation /\
  resolve exE (EAnd [ECond [66]; ECond [69]]) = Ok (VBool false) /\ resolve exE (EAnd [ECond [69]; ECond [66]]) = Err ERecursion.
Proof. vm_compute. repeat split; reflexivity. Qed.
(* short-circuit: A true, "false" decides, then a text that is no boolean and a malformed Fn::Join are never looked at *)
Example C02_ex_short_circuit :
  Forall (fun y => tv exE y = Ok true) [ECond [65]] /\ tv exE (VStr S_false) = Ok false /\
  resolve exE (EAnd ([ECond [65]] ++ VStr S_false :: [VStr S_maybe; VDict [(K_Join, VList [])]])) = Ok (VBool false) /\
  resolve exE (VStr S_maybe) = Ok (VStr S_maybe) /\ tv exE (VStr S_maybe) = Err EValidation /\
  resolve exE (VDict [(K_Join, VList [])]) = Err EValue.
Proof. split; [repeat constructor | vm_compute; repeat split; reflexivity]. Qed.
Example C02_ex_flatten_duplicate :
  resolve exE (EAnd ([ECond [65]] ++ EAnd [ECond [65]; ECond [66]] :: [ECond [69]])) = Ok (VBool false) /\
  resolve exE (EAnd ([ECond [65]] ++ [ECond [65]; ECond [66]] ++ [ECond [69]])) = Ok (VBool false) /\
  resolve exE (EAnd ([] ++ ECond [65] :: [ECond [69]] ++ ECond [65] :: [])) = Err ERecursion /\
  resolve exE (EAnd ([] ++ ECond [65] :: [ECond [69]] ++ [])) = Err ERecursion.
Proof. vm_compute. repeat split; reflexivity. Qed.
Example C02_ex_units : tv exE (ECond [65]) = Ok true /\ tv exE (ECond [66]) = Ok false /\ Forall (tv_ok exE) [ECond [65]; VStr S_true].
Proof. split; [reflexivity | split; [reflexivity | repeat constructor]]. Qed.
(* De Morgan and double negation also agree on the exception *)
Example C02_ex_de_morgan :
  resolve exE (ENot (EAnd [ECond [65]; ECond [66]; ECond [69]])) = Ok (VBool true) /\
  resolve exE (EOr (map ENot [ECond [65]; ECond [66]; ECond [69]])) = Ok (VBool true) /\
  resolve exE (ENot (EAnd [ECond [65]; ECond [69]])) = Err ERecursion /\
  resolve exE (EOr (map ENot [ECond [65]; ECond [69]])) = Err ERecursion /\
  resolve exE (ENot (ENot (VStr S_true))) = Ok (VBool true) /\ resolve exE (VStr S_true) = Ok (VStr S_true) /\
  resolve exE (ENot (ENot (VStr S_maybe))) = Err EValidation.
Proof. vm_compute. repeat split; reflexivity. Qed.
Example C02_ex_complement_distributivity :
  tv_ok exE (ECond [65]) /\ tv_ok exE (ECond [66]) /\ tv_ok exE (VDict [(K_Ref, VStr [80])]) /\
  resolve exE (EAnd [ECond [65]; EOr [ECond [66]; VDict [(K_Ref, VStr [80])]]]) = Ok (VBool true) /\
  resolve exE (EOr [EAnd [ECond [65]; ECond [66]]; EAnd [ECond [65]; VDict [(K_Ref, VStr [80])]]]) = Ok (VBool true).
Proof. vm_compute. repeat split; reflexivity. Qed.

(* Fn::Equals: lists and objects are compared structurally, objects up to key order; symmetric; error kinds when both raise *)
Definition exObj1 : value := VDict [([97], VInt 1); ([98], VList [VStr [120]; VBool true])].
Definition exObj2 : value := VDict [([98], VList [VStr [120]; VStr [84;114;117;101]]); ([97], VStr [49])].
Example C02_ex_equals :
  nodup_keys exObj1 /\ nodup_keys exObj2 /\ env_nodup exE /\ is_ok (resolve exE exObj1) = true /\
  resolve exE (EEquals exObj1 exObj2) = Ok (VBool true) /\ resolve exE (EEquals exObj2 exObj1) = Ok (VBool true) /\
  resolve exE (EEquals (VList [VInt 1; VStr [97]]) (VList [VStr [49]; VStr [97]])) = Ok (VBool true) /\
  resolve exE (EEquals (VList [VInt 1; VStr [97]]) (VList [VStr [97]; VStr [49]])) = Ok (VBool false) /\
  resolve exE (EEquals (VDict [(K_Join, VList [])]) (VDict [(K_Ref, VList [])])) = Err EValue /\
  resolve exE (EEquals (VDict [(K_Ref, VList [])]) (VDict [(K_Join, VList [])])) = Err EType.
Proof.
  split; [reflexivity | split; [reflexivity | split; [|vm_compute; repeat split; reflexivity]]].
  split; intros k x H; cbn [params mappings exE lookup] in H.
  - destruct (str_eqb k [80]); [inv H; reflexivity | discriminate].
  - discriminate.
Qed.
Example C02_ex_equals_characterised :
  exists a' b', resolve exE exObj1 = Ok a' /\ resolve exE exObj2 = Ok b' /\ has_numeric a' = false /\ has_numeric b' = false /\
    nodup_keys a' /\ nodup_keys b' /\ a' <> b' /\ vpermb a' b' = true.
Proof. eexists _, _. vm_compute. repeat split; try reflexivity. discriminate. Qed.

(* Conditions {C: And [Condition B, Or [Condition A, Condition D]], B: Not [Condition A], A: Equals [a, b], D: Equals [Ref P, yes]}
   with P = "yes": acyclic (ranks A, D = 0, B = 1, C = 2); unfolding the reference to B inside C changes no value *)
Definition exDecl : list (str * value) :=
  [([67], EAnd [ECond [66]; EOr [ECond [65]; ECond [68]]]); ([66], ENot (ECond [65]));
   ([65], EEquals (VStr [97]) (VStr [98])); ([68], EEquals (VDict [(K_Ref, VStr [80])]) (VStr [121;101;115]))].
Definition exRank (n : str) : nat := if str_eqb n [67] then 2 else if str_eqb n [66] then 1 else 0.
Definition exHole : bctx := BAnd [] BHole [EOr [ECond [65]; ECond [68]]].
Example C02_ex_acyclic :
  cond_rankedb (params exE) [] exDecl exRank = true /\
  lookup [67] exDecl = Some (plug exHole (ECond [66])) /\ lookup [66] exDecl = Some (ENot (ECond [65])) /\
  set_key [67] (plug exHole (ENot (ECond [65]))) exDecl =
    [([67], EAnd [ENot (ECond [65]); EOr [ECond [65]; ECond [68]]]); ([66], ENot (ECond [65]));
     ([65], EEquals (VStr [97]) (VStr [98])); ([68], EEquals (VDict [(K_Ref, VStr [80])]) (VStr [121;101;115]))] /\
  map (cond_root (params exE) [] exDecl) [[65]; [66]; [67]; [68]; [90]] = [Ok false; Ok true; Ok true; Ok true; Ok false] /\
  map (cond_root (params exE) [] (set_key [67] (plug exHole (ENot (ECond [65]))) exDecl)) [[65]; [66]; [67]; [68]; [90]] =
    [Ok false; Ok true; Ok true; Ok true; Ok false].
Proof. vm_compute. repeat split; reflexivity. Qed.
(* the in-progress set of the context-freeness statement: evaluating B while C is in progress *)
Example C02_ex_covers : covers exDecl exRank [[66]; [65]; [68]] [66] /\
  cond_val (params exE) [] exDecl 4 [[66]; [65]; [68]] [66] = Ok true.
Proof.
  split; [|vm_compute; reflexivity]. intros i Hi Hr. unfold exRank in Hr. cbn [keys map fst exDecl mem_str existsb] in *.
  destruct (str_eqb i [67]) eqn:E67; [cbn in Hr; exfalso; destruct (str_eqb [66] [67]) eqn:E; [discriminate | cbn in Hr; inversion Hr as [|? Hr']; inversion Hr'] |].
  cbn [orb] in Hi. exact Hi.
Qed.
(* nobody asks about Z: it can be removed *)
Definition exDeclZ : list (str * value) := ([90], ENot (ECond [67])) :: exDecl.
Definition exRes : list (str * value) :=
  [([82], VDict [(K_Type, VStr [84]); (K_Condition, VStr [67]);
                 ([78], VList [EIf [66] (VStr S_NOVALUE) (VStr [98]); VStr [97]; EIf [65] (VStr S_NOVALUE) (VStr [99])])]);
   ([83], VDict [(K_Type, VStr [84]); (K_Condition, VStr [65])])].
Example C02_ex_remove_unasked :
  map (cond_root_trace (params exE) [] exDeclZ) [[65]; [66]; [67]; [68]] = [[]; [ACond [65]]; [ACond [66]; ACond [65]; ACond [68]; ACond [65]; AParam [80]]; [AParam [80]]] /\
  gate_names exRes = [[67]; [65]] /\
  cond_all (params exE) [] exDeclZ (keys exDeclZ) = Ok [([90], false); ([67], true); ([66], true); ([65], false); ([68], true)] /\
  resources_trace (renv (params exE) [] [([90], false); ([67], true); ([66], true); ([65], false); ([68], true)])
                  [([90], false); ([67], true); ([66], true); ([65], false); ([68], true)] exRes = [ACond [66]; ACond [65]] /\
  remove_key [90] exDeclZ = exDecl.
Proof. vm_compute. repeat split; reflexivity. Qed.

(* Fn::If and AWS::NoValue inside a list: resource R (kept: C is true) has N = [If B NoValue "b", "a", If A NoValue "c"] -> ["a", "c"];
   resource S (Condition A, false) is absent *)
Example C02_ex_if_pruning :
  resolve_resources (renv (params exE) [] [([67], true); ([66], true); ([65], false); ([68], true)])
                    [([67], true); ([66], true); ([65], false); ([68], true)] exRes =
    Ok [([82], VDict [(K_Type, VStr [84]); (K_Condition, VStr [67]); ([78], VList [VStr [97]; VStr [99]])])] /\
  rlist exE [EIf [65] (VStr S_NOVALUE) (VStr [98]); VStr [97]; EIf [66] (VStr S_NOVALUE) (VStr [99]); VStr S_NOVALUE] = Ok [VStr [97]; VStr [99]] /\
  conds exE [65] = Ok true /\ resolve exE (VStr S_NOVALUE) = Ok (VStr S_NOVALUE) /\
  conds exE [66] = Ok false /\ resolve exE (VStr [99]) = Ok (VStr [99]) /\ is_novalue (VStr [99]) = false.
Proof. vm_compute. repeat split; reflexivity. Qed.
Example C02_ex_if_laws :
  resolve exE (EIf [65] (VStr [120]) (VStr [120])) = Ok (VStr [120]) /\
  resolve exE (EIf [69] (VStr [120]) (VStr [120])) = Err ERecursion /\
  conds exE [66] = rneg (conds exE [65]) /\
  resolve exE (EIf [66] (VStr [116]) (VStr [102])) = Ok (VStr [102]) /\ resolve exE (EIf [65] (VStr [102]) (VStr [116])) = Ok (VStr [102]) /\
  resolve exE (EIf [65] (EIf [65] (VStr [97]) (VStr [98])) (VStr [100])) = Ok (VStr [97]).
Proof. vm_compute. repeat split; reflexivity. Qed.
(* B is declared as Not (Condition A): inside resources If B t f = If A f t *)
Example C02_ex_if_negated_resource :
  lookup [66] exDecl = Some (ENot (ECond [65])) /\
  cond_all (params exE) [] exDecl (keys exDecl) = Ok [([67], true); ([66], true); ([65], false); ([68], true)] /\
  resolve (renv (params exE) [] [([67], true); ([66], true); ([65], false); ([68], true)]) (EIf [66] (VStr [116]) (VStr [102])) = Ok (VStr [116]) /\
  resolve (renv (params exE) [] [([67], true); ([66], true); ([65], false); ([68], true)]) (EIf [65] (VStr [102]) (VStr [116])) = Ok (VStr [116]).
Proof. vm_compute. repeat split; reflexivity. Qed.

(* the gate: the conditions read parameter P only; a parameter Q can be set to anything, the same resources are present *)
Example C02_ex_presence :
  conds_trace (params exE) [] exDecl (keys exDecl) = [ACond [66]; ACond [65]; ACond [68]; ACond [65]; AParam [80]; ACond [65]; AParam [80]] /\
  cond_all (([81], VStr [110;111]) :: params exE) [] exDecl (keys exDecl) = cond_all (params exE) [] exDecl (keys exDecl) /\
  (exists out, resolve_resources (renv (params exE) [] [([67], true); ([66], true); ([65], false); ([68], true)])
                                 [([67], true); ([66], true); ([65], false); ([68], true)] exRes = Ok out /\ keys out = [[82]]) /\
  (* ... while P is read: flipping it flips D, hence C, hence the presence of R *)
  cond_all (([80], VStr [110;111]) :: params exE) [] exDecl (keys exDecl) = Ok [([67], false); ([66], true); ([65], false); ([68], false)].
Proof. vm_compute. repeat split; try reflexivity. eexists. split; reflexivity. Qed.
