(* C16 -- Policy queries count only Allow statements and see every principal.
   Statements only; every proof is [exact] of a lemma proved in Policy/PolicyFacts.v, Policy/ResourceFacts.v,
   Policy/StrSet.v or Policy/PrincipalTable.v (the latter re-proved against the table regenerated from the live
   source).  The resource side (get_resource_list, resources_with, statements_with) and get_iam_actions are the
   queries that do NOT look at the Effect: their theorems are in the second half of the file. *)
From Coq Require Import List Bool NArith ZArith Sorted Permutation.
From PV Require Import Base.Str Base.Value Policy.StrSet Policy.Policy Policy.PolicyFacts Policy.ResourceFacts
  Policy.PrincipalTable.
From PVGen Require PrincipalFields.
Import ListNotations.

(* ---- Effect ------------------------------------------------------------------------------- *)

(* a literal Effect is accepted as [e] exactly when it spells the name of [e] in some letter case *)
Theorem C16_effect :
  forall (s : str) (e : effect), effect_norm s = Ok e <-> lower s = lower (name e).
Proof. exact effect_norm_spec. Qed.
Print Assumptions C16_effect.

(* everything else is a validation error (there is no third outcome) *)
Theorem C16_effect_rejects :
  forall s : str, effect_norm s = Err EValidation <-> lower s <> lower K_Allow /\ lower s <> lower K_Deny.
Proof. exact effect_norm_rejects. Qed.
Print Assumptions C16_effect_rejects.

Theorem C16_effect_total :
  forall s : str, (exists e, effect_norm s = Ok e) \/ effect_norm s = Err EValidation.
Proof. exact effect_norm_total. Qed.
Print Assumptions C16_effect_total.

(* what is stored is the canonical spelling "Allow" / "Deny", equal to the input up to letter case ... *)
Theorem C16_effect_stored :
  forall s t : str, effect_store s = Ok t <-> (t = K_Allow \/ t = K_Deny) /\ lower s = lower t.
Proof. exact effect_store_spec. Qed.
Print Assumptions C16_effect_stored.

(* ... and normalising a stored effect again is the identity *)
Theorem C16_effect_stored_idempotent :
  forall s t : str, effect_store s = Ok t -> effect_store t = Ok t.
Proof. exact effect_store_idem. Qed.
Print Assumptions C16_effect_stored_idempotent.

(* the gate used by the document queries (`Effect.lower() == "allow"` on the stored form) is open exactly
   for the literal effects that spell "allow" in some letter case *)
Theorem C16_allow_gate :
  forall (s : str) (e : effect), effect_norm s = Ok e -> (is_allow e = true <-> lower s = K_allow_lc).
Proof. exact allow_gate_spec. Qed.
Print Assumptions C16_allow_gate.

(* validating a raw statement: the literal effect is normalised, the other elements are taken as they are;
   a statement whose effect is neither word is rejected *)
Theorem C16_statement_validated :
  forall d s st, lookup K_Effect d = Some (VStr s) -> parse_stmt (VDict d) = Ok st ->
    lower s = lower (name (effect_of st)) /\
    principal st = get K_Principal d /\ not_principal st = get K_NotPrincipal d /\
    action st = get K_Action d /\ not_action st = get K_NotAction d /\ sid st = get K_Sid d /\
    resource st = get K_Resource d /\ not_resource st = get K_NotResource d.
Proof. exact parse_stmt_effect. Qed.
Print Assumptions C16_statement_validated.

Theorem C16_statement_rejected :
  forall d s, lookup K_Effect d = Some (VStr s) ->
    (parse_stmt (VDict d) = Err EValidation <-> lower s <> lower K_Allow /\ lower s <> lower K_Deny).
Proof. exact parse_stmt_rejects. Qed.
Print Assumptions C16_statement_rejected.

(* ---- Principal enumeration ----------------------------------------------------------------- *)

(* [named_in st p]: p is the string / a member of the list / the value or a member of the value found under
   one of the keys of PRINCIPAL_FIELDS, of Principal or of NotPrincipal (inductive definitions
   PolicyFacts.elem_names / field_names).  get_principal_list returns exactly those, whatever the shape. *)
Theorem C16_principals_complete :
  forall (st : stmt) (p : value), In p (principals st) <-> named_in st p.
Proof. exact principals_complete. Qed.
Print Assumptions C16_principals_complete.

(* order: Principal before NotPrincipal; in an object the field order AWS, CanonicalUser, Federated, Service *)
Theorem C16_principals_object_order :
  forall d, elem_items (VDict d) =
    field_items (get K_AWS d) ++ field_items (get K_CanonicalUser d) ++
    field_items (get K_Federated d) ++ field_items (get K_Service d).
Proof. exact principals_object_order. Qed.
Print Assumptions C16_principals_object_order.

(* the field table regenerated from the live class Principal is exactly these four keys, in this order,
   each optional, and no other key is accepted *)
Theorem C16_principal_fields_table :
  PrincipalFields.PRINCIPAL_FIELDS_TABLE =
    [(K_AWS, true); (K_CanonicalUser, true); (K_Federated, true); (K_Service, true)] /\
  map fst PrincipalFields.PRINCIPAL_FIELDS_TABLE = PRINCIPAL_FIELDS /\
  PrincipalFields.PRINCIPAL_EXTRA_FORBID = true /\
  PrincipalFields.STATEMENT_PRINCIPAL_SLOTS = [K_Principal; K_NotPrincipal].
Proof.
  exact (conj principal_table_ok (conj principal_table_names (conj principal_table_closed statement_principal_slots))).
Qed.
Print Assumptions C16_principal_fields_table.

(* ---- Whitelist ---------------------------------------------------------------------------- *)

(* reported as non-whitelisted = named by the statement, a string, and not an element of the whitelist *)
Theorem C16_whitelist :
  forall (wl : list str) (st : stmt) (p : value),
    In p (map VStr (non_whitelisted wl st)) <->
    In p (principals st) /\ is_string p /\ ~ In p (map VStr wl).
Proof. exact non_whitelisted_spec_value. Qed.
Print Assumptions C16_whitelist.

Theorem C16_whitelist_str :
  forall (wl : list str) (st : stmt) (s : str),
    In s (non_whitelisted wl st) <-> In (VStr s) (principals st) /\ ~ In s wl.
Proof. exact non_whitelisted_spec. Qed.
Print Assumptions C16_whitelist_str.

Theorem C16_principals_with :
  forall (m : str -> bool) (st : stmt) (s : str),
    In s (principals_with m st) <-> In (VStr s) (principals st) /\ m s = true.
Proof. exact principals_with_spec. Qed.
Print Assumptions C16_principals_with.

(* ---- Only Allow statements count ---------------------------------------------------------- *)

(* get_allowed_actions, for ANY per-statement expansion function (C09 says what the expansion is) *)
Theorem C16_allow_only_actions :
  forall (expanded : stmt -> list str) (l : list stmt) (a : str),
    In a (allowed_actions expanded l) <->
    exists st, In st l /\ effect_of st = Allow /\ In a (expanded st).
Proof. exact allowed_actions_spec. Qed.
Print Assumptions C16_allow_only_actions.

(* allowed_principals_with, for ANY compiled pattern (a predicate on strings) *)
Theorem C16_allow_only_principals_with :
  forall (m : str -> bool) (l : list stmt) (p : str),
    In p (allowed_principals_with m l) <->
    exists st, In st l /\ effect_of st = Allow /\ In (VStr p) (principals st) /\ m p = true.
Proof. exact allowed_principals_with_spec. Qed.
Print Assumptions C16_allow_only_principals_with.

Theorem C16_allow_only_non_whitelisted :
  forall (wl : list str) (l : list stmt) (p : str),
    In p (non_whitelisted_allowed_principals wl l) <->
    exists st, In st l /\ effect_of st = Allow /\ In (VStr p) (principals st) /\ ~ In p wl.
Proof. exact non_whitelisted_allowed_principals_spec. Qed.
Print Assumptions C16_allow_only_non_whitelisted.

(* allowed_actions_with returns the statements themselves *)
Theorem C16_allow_only_actions_with :
  forall (m : str -> bool) (l : list stmt) (st : stmt),
    In st (allowed_actions_with m l) <->
    In st l /\ effect_of st = Allow /\ exists a, In (VStr a) (action_list st) /\ m a = true.
Proof. exact allowed_actions_with_spec. Qed.
Print Assumptions C16_allow_only_actions_with.

(* the set-valued answers are canonical (strictly increasing, so duplicate-free) *)
Theorem C16_set_results_canonical :
  forall l,
    (forall m, StronglySorted str_lt (allowed_principals_with m l) /\ NoDup (allowed_principals_with m l)) /\
    (forall wl, StronglySorted str_lt (non_whitelisted_allowed_principals wl l) /\
                NoDup (non_whitelisted_allowed_principals wl l)).
Proof.
  exact (fun l => conj (fun m => conj (allowed_principals_with_sorted m l) (allowed_principals_with_nodup m l))
                       (fun wl => conj (non_whitelisted_allowed_principals_sorted wl l)
                                       (non_whitelisted_allowed_principals_nodup wl l))).
Qed.
Print Assumptions C16_set_results_canonical.

(* ---- Deny statements are invisible --------------------------------------------------------- *)

(* inserting a Deny statement anywhere (read right to left: removing one) changes none of the queries *)
Theorem C16_deny_invisible :
  forall (expanded : stmt -> list str) (l1 l2 : list stmt) (d : stmt),
    effect_of d = Deny ->
    allowed_actions expanded (l1 ++ d :: l2) = allowed_actions expanded (l1 ++ l2) /\
    (forall m, allowed_principals_with m (l1 ++ d :: l2) = allowed_principals_with m (l1 ++ l2)) /\
    (forall wl, non_whitelisted_allowed_principals wl (l1 ++ d :: l2) = non_whitelisted_allowed_principals wl (l1 ++ l2)) /\
    (forall m, allowed_actions_with m (l1 ++ d :: l2) = allowed_actions_with m (l1 ++ l2)).
Proof. exact deny_invisible. Qed.
Print Assumptions C16_deny_invisible.

(* every query is a function of the sub-list of Allow statements *)
Theorem C16_deny_invisible_filter :
  forall (expanded : stmt -> list str) (l : list stmt),
    allowed_actions expanded (allowed l) = allowed_actions expanded l /\
    (forall m, allowed_principals_with m (allowed l) = allowed_principals_with m l) /\
    (forall wl, non_whitelisted_allowed_principals wl (allowed l) = non_whitelisted_allowed_principals wl l) /\
    (forall m, allowed_actions_with m (allowed l) = allowed_actions_with m l).
Proof. exact queries_see_allow_only. Qed.
Print Assumptions C16_deny_invisible_filter.

Theorem C16_same_allow_same_answers :
  forall (expanded : stmt -> list str) (l l' : list stmt),
    allowed l = allowed l' ->
    allowed_actions expanded l = allowed_actions expanded l' /\
    (forall m, allowed_principals_with m l = allowed_principals_with m l') /\
    (forall wl, non_whitelisted_allowed_principals wl l = non_whitelisted_allowed_principals wl l') /\
    (forall m, allowed_actions_with m l = allowed_actions_with m l').
Proof. exact same_allowed_same_answers. Qed.
Print Assumptions C16_same_allow_same_answers.

Theorem C16_all_deny_empty :
  forall (expanded : stmt -> list str) (l : list stmt),
    (forall st, In st l -> effect_of st = Deny) ->
    allowed_actions expanded l = [] /\
    (forall m, allowed_principals_with m l = []) /\
    (forall wl, non_whitelisted_allowed_principals wl l = []) /\
    (forall m, allowed_actions_with m l = []).
Proof. exact all_deny_empty. Qed.
Print Assumptions C16_all_deny_empty.

(* the two set-valued queries do not depend on the order of the statements either *)
Theorem C16_order_blind :
  forall l l' : list stmt, Permutation l l' ->
    (forall m, allowed_principals_with m l = allowed_principals_with m l') /\
    (forall wl, non_whitelisted_allowed_principals wl l = non_whitelisted_allowed_principals wl l').
Proof. exact set_queries_order_blind. Qed.
Print Assumptions C16_order_blind.

(* ---- Single statement vs list ------------------------------------------------------------- *)

(* a document whose Statement is a single statement is the document with the one-element list *)
Theorem C16_single_vs_list :
  forall (d1 d2 : list (str * value)) (s : value),
    (forall l, s <> VList l) ->
    lookup K_Statement d1 = Some s -> lookup K_Statement d2 = Some (VList [s]) ->
    parse_doc (VDict d1) = parse_doc (VDict d2).
Proof. exact single_vs_list. Qed.
Print Assumptions C16_single_vs_list.

(* ---- Resources: get_resource_list / resources_with ------------------------------------------ *)

(* [resource_named st r]: r is the string / a member of the list written under Resource or under NotResource
   (PolicyFacts.field_names).  get_resource_list returns exactly those, function-object members included. *)
Theorem C16_resource_list_complete :
  forall (st : stmt) (r : value), In r (resource_list st) <-> resource_named st r.
Proof. exact resource_list_complete. Qed.
Print Assumptions C16_resource_list_complete.

(* order: Resource before NotResource, each in input order; shape by shape: absent -> nothing, string -> itself,
   list -> its members, a function object as the WHOLE element -> nothing (see C16_ex_resource_function_objects) *)
Theorem C16_resource_list_order :
  forall st : stmt, resource_list st = field_items (resource st) ++ field_items (not_resource st).
Proof. exact resource_list_order. Qed.
Print Assumptions C16_resource_list_order.

Theorem C16_resource_shapes :
  field_items VNull = [] /\
  (forall s, field_items (VStr s) = [VStr s]) /\
  (forall l, field_items (VList l) = l) /\
  (forall d, field_items (VDict d) = []).
Proof. exact field_items_shapes. Qed.
Print Assumptions C16_resource_shapes.

(* straight from the raw statement *)
Theorem C16_resource_list_of_raw :
  forall d st, parse_stmt (VDict d) = Ok st ->
    resource_list st = field_items (get K_Resource d) ++ field_items (get K_NotResource d) /\
    forall ia ina, action_list_of ia ina st =
      (if ia then field_items (get K_Action d) else []) ++ (if ina then field_items (get K_NotAction d) else []).
Proof. exact parse_stmt_resources. Qed.
Print Assumptions C16_resource_list_of_raw.

(* resources_with, for ANY compiled pattern: reported = enumerated, a string, and matched *)
Theorem C16_resources_with :
  forall (m : str -> bool) (st : stmt) (r : str),
    In r (resources_with m st) <-> In (VStr r) (resource_list st) /\ m r = true.
Proof. exact resources_with_spec. Qed.
Print Assumptions C16_resources_with.

Theorem C16_resources_with_value :
  forall (m : str -> bool) (st : stmt) (v : value),
    In v (map VStr (resources_with m st)) <->
    In v (resource_list st) /\ exists r, v = VStr r /\ m r = true.
Proof. exact resources_with_spec_value. Qed.
Print Assumptions C16_resources_with_value.

(* order and multiplicity are those of the enumeration: Resource matches, then NotResource matches *)
Theorem C16_resources_with_order :
  forall (m : str -> bool) (st : stmt),
    resources_with m st =
      filter m (strings (field_items (resource st))) ++ filter m (strings (field_items (not_resource st))).
Proof. exact resources_with_order. Qed.
Print Assumptions C16_resources_with_order.

(* Sid, Effect, Principal, NotPrincipal, Action, NotAction play no part ... *)
Theorem C16_resources_with_depends_on_resources_only :
  forall (m : str -> bool) (st st' : stmt),
    resource st = resource st' -> not_resource st = not_resource st' ->
    resource_list st = resource_list st' /\ resources_with m st = resources_with m st'.
Proof. exact resources_with_depends_on_resources_only. Qed.
Print Assumptions C16_resources_with_depends_on_resources_only.

Theorem C16_resources_with_independent :
  forall (m : str -> bool) (st : stmt),
    (forall e, resources_with m (set_effect e st) = resources_with m st) /\
    (forall p np, resources_with m (set_principals p np st) = resources_with m st) /\
    (forall a na, resources_with m (set_actions a na st) = resources_with m st) /\
    (forall s, resources_with m (set_sid s st) = resources_with m st).
Proof. exact resources_with_independent. Qed.
Print Assumptions C16_resources_with_independent.

(* ... and the resource elements play no part in the principal / action queries *)
Theorem C16_other_queries_ignore_resources :
  forall (r nr : value) (st : stmt),
    principals (set_resources r nr st) = principals st /\
    action_list (set_resources r nr st) = action_list st /\
    (forall wl, non_whitelisted wl (set_resources r nr st) = non_whitelisted wl st) /\
    (forall m, principals_with m (set_resources r nr st) = principals_with m st) /\
    (forall m, actions_with m (set_resources r nr st) = actions_with m st) /\
    effect_of (set_resources r nr st) = effect_of st.
Proof. exact other_queries_ignore_resources. Qed.
Print Assumptions C16_other_queries_ignore_resources.

(* ---- get_action_list(include_action, include_not_action) ------------------------------------ *)

Theorem C16_action_list_flags :
  forall (ia ina : bool) (st : stmt) (a : value),
    In a (action_list_of ia ina st) <->
    (ia = true /\ field_names (action st) a) \/ (ina = true /\ field_names (not_action st) a).
Proof. exact action_list_of_spec. Qed.
Print Assumptions C16_action_list_flags.

Theorem C16_action_list_flag_cases :
  forall st : stmt,
    action_list_of true true st = action_list st /\
    action_list_of true false st = field_items (action st) /\
    action_list_of false true st = field_items (not_action st) /\
    action_list_of false false st = [].
Proof. exact action_list_of_flags. Qed.
Print Assumptions C16_action_list_flag_cases.

(* ---- statements_with: no Effect gate --------------------------------------------------------- *)

Theorem C16_statements_with_is_filter :
  forall (m : str -> bool) (l : list stmt),
    statements_with m l = filter (fun st => nonempty (resources_with m st)) l.
Proof. exact statements_with_is_filter. Qed.
Print Assumptions C16_statements_with_is_filter.

(* membership: a statement of the document with at least one matching string resource -- the Effect does not occur *)
Theorem C16_statements_with :
  forall (m : str -> bool) (l : list stmt) (st : stmt),
    In st (statements_with m l) <->
    In st l /\ exists r, In (VStr r) (resource_list st) /\ m r = true.
Proof. exact statements_with_spec. Qed.
Print Assumptions C16_statements_with.

(* document order is preserved: the answer is the sub-sequence of the document found at the (strictly increasing,
   in range) positions statements_with_positions, and position p is reported exactly when the p-th statement matches *)
Theorem C16_statements_with_order :
  forall (m : str -> bool) (l : list stmt),
    map (nth_error l) (statements_with_positions m l) = map Some (statements_with m l) /\
    StronglySorted lt (statements_with_positions m l) /\
    (forall p, In p (statements_with_positions m l) -> p < length l).
Proof. exact statements_with_positions_spec. Qed.
Print Assumptions C16_statements_with_order.

Theorem C16_statements_with_positions :
  forall (m : str -> bool) (l : list stmt) (p : nat),
    In p (statements_with_positions m l) <->
    exists st, nth_error l p = Some st /\ exists r, In (VStr r) (resource_list st) /\ m r = true.
Proof. exact statements_with_positions_In. Qed.
Print Assumptions C16_statements_with_positions.

Theorem C16_statements_with_app :
  forall (m : str -> bool) (l1 l2 : list stmt),
    statements_with m (l1 ++ l2) = statements_with m l1 ++ statements_with m l2.
Proof. exact statements_with_app. Qed.
Print Assumptions C16_statements_with_app.

Theorem C16_statements_with_idempotent :
  forall (m : str -> bool) (l : list stmt), statements_with m (statements_with m l) = statements_with m l.
Proof. exact statements_with_idem. Qed.
Print Assumptions C16_statements_with_idempotent.

(* rewriting every statement by an update that leaves Resource / NotResource alone selects the same positions and
   returns the rewritten statements; in particular for any change of Effect, principals, actions or Sid *)
Theorem C16_statements_with_depends_on_resources_only :
  forall (m : str -> bool) (f : stmt -> stmt) (l : list stmt),
    (forall st, resource (f st) = resource st /\ not_resource (f st) = not_resource st) ->
    statements_with_positions m (map f l) = statements_with_positions m l /\
    statements_with m (map f l) = map f (statements_with m l).
Proof. exact statements_with_depends_on_resources_only. Qed.
Print Assumptions C16_statements_with_depends_on_resources_only.

Theorem C16_statements_with_independent :
  forall (m : str -> bool) (l : list stmt),
    (forall e, statements_with_positions m (map (set_effect e) l) = statements_with_positions m l) /\
    (forall p np, statements_with_positions m (map (set_principals p np) l) = statements_with_positions m l) /\
    (forall a na, statements_with_positions m (map (set_actions a na) l) = statements_with_positions m l) /\
    (forall s, statements_with_positions m (map (set_sid s) l) = statements_with_positions m l).
Proof. exact statements_with_independent. Qed.
Print Assumptions C16_statements_with_independent.

(* Deny statements ARE visible here (contrast C16_deny_invisible): inserting a statement anywhere adds it to the
   answer exactly when it has a matching resource, whatever its Effect *)
Theorem C16_statements_with_insert :
  forall (m : str -> bool) (l1 l2 : list stmt) (d : stmt),
    statements_with m (l1 ++ d :: l2) =
      statements_with m l1 ++ (if nonempty (resources_with m d) then [d] else []) ++ statements_with m l2.
Proof. exact statements_with_insert. Qed.
Print Assumptions C16_statements_with_insert.

(* the same Deny statement is reported by statements_with and by none of the Allow-gated statement queries *)
Theorem C16_deny_visible_to_statements_with :
  forall (m : str -> bool) (l : list stmt) (d : stmt) (r : str),
    In d l -> effect_of d = Deny -> In (VStr r) (resource_list d) -> m r = true ->
    In d (statements_with m l) /\ ~ In d (allowed l) /\ forall m', ~ In d (allowed_actions_with m' l).
Proof. exact deny_seen_by_statements_with_only. Qed.
Print Assumptions C16_deny_visible_to_statements_with.

Theorem C16_statements_with_all_deny :
  forall (m : str -> bool) (l : list stmt),
    (forall st, In st l -> effect_of st = Deny) ->
    statements_with_positions m l = statements_with_positions m (map (set_effect Allow) l) /\
    (forall m', allowed_actions_with m' l = []).
Proof. exact statements_with_all_deny. Qed.
Print Assumptions C16_statements_with_all_deny.

(* ---- get_iam_actions: no Effect gate either -------------------------------------------------- *)

(* for ANY per-statement expansion function (C09 says what the expansion is) *)
Theorem C16_iam_actions :
  forall (expanded : stmt -> list str) (l : list stmt) (a : str),
    In a (iam_actions expanded l) <->
    exists st, In st l /\ In a (expanded st) /\ exists rest, a = K_iam_colon ++ rest.
Proof. exact iam_actions_spec_prefix. Qed.
Print Assumptions C16_iam_actions.

(* difference=True: the catalogue entries spelled iam: in some letter case that the statements do not give *)
Theorem C16_iam_actions_difference :
  forall (expanded : stmt -> list str) (cat : list str) (l : list stmt) (a : str),
    In a (iam_actions_difference expanded cat l) <->
    In a cat /\ starts_with K_iam_colon (lower a) = true /\ ~ In a (iam_actions expanded l).
Proof. exact iam_actions_difference_spec. Qed.
Print Assumptions C16_iam_actions_difference.

Theorem C16_iam_actions_canonical :
  forall (expanded : stmt -> list str) (cat : list str) (l : list stmt),
    StronglySorted str_lt (iam_actions expanded l) /\ NoDup (iam_actions expanded l) /\
    StronglySorted str_lt (iam_actions_difference expanded cat l) /\ NoDup (iam_actions_difference expanded cat l).
Proof. exact iam_actions_canonical. Qed.
Print Assumptions C16_iam_actions_canonical.

(* the two answers partition the iam: part of the catalogue when the expansion stays inside the catalogue *)
Theorem C16_iam_actions_partition :
  forall (expanded : stmt -> list str) (cat : list str) (l : list stmt) (a : str),
    (forall st x, In st l -> In x (expanded st) -> In x cat) ->
    In a cat -> starts_with K_iam_colon a = true -> starts_with K_iam_colon (lower a) = true ->
    (In a (iam_actions expanded l) \/ In a (iam_actions_difference expanded cat l)) /\
    ~ (In a (iam_actions expanded l) /\ In a (iam_actions_difference expanded cat l)).
Proof. exact iam_actions_partition. Qed.
Print Assumptions C16_iam_actions_partition.

(* a Deny statement contributes like an Allow one *)
Theorem C16_iam_actions_sees_deny :
  forall (expanded : stmt -> list str) (l : list stmt) (d : stmt) (a : str),
    In d l -> effect_of d = Deny -> In a (expanded d) -> starts_with K_iam_colon a = true ->
    In a (iam_actions expanded l) /\ forall cat, ~ In a (iam_actions_difference expanded cat l).
Proof. exact iam_actions_sees_deny. Qed.
Print Assumptions C16_iam_actions_sees_deny.

Theorem C16_iam_actions_effect_blind :
  forall (expanded : stmt -> list str) (l : list stmt),
    (forall e st, expanded (set_effect e st) = expanded st) ->
    forall e cat, iam_actions expanded (map (set_effect e) l) = iam_actions expanded l /\
                  iam_actions_difference expanded cat (map (set_effect e) l) = iam_actions_difference expanded cat l.
Proof. exact iam_actions_effect_blind. Qed.
Print Assumptions C16_iam_actions_effect_blind.

Theorem C16_iam_actions_order_blind :
  forall (expanded : stmt -> list str) (cat : list str) (l l' : list stmt),
    Permutation l l' ->
    iam_actions expanded l = iam_actions expanded l' /\
    iam_actions_difference expanded cat l = iam_actions_difference expanded cat l'.
Proof. exact iam_actions_order_blind. Qed.
Print Assumptions C16_iam_actions_order_blind.

(* ---- non-vacuity: concrete instances -------------------------------------------------------- *)
Local Open Scope N_scope.

Definition ex_s (e : effect) (p np : value) : stmt :=
  {| sid := VNull; effect_of := e; principal := p; not_principal := np; action := VNull; not_action := VNull;
     resource := VNull; not_resource := VNull |}.
(* a statement with Sid [n], Action a / NotAction na, Resource r / NotResource nr *)
Definition ex_r (n : N) (e : effect) (a na r nr : value) : stmt :=
  {| sid := VStr [n]; effect_of := e; principal := VNull; not_principal := VNull; action := a; not_action := na;
     resource := r; not_resource := nr |}.

(* "aLLoW" -> Allow, "DENY" -> Deny, "Permit" / "" / "Allow " -> ValidationError *)
Example C16_ex_effect :
  effect_store [97;76;76;111;87] = Ok K_Allow /\ effect_store [68;69;78;89] = Ok K_Deny /\
  effect_norm [80;101;114;109;105;116] = Err EValidation /\ effect_norm [] = Err EValidation /\
  effect_norm [65;108;108;111;119;32] = Err EValidation.
Proof. repeat split; vm_compute; reflexivity. Qed.

(* Principal ["a","b"], NotPrincipal {"Service":["d","e"], "AWS":"c", "CanonicalUser":"f", "Federated":["g"]}
   -> a b c f g d e   (field order, not input order) *)
Example C16_ex_principals :
  principals (ex_s Allow (VList [VStr [97]; VStr [98]])
                (VDict [(K_Service, VList [VStr [100]; VStr [101]]); (K_AWS, VStr [99]);
                        (K_CanonicalUser, VStr [102]); (K_Federated, VList [VStr [103]])]))
  = [VStr [97]; VStr [98]; VStr [99]; VStr [102]; VStr [103]; VStr [100]; VStr [101]].
Proof. vm_compute; reflexivity. Qed.

(* a function object in a list is enumerated but never reported by the whitelist query *)
Example C16_ex_function_object :
  let st := ex_s Allow (VList [VStr [97]; VDict [([82;101;102], VStr [120])]]) VNull in
  length (principals st) = 2%nat /\ non_whitelisted [] st = [[97]].
Proof. split; vm_compute; reflexivity. Qed.

(* Allow "a", Deny "b", allow "c","a": the Deny principal does not leak; whitelist ["c"] leaves "a" *)
Example C16_ex_document :
  let l := [ex_s Allow (VStr [97]) VNull; ex_s Deny (VStr [98]) VNull; ex_s Allow (VList [VStr [99]; VStr [97]]) VNull] in
  non_whitelisted_allowed_principals [] l = [[97]; [99]] /\
  non_whitelisted_allowed_principals [[99]] l = [[97]] /\
  allowed_principals_with (fun _ => true) l = [[97]; [99]].
Proof. repeat split; vm_compute; reflexivity. Qed.

(* hypotheses of C16_single_vs_list / C16_deny_invisible are satisfiable *)
Example C16_ex_single :
  parse_doc (VDict [(K_Statement, VDict [(K_Effect, VStr [100;101;110;121])])]) =
  parse_doc (VDict [(K_Statement, VList [VDict [(K_Effect, VStr [100;101;110;121])]])]) /\
  exists l, parse_doc (VDict [(K_Statement, VDict [(K_Effect, VStr [100;101;110;121])])]) = Ok l /\
            map effect_of l = [Deny].
Proof. split; [vm_compute; reflexivity | eexists; split; vm_compute; reflexivity]. Qed.

(* Resource ["a", {"Ref":"x"}, "b"], NotResource "c"  ->  a {Ref:x} b c ; the string queries report a b c;
   a function object as the WHOLE Resource element contributes nothing (model_validate stores it as a FunctionDict,
   which is neither a list nor a `(str, dict)` for get_resource_list) *)
Example C16_ex_resource_function_objects :
  let fn := VDict [([82;101;102], VStr [120])] in
  let st := ex_r 49 Deny VNull VNull (VList [VStr [97]; fn; VStr [98]]) (VStr [99]) in
  resource_list st = [VStr [97]; fn; VStr [98]; VStr [99]] /\
  resources_with (fun _ => true) st = [[97]; [98]; [99]] /\
  resources_with (fun s => str_eqb s [99]) st = [[99]] /\
  resource_list (ex_r 50 Allow VNull VNull fn VNull) = [] /\
  resource_list (ex_r 51 Allow VNull VNull fn (VList [fn])) = [fn].
Proof. repeat split; vm_compute; reflexivity. Qed.

(* Action "a", NotAction ["b","c"] under the four flag combinations *)
Example C16_ex_action_list_flags :
  let st := ex_r 49 Allow (VStr [97]) (VList [VStr [98]; VStr [99]]) VNull VNull in
  action_list_of true true st = [VStr [97]; VStr [98]; VStr [99]] /\
  action_list_of true false st = [VStr [97]] /\
  action_list_of false true st = [VStr [98]; VStr [99]] /\
  action_list_of false false st = [].
Proof. repeat split; vm_compute; reflexivity. Qed.

(* statements "1" Allow Resource "a" ; "2" Deny Resource ["b","a"] ; "3" Allow NotResource "b" ; "4" Deny (no resource):
   pattern = "a" selects 1 and 2 (the Deny one included), pattern = "b" selects 2 and 3, in document order;
   allowed_actions_with on the same document never returns the Deny statements *)
Example C16_ex_statements_with :
  let l := [ex_r 49 Allow (VStr [120]) VNull (VStr [97]) VNull;
            ex_r 50 Deny (VStr [120]) VNull (VList [VStr [98]; VStr [97]]) VNull;
            ex_r 51 Allow (VStr [120]) VNull VNull (VStr [98]);
            ex_r 52 Deny (VStr [120]) VNull VNull VNull] in
  map sid (statements_with (fun s => str_eqb s [97]) l) = [VStr [49]; VStr [50]] /\
  statements_with_positions (fun s => str_eqb s [97]) l = [0; 1]%nat /\
  map sid (statements_with (fun s => str_eqb s [98]) l) = [VStr [50]; VStr [51]] /\
  statements_with_positions (fun s => str_eqb s [98]) l = [1; 2]%nat /\
  statements_with (fun _ => false) l = [] /\
  map sid (allowed_actions_with (fun _ => true) l) = [VStr [49]; VStr [51]].
Proof. repeat split; vm_compute; reflexivity. Qed.

(* get_iam_actions with a toy expansion (a statement expands to its literal Action strings) over the catalogue
   iam:a, iam:b, s3:c, IAM:d : the Deny statement's iam:b is reported; the difference keeps iam:a and IAM:d *)
Example C16_ex_iam_actions :
  let expanded := fun st => strings (field_items (action st)) in
  let cat := [[105;97;109;58;97]; [105;97;109;58;98]; [115;51;58;99]; [73;65;77;58;100]] in
  let l := [ex_r 49 Deny (VStr [105;97;109;58;98]) VNull VNull VNull;
            ex_r 50 Allow (VList [VStr [115;51;58;99]; VStr [105;97;109;58;98]]) VNull VNull VNull] in
  iam_actions expanded l = [[105;97;109;58;98]] /\
  iam_actions_difference expanded cat l = [[73;65;77;58;100]; [105;97;109;58;97]] /\
  allowed_actions expanded l = [[115;51;58;99]; [105;97;109;58;98]] /\
  iam_actions expanded [ex_r 49 Deny (VStr [105;97;109;58;98]) VNull VNull VNull] = [[105;97;109;58;98]] /\
  allowed_actions expanded [ex_r 49 Deny (VStr [105;97;109;58;98]) VNull VNull VNull] = [].
Proof. repeat split; vm_compute; reflexivity. Qed.

(* a raw statement carrying every key is inside the domain of the correspondence, and parses *)
Example C16_ex_raw_with_resources :
  let raw := VDict [(K_Sid, VStr [49]); (K_Effect, VStr [100;69;78;89]); (K_Principal, VStr [42]);
                    (K_Action, VStr [42]); (K_Resource, VList [VStr [97]; VDict [([82;101;102], VStr [120])]]);
                    (K_NotResource, VDict [([82;101;102], VStr [121])])] in
  wf_stmt_raw raw = true /\
  exists st, parse_stmt raw = Ok st /\ effect_of st = Deny /\
             resource_list st = [VStr [97]; VDict [([82;101;102], VStr [120])]] /\
             resources_with (fun _ => true) st = [[97]].
Proof. split; [vm_compute; reflexivity | eexists; repeat split; vm_compute; reflexivity]. Qed.
