(* C16 -- Policy queries count only Allow statements and see every principal.
   Statements only; every proof is [exact] of a lemma proved in Policy/PolicyFacts.v, Policy/StrSet.v or
   Policy/PrincipalTable.v (the latter re-proved against the table regenerated from the live source). *)
From Coq Require Import List Bool NArith ZArith Sorted Permutation.
From PV Require Import Base.Str Base.Value Policy.StrSet Policy.Policy Policy.PolicyFacts Policy.PrincipalTable.
From PVGen Require PrincipalFields.
Import ListNotations.

(* ---- Effect ------------------------------------------------------------------------------- *)

(* a literal Effect is accepted as [e] exactly when it spells the name of [e] in some letter case *)
Theorem C16_effect :
  forall (s : str) (e : effect), effect_norm s = Ok e <-> lower s = lower (name e).
Proof. exact effect_norm_spec. Qed.
Print Assumptions C16_effect.

(* everything else is a validation error (there is no third outcome) *)
Theorem C16_effect_rejects :
  forall s : str, effect_norm s = Err EValidation <-> lower s <> lower K_Allow /\ lower s <> lower K_Deny.
Proof. exact effect_norm_rejects. Qed.
Print Assumptions C16_effect_rejects.

Theorem C16_effect_total :
  forall s : str, (exists e, effect_norm s = Ok e) \/ effect_norm s = Err EValidation.
Proof. exact effect_norm_total. Qed.
Print Assumptions C16_effect_total.

(* what is stored is the canonical spelling "Allow" / "Deny", equal to the input up to letter case ... *)
Theorem C16_effect_stored :
  forall s t : str, effect_store s = Ok t <-> (t = K_Allow \/ t = K_Deny) /\ lower s = lower t.
Proof. exact effect_store_spec. Qed.
Print Assumptions C16_effect_stored.

(* ... and normalising a stored effect again is the identity *)
Theorem C16_effect_stored_idempotent :
  forall s t : str, effect_store s = Ok t -> effect_store t = Ok t.
Proof. exact effect_store_idem. Qed.
Print Assumptions C16_effect_stored_idempotent.

(* the gate used by the document queries (`Effect.lower() == "allow"` on the stored form) is open exactly
   for the literal effects that spell "allow" in some letter case *)
Theorem C16_allow_gate :
  forall (s : str) (e : effect), effect_norm s = Ok e -> (is_allow e = true <-> lower s = K_allow_lc).
Proof. exact allow_gate_spec. Qed.
Print Assumptions C16_allow_gate.

(* validating a raw statement: the literal effect is normalised, the other elements are taken as they are;
   a statement whose effect is neither word is rejected *)
Theorem C16_statement_validated :
  forall d s st, lookup K_Effect d = Some (VStr s) -> parse_stmt (VDict d) = Ok st ->
    lower s = lower (name (effect_of st)) /\
    principal st = get K_Principal d /\ not_principal st = get K_NotPrincipal d /\
    action st = get K_Action d /\ not_action st = get K_NotAction d /\ sid st = get K_Sid d.
Proof. exact parse_stmt_effect. Qed.
Print Assumptions C16_statement_validated.

Theorem C16_statement_rejected :
  forall d s, lookup K_Effect d = Some (VStr s) ->
    (parse_stmt (VDict d) = Err EValidation <-> lower s <> lower K_Allow /\ lower s <> lower K_Deny).
Proof. exact parse_stmt_rejects. Qed.
Print Assumptions C16_statement_rejected.

(* ---- Principal enumeration ----------------------------------------------------------------- *)

(* [named_in st p]: p is the string / a member of the list / the value or a member of the value found under
   one of the keys of PRINCIPAL_FIELDS, of Principal or of NotPrincipal (inductive definitions
   PolicyFacts.elem_names / field_names).  get_principal_list returns exactly those, whatever the shape. *)
Theorem C16_principals_complete :
  forall (st : stmt) (p : value), In p (principals st) <-> named_in st p.
Proof. exact principals_complete. Qed.
Print Assumptions C16_principals_complete.

(* order: Principal before NotPrincipal; in an object the field order AWS, CanonicalUser, Federated, Service *)
Theorem C16_principals_object_order :
  forall d, elem_items (VDict d) =
    field_items (get K_AWS d) ++ field_items (get K_CanonicalUser d) ++
    field_items (get K_Federated d) ++ field_items (get K_Service d).
Proof. exact principals_object_order. Qed.
Print Assumptions C16_principals_object_order.

(* the field table regenerated from the live class Principal is exactly these four keys, in this order,
   each optional, and no other key is accepted *)
Theorem C16_principal_fields_table :
  PrincipalFields.PRINCIPAL_FIELDS_TABLE =
    [(K_AWS, true); (K_CanonicalUser, true); (K_Federated, true); (K_Service, true)] /\
  map fst PrincipalFields.PRINCIPAL_FIELDS_TABLE = PRINCIPAL_FIELDS /\
  PrincipalFields.PRINCIPAL_EXTRA_FORBID = true /\
  PrincipalFields.STATEMENT_PRINCIPAL_SLOTS = [K_Principal; K_NotPrincipal].
Proof.
  exact (conj principal_table_ok (conj principal_table_names (conj principal_table_closed statement_principal_slots))).
Qed.
Print Assumptions C16_principal_fields_table.

(* ---- Whitelist ---------------------------------------------------------------------------- *)

(* reported as non-whitelisted = named by the statement, a string, and not an element of the whitelist *)
Theorem C16_whitelist :
  forall (wl : list str) (st : stmt) (p : value),
    In p (map VStr (non_whitelisted wl st)) <->
    In p (principals st) /\ is_string p /\ ~ In p (map VStr wl).
Proof. exact non_whitelisted_spec_value. Qed.
Print Assumptions C16_whitelist.

Theorem C16_whitelist_str :
  forall (wl : list str) (st : stmt) (s : str),
    In s (non_whitelisted wl st) <-> In (VStr s) (principals st) /\ ~ In s wl.
Proof. exact non_whitelisted_spec. Qed.
Print Assumptions C16_whitelist_str.

Theorem C16_principals_with :
  forall (m : str -> bool) (st : stmt) (s : str),
    In s (principals_with m st) <-> In (VStr s) (principals st) /\ m s = true.
Proof. exact principals_with_spec. Qed.
Print Assumptions C16_principals_with.

(* ---- Only Allow statements count ---------------------------------------------------------- *)

(* get_allowed_actions, for ANY per-statement expansion function (C09 says what the expansion is) *)
Theorem C16_allow_only_actions :
  forall (expanded : stmt -> list str) (l : list stmt) (a : str),
    In a (allowed_actions expanded l) <->
    exists st, In st l /\ effect_of st = Allow /\ In a (expanded st).
Proof. exact allowed_actions_spec. Qed.
Print Assumptions C16_allow_only_actions.

(* allowed_principals_with, for ANY compiled pattern (a predicate on strings) *)
Theorem C16_allow_only_principals_with :
  forall (m : str -> bool) (l : list stmt) (p : str),
    In p (allowed_principals_with m l) <->
    exists st, In st l /\ effect_of st = Allow /\ In (VStr p) (principals st) /\ m p = true.
Proof. exact allowed_principals_with_spec. Qed.
Print Assumptions C16_allow_only_principals_with.

Theorem C16_allow_only_non_whitelisted :
  forall (wl : list str) (l : list stmt) (p : str),
    In p (non_whitelisted_allowed_principals wl l) <->
    exists st, In st l /\ effect_of st = Allow /\ In (VStr p) (principals st) /\ ~ In p wl.
Proof. exact non_whitelisted_allowed_principals_spec. Qed.
Print Assumptions C16_allow_only_non_whitelisted.

(* allowed_actions_with returns the statements themselves *)
Theorem C16_allow_only_actions_with :
  forall (m : str -> bool) (l : list stmt) (st : stmt),
    In st (allowed_actions_with m l) <->
    In st l /\ effect_of st = Allow /\ exists a, In (VStr a) (action_list st) /\ m a = true.
Proof. exact allowed_actions_with_spec. Qed.
Print Assumptions C16_allow_only_actions_with.

(* the set-valued answers are canonical (strictly increasing, so duplicate-free) *)
Theorem C16_set_results_canonical :
  forall l,
    (forall m, StronglySorted str_lt (allowed_principals_with m l) /\ NoDup (allowed_principals_with m l)) /\
    (forall wl, StronglySorted str_lt (non_whitelisted_allowed_principals wl l) /\
                NoDup (non_whitelisted_allowed_principals wl l)).
Proof.
  exact (fun l => conj (fun m => conj (allowed_principals_with_sorted m l) (allowed_principals_with_nodup m l))
                       (fun wl => conj (non_whitelisted_allowed_principals_sorted wl l)
                                       (non_whitelisted_allowed_principals_nodup wl l))).
Qed.
Print Assumptions C16_set_results_canonical.

(* ---- Deny statements are invisible --------------------------------------------------------- *)

(* inserting a Deny statement anywhere (read right to left: removing one) changes none of the queries *)
Theorem C16_deny_invisible :
  forall (expanded : stmt -> list str) (l1 l2 : list stmt) (d : stmt),
    effect_of d = Deny ->
    allowed_actions expanded (l1 ++ d :: l2) = allowed_actions expanded (l1 ++ l2) /\
    (forall m, allowed_principals_with m (l1 ++ d :: l2) = allowed_principals_with m (l1 ++ l2)) /\
    (forall wl, non_whitelisted_allowed_principals wl (l1 ++ d :: l2) = non_whitelisted_allowed_principals wl (l1 ++ l2)) /\
    (forall m, allowed_actions_with m (l1 ++ d :: l2) = allowed_actions_with m (l1 ++ l2)).
Proof. exact deny_invisible. Qed.
Print Assumptions C16_deny_invisible.

(* every query is a function of the sub-list of Allow statements *)
Theorem C16_deny_invisible_filter :
  forall (expanded : stmt -> list str) (l : list stmt),
    allowed_actions expanded (allowed l) = allowed_actions expanded l /\
    (forall m, allowed_principals_with m (allowed l) = allowed_principals_with m l) /\
    (forall wl, non_whitelisted_allowed_principals wl (allowed l) = non_whitelisted_allowed_principals wl l) /\
    (forall m, allowed_actions_with m (allowed l) = allowed_actions_with m l).
Proof. exact queries_see_allow_only. Qed.
Print Assumptions C16_deny_invisible_filter.

Theorem C16_same_allow_same_answers :
  forall (expanded : stmt -> list str) (l l' : list stmt),
    allowed l = allowed l' ->
    allowed_actions expanded l = allowed_actions expanded l' /\
    (forall m, allowed_principals_with m l = allowed_principals_with m l') /\
    (forall wl, non_whitelisted_allowed_principals wl l = non_whitelisted_allowed_principals wl l') /\
    (forall m, allowed_actions_with m l = allowed_actions_with m l').
Proof. exact same_allowed_same_answers. Qed.
Print Assumptions C16_same_allow_same_answers.

Theorem C16_all_deny_empty :
  forall (expanded : stmt -> list str) (l : list stmt),
    (forall st, In st l -> effect_of st = Deny) ->
    allowed_actions expanded l = [] /\
    (forall m, allowed_principals_with m l = []) /\
    (forall wl, non_whitelisted_allowed_principals wl l = []) /\
    (forall m, allowed_actions_with m l = []).
Proof. exact all_deny_empty. Qed.
Print Assumptions C16_all_deny_empty.

(* the two set-valued queries do not depend on the order of the statements either *)
Theorem C16_order_blind :
  forall l l' : list stmt, Permutation l l' ->
    (forall m, allowed_principals_with m l = allowed_principals_with m l') /\
    (forall wl, non_whitelisted_allowed_principals wl l = non_whitelisted_allowed_principals wl l').
Proof. exact set_queries_order_blind. Qed.
Print Assumptions C16_order_blind.

(* ---- Single statement vs list ------------------------------------------------------------- *)

(* a document whose Statement is a single statement is the document with the one-element list *)
Theorem C16_single_vs_list :
  forall (d1 d2 : list (str * value)) (s : value),
    (forall l, s <> VList l) ->
    lookup K_Statement d1 = Some s -> lookup K_Statement d2 = Some (VList [s]) ->
    parse_doc (VDict d1) = parse_doc (VDict d2).
Proof. exact single_vs_list. Qed.
Print Assumptions C16_single_vs_list.

(* ---- non-vacuity: concrete instances -------------------------------------------------------- *)
Local Open Scope N_scope.

Definition ex_s (e : effect) (p np : value) : stmt :=
  {| sid := VNull; effect_of := e; principal := p; not_principal := np; action := VNull; not_action := VNull |}.

(* "aLLoW" -> Allow, "DENY" -> Deny, "Permit" / "" / "Allow " -> ValidationError *)
Example C16_ex_effect :
  effect_store [97;76;76;111;87] = Ok K_Allow /\ effect_store [68;69;78;89] = Ok K_Deny /\
  effect_norm [80;101;114;109;105;116] = Err EValidation /\ effect_norm [] = Err EValidation /\
  effect_norm [65;108;108;111;119;32] = Err EValidation.
Proof. repeat split; vm_compute; reflexivity. Qed.

(* Principal ["a","b"], NotPrincipal {"Service":["d","e"], "AWS":"c", "CanonicalUser":"f", "Federated":["g"]}
   -> a b c f g d e   (field order, not input order) *)
Example C16_ex_principals :
  principals (ex_s Allow (VList [VStr [97]; VStr [98]])
                (VDict [(K_Service, VList [VStr [100]; VStr [101]]); (K_AWS, VStr [99]);
                        (K_CanonicalUser, VStr [102]); (K_Federated, VList [VStr [103]])]))
  = [VStr [97]; VStr [98]; VStr [99]; VStr [102]; VStr [103]; VStr [100]; VStr [101]].
Proof. vm_compute; reflexivity. Qed.

(* a function object in a list is enumerated but never reported by the whitelist query *)
Example C16_ex_function_object :
  let st := ex_s Allow (VList [VStr [97]; VDict [([82;101;102], VStr [120])]]) VNull in
  length (principals st) = 2%nat /\ non_whitelisted [] st = [[97]].
Proof. split; vm_compute; reflexivity. Qed.

(* Allow "a", Deny "b", allow "c","a": the Deny principal does not leak; whitelist ["c"] leaves "a" *)
Example C16_ex_document :
  let l := [ex_s Allow (VStr [97]) VNull; ex_s Deny (VStr [98]) VNull; ex_s Allow (VList [VStr [99]; VStr [97]]) VNull] in
  non_whitelisted_allowed_principals [] l = [[97]; [99]] /\
  non_whitelisted_allowed_principals [[99]] l = [[97]] /\
  allowed_principals_with (fun _ => true) l = [[97]; [99]].
Proof. repeat split; vm_compute; reflexivity. Qed.

(* hypotheses of C16_single_vs_list / C16_deny_invisible are satisfiable *)
Example C16_ex_single :
  parse_doc (VDict [(K_Statement, VDict [(K_Effect, VStr [100;101;110;121])])]) =
  parse_doc (VDict [(K_Statement, VList [VDict [(K_Effect, VStr [100;101;110;121])]])]) /\
  exists l, parse_doc (VDict [(K_Statement, VDict [(K_Effect, VStr [100;101;110;121])])]) = Ok l /\
            map effect_of l = [Deny].
Proof. split; [vm_compute; reflexivity | eexists; split; vm_compute; reflexivity]. Qed.
