(* C06 -- Transformations are pure and repeatable.
   Statements only; every proof is [exact] of a lemma proved in Purity/Facts.v.

   The model (Purity/Heap.v, Purity/Api.v) makes the implementation's MUTABLE objects explicit: a heap of dict
   objects (caller's template / extra_params / context dicts, model objects, the class-level defaults at the
   reserved ids PSEUDO_ID, CATALOGUE_ID, STRICT_ID, and every per-call temporary) plus the private _eval cache
   of condition objects ([ev]).  Each entry point is a state-passing function that performs the reads and writes
   of the code; the values computed are an arbitrary [sem], so every theorem below holds for ALL value semantics.
   REPAIRED = all three copies in place ( extra_params = dict(extra_params) ; replacements = dict(params) ;
   Fn::FindInMap returns a copy of the Mappings leaf ).
   NOT modelled: the CPython scheduler.  C06_commute / C06_interleaving say that every interleaving of the modelled
   atomic calls yields the sequential results; thread safety of the real code is therefore covered only PARTIALLY
   (sampled schedules in the harness). *)
From Coq Require Import List Bool NArith ZArith Permutation.
From PV Require Import Base.Str Base.Value Resolver.Consts Purity.Heap Purity.Api Purity.Facts Purity.HistoryLaws Purity.Sym.
Import ListNotations.
Local Open Scope N_scope.

(* FRAME.  For every value semantics, every state and every call: each object that existed before the call --
   caller arguments, the receiver, other models, the class-level defaults -- is literally the same object
   afterwards; ids not yet in use stay unused below the old high-water mark; and the only cache entry that may
   change is the _eval cache of the condition the call evaluates. *)
Theorem C06_frame : forall (sm : sem) (s : state) (c : call),
  let s' := fst (api_step REPAIRED sm s c) in
  (forall o ob, h_get (hp s) o = Some ob -> h_get (hp s') o = Some ob) /\
  (forall o, o <= hi (hp s) -> h_get (hp s') o = h_get (hp s) o) /\
  (forall o, cache_owner c <> Some o -> e_get (ev s') o = e_get (ev s) o).
Proof. exact frame_thm. Qed.
Print Assumptions C06_frame.

(* the same over whole histories, for objects and for deep snapshots of any depth *)
Theorem C06_frame_history : forall (sm : sem) (s : state) (cs : list call),
  let s' := fst (api_run REPAIRED sm s cs) in
  (forall o ob, h_get (hp s) o = Some ob -> h_get (hp s') o = Some ob) /\
  (forall n o, o <= hi (hp s) -> snap n (hp s') o = snap n (hp s) o).
Proof. exact frame_run_thm. Qed.
Print Assumptions C06_frame_history.

(* library-level defaults: pseudo parameters, action catalogue, GenericResource._strict *)
Theorem C06_defaults_unchanged : forall (sm : sem) (s : state) (cs : list call),
  let s' := fst (api_run REPAIRED sm s cs) in
  h_get (hp s') PSEUDO_ID = h_get (hp s) PSEUDO_ID /\
  h_get (hp s') CATALOGUE_ID = h_get (hp s) CATALOGUE_ID /\
  h_get (hp s') STRICT_ID = h_get (hp s) STRICT_ID.
Proof. exact defaults_thm. Qed.
Print Assumptions C06_defaults_unchanged.

(* NEW MODELS.  parse, resolve and expand_actions (and only they) return an object ... *)
Theorem C06_returns_model : forall (sm : sem) (s : state) (c : call),
  if returns_model c then exists r, rid (snd (api_step REPAIRED sm s c)) = Some r
  else rid (snd (api_step REPAIRED sm s c)) = None.
Proof. exact returns_thm. Qed.
Print Assumptions C06_returns_model.

(* ... that did not exist before, none of whose (transitively) reachable objects existed before, and that shares
   no object with anything reachable -- before or after the call -- from any pre-existing object m
   (in particular from the receiver and from the arguments). *)
Theorem C06_fresh_result : forall (sm : sem) (s : state) (c : call) (r : oid),
  rid (snd (api_step REPAIRED sm s c)) = Some r ->
  let s' := fst (api_step REPAIRED sm s c) in
  h_get (hp s) r = None /\
  (forall o', reach (hp s') r o' -> h_get (hp s) o' = None) /\
  (forall m o', m <= hi (hp s) -> reach (hp s) m o' \/ reach (hp s') m o' -> ~ reach (hp s') r o').
Proof. exact fresh_thm. Qed.
Print Assumptions C06_fresh_result.

(* model_dump as used by resolve / expand_actions / parse: a deep copy writes nothing that existed, every object
   of the copy is new, and the copy has the same deep snapshot *)
Theorem C06_deepcopy : forall (n : nat) (h : heap) (o : oid),
  let h' := fst (h_deepcopy n h o) in let o' := snd (h_deepcopy n h o) in
  (forall x, x <= hi h -> h_get h' x = h_get h x) /\
  (forall x, reach h' o' x -> hi h < x /\ h_get h x = None) /\
  (o <= hi h -> snap n h' o' = snap n h o).
Proof. exact deepcopy_thm. Qed.
Print Assumptions C06_deepcopy.

(* HISTORY.  In every history over objects of the initial state, each call returns what the same call returns on
   the initial state -- no matter how many or which calls preceded it, on this or any other model.
   [within] = the call names objects in use (not ids a later allocation could hand out);
   [cache_ok] = a filled _eval cache holds the evaluator of the condition's own fields (true when no cache is filled). *)
Theorem C06_history : forall (sm : sem) (s : state) (cs : list call),
  cache_ok s -> Forall (within (hp s)) cs ->
  map rval (snd (api_run REPAIRED sm s cs)) = map (fun c => rval (snd (api_step REPAIRED sm s c))) cs.
Proof. exact history_thm. Qed.
Print Assumptions C06_history.

(* the same for one call after an arbitrary prefix; [s] may itself be the state reached by an earlier history, so
   this covers calls on models returned by earlier calls ( m.resolve(ep).expand_actions().resolve(ep) ) *)
Theorem C06_any_prefix : forall (sm : sem) (s : state) (pre : list call) (c : call),
  cache_ok s -> Forall (within (hp s)) pre -> within (hp s) c ->
  rval (snd (api_step REPAIRED sm (fst (api_run REPAIRED sm s pre)) c)) = rval (snd (api_step REPAIRED sm s c)).
Proof. exact prefix_thm. Qed.
Print Assumptions C06_any_prefix.

(* the invariant is established by any state without filled caches and kept by every call *)
Theorem C06_cache_invariant : forall (sm : sem) (s : state) (c : call),
  (forall h, cache_ok {| hp := h; ev := [] |}) /\
  (cache_ok s -> within (hp s) c -> cache_ok (fst (api_step REPAIRED sm s c))).
Proof. exact cache_invariant_thm. Qed.
Print Assumptions C06_cache_invariant.

(* CACHE.  Evaluating a condition whose _eval cache is filled gives the same answer as evaluating it with the
   cache emptied: the cache is not observable. *)
Theorem C06_cache_transparent : forall (sm : sem) (s : state) (c ctx : oid),
  cache_ok s ->
  rval (snd (api_step REPAIRED sm s (CEval c ctx))) = rval (snd (api_step REPAIRED sm (clear_cache s c) (CEval c ctx))) /\
  cache_ok (clear_cache s c) /\ e_get (ev (clear_cache s c)) c = None.
Proof. exact cache_thm. Qed.
Print Assumptions C06_cache_transparent.

(* COMMUTATION.  Two calls give the same two results in either order, and leave every pre-existing object the same. *)
Theorem C06_commute : forall (sm : sem) (s : state) (c1 c2 : call),
  cache_ok s -> within (hp s) c1 -> within (hp s) c2 ->
  let v1 := rval (snd (api_step REPAIRED sm s c1)) in
  let v2 := rval (snd (api_step REPAIRED sm s c2)) in
  map rval (snd (api_run REPAIRED sm s [c1; c2])) = [v1; v2] /\
  map rval (snd (api_run REPAIRED sm s [c2; c1])) = [v2; v1] /\
  (forall o, o <= hi (hp s) ->
     h_get (hp (fst (api_run REPAIRED sm s [c1; c2]))) o = h_get (hp (fst (api_run REPAIRED sm s [c2; c1]))) o).
Proof. exact commute_thm. Qed.
Print Assumptions C06_commute.

(* every interleaving (permutation) of a set of calls yields, call by call, the stand-alone results *)
Theorem C06_interleaving : forall (sm : sem) (s : state) (cs cs' : list call),
  cache_ok s -> Forall (within (hp s)) cs -> Permutation cs cs' ->
  map rval (snd (api_run REPAIRED sm s cs')) = map (fun c => rval (snd (api_step REPAIRED sm s c))) cs'.
Proof. exact interleaving_thm. Qed.
Print Assumptions C06_interleaving.

(* ---------------------------------------------------------------------------------------------------------- *)
(* Witnesses, evaluated with the concrete semantics Sym.SYM (real parameter binding, Ref, Fn::Sub). *)
Definition obj_eqb_ex (a b : obj) : bool :=
  Nat.eqb (length a) (length b) &&
  forallb (fun kc => match snd kc, lookup (fst kc) b with
                     | CVal x, Some (CVal y) => vstrict_eqb x y
                     | CRef x, Some (CRef y) => N.eqb x y
                     | _, _ => false end) a.

Definition kS : str := [83].  Definition kOther : str := [79;116;104;101;114].  Definition kV : str := [86].
Definition kA : str := [65].  Definition kR1 : str := [82;49].  Definition kR2 : str := [82;50].  Definition kP : str := [80].
Definition sv : str := [118].  Definition so : str := [111].  Definition slocal : str := [108;111;99;97;108].
Definition sString : str := [83;116;114;105;110;103].  Definition sSubV : str := [36;123;86;125].  Definition s1 : str := [49].
Definition sUndefS : str := [85;78;68;69;70;73;78;69;68;95;80;65;82;65;77;95;83].  Definition sUndefV : str := [85;78;68;69;70;73;78;69;68;95;80;65;82;65;77;95;86].

(* model 4: Parameters {S: String}, Resources {R1: {P: {Ref: S}}};  extra_params 5 = {S: v, Other: o} *)
Definition ex_model : obj :=
  [(K_Parameters, CVal (VDict [(kS, VDict [(K_Type, VStr sString)])]));
   (K_Resources, CVal (VDict [(kR1, VDict [(kP, VDict [(K_Ref, VStr kS)])])]))].
Definition ex_ep : obj := [(kS, CVal (VStr sv)); (kOther, CVal (VStr so))].
Definition ex_state : state := {| hp := [(4, ex_model); (5, ex_ep)]; ev := [] |}.
Definition ex_twice : list call := [CResolve 4 (Some 5); CResolve 4 (Some 5)].
Definition F04 : flags := {| flag_copy_extra := false; flag_copy_sub := true; flag_copy_leaf := true |}.
Definition F01 : flags := {| flag_copy_extra := true; flag_copy_sub := false; flag_copy_leaf := true |}.
Definition FLEAF : flags := {| flag_copy_extra := true; flag_copy_sub := true; flag_copy_leaf := false |}.
Definition res_P (v : value) : value := vfield kP (vfield kR1 (vfield K_Resources v)).

(* non-vacuity of the hypotheses of C06_history / C06_commute *)
Example C06_ex_hypotheses : cache_ok ex_state /\ Forall (within (hp ex_state)) ex_twice.
Proof. split; [apply no_cache_ok | repeat constructor; vm_compute; discriminate]. Qed.

(* repaired code: the caller's dict is intact and both calls return the same model, with S bound to v *)
Example C06_ex_repaired :
  h_obj (hp (fst (api_run REPAIRED SYM ex_state ex_twice))) 5 = ex_ep /\
  map (fun x => res_P (rval x)) (snd (api_run REPAIRED SYM ex_state ex_twice)) = [VStr sv; VStr sv] /\
  (match map rval (snd (api_run REPAIRED SYM ex_state ex_twice)) with [a; b] => vstrict_eqb a b | _ => false end) = true.
Proof. vm_compute. repeat split. Qed.

(* F04 (before f4b0474): the SAME definitions with flag_copy_extra off.  m.resolve(ep) twice with ep = {S: v, Other: o}
   leaves ep = {Other: o} and the second call returns UNDEFINED_PARAM_S where the first returned v:
   C06_frame and C06_history are both false for that code. *)
Example C06_F04_refuted :
  h_obj (hp (fst (api_run F04 SYM ex_state ex_twice))) 5 = [(kOther, CVal (VStr so))] /\
  map (fun x => res_P (rval x)) (snd (api_run F04 SYM ex_state ex_twice)) = [VStr sv; VStr sUndefS].
Proof. vm_compute. split; reflexivity. Qed.

(* F01 (before 59d9dc0): with flag_copy_sub off the local variable map of an Fn::Sub is written into the params dict
   it was given: resolver.resolve([{"Fn::Sub": ["${V}", {"V": "local"}]}, {"Ref": "V"}], params) with params = {A: "1"}
   changes the caller's params and the later Ref sees the local value. *)
Definition ex_expr : value :=
  VList [VDict [(K_Sub, VList [VStr sSubV; VDict [(kV, VStr slocal)]])]; VDict [(K_Ref, VStr kV)]].
Definition ex_params : obj := [(kA, CVal (VStr s1))].
Definition ex_state2 : state := {| hp := [(4, ex_params)]; ev := [] |}.
Example C06_F01_refuted :
  h_obj (hp (fst (api_step F01 SYM ex_state2 (CExpr ex_expr 4)))) 4 = [(kV, CVal (VStr slocal)); (kA, CVal (VStr s1))] /\
  rval (snd (api_step F01 SYM ex_state2 (CExpr ex_expr 4))) = VList [VStr slocal; VStr slocal] /\
  h_obj (hp (fst (api_step REPAIRED SYM ex_state2 (CExpr ex_expr 4)))) 4 = ex_params /\
  rval (snd (api_step REPAIRED SYM ex_state2 (CExpr ex_expr 4))) = VList [VStr slocal; VStr sUndefV].
Proof. vm_compute. repeat split. Qed.

(* the same leak inside CFModel.resolve: resource R1 holds the Fn::Sub, the later resource R2 a Ref to the same name *)
Definition ex_model3 : obj :=
  [(K_Resources, CVal (VDict [(kR1, VDict [(kP, VDict [(K_Sub, VList [VStr sSubV; VDict [(kV, VStr slocal)]])])]);
                              (kR2, VDict [(kP, VDict [(K_Ref, VStr kV)])])]))].
Definition ex_state3 : state := {| hp := [(4, ex_model3)]; ev := [] |}.
Definition res2_P (v : value) : value := vfield kP (vfield kR2 (vfield K_Resources v)).
Example C06_F01_refuted_in_resolve :
  res2_P (rval (snd (api_step F01 SYM ex_state3 (CResolve 4 None)))) = VStr slocal /\
  res2_P (rval (snd (api_step REPAIRED SYM ex_state3 (CResolve 4 None)))) = VStr sUndefV.
Proof. vm_compute. split; reflexivity. Qed.

(* the _eval cache: the second evaluation runs with a filled cache and returns the same value; the cache is the only change *)
Definition ex_cond : obj := [(kA, CVal (VDict [(kP, VStr sv)]))].
Definition ex_ctx : obj := [(kP, CVal (VStr sv))].
Definition ex_state4 : state := {| hp := [(4, ex_cond); (5, ex_ctx)]; ev := [] |}.
Example C06_ex_cache :
  let r := api_run REPAIRED SYM ex_state4 [CEval 4 5; CEval 4 5] in
  e_get (ev (fst r)) 4 <> None /\ h_obj (hp (fst r)) 4 = ex_cond /\ h_obj (hp (fst r)) 5 = ex_ctx /\
  (match map rval (snd r) with [a; b] => vstrict_eqb a b | _ => false end) = true.
Proof. vm_compute. repeat split. discriminate. Qed.

(* FindInMap alias (found by this property's check on the tree at d8cc80f / c71460c): with flag_copy_leaf off the model
   returned by resolve holds the very list object that is the leaf of the receiver's Mappings -- C06_fresh_result is false
   for that code; with the copy the leaf of the result is a new object with the same content. *)
Definition kLeaf : str := [77;47;107;47;108].
Definition ex_leaf : obj := [([48], CVal (VStr [97]))].
Definition ex_model5 : obj := [(K_Mappings, CRef 5); (K_Resources, CVal (VDict []))].
Definition ex_state5 : state := {| hp := [(4, ex_model5); (5, [(kLeaf, CRef 6)]); (6, ex_leaf)]; ev := [] |}.
Example C06_leaf_alias_refuted :
  let s' := fst (api_step FLEAF SYM ex_state5 (CResolve 4 None)) in
  exists r, rid (snd (api_step FLEAF SYM ex_state5 (CResolve 4 None))) = Some r /\
            reach (hp s') r 6 /\ reach (hp ex_state5) 4 6 /\ h_get (hp ex_state5) 6 <> None.
Proof.
  vm_compute. eexists. split; [reflexivity|]. split; [|split; [|discriminate]].
  - eapply (reach_step _ _ kLeaf 6); [|apply reach_refl].
    vm_compute. repeat match goal with |- _ \/ _ => first [left; reflexivity | right] end.
  - eapply (reach_step _ 4 K_Mappings 5); [vm_compute; left; reflexivity|].
    eapply (reach_step _ 5 kLeaf 6); [vm_compute; left; reflexivity | apply reach_refl].
Qed.
Example C06_leaf_copy_ok :
  let x := api_step REPAIRED SYM ex_state5 (CResolve 4 None) in
  match rid (snd x) with
  | Some r => match lookup kLeaf (h_obj (hp (fst x)) r) with
              | Some (CRef l) => N.ltb 6 l && obj_eqb_ex (h_obj (hp (fst x)) l) ex_leaf
              | _ => false
              end
  | None => false
  end = true.
Proof. vm_compute. reflexivity. Qed.

(* ---------------------------------------------------------------------------------------------------------- *)
(* LAWS OVER WHOLE HISTORIES (Purity/HistoryLaws.v).
   A history is a list of calls naming objects by CONCRETE id; [valid_run sm s cs] says that each call names objects
   that exist when it runs -- initial objects or the results of earlier calls ([run_state] / [run_vals] are the final
   state and the list of result values of api_run REPAIRED).  Ids are handed out deterministically (fresh = succ hi),
   so removing / repeating / moving a call shifts the id of every object allocated after it.  DELETION, DUPLICATION
   and PERMUTATION are therefore stated for an arbitrary valid prefix [pre] (its calls may use each other's results)
   followed by calls that name objects existing at the edit point (initial objects or results of the prefix):
   side condition  Forall (within (hp (run_state sm s pre))) post.  C06_delete_needs_side_condition shows that the law
   without it is false for id-named histories (an artefact of naming by id, not a behaviour of the library).
   The _eval cache needs NO side condition in any of the laws: [cache_ok] is an invariant of valid histories
   (C06_cache_invariant), a CEval call writes only [ev] and temporaries, and its value is that of the unfilled cache. *)

(* REPLAY.  In any valid history, the k-th call -- if its arguments are initial objects -- returns exactly what it
   returns when it is the only call ever made: [pure_val] on the initial heap.  Earlier calls (including those that
   consumed each other's results, and CEval calls that filled caches) are invisible to it. *)
Theorem C06_replay : forall (sm : sem) (s : state) (cs : list call) (k : nat) (c : call),
  cache_ok s -> valid_run sm s cs -> nth_error cs k = Some c -> within (hp s) c ->
  nth_error (run_vals sm s cs) k = Some (pure_val sm (hp s) c) /\
  pure_val sm (hp s) c = rval (snd (api_step REPAIRED sm s c)).
Proof. exact replay_thm. Qed.
Print Assumptions C06_replay.

(* prefix used by the examples: resolve, then a query on the RESULT of that resolve (object 9) *)
Definition hl_pre : list call := [CResolve 4 (Some 5); CQuery 0 9].
Definition hl_s1 : state := run_state SYM ex_state hl_pre.
Example C06_ex_replay :
  let cs := hl_pre ++ [CExpand 9; CResolve 4 (Some 5)] in
  cache_ok ex_state /\ valid_run SYM ex_state cs /\ nth_error cs 3 = Some (CResolve 4 (Some 5)) /\
  within (hp ex_state) (CResolve 4 (Some 5)) /\ ~ within (hp ex_state) (CExpand 9).
Proof.
  split; [apply no_cache_ok|]. split; [vm_compute; repeat split; repeat constructor; discriminate|].
  split; [reflexivity|]. split; [repeat constructor; vm_compute; discriminate|].
  intros W. inversion W as [|? ? W1 ?]; subst. vm_compute in W1. apply W1. reflexivity.
Qed.

(* DELETION.  Removing one call from a history leaves the result of every other call unchanged. *)
Theorem C06_delete_unused_call : forall (sm : sem) (s : state) (pre post : list call) (c : call),
  cache_ok s -> valid_run sm s pre ->
  let s1 := run_state sm s pre in
  within (hp s1) c -> Forall (within (hp s1)) post ->
  run_vals sm s (pre ++ post) = drop_nth (length pre) (run_vals sm s (pre ++ c :: post)).
Proof. exact delete_thm. Qed.
Print Assumptions C06_delete_unused_call.

Definition hl_post : list call := [CQuery 1 9; CResolve 4 None; CEval 4 5].
Example C06_ex_delete :
  cache_ok ex_state /\ valid_run SYM ex_state hl_pre /\ within (hp hl_s1) (CExpand 9) /\
  Forall (within (hp hl_s1)) hl_post /\
  run_vals SYM ex_state (hl_pre ++ hl_post) = drop_nth 2 (run_vals SYM ex_state (hl_pre ++ CExpand 9 :: hl_post)).
Proof.
  split; [apply no_cache_ok|]. split; [vm_compute; repeat split; repeat constructor; discriminate|].
  split; [repeat constructor; vm_compute; discriminate|].
  split; [repeat constructor; vm_compute; discriminate|]. vm_compute. reflexivity.
Qed.

(* the side condition is needed for histories that name objects by id: [parse 4; parse 4; query 9] is valid, 9 being
   the result of the SECOND parse; the first parse (result 7) is used by nobody; without it the second parse returns
   object 7 and id 9 names nothing *)
Example C06_delete_needs_side_condition :
  let cs := [CParse 4; CParse 4; CQuery 0 9] in
  valid_run SYM ex_state cs /\ map rid (snd (api_run REPAIRED SYM ex_state cs)) = [Some 7; Some 9; None] /\
  match nth_error (run_vals SYM ex_state (drop_nth 0 cs)) 1, nth_error (drop_nth 0 (run_vals SYM ex_state cs)) 1 with
  | Some a, Some b => vstrict_eqb a b
  | _, _ => true
  end = false.
Proof. split; [vm_compute; repeat split; repeat constructor; discriminate|]. vm_compute. split; reflexivity. Qed.

(* DUPLICATION.  Repeating a call at once: equal value; when the call returns a model, a second, new object;
   the results of all other calls are what they were. *)
Theorem C06_repeat_call : forall (sm : sem) (s : state) (pre post : list call) (c : call),
  cache_ok s -> valid_run sm s pre ->
  let s1 := run_state sm s pre in
  within (hp s1) c -> Forall (within (hp s1)) post ->
  let x1 := snd (api_step REPAIRED sm s1 c) in
  let x2 := snd (api_step REPAIRED sm (fst (api_step REPAIRED sm s1 c)) c) in
  rval x2 = rval x1 /\
  (if returns_model c then exists r1 r2, rid x1 = Some r1 /\ rid x2 = Some r2 /\ r1 < r2 /\
                                         h_get (hp (fst (api_step REPAIRED sm s1 c))) r2 = None
   else rid x1 = None /\ rid x2 = None) /\
  run_vals sm s (pre ++ c :: c :: post) = run_vals sm s pre ++ rval x1 :: rval x1 :: run_vals sm s1 post /\
  run_vals sm s (pre ++ c :: post) = run_vals sm s pre ++ rval x1 :: run_vals sm s1 post.
Proof. exact repeat_thm. Qed.
Print Assumptions C06_repeat_call.

Example C06_ex_repeat :
  map rid (snd (api_run REPAIRED SYM ex_state (hl_pre ++ CExpand 9 :: CExpand 9 :: hl_post)))
    = [Some 9; None; Some 11; Some 13; None; Some 17; None] /\
  (match run_vals SYM ex_state (hl_pre ++ CExpand 9 :: CExpand 9 :: hl_post) with
   | [_; _; a; b; _; _; _] => vstrict_eqb a b | _ => false end) = true.
Proof. vm_compute. split; reflexivity. Qed.

(* PERMUTATION.  Calls that do not use each other's results may run in any order: the multiset of
   (call, result value) pairs is the same, and so is every object that existed before them. *)
Theorem C06_swap_independent_calls : forall (sm : sem) (s : state) (pre post post' : list call),
  cache_ok s -> valid_run sm s pre ->
  let s1 := run_state sm s pre in
  Forall (within (hp s1)) post -> Permutation post post' ->
  Permutation (combine (pre ++ post) (run_vals sm s (pre ++ post)))
              (combine (pre ++ post') (run_vals sm s (pre ++ post'))) /\
  (forall o, o <= hi (hp s1) ->
     h_get (hp (run_state sm s (pre ++ post))) o = h_get (hp (run_state sm s (pre ++ post'))) o).
Proof. exact swap_thm. Qed.
Print Assumptions C06_swap_independent_calls.

Theorem C06_swap_adjacent_calls : forall (sm : sem) (s : state) (pre post : list call) (c1 c2 : call),
  cache_ok s -> valid_run sm s pre ->
  let s1 := run_state sm s pre in
  within (hp s1) c1 -> within (hp s1) c2 -> Forall (within (hp s1)) post ->
  Permutation (combine (pre ++ c1 :: c2 :: post) (run_vals sm s (pre ++ c1 :: c2 :: post)))
              (combine (pre ++ c2 :: c1 :: post) (run_vals sm s (pre ++ c2 :: c1 :: post))).
Proof. exact swap_adjacent_thm. Qed.
Print Assumptions C06_swap_adjacent_calls.

Example C06_ex_swap :
  Forall (within (hp hl_s1)) (CExpand 9 :: hl_post) /\
  Permutation (CExpand 9 :: hl_post) (CQuery 1 9 :: CExpand 9 :: CEval 4 5 :: [CResolve 4 None]) /\
  (match run_vals SYM ex_state (hl_pre ++ CExpand 9 :: hl_post),
         run_vals SYM ex_state (hl_pre ++ CQuery 1 9 :: CExpand 9 :: CEval 4 5 :: [CResolve 4 None]) with
   | [_; _; a; b; c; d], [_; _; b'; a'; d'; c'] =>
       vstrict_eqb a a' && vstrict_eqb b b' && vstrict_eqb c c' && vstrict_eqb d d'
   | _, _ => false end) = true.
Proof.
  split; [repeat constructor; vm_compute; discriminate|]. split; [|vm_compute; reflexivity].
  apply perm_trans with (CQuery 1 9 :: CExpand 9 :: [CResolve 4 None; CEval 4 5]); [apply perm_swap|].
  repeat apply perm_skip. apply perm_swap.
Qed.

(* INITIAL OBJECTS ARE IMMUTABLE.  After ANY history (no validity or cache hypothesis), every object that existed at
   the start -- templates, parameter dicts, contexts, whitelists, models -- and each process-wide default is the very
   same object with the same content, the same deep snapshot at every depth, and so is everything reachable from it. *)
Theorem C06_initial_objects_immutable : forall (sm : sem) (s : state) (cs : list call) (o : oid),
  o <= hi (hp s) \/ o = PSEUDO_ID \/ o = CATALOGUE_ID \/ o = STRICT_ID ->
  let s' := run_state sm s cs in
  h_get (hp s') o = h_get (hp s) o /\ h_obj (hp s') o = h_obj (hp s) o /\
  (forall n, snap n (hp s') o = snap n (hp s) o) /\
  (forall o', reach (hp s) o o' -> h_get (hp s') o' = h_get (hp s) o').
Proof. exact initial_immutable_thm. Qed.
Print Assumptions C06_initial_objects_immutable.

Example C06_ex_initial_immutable :
  let s' := run_state SYM ex_state (hl_pre ++ CExpand 9 :: CExpand 9 :: hl_post) in
  h_get (hp s') 4 = Some ex_model /\ h_get (hp s') 5 = Some ex_ep /\ N.ltb 15 (hi (hp s')) = true /\
  e_get (ev s') 4 <> None.
Proof. vm_compute. repeat split. discriminate. Qed.
