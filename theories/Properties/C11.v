(* C11 -- Each IAM condition operator performs its documented comparison.
   Statements only; every proof is [exact] of a lemma proved in Iam/OpsFacts.v, Iam/IpNet.v, Iam/OpTable.v.

   op_test fold o p c  is the result of the single-key, single-value condition {o: {key: p}} on a context whose value
   for the key is c:  Some b = it returned b,  None = evaluating it raised (so __call__ returns None).
   [fold] stands for Python's  normalize("NFKD", s.casefold())  and is arbitrary in every theorem. *)
From Coq Require Import List Bool NArith ZArith.
From PV Require Import Base.Str Base.Value Glob.Glob Run.RState Iam.IpNet Iam.Ops Iam.OpNames Iam.OpsFacts Iam.OpTable
  Iam.OpsAlgebra.
From PVGen Require Import Operators.
Import ListNotations.

(* String / Arn / Binary / Numeric / Date Equals: on two operands of the operator's type the answer is a boolean,
   True exactly when the context value IS the policy value *)
Theorem C11_equals :
  forall (fold : str -> str) (o : base_op) (p c : cval),
    is_equals o = true -> has_fam (family o) p = true -> has_fam (family o) c = true ->
    exists b, op_test fold o p c = Some b /\ (b = true <-> c = p).
Proof. exact equals_correct. Qed.
Print Assumptions C11_equals.

Theorem C11_not_equals :
  forall (fold : str -> str) (o : base_op) (p c : cval),
    is_not_equals o = true -> has_fam (family o) p = true -> has_fam (family o) c = true ->
    exists b, op_test fold o p c = Some b /\ (b = true <-> c <> p).
Proof. exact not_equals_correct. Qed.
Print Assumptions C11_not_equals.

(* Numeric ordering, context value x against policy value y: strict for LessThan/GreaterThan, inclusive for ...Equals *)
Theorem C11_order :
  forall (fold : str -> str) (x y : Z),
    (op_test fold ONumericLessThan (CInt y) (CInt x) = Some true <-> (x < y)%Z) /\
    (op_test fold ONumericLessThanEquals (CInt y) (CInt x) = Some true <-> (x <= y)%Z) /\
    (op_test fold ONumericGreaterThan (CInt y) (CInt x) = Some true <-> (x > y)%Z) /\
    (op_test fold ONumericGreaterThanEquals (CInt y) (CInt x) = Some true <-> (x >= y)%Z) /\
    (forall o, family o = FInt -> op_test fold o (CInt y) (CInt x) <> None).
Proof. exact order_numeric. Qed.
Print Assumptions C11_order.

(* Date ordering on instants (microseconds), both aware or both naive *)
Theorem C11_order_date :
  forall (fold : str -> str) (aware : bool) (x y : Z),
    (op_test fold ODateLessThan (CDate aware y) (CDate aware x) = Some true <-> (x < y)%Z) /\
    (op_test fold ODateLessThanEquals (CDate aware y) (CDate aware x) = Some true <-> (x <= y)%Z) /\
    (op_test fold ODateGreaterThan (CDate aware y) (CDate aware x) = Some true <-> (x > y)%Z) /\
    (op_test fold ODateGreaterThanEquals (CDate aware y) (CDate aware x) = Some true <-> (x >= y)%Z).
Proof. exact order_date_same. Qed.
Print Assumptions C11_order_date.

(* a naive datetime against an aware one is incomparable (None) for the four orderings, unequal for (Not)Equals *)
Theorem C11_order_date_naive_vs_aware :
  forall (fold : str -> str) (aware : bool) (x y : Z),
    op_test fold ODateLessThan (CDate aware y) (CDate (negb aware) x) = None /\
    op_test fold ODateLessThanEquals (CDate aware y) (CDate (negb aware) x) = None /\
    op_test fold ODateGreaterThan (CDate aware y) (CDate (negb aware) x) = None /\
    op_test fold ODateGreaterThanEquals (CDate aware y) (CDate (negb aware) x) = None /\
    op_test fold ODateEquals (CDate aware y) (CDate (negb aware) x) = Some false /\
    op_test fold ODateNotEquals (CDate aware y) (CDate (negb aware) x) = Some true.
Proof. exact order_date_naive_vs_aware. Qed.
Print Assumptions C11_order_date_naive_vs_aware.

(* IgnoreCase: equality of the case- and compatibility-normalised forms *)
Theorem C11_ignorecase :
  forall (fold : str -> str) (p c : str),
    op_test fold OStringEqualsIgnoreCase (CStr p) (CStr c) = Some (str_eqb (fold c) (fold p)) /\
    (op_test fold OStringEqualsIgnoreCase (CStr p) (CStr c) = Some true <-> fold c = fold p).
Proof. exact ignorecase_correct. Qed.
Print Assumptions C11_ignorecase.

(* Like: the IAM glob match of C08 (case-SENSITIVE, every other character literal) *)
Theorem C11_like :
  forall (fold : str -> str) (p c : str),
    (op_test fold OStringLike (CStr p) (CStr c) = Some true <-> glob_spec N (tokens N N.eqb STAR QM p) c) /\
    (op_test fold OArnLike (CStr p) (CStr c) = Some true <-> glob_spec N (tokens N N.eqb STAR QM p) c).
Proof. exact like_correct. Qed.
Print Assumptions C11_like.

(* IpAddress: network containment -- same IP version and every address of the context network a is an address of the
   policy network b *)
Theorem C11_ip :
  forall (a b : net), wf_net a -> wf_net b ->
    (subnet_of a b = true <-> same_ver a b /\ forall x, in_net x a -> in_net x b).
Proof. exact subnet_of_iff. Qed.
Print Assumptions C11_ip.

Theorem C11_ip_operator :
  forall (fold : str -> str) (a b : net), wf_net a -> wf_net b ->
    (op_test fold OIpAddress (CNet b) (CNet a) = Some true <-> same_ver a b /\ forall x, in_net x a -> in_net x b).
Proof. exact ip_correct. Qed.
Print Assumptions C11_ip_operator.

(* a network of the other IP version lies in no network of this one: IpAddress is False and NotIpAddress True.  (Before fix F30 the
   pair was "incomparable" -- subnet_of raises TypeError across versions -- and both operators answered None, which made a policy
   listing IPv4 and IPv6 ranges under one key unanswerable or not depending on the ORDER of the ranges: Iam/BlockAlgebra.v
   had to refute order-blindness of value lists with exactly that witness.) *)
Theorem C11_ip_other_version :
  forall (fold : str -> str) (a b : net), n_ver a <> n_ver b ->
    op_test fold OIpAddress (CNet b) (CNet a) = Some false /\ op_test fold ONotIpAddress (CNet b) (CNet a) = Some true.
Proof. exact ip_other_version. Qed.
Print Assumptions C11_ip_other_version.

(* FOLLOWS THE CODE, outside "operands of the operator's type": a policy value that is not a network (a string pydantic
   could not read as one) makes IpAddress AND NotIpAddress constantly False, whatever the context *)
Theorem C11_ip_policy_not_a_network :
  forall (fold : str -> str) (s : str) (c : cval),
    op_test fold OIpAddress (CStr s) c = Some false /\ op_test fold ONotIpAddress (CStr s) c = Some false.
Proof. exact ip_policy_not_a_network. Qed.
Print Assumptions C11_ip_policy_not_a_network.

(* Bool: identity with the policy boolean -- for ANY context value c (the integer 1, the string "true" are not True) *)
Theorem C11_bool_identity :
  forall (fold : str -> str) (b : bool) (c : cval),
    (c = CAbsent -> op_test fold OBool (CBool b) c = None) /\
    (c <> CAbsent -> exists r, op_test fold OBool (CBool b) c = Some r /\ (r = true <-> c = CBool b)).
Proof. exact bool_identity. Qed.
Print Assumptions C11_bool_identity.

(* Null: key presence.  FOLLOWS THE CODE AND THE PINNED TESTS: {"Null": {key: true}} holds when the key IS present
   (and not None) -- the reverse of the AWS wording -- and never raises *)
Theorem C11_null_presence :
  forall (fold : str -> str) (b : bool) (c : cval),
    op_test fold ONull (CBool b) c = Some (Bool.eqb (is_present c) b) /\
    (is_present c = true <-> c <> CAbsent /\ c <> CNone).
Proof. exact null_presence. Qed.
Print Assumptions C11_null_presence.

(* every negated operator returns the negation of its positive counterpart on the same operands: policy value of the
   operator's type, ANY context value (when one raises so does the other) *)
Theorem C11_negation_dual :
  forall (fold : str -> str) (o o' : base_op) (p c : cval),
    neg_of o = Some o' -> has_fam (family o) p = true ->
    op_test fold o' p c = option_map negb (op_test fold o p c).
Proof. exact negation_dual. Qed.
Print Assumptions C11_negation_dual.

(* on two operands of the operator's type the comparison is always made, except naive-vs-aware datetimes (ordering)
   and networks of different IP versions *)
Theorem C11_typed_defined :
  forall (fold : str -> str) (o : base_op) (p c : cval),
    has_fam (family o) p = true -> has_fam (family o) c = true -> op_test fold o p c = None ->
    (exists a x y, p = CDate a y /\ c = CDate (negb a) x) \/ (exists a b, p = CNet b /\ c = CNet a /\ n_ver a <> n_ver b).
Proof. exact typed_defined. Qed.
Print Assumptions C11_typed_defined.

(* the generated table of the LIVE class (159 fields): every one of the 27 base operators occurs bare; every row has
   the value family its base operator requires and its NAME, read with the code's stripping rule, gives back exactly its
   (qualifier, operator, IfExists); names are pairwise different; a combination is a field iff it is not Null+IfExists *)
Theorem Operators_complete :
  (forall o, exists e, In e OPERATORS /\ e_qual e = QNone /\ e_base e = o /\ e_ifx e = false)
  /\ (forall e, In e OPERATORS ->
        e_fam e = family (e_base e) /\ parse_name (e_name e) = Some (e_qual e, e_base e, e_ifx e))
  /\ NoDup (map e_name OPERATORS)
  /\ (forall q o i, (exists e, In e OPERATORS /\ e_qual e = q /\ e_base e = o /\ e_ifx e = i) <-> ~ (o = ONull /\ i = true))
  /\ length OPERATORS = 159.
Proof. exact OpTable.Operators_complete. Qed.
Print Assumptions Operators_complete.

(* the eight negated operators are exactly the images of neg_of; all 27 operators are listed *)
Theorem C11_negated_are_the_duals :
  forall o', negated o' = true <-> exists o, neg_of o = Some o'.
Proof. exact negated_are_the_duals. Qed.
Print Assumptions C11_negated_are_the_duals.

Local Open Scope N_scope.
Definition id_fold (s : str) : str := s.
Definition net4 (a b c d l : N) : net := Net V4 (((a * 256 + b) * 256 + c) * 256 + d) l.

(* non-vacuity and documented corner cases *)
Example C11_ex_equals : op_test id_fold OStringEquals (CStr [97]) (CStr [97]) = Some true
                        /\ op_test id_fold OStringEquals (CStr [97]) (CStr [65]) = Some false
                        /\ op_test id_fold OStringEquals (CStr [53]) (CInt 5) = Some false      (* "5" vs 5: unequal, no error *)
                        /\ op_test id_fold OStringEquals (CStr [97]) CAbsent = None.
Proof. repeat split; vm_compute; reflexivity. Qed.
Example C11_ex_order : op_test id_fold ONumericLessThan (CInt 5) (CInt 4) = Some true
                       /\ op_test id_fold ONumericLessThan (CInt 5) (CInt 5) = Some false
                       /\ op_test id_fold ONumericLessThanEquals (CInt 5) (CInt 5) = Some true
                       /\ op_test id_fold ONumericLessThan (CInt 5) (CStr [52]) = None.          (* "4" < 5 raises *)
Proof. repeat split; vm_compute; reflexivity. Qed.
Example C11_ex_ip : op_test id_fold OIpAddress (CNet (net4 10 0 0 0 8)) (CNet (net4 10 1 0 0 16)) = Some true
                    /\ op_test id_fold OIpAddress (CNet (net4 10 1 0 0 16)) (CNet (net4 10 0 0 0 8)) = Some false
                    /\ op_test id_fold ONotIpAddress (CNet (net4 10 0 0 0 8)) (CNet (net4 11 0 0 0 8)) = Some true
                    /\ op_test id_fold OIpAddress (CNet (net4 10 0 0 0 8)) (CNet (Net V6 0 0)) = Some false   (* other version: outside *)
                    /\ op_test id_fold ONotIpAddress (CNet (net4 10 0 0 0 8)) (CNet (Net V6 0 0)) = Some true.
Proof. repeat split; vm_compute; reflexivity. Qed.
Example C11_ex_wf : wf_net (net4 10 1 0 0 16) /\ wf_net (Net V6 0 0).
Proof. split; vm_compute; repeat split; discriminate. Qed.
Example C11_ex_bool_null : op_test id_fold OBool (CBool true) (CInt 1) = Some false
                           /\ op_test id_fold OBool (CBool true) (CBool true) = Some true
                           /\ op_test id_fold ONull (CBool true) CAbsent = Some false
                           /\ op_test id_fold ONull (CBool false) CNone = Some true
                           /\ op_test id_fold ONull (CBool true) (CInt 0) = Some true.
Proof. repeat split; vm_compute; reflexivity. Qed.
Example C11_ex_like_case_sensitive : op_test id_fold OStringLike (CStr [97; 42]) (CStr [65; 98]) = Some false
                                     /\ op_test id_fold OStringNotLike (CStr [97; 46; 99]) (CStr [97; 98; 99]) = Some true.
Proof. repeat split; vm_compute; reflexivity. Qed.

(* ====================================================================================================================
   ORDER / EQUIVALENCE THEORY of the single operators (Iam/OpsAlgebra.v), for ALL values.
   Throughout:  op_test fold o p c  with  p = the POLICY value, c = the REQUEST value (kwargs[key]); the code evaluates
   `kwargs[key] <cmp> policy`, so {"NumericLessThan": {key: p}} holds on a request iff request[key] < p.
   [comparable c p]: two numbers (a bool is the number 0/1), or two datetimes both aware or both naive. *)

(* ---- numbers *)

(* ARGUMENT ORDER: x = the request value, y = the policy value *)
Theorem C11_numeric_argument_order :
  forall (fold : str -> str) (p c : cval) (x y : Z), as_int c = Some x -> as_int p = Some y ->
    (op_test fold ONumericEquals p c = Some true <-> x = y) /\
    (op_test fold ONumericNotEquals p c = Some true <-> x <> y) /\
    (op_test fold ONumericLessThan p c = Some true <-> (x < y)%Z) /\
    (op_test fold ONumericLessThanEquals p c = Some true <-> (x <= y)%Z) /\
    (op_test fold ONumericGreaterThan p c = Some true <-> (x > y)%Z) /\
    (op_test fold ONumericGreaterThanEquals p c = Some true <-> (x >= y)%Z).
Proof. exact numeric_argument_order. Qed.
Print Assumptions C11_numeric_argument_order.

(* the same as VALUES: on two numbers every Numeric operator answers, with the comparison of Z *)
Theorem C11_numeric_values :
  forall (fold : str -> str) (p c : cval) (x y : Z), as_int c = Some x -> as_int p = Some y ->
    op_test fold ONumericEquals p c = Some (x =? y)%Z /\
    op_test fold ONumericNotEquals p c = Some (negb (x =? y)%Z) /\
    op_test fold ONumericLessThan p c = Some (x <? y)%Z /\
    op_test fold ONumericLessThanEquals p c = Some (x <=? y)%Z /\
    op_test fold ONumericGreaterThan p c = Some (y <? x)%Z /\
    op_test fold ONumericGreaterThanEquals p c = Some (y <=? x)%Z.
Proof. exact numeric_values. Qed.
Print Assumptions C11_numeric_values.
Example C11_ex_numeric_argument_order :
  as_int (CInt 4) = Some 4%Z /\ as_int (CBool true) = Some 1%Z
  /\ op_test id_fold ONumericLessThan (CInt 5) (CInt 4) = Some true        (* request 4 < policy 5 *)
  /\ op_test id_fold ONumericLessThan (CInt 4) (CInt 5) = Some false       (* request 5 < policy 4: no *)
  /\ op_test id_fold ONumericGreaterThan (CInt 4) (CInt 5) = Some true
  /\ op_test id_fold ONumericEquals (CInt 1) (CBool true) = Some true      (* True == 1 *)
  /\ op_test id_fold ONumericLessThan (CInt 2) (CBool true) = Some true.   (* True < 2 *)
Proof. repeat split; vm_compute; reflexivity. Qed.

(* TRICHOTOMY: on two numbers exactly one of LessThan, Equals, GreaterThan holds *)
Theorem C11_numeric_trichotomy :
  forall (fold : str -> str) (p c : cval), (exists x y, as_int c = Some x /\ as_int p = Some y) ->
    (op_test fold ONumericLessThan p c = Some true /\ op_test fold ONumericEquals p c = Some false
       /\ op_test fold ONumericGreaterThan p c = Some false) \/
    (op_test fold ONumericLessThan p c = Some false /\ op_test fold ONumericEquals p c = Some true
       /\ op_test fold ONumericGreaterThan p c = Some false) \/
    (op_test fold ONumericLessThan p c = Some false /\ op_test fold ONumericEquals p c = Some false
       /\ op_test fold ONumericGreaterThan p c = Some true).
Proof. exact numeric_trichotomy. Qed.
Print Assumptions C11_numeric_trichotomy.
Example C11_ex_numeric_trichotomy :
  (exists x y, as_int (CInt 4) = Some x /\ as_int (CInt 5) = Some y)
  /\ (op_test id_fold ONumericLessThan (CInt 5) (CInt 4), op_test id_fold ONumericEquals (CInt 5) (CInt 4),
      op_test id_fold ONumericGreaterThan (CInt 5) (CInt 4)) = (Some true, Some false, Some false)
  /\ (op_test id_fold ONumericLessThan (CInt 5) (CInt 5), op_test id_fold ONumericEquals (CInt 5) (CInt 5),
      op_test id_fold ONumericGreaterThan (CInt 5) (CInt 5)) = (Some false, Some true, Some false)
  /\ (op_test id_fold ONumericLessThan (CInt 5) (CInt 6), op_test id_fold ONumericEquals (CInt 5) (CInt 6),
      op_test id_fold ONumericGreaterThan (CInt 5) (CInt 6)) = (Some false, Some false, Some true).
Proof. split; [exists 4%Z, 5%Z; split; reflexivity|]. repeat split; vm_compute; reflexivity. Qed.

(* THE ORDER LAWS, for ALL operands (an identity holds with both sides undefined together; "= Some true" already
   forces comparability):  LessThanEquals = LessThan or Equals;  GreaterThanEquals = GreaterThan or Equals = not LessThan;
   GreaterThan = not LessThanEquals;  NotEquals = not Equals;  converse (exchanging policy and request value turns
   LessThan into GreaterThan);  transitivity (the middle value b is once the policy, once the request value);
   antisymmetry (mutual <= is Equals -- not identity: True and 1);  irreflexivity, asymmetry;  totality and
   reflexivity on comparable operands *)
Theorem C11_numeric_order_laws :
  forall (fold : str -> str),
    let T := op_test fold in
    (forall p c, T ONumericLessThanEquals p c = lift2 orb (T ONumericLessThan p c) (T ONumericEquals p c)) /\
    (forall p c, T ONumericGreaterThanEquals p c = lift2 orb (T ONumericGreaterThan p c) (T ONumericEquals p c)) /\
    (forall p c, T ONumericGreaterThanEquals p c = option_map negb (T ONumericLessThan p c)) /\
    (forall p c, T ONumericGreaterThan p c = option_map negb (T ONumericLessThanEquals p c)) /\
    (forall p c, T ONumericNotEquals p c = option_map negb (T ONumericEquals p c)) /\
    (forall p c, T ONumericLessThan p c = T ONumericGreaterThan c p
                 /\ T ONumericLessThanEquals p c = T ONumericGreaterThanEquals c p) /\
    (forall a b c, T ONumericLessThan b a = Some true -> T ONumericLessThan c b = Some true ->
                   T ONumericLessThan c a = Some true) /\
    (forall a b c, T ONumericLessThanEquals b a = Some true -> T ONumericLessThanEquals c b = Some true ->
                   T ONumericLessThanEquals c a = Some true) /\
    (forall a b c, T ONumericLessThan b a = Some true -> T ONumericLessThanEquals c b = Some true ->
                   T ONumericLessThan c a = Some true) /\
    (forall a b c, T ONumericLessThanEquals b a = Some true -> T ONumericLessThan c b = Some true ->
                   T ONumericLessThan c a = Some true) /\
    (forall a b, T ONumericLessThanEquals b a = Some true -> T ONumericLessThanEquals a b = Some true ->
                 T ONumericEquals b a = Some true) /\
    (forall a, T ONumericLessThan a a <> Some true) /\
    (forall a b, T ONumericLessThan b a = Some true -> T ONumericLessThan a b = Some false) /\
    (forall a b, comparable a b -> T ONumericLessThanEquals b a = Some true \/ T ONumericLessThanEquals a b = Some true) /\
    (forall a, comparable a a -> T ONumericLessThanEquals a a = Some true /\ T ONumericEquals a a = Some true).
Proof. intros fold. exact (ord_laws fold ONum). Qed.
Print Assumptions C11_numeric_order_laws.
Example C11_ex_numeric_order_laws :
  (* transitivity: 4 < 5 and 5 < 7 *)
  op_test id_fold ONumericLessThan (CInt 5) (CInt 4) = Some true /\ op_test id_fold ONumericLessThan (CInt 7) (CInt 5) = Some true
  (* antisymmetry meets two DIFFERENT values: True <= 1 and 1 <= True *)
  /\ op_test id_fold ONumericLessThanEquals (CInt 1) (CBool true) = Some true
  /\ op_test id_fold ONumericLessThanEquals (CBool true) (CInt 1) = Some true /\ CBool true <> CInt 1
  /\ comparable (CInt 4) (CBool false)
  (* both sides of an identity undefined together: "4" against 5, and a missing key *)
  /\ op_test id_fold ONumericLessThanEquals (CInt 5) (CStr [52]) = None
  /\ lift2 orb (op_test id_fold ONumericLessThan (CInt 5) (CStr [52])) (op_test id_fold ONumericEquals (CInt 5) (CStr [52])) = None
  /\ op_test id_fold ONumericGreaterThanEquals (CInt 5) CAbsent = None.
Proof.
  repeat split; try (vm_compute; reflexivity); try discriminate.
  left. exists 4%Z, 0%Z. split; reflexivity.
Qed.

(* on two operands of the operator's own type antisymmetry gives the SAME value *)
Theorem C11_numeric_antisymmetric_typed :
  forall (fold : str -> str) (a b : cval), has_fam FInt a = true -> has_fam FInt b = true ->
    op_test fold ONumericLessThanEquals b a = Some true -> op_test fold ONumericLessThanEquals a b = Some true -> a = b.
Proof. intros fold. exact (ord_le_antisym_typed fold ONum). Qed.
Print Assumptions C11_numeric_antisymmetric_typed.
Example C11_ex_numeric_antisymmetric_typed :
  has_fam FInt (CInt 5) = true /\ op_test id_fold ONumericLessThanEquals (CInt 5) (CInt 5) = Some true.
Proof. split; vm_compute; reflexivity. Qed.

(* the orderings are defined EXACTLY on comparable operands; otherwise the four orderings are undefined and Equals
   against an orderable policy value is plainly False *)
Theorem C11_order_defined_iff_comparable :
  forall (fold : str -> str) (p c : cval),
    (op_test fold ONumericLessThan p c <> None <-> comparable c p) /\
    (op_test fold ONumericLessThanEquals p c <> None <-> comparable c p) /\
    (op_test fold ONumericGreaterThan p c <> None <-> comparable c p) /\
    (op_test fold ONumericGreaterThanEquals p c <> None <-> comparable c p).
Proof. intros fold. exact (ord_defined_iff fold ONum). Qed.
Print Assumptions C11_order_defined_iff_comparable.
Theorem C11_order_incomparable :
  forall (fold : str -> str) (p c : cval), ~ comparable c p ->
    op_test fold ONumericLessThan p c = None /\ op_test fold ONumericLessThanEquals p c = None /\
    op_test fold ONumericGreaterThan p c = None /\ op_test fold ONumericGreaterThanEquals p c = None /\
    (comparable p p -> c <> CAbsent ->
       op_test fold ONumericEquals p c = Some false /\ op_test fold ONumericNotEquals p c = Some true).
Proof. intros fold. exact (ord_incomparable fold ONum). Qed.
Print Assumptions C11_order_incomparable.
Example C11_ex_order_incomparable :
  ~ comparable (CStr [52]) (CInt 5) /\ comparable (CInt 5) (CInt 5) /\ CStr [52] <> CAbsent
  /\ op_test id_fold ONumericEquals (CInt 5) (CStr [52]) = Some false.
Proof.
  split; [|split; [|split]].
  - intros [(x & y & H & _)|(a & x & y & H & _)]; discriminate.
  - left. exists 5%Z, 5%Z. split; reflexivity.
  - discriminate.
  - vm_compute. reflexivity.
Qed.

(* ---- dates *)

(* the Date operators are the SAME functions of their operands as the Numeric ones (one lambda for both in the code) *)
Theorem C11_numeric_date_same_functions :
  forall (fold : str -> str) (p c : cval),
    op_test fold ONumericEquals p c = op_test fold ODateEquals p c /\
    op_test fold ONumericNotEquals p c = op_test fold ODateNotEquals p c /\
    op_test fold ONumericLessThan p c = op_test fold ODateLessThan p c /\
    op_test fold ONumericLessThanEquals p c = op_test fold ODateLessThanEquals p c /\
    op_test fold ONumericGreaterThan p c = op_test fold ODateGreaterThan p c /\
    op_test fold ONumericGreaterThanEquals p c = op_test fold ODateGreaterThanEquals p c.
Proof. exact ord_families_coincide. Qed.
Print Assumptions C11_numeric_date_same_functions.

(* ARGUMENT ORDER on instants (microseconds): x = the request instant, y = the policy instant; both aware or both naive *)
Theorem C11_date_argument_order :
  forall (fold : str -> str) (aware : bool) (x y : Z),
    op_test fold ODateEquals (CDate aware y) (CDate aware x) = Some (x =? y)%Z /\
    op_test fold ODateNotEquals (CDate aware y) (CDate aware x) = Some (negb (x =? y)%Z) /\
    op_test fold ODateLessThan (CDate aware y) (CDate aware x) = Some (x <? y)%Z /\
    op_test fold ODateLessThanEquals (CDate aware y) (CDate aware x) = Some (x <=? y)%Z /\
    op_test fold ODateGreaterThan (CDate aware y) (CDate aware x) = Some (y <? x)%Z /\
    op_test fold ODateGreaterThanEquals (CDate aware y) (CDate aware x) = Some (y <=? x)%Z.
Proof. exact date_argument_order. Qed.
Print Assumptions C11_date_argument_order.

Theorem C11_date_trichotomy :
  forall (fold : str -> str) (p c : cval), (exists a x y, c = CDate a x /\ p = CDate a y) ->
    (op_test fold ODateLessThan p c = Some true /\ op_test fold ODateEquals p c = Some false
       /\ op_test fold ODateGreaterThan p c = Some false) \/
    (op_test fold ODateLessThan p c = Some false /\ op_test fold ODateEquals p c = Some true
       /\ op_test fold ODateGreaterThan p c = Some false) \/
    (op_test fold ODateLessThan p c = Some false /\ op_test fold ODateEquals p c = Some false
       /\ op_test fold ODateGreaterThan p c = Some true).
Proof. exact date_trichotomy. Qed.
Print Assumptions C11_date_trichotomy.

Theorem C11_date_order_laws :
  forall (fold : str -> str),
    let T := op_test fold in
    (forall p c, T ODateLessThanEquals p c = lift2 orb (T ODateLessThan p c) (T ODateEquals p c)) /\
    (forall p c, T ODateGreaterThanEquals p c = lift2 orb (T ODateGreaterThan p c) (T ODateEquals p c)) /\
    (forall p c, T ODateGreaterThanEquals p c = option_map negb (T ODateLessThan p c)) /\
    (forall p c, T ODateGreaterThan p c = option_map negb (T ODateLessThanEquals p c)) /\
    (forall p c, T ODateNotEquals p c = option_map negb (T ODateEquals p c)) /\
    (forall p c, T ODateLessThan p c = T ODateGreaterThan c p /\ T ODateLessThanEquals p c = T ODateGreaterThanEquals c p) /\
    (forall a b c, T ODateLessThan b a = Some true -> T ODateLessThan c b = Some true -> T ODateLessThan c a = Some true) /\
    (forall a b c, T ODateLessThanEquals b a = Some true -> T ODateLessThanEquals c b = Some true ->
                   T ODateLessThanEquals c a = Some true) /\
    (forall a b c, T ODateLessThan b a = Some true -> T ODateLessThanEquals c b = Some true -> T ODateLessThan c a = Some true) /\
    (forall a b c, T ODateLessThanEquals b a = Some true -> T ODateLessThan c b = Some true -> T ODateLessThan c a = Some true) /\
    (forall a b, T ODateLessThanEquals b a = Some true -> T ODateLessThanEquals a b = Some true -> T ODateEquals b a = Some true) /\
    (forall a, T ODateLessThan a a <> Some true) /\
    (forall a b, T ODateLessThan b a = Some true -> T ODateLessThan a b = Some false) /\
    (forall a b, comparable a b -> T ODateLessThanEquals b a = Some true \/ T ODateLessThanEquals a b = Some true) /\
    (forall a, comparable a a -> T ODateLessThanEquals a a = Some true /\ T ODateEquals a a = Some true).
Proof. intros fold. exact (ord_laws fold ODat). Qed.
Print Assumptions C11_date_order_laws.

Theorem C11_date_antisymmetric_typed :
  forall (fold : str -> str) (a b : cval), has_fam FDate a = true -> has_fam FDate b = true ->
    op_test fold ODateLessThanEquals b a = Some true -> op_test fold ODateLessThanEquals a b = Some true -> a = b.
Proof. intros fold. exact (ord_le_antisym_typed fold ODat). Qed.
Print Assumptions C11_date_antisymmetric_typed.

(* ONE INSTANT, TWO SPELLINGS.  The model keeps of an aware datetime only its UTC instant:  aware_at wall off  is the datetime
   whose wall clock reads `wall` in a zone `off` microseconds east of UTC, i.e. CDate true (wall - off).  Spellings of one
   instant in different offsets are Equal (and <=, >=, not <, not >); in general they compare as their instants *)
Theorem C11_date_same_instant :
  forall (fold : str -> str) (w1 o1 w2 o2 : Z),
    op_test fold ODateEquals (aware_at w2 o2) (aware_at w1 o1) = Some ((w1 - o1) =? (w2 - o2))%Z /\
    op_test fold ODateLessThan (aware_at w2 o2) (aware_at w1 o1) = Some ((w1 - o1) <? (w2 - o2))%Z /\
    op_test fold ODateLessThanEquals (aware_at w2 o2) (aware_at w1 o1) = Some ((w1 - o1) <=? (w2 - o2))%Z /\
    ((w1 - o1 = w2 - o2)%Z ->
       op_test fold ODateEquals (aware_at w2 o2) (aware_at w1 o1) = Some true /\
       op_test fold ODateNotEquals (aware_at w2 o2) (aware_at w1 o1) = Some false /\
       op_test fold ODateLessThan (aware_at w2 o2) (aware_at w1 o1) = Some false /\
       op_test fold ODateGreaterThan (aware_at w2 o2) (aware_at w1 o1) = Some false /\
       op_test fold ODateLessThanEquals (aware_at w2 o2) (aware_at w1 o1) = Some true /\
       op_test fold ODateGreaterThanEquals (aware_at w2 o2) (aware_at w1 o1) = Some true).
Proof. exact date_spellings. Qed.
Print Assumptions C11_date_same_instant.
(* a naive datetime is compared by its wall-clock reading; against an aware one: unordered and unequal *)
Theorem C11_date_naive :
  forall (fold : str -> str) (w1 w2 o2 : Z),
    op_test fold ODateLessThan (naive_at w2) (naive_at w1) = Some (w1 <? w2)%Z /\
    op_test fold ODateEquals (naive_at w2) (naive_at w1) = Some (w1 =? w2)%Z /\
    op_test fold ODateLessThan (aware_at w2 o2) (naive_at w1) = None /\
    op_test fold ODateLessThan (naive_at w1) (aware_at w2 o2) = None /\
    op_test fold ODateEquals (aware_at w2 o2) (naive_at w1) = Some false.
Proof. exact date_naive. Qed.
Print Assumptions C11_date_naive.
(* policy "2020-01-01T00:00:00Z", request 2020-01-01T01:00:00+01:00 (the same instant) and 2020-01-01T00:30:00+01:00 (earlier) *)
Example C11_ex_date_same_instant :
  (1577840400000000 - 3600000000 = 1577836800000000 - 0)%Z
  /\ op_test id_fold ODateEquals (aware_at 1577836800000000 0) (aware_at 1577840400000000 3600000000) = Some true
  /\ op_test id_fold ODateLessThan (aware_at 1577836800000000 0) (aware_at 1577840400000000 3600000000) = Some false
  /\ op_test id_fold ODateLessThan (aware_at 1577836800000000 0) (aware_at 1577838600000000 3600000000) = Some true
  /\ op_test id_fold ODateLessThan (aware_at 1577836800000000 0) (naive_at 1577838600000000) = None
  /\ (exists a x y, aware_at 1577840400000000 3600000000 = CDate a x /\ aware_at 1577836800000000 0 = CDate a y).
Proof.
  repeat split; try (vm_compute; reflexivity). exists true. eexists. eexists. split; reflexivity.
Qed.

(* ---- text *)

(* the five ...Equals operators are ONE function (Python ==), the four ...NotEquals operators another *)
Theorem C11_equals_one_function :
  forall (fold : str -> str) (o1 o2 : base_op) (p c : cval),
    (is_equals o1 = true -> is_equals o2 = true -> op_test fold o1 p c = op_test fold o2 p c) /\
    (is_not_equals o1 = true -> is_not_equals o2 = true -> op_test fold o1 p c = op_test fold o2 p c).
Proof. exact equals_ops_coincide. Qed.
Print Assumptions C11_equals_one_function.

(* StringEquals is an EQUIVALENCE: reflexive on every value proper (anything but a missing key, an "other object", a
   function object), symmetric and transitive on ALL values; on two texts it is equality code point by code point *)
Theorem C11_string_equals_equivalence :
  forall (fold : str -> str),
    (forall v, v <> CAbsent /\ v <> COther /\ v <> CFn -> op_test fold OStringEquals v v = Some true) /\
    (forall a b, op_test fold OStringEquals b a = Some true -> op_test fold OStringEquals a b = Some true) /\
    (forall a b c, op_test fold OStringEquals b a = Some true -> op_test fold OStringEquals c b = Some true ->
                   op_test fold OStringEquals c a = Some true) /\
    (forall p c : str, op_test fold OStringEquals (CStr p) (CStr c) = Some (str_eqb c p) /\
                       (op_test fold OStringEquals (CStr p) (CStr c) = Some true <-> c = p)).
Proof. exact string_equals_equivalence. Qed.
Print Assumptions C11_string_equals_equivalence.
(* ... and so is every ...Equals operator *)
Theorem C11_equals_equivalence :
  forall (fold : str -> str) (o : base_op), is_equals o = true ->
    (forall v, v <> CAbsent /\ v <> COther /\ v <> CFn -> op_test fold o v v = Some true) /\
    (forall a b, op_test fold o b a = Some true -> op_test fold o a b = Some true) /\
    (forall a b c, op_test fold o b a = Some true -> op_test fold o c b = Some true -> op_test fold o c a = Some true) /\
    (forall p c : str, op_test fold o (CStr p) (CStr c) = Some (str_eqb c p) /\ (op_test fold o (CStr p) (CStr c) = Some true <-> c = p)).
Proof. exact equals_equivalence. Qed.
Print Assumptions C11_equals_equivalence.
(* Equals holds exactly between values with one canonical form (True/False are 1/0, everything else is itself) *)
Theorem C11_equals_canonical :
  forall (fold : str -> str) (o : base_op) (p c : cval), is_equals o = true ->
    (op_test fold o p c = Some true <-> exists n, canon c = Some n /\ canon p = Some n).
Proof. exact equals_true_iff. Qed.
Print Assumptions C11_equals_canonical.
Example C11_ex_equals_equivalence :
  is_equals OBinaryEquals = true /\ (CStr [97] <> CAbsent /\ CStr [97] <> COther /\ CStr [97] <> CFn)
  /\ op_test id_fold OStringEquals (CStr [97]) (CStr [97]) = Some true
  /\ op_test id_fold OStringEquals (CInt 1) (CBool true) = Some true /\ op_test id_fold OStringEquals (CBool true) (CInt 1) = Some true
  /\ canon (CBool true) = Some (CInt 1%Z)
  /\ op_test id_fold OStringEquals COther COther = Some false.     (* not reflexive on a non-value *)
Proof. repeat split; try (vm_compute; reflexivity); discriminate. Qed.

(* StringEqualsIgnoreCase is the equivalence INDUCED BY THE FOLD: defined on two texts only, True iff the folds agree;
   reflexive on texts, symmetric and transitive on all values; it sees the request text only through its fold *)
Theorem C11_ignorecase_equivalence :
  forall (fold : str -> str),
    (forall p c, op_test fold OStringEqualsIgnoreCase p c = Some true <->
                 exists ps cs, p = CStr ps /\ c = CStr cs /\ fold cs = fold ps) /\
    (forall s : str, op_test fold OStringEqualsIgnoreCase (CStr s) (CStr s) = Some true) /\
    (forall a b, op_test fold OStringEqualsIgnoreCase b a = Some true -> op_test fold OStringEqualsIgnoreCase a b = Some true) /\
    (forall a b c, op_test fold OStringEqualsIgnoreCase b a = Some true -> op_test fold OStringEqualsIgnoreCase c b = Some true ->
                   op_test fold OStringEqualsIgnoreCase c a = Some true) /\
    (forall p (cs cs' : str), fold cs = fold cs' ->
                   op_test fold OStringEqualsIgnoreCase p (CStr cs) = op_test fold OStringEqualsIgnoreCase p (CStr cs')).
Proof. exact ignorecase_equivalence. Qed.
Print Assumptions C11_ignorecase_equivalence.

(* COARSER than StringEquals, for every fold ... *)
Theorem C11_ignorecase_coarser :
  forall (fold : str -> str) (ps : str) (c : cval),
    op_test fold OStringEquals (CStr ps) c = Some true -> op_test fold OStringEqualsIgnoreCase (CStr ps) c = Some true.
Proof. exact ic_coarser. Qed.
Print Assumptions C11_ignorecase_coarser.
(* ... STRICTLY coarser as soon as the fold identifies two different texts, and equal to it exactly for an injective fold *)
Theorem C11_ignorecase_strictly_coarser :
  forall (fold : str -> str) (s t : str), s <> t -> fold s = fold t ->
    op_test fold OStringEqualsIgnoreCase (CStr s) (CStr t) = Some true /\ op_test fold OStringEquals (CStr s) (CStr t) = Some false.
Proof. exact ic_strictly_coarser. Qed.
Print Assumptions C11_ignorecase_strictly_coarser.
Theorem C11_ignorecase_is_equals_iff_injective :
  forall (fold : str -> str),
    (forall ps cs : str, op_test fold OStringEqualsIgnoreCase (CStr ps) (CStr cs) = op_test fold OStringEquals (CStr ps) (CStr cs))
    <-> (forall s t : str, fold s = fold t -> s = t).
Proof. exact ic_is_equals_iff_injective. Qed.
Print Assumptions C11_ignorecase_is_equals_iff_injective.
(* with the ASCII lower-casing as fold: "A" and "a" *)
Example C11_ex_ignorecase_coarser :
  [65] <> [97] /\ lower [65] = lower [97]
  /\ op_test lower OStringEqualsIgnoreCase (CStr [65]) (CStr [97]) = Some true
  /\ op_test lower OStringEquals (CStr [65]) (CStr [97]) = Some false
  /\ op_test lower OStringEquals (CStr [97]) (CStr [97]) = Some true
  /\ op_test lower OStringEquals (CStr [53]) (CInt 5) = Some false          (* "5" == 5: False ... *)
  /\ op_test lower OStringEqualsIgnoreCase (CStr [53]) (CInt 5) = None.     (* ... but (5).casefold() raises *)
Proof. repeat split; try (vm_compute; reflexivity); discriminate. Qed.

(* StringLike IS the glob match of Glob/Glob.v (C08): defined on two texts only *)
Theorem C11_like_is_glob :
  forall (fold : str -> str) (p c : cval),
    op_test fold OStringLike p c = Some true <->
    exists ps cs, p = CStr ps /\ c = CStr cs /\ glob_spec N (tokens N N.eqb STAR QM ps) cs.
Proof. exact like_true_iff. Qed.
Print Assumptions C11_like_is_glob.
Theorem C11_not_like_negation :
  forall (fold : str -> str) (p c : cval),
    op_test fold OStringNotLike p c = option_map negb (op_test fold OStringLike p c).
Proof. exact not_like_negation. Qed.
Print Assumptions C11_not_like_negation.
Theorem C11_like_star :
  forall (fold : str -> str) (cs : str), op_test fold OStringLike (CStr [STAR]) (CStr cs) = Some true.
Proof. exact like_star. Qed.
Print Assumptions C11_like_star.

(* with a WILDCARD-FREE pattern StringLike coincides with StringEquals (same answer on every text; the same requests
   satisfy both, whatever their type) -- and only then *)
Theorem C11_like_literal_is_equals :
  forall (fold : str -> str) (ps : str), no_wild N STAR QM ps ->
    (forall cs : str, op_test fold OStringLike (CStr ps) (CStr cs) = op_test fold OStringEquals (CStr ps) (CStr cs)) /\
    (forall c, op_test fold OStringLike (CStr ps) c = Some true <-> op_test fold OStringEquals (CStr ps) c = Some true).
Proof. exact like_literal. Qed.
Print Assumptions C11_like_literal_is_equals.
Theorem C11_like_is_equals_iff_literal :
  forall (fold : str -> str) (ps : str),
    (forall cs : str, op_test fold OStringLike (CStr ps) (CStr cs) = op_test fold OStringEquals (CStr ps) (CStr cs))
    <-> no_wild N STAR QM ps.
Proof. exact like_equals_iff_literal. Qed.
Print Assumptions C11_like_is_equals_iff_literal.
(* "a.c" is wildcard-free (the dot is literal); "a?c" is not: it matches "aac" which it does not equal *)
Example C11_ex_like_literal :
  no_wild N STAR QM [97; 46; 99]
  /\ op_test id_fold OStringLike (CStr [97; 46; 99]) (CStr [97; 46; 99]) = Some true
  /\ op_test id_fold OStringLike (CStr [97; 46; 99]) (CStr [97; 98; 99]) = Some false
  /\ op_test id_fold OStringLike (CStr [97; 63; 99]) (CStr [97; 97; 99]) = Some true
  /\ op_test id_fold OStringEquals (CStr [97; 63; 99]) (CStr [97; 97; 99]) = Some false.
Proof.
  split; [repeat constructor; discriminate|]. repeat split; vm_compute; reflexivity.
Qed.

(* the Arn operators ARE the String operators: ArnLike / ArnNotLike the case-sensitive glob match, ArnEquals / ArnNotEquals
   plain equality of the two texts *)
Theorem C11_arn_is_string :
  forall (fold : str -> str) (p c : cval),
    op_test fold OArnEquals p c = op_test fold OStringEquals p c /\
    op_test fold OArnNotEquals p c = op_test fold OStringNotEquals p c /\
    op_test fold OArnLike p c = op_test fold OStringLike p c /\
    op_test fold OArnNotLike p c = op_test fold OStringNotLike p c.
Proof. exact arn_is_string. Qed.
Print Assumptions C11_arn_is_string.
(* REFUTED: "ArnEquals and ArnLike behave identically" (the AWS wording).  ArnEquals does not read wildcards:
   policy "a*", request "ab" -- ArnLike True, ArnEquals False.  The library answers the same (see the report). *)
Theorem C11_arn_equals_is_like_refuted :
  forall (fold : str -> str),
    exists p c : str, op_test fold OArnLike (CStr p) (CStr c) = Some true /\ op_test fold OArnEquals (CStr p) (CStr c) = Some false.
Proof. exact arn_equals_is_like_refuted. Qed.
Print Assumptions C11_arn_equals_is_like_refuted.

(* ---- networks *)

(* IpAddress p c = "c is a subnet of p" (False across IP versions), NotIpAddress its negation: REFLEXIVE, TRANSITIVE (c
   within p, p within q => c within q), ANTISYMMETRIC on networks with a legal prefix length -- an order by inclusion *)
Theorem C11_ip_subnet_preorder :
  forall (fold : str -> str),
    (forall p c : net, op_test fold OIpAddress (CNet p) (CNet c) = Some (subnet_of c p) /\
                       op_test fold ONotIpAddress (CNet p) (CNet c) = Some (negb (subnet_of c p))) /\
    (forall p : net, op_test fold OIpAddress (CNet p) (CNet p) = Some true) /\
    (forall a b c, op_test fold OIpAddress b a = Some true -> op_test fold OIpAddress c b = Some true ->
                   op_test fold OIpAddress c a = Some true) /\
    (forall p c : net, (Z.of_N (n_plen p) <= width (n_ver p))%Z -> (Z.of_N (n_plen c) <= width (n_ver c))%Z ->
       op_test fold OIpAddress (CNet p) (CNet c) = Some true -> op_test fold OIpAddress (CNet c) (CNet p) = Some true -> c = p).
Proof. exact ip_preorder. Qed.
Print Assumptions C11_ip_subnet_preorder.
Example C11_ex_ip_subnet_preorder :
  op_test id_fold OIpAddress (CNet (net4 10 1 0 0 16)) (CNet (net4 10 1 2 0 24)) = Some true
  /\ op_test id_fold OIpAddress (CNet (net4 10 0 0 0 8)) (CNet (net4 10 1 0 0 16)) = Some true
  /\ op_test id_fold OIpAddress (CNet (net4 10 0 0 0 8)) (CNet (net4 10 1 2 0 24)) = Some true
  /\ (Z.of_N (n_plen (net4 10 0 0 0 8)) <= width (n_ver (net4 10 0 0 0 8)))%Z
  /\ op_test id_fold OIpAddress (CNet (net4 10 0 0 0 8)) (CNet (net4 10 0 0 0 8)) = Some true.
Proof. repeat split; try (vm_compute; reflexivity). vm_compute. discriminate. Qed.

(* all operands: the policy value decides -- a function object: undefined; a network: the subnet test, undefined when the
   request value is not a network; anything else: False for BOTH operators *)
Theorem C11_ip_all_operands :
  forall (fold : str -> str) (p c : cval),
    op_test fold OIpAddress p c =
      match p with
      | CFn => None
      | CNet pn => match c with CNet cn => Some (subnet_of cn pn) | _ => None end
      | _ => Some false
      end /\
    op_test fold ONotIpAddress p c =
      match p with
      | CFn => None
      | CNet pn => match c with CNet cn => Some (negb (subnet_of cn pn)) | _ => None end
      | _ => Some false
      end.
Proof. exact ip_full_sem. Qed.
Print Assumptions C11_ip_all_operands.
Theorem C11_not_ip_negation :
  forall (fold : str -> str) (p : net) (c : cval),
    op_test fold ONotIpAddress (CNet p) c = option_map negb (op_test fold OIpAddress (CNet p) c).
Proof. exact not_ip_negation. Qed.
Print Assumptions C11_not_ip_negation.

(* 0.0.0.0/0 accepts every IPv4 network, ::/0 every IPv6 network; and a network accepting everything of its version IS /0 *)
Theorem C11_ip_default_route :
  forall (fold : str -> str),
    (forall c : net, wf_net c -> n_ver c = V4 -> op_test fold OIpAddress (CNet (Net V4 0 0)) (CNet c) = Some true) /\
    (forall c : net, wf_net c -> n_ver c = V6 -> op_test fold OIpAddress (CNet (Net V6 0 0)) (CNet c) = Some true) /\
    (forall p : net, wf_net p ->
       (forall c, wf_net c -> n_ver c = n_ver p -> op_test fold OIpAddress (CNet p) (CNet c) = Some true) ->
       p = Net (n_ver p) 0 0).
Proof. exact ip_default_route_all. Qed.
Print Assumptions C11_ip_default_route.
Example C11_ex_ip_default_route :
  wf_net (net4 203 0 113 7 32) /\ n_ver (net4 203 0 113 7 32) = V4
  /\ op_test id_fold OIpAddress (CNet (Net V4 0 0)) (CNet (net4 203 0 113 7 32)) = Some true
  /\ op_test id_fold OIpAddress (CNet (Net V6 0 0)) (CNet (net4 203 0 113 7 32)) = Some false    (* other version *)
  /\ wf_net (Net V6 (42540766411282592856903984951653826560) 32)                                  (* 2001:db8::/32 *)
  /\ op_test id_fold OIpAddress (CNet (Net V6 0 0)) (CNet (Net V6 (42540766411282592856903984951653826560) 32)) = Some true.
Proof.
  repeat split; try (vm_compute; reflexivity); try (vm_compute; discriminate).
Qed.

(* MONOTONE IN THE PREFIX LENGTH.  net_at v x l = the /l network containing the address x (mk_net of Net/Arith.v at the
   width of the version = ip_network((x, l), strict=False)).  For l <= k the /k network lies within the /l network, so the
   shorter policy prefix accepts every request the longer one accepts -- and, for l < k, strictly more *)
Theorem C11_ip_prefix_monotone :
  forall (fold : str -> str) (v : ipver) (x l k : N), l <= k -> k <= wbits v -> x < 2 ^ wbits v ->
    wf_net (net_at v x l) /\ wf_net (net_at v x k) /\
    in_net (Z.of_N x) (net_at v x k) /\
    subnet_of (net_at v x k) (net_at v x l) = true /\
    (forall c, op_test fold OIpAddress (CNet (net_at v x k)) c = Some true ->
               op_test fold OIpAddress (CNet (net_at v x l)) c = Some true) /\
    (l < k -> op_test fold OIpAddress (CNet (net_at v x l)) (CNet (net_at v x l)) = Some true /\
              op_test fold OIpAddress (CNet (net_at v x k)) (CNet (net_at v x l)) = Some false).
Proof. exact ip_prefix_laws. Qed.
Print Assumptions C11_ip_prefix_monotone.
(* every well-formed network is the net_at of its own address and prefix length *)
Theorem C11_net_at_of_wf :
  forall n : net, wf_net n -> net_at (n_ver n) (n_addr n) (n_plen n) = n.
Proof. exact net_at_of_wf. Qed.
Print Assumptions C11_net_at_of_wf.
(* the address 10.1.2.3 at /8, /16, /24 *)
Example C11_ex_ip_prefix_monotone :
  let x := ((10 * 256 + 1) * 256 + 2) * 256 + 3 in
  16 <= 24 /\ 24 <= wbits V4 /\ x < 2 ^ wbits V4
  /\ net_at V4 x 24 = net4 10 1 2 0 24 /\ net_at V4 x 16 = net4 10 1 0 0 16 /\ net_at V4 x 8 = net4 10 0 0 0 8
  /\ op_test id_fold OIpAddress (CNet (net_at V4 x 24)) (CNet (net4 10 1 2 128 25)) = Some true
  /\ op_test id_fold OIpAddress (CNet (net_at V4 x 16)) (CNet (net4 10 1 2 128 25)) = Some true
  /\ op_test id_fold OIpAddress (CNet (net_at V4 x 24)) (CNet (net_at V4 x 16)) = Some false.
Proof. repeat split; try (vm_compute; reflexivity); vm_compute; discriminate. Qed.

(* ---- Bool *)

(* identity with the policy boolean: True exactly between a boolean and itself -- an equivalence on booleans; a request
   value that is not a boolean (1, "true", None, a list) satisfies neither Bool:true nor Bool:false; a missing key raises *)
Theorem C11_bool_equivalence :
  forall (fold : str -> str),
    (forall p c, op_test fold OBool p c = Some true <-> exists b, p = CBool b /\ c = CBool b) /\
    (forall pb cb : bool, op_test fold OBool (CBool pb) (CBool cb) = Some (Bool.eqb cb pb)) /\
    (forall b : bool, op_test fold OBool (CBool b) (CBool b) = Some true) /\
    (forall a b, op_test fold OBool b a = Some true -> op_test fold OBool a b = Some true) /\
    (forall a b c, op_test fold OBool b a = Some true -> op_test fold OBool c b = Some true -> op_test fold OBool c a = Some true) /\
    (forall p c, p <> CFn -> c <> CAbsent -> (forall b, c <> CBool b) -> op_test fold OBool p c = Some false).
Proof. exact bool_equivalence. Qed.
Print Assumptions C11_bool_equivalence.
Example C11_ex_bool_equivalence :
  op_test id_fold OBool (CBool false) (CBool false) = Some true
  /\ op_test id_fold OBool (CBool false) (CBool true) = Some false
  /\ (CBool true <> CFn /\ CStr [116] <> CAbsent /\ forall b, CStr [116] <> CBool b)
  /\ op_test id_fold OBool (CBool true) (CStr [116]) = Some false
  /\ op_test id_fold OBool (CBool false) CNone = Some false
  /\ op_test id_fold OBool (CBool false) CAbsent = None.
Proof. repeat split; try (vm_compute; reflexivity); try discriminate. Qed.

(* ---- all operators *)

(* an operator and its negated form are defined on EXACTLY the same operands (ALL operands, no hypothesis) *)
Theorem C11_dual_same_domain :
  forall (fold : str -> str) (o o' : base_op) (p c : cval), neg_of o = Some o' ->
    (op_test fold o p c = None <-> op_test fold o' p c = None).
Proof. exact dual_same_domain. Qed.
Print Assumptions C11_dual_same_domain.
(* ... and the negated form IS the negation for every policy value, with ONE exception: IpAddress / NotIpAddress with a
   policy value that is not a network, where the code answers False for both *)
Theorem C11_negation_dual_all :
  forall (fold : str -> str) (o o' : base_op) (p c : cval), neg_of o = Some o' ->
    (o = OIpAddress -> p = CFn \/ exists n, p = CNet n) ->
    op_test fold o' p c = option_map negb (op_test fold o p c).
Proof. exact negation_dual_all. Qed.
Print Assumptions C11_negation_dual_all.
Theorem C11_ip_negation_not_network_refuted :
  forall (fold : str -> str), exists p c, op_test fold OIpAddress p c = Some false /\ op_test fold ONotIpAddress p c = Some false.
Proof. exact ip_negation_not_network_refuted. Qed.
Print Assumptions C11_ip_negation_not_network_refuted.
Example C11_ex_dual_same_domain :
  neg_of OStringLike = Some OStringNotLike
  /\ op_test id_fold OStringLike (CStr [97]) (CInt 5) = None /\ op_test id_fold OStringNotLike (CStr [97]) (CInt 5) = None
  /\ op_test id_fold OStringLike (CStr [97]) (CStr [98]) = Some false /\ op_test id_fold OStringNotLike (CStr [97]) (CStr [98]) = Some true
  /\ neg_of OIpAddress = Some ONotIpAddress
  /\ op_test id_fold OIpAddress (CNet (net4 10 0 0 0 8)) (CStr [97]) = None
  /\ op_test id_fold ONotIpAddress (CNet (net4 10 0 0 0 8)) (CStr [97]) = None.
Proof. repeat split; vm_compute; reflexivity. Qed.

(* WHEN IS THE ANSWER UNDEFINED (the lambda raises)?  Completely, per class of operators (op_class):
     ...Equals / ...NotEquals (9 operators), Bool:   the policy value is a function object, or the key is missing
     the 8 orderings:                                the operands are not comparable
     IgnoreCase / Like (6 operators):                not (two texts)
     IpAddress / NotIpAddress:                       a function object, or a policy network against a request value
                                                     that is not a network
     Null:                                           a function object only *)
Theorem C11_none_characterised :
  forall (fold : str -> str) (o : base_op) (p c : cval),
    op_test fold o p c = None <->
    match op_class o with
    | KEq | KBool => p = CFn \/ c = CAbsent
    | KOrd => ~ ((exists x y, as_int c = Some x /\ as_int p = Some y) \/ (exists a x y, c = CDate a x /\ p = CDate a y))
    | KText => ~ exists ps cs, p = CStr ps /\ c = CStr cs
    | KIp => p = CFn \/ ((exists pn, p = CNet pn) /\ ~ exists cn, c = CNet cn)
    | KNull => p = CFn
    end.
Proof. exact none_characterised. Qed.
Print Assumptions C11_none_characterised.
(* the classes, operator by operator *)
Example C11_ex_op_classes :
  map op_class all_base_ops =
  [KEq; KEq; KText; KText; KText; KText; KEq; KEq; KOrd; KOrd; KOrd; KOrd; KEq; KEq; KOrd; KOrd; KOrd; KOrd;
   KBool; KEq; KIp; KIp; KEq; KText; KEq; KText; KNull].
Proof. vm_compute. reflexivity. Qed.
Example C11_ex_none_characterised :
  op_test id_fold OStringEquals (CStr [97]) CAbsent = None /\ op_test id_fold OStringEquals CFn (CStr [97]) = None
  /\ op_test id_fold OStringEquals (CStr [97]) COther = Some false
  /\ op_test id_fold ODateLessThan (CDate true 0) (CDate false 0) = None
  /\ op_test id_fold OStringNotEqualsIgnoreCase (CStr [97]) CNone = None
  /\ op_test id_fold OIpAddress (CNet (net4 10 0 0 0 8)) (CStr [49]) = None
  /\ op_test id_fold OIpAddress (CStr [49]) (CStr [49]) = Some false
  /\ op_test id_fold ONull (CBool true) CAbsent = Some false /\ op_test id_fold ONull CFn CAbsent = None.
Proof. repeat split; vm_compute; reflexivity. Qed.

(* three-valued, and a function of the operands *)
Theorem C11_three_valued :
  forall (fold : str -> str) (o : base_op) (p c : cval),
    op_test fold o p c = Some true \/ op_test fold o p c = Some false \/ op_test fold o p c = None.
Proof. exact three_valued. Qed.
Print Assumptions C11_three_valued.
