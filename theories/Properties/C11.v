(* C11 -- Each IAM condition operator performs its documented comparison.
   Statements only; every proof is [exact] of a lemma proved in Iam/OpsFacts.v, Iam/IpNet.v, Iam/OpTable.v.

   op_test fold o p c  is the result of the single-key, single-value condition {o: {key: p}} on a context whose value
   for the key is c:  Some b = it returned b,  None = evaluating it raised (so __call__ returns None).
   [fold] stands for Python's  normalize("NFKD", s.casefold())  and is arbitrary in every theorem. *)
From Coq Require Import List Bool NArith ZArith.
From PV Require Import Base.Str Base.Value Glob.Glob Run.RState Iam.IpNet Iam.Ops Iam.OpNames Iam.OpsFacts Iam.OpTable.
From PVGen Require Import Operators.
Import ListNotations.

(* String / Arn / Binary / Numeric / Date Equals: on two operands of the operator's type the answer is a boolean,
   True exactly when the context value IS the policy value *)
Theorem C11_equals :
  forall (fold : str -> str) (o : base_op) (p c : cval),
    is_equals o = true -> has_fam (family o) p = true -> has_fam (family o) c = true ->
    exists b, op_test fold o p c = Some b /\ (b = true <-> c = p).
Proof. exact equals_correct. Qed.
Print Assumptions C11_equals.

Theorem C11_not_equals :
  forall (fold : str -> str) (o : base_op) (p c : cval),
    is_not_equals o = true -> has_fam (family o) p = true -> has_fam (family o) c = true ->
    exists b, op_test fold o p c = Some b /\ (b = true <-> c <> p).
Proof. exact not_equals_correct. Qed.
Print Assumptions C11_not_equals.

(* Numeric ordering, context value x against policy value y: strict for LessThan/GreaterThan, inclusive for ...Equals *)
Theorem C11_order :
  forall (fold : str -> str) (x y : Z),
    (op_test fold ONumericLessThan (CInt y) (CInt x) = Some true <-> (x < y)%Z) /\
    (op_test fold ONumericLessThanEquals (CInt y) (CInt x) = Some true <-> (x <= y)%Z) /\
    (op_test fold ONumericGreaterThan (CInt y) (CInt x) = Some true <-> (x > y)%Z) /\
    (op_test fold ONumericGreaterThanEquals (CInt y) (CInt x) = Some true <-> (x >= y)%Z) /\
    (forall o, family o = FInt -> op_test fold o (CInt y) (CInt x) <> None).
Proof. exact order_numeric. Qed.
Print Assumptions C11_order.

(* Date ordering on instants (microseconds), both aware or both naive *)
Theorem C11_order_date :
  forall (fold : str -> str) (aware : bool) (x y : Z),
    (op_test fold ODateLessThan (CDate aware y) (CDate aware x) = Some true <-> (x < y)%Z) /\
    (op_test fold ODateLessThanEquals (CDate aware y) (CDate aware x) = Some true <-> (x <= y)%Z) /\
    (op_test fold ODateGreaterThan (CDate aware y) (CDate aware x) = Some true <-> (x > y)%Z) /\
    (op_test fold ODateGreaterThanEquals (CDate aware y) (CDate aware x) = Some true <-> (x >= y)%Z).
Proof. exact order_date_same. Qed.
Print Assumptions C11_order_date.

(* a naive datetime against an aware one is incomparable (None) for the four orderings, unequal for (Not)Equals *)
Theorem C11_order_date_naive_vs_aware :
  forall (fold : str -> str) (aware : bool) (x y : Z),
    op_test fold ODateLessThan (CDate aware y) (CDate (negb aware) x) = None /\
    op_test fold ODateLessThanEquals (CDate aware y) (CDate (negb aware) x) = None /\
    op_test fold ODateGreaterThan (CDate aware y) (CDate (negb aware) x) = None /\
    op_test fold ODateGreaterThanEquals (CDate aware y) (CDate (negb aware) x) = None /\
    op_test fold ODateEquals (CDate aware y) (CDate (negb aware) x) = Some false /\
    op_test fold ODateNotEquals (CDate aware y) (CDate (negb aware) x) = Some true.
Proof. exact order_date_naive_vs_aware. Qed.
Print Assumptions C11_order_date_naive_vs_aware.

(* IgnoreCase: equality of the case- and compatibility-normalised forms *)
Theorem C11_ignorecase :
  forall (fold : str -> str) (p c : str),
    op_test fold OStringEqualsIgnoreCase (CStr p) (CStr c) = Some (str_eqb (fold c) (fold p)) /\
    (op_test fold OStringEqualsIgnoreCase (CStr p) (CStr c) = Some true <-> fold c = fold p).
Proof. exact ignorecase_correct. Qed.
Print Assumptions C11_ignorecase.

(* Like: the IAM glob match of C08 (case-SENSITIVE, every other character literal) *)
Theorem C11_like :
  forall (fold : str -> str) (p c : str),
    (op_test fold OStringLike (CStr p) (CStr c) = Some true <-> glob_spec N (tokens N N.eqb STAR QM p) c) /\
    (op_test fold OArnLike (CStr p) (CStr c) = Some true <-> glob_spec N (tokens N N.eqb STAR QM p) c).
Proof. exact like_correct. Qed.
Print Assumptions C11_like.

(* IpAddress: network containment -- same IP version and every address of the context network a is an address of the
   policy network b *)
Theorem C11_ip :
  forall (a b : net), wf_net a -> wf_net b ->
    (subnet_of a b = true <-> same_ver a b /\ forall x, in_net x a -> in_net x b).
Proof. exact subnet_of_iff. Qed.
Print Assumptions C11_ip.

Theorem C11_ip_operator :
  forall (fold : str -> str) (a b : net), wf_net a -> wf_net b ->
    (op_test fold OIpAddress (CNet b) (CNet a) = Some true <-> same_ver a b /\ forall x, in_net x a -> in_net x b).
Proof. exact ip_correct. Qed.
Print Assumptions C11_ip_operator.

(* a network of the other IP version lies in no network of this one: IpAddress is False and NotIpAddress True.  (Before fix F30 the
   pair was "incomparable" -- subnet_of raises TypeError across versions -- and both operators answered None, which made a policy
   listing IPv4 and IPv6 ranges under one key unanswerable or not depending on the ORDER of the ranges: Iam/BlockAlgebra.v
   had to refute order-blindness of value lists with exactly that witness.) *)
Theorem C11_ip_other_version :
  forall (fold : str -> str) (a b : net), n_ver a <> n_ver b ->
    op_test fold OIpAddress (CNet b) (CNet a) = Some false /\ op_test fold ONotIpAddress (CNet b) (CNet a) = Some true.
Proof. exact ip_other_version. Qed.
Print Assumptions C11_ip_other_version.

(* FOLLOWS THE CODE, outside "operands of the operator's type": a policy value that is not a network (a string pydantic
   could not read as one) makes IpAddress AND NotIpAddress constantly False, whatever the context *)
Theorem C11_ip_policy_not_a_network :
  forall (fold : str -> str) (s : str) (c : cval),
    op_test fold OIpAddress (CStr s) c = Some false /\ op_test fold ONotIpAddress (CStr s) c = Some false.
Proof. exact ip_policy_not_a_network. Qed.
Print Assumptions C11_ip_policy_not_a_network.

(* Bool: identity with the policy boolean -- for ANY context value c (the integer 1, the string "true" are not True) *)
Theorem C11_bool_identity :
  forall (fold : str -> str) (b : bool) (c : cval),
    (c = CAbsent -> op_test fold OBool (CBool b) c = None) /\
    (c <> CAbsent -> exists r, op_test fold OBool (CBool b) c = Some r /\ (r = true <-> c = CBool b)).
Proof. exact bool_identity. Qed.
Print Assumptions C11_bool_identity.

(* Null: key presence.  FOLLOWS THE CODE AND THE PINNED TESTS: {"Null": {key: true}} holds when the key IS present
   (and not None) -- the reverse of the AWS wording -- and never raises *)
Theorem C11_null_presence :
  forall (fold : str -> str) (b : bool) (c : cval),
    op_test fold ONull (CBool b) c = Some (Bool.eqb (is_present c) b) /\
    (is_present c = true <-> c <> CAbsent /\ c <> CNone).
Proof. exact null_presence. Qed.
Print Assumptions C11_null_presence.

(* every negated operator returns the negation of its positive counterpart on the same operands: policy value of the
   operator's type, ANY context value (when one raises so does the other) *)
Theorem C11_negation_dual :
  forall (fold : str -> str) (o o' : base_op) (p c : cval),
    neg_of o = Some o' -> has_fam (family o) p = true ->
    op_test fold o' p c = option_map negb (op_test fold o p c).
Proof. exact negation_dual. Qed.
Print Assumptions C11_negation_dual.

(* on two operands of the operator's type the comparison is always made, except naive-vs-aware datetimes (ordering)
   and networks of different IP versions *)
Theorem C11_typed_defined :
  forall (fold : str -> str) (o : base_op) (p c : cval),
    has_fam (family o) p = true -> has_fam (family o) c = true -> op_test fold o p c = None ->
    (exists a x y, p = CDate a y /\ c = CDate (negb a) x) \/ (exists a b, p = CNet b /\ c = CNet a /\ n_ver a <> n_ver b).
Proof. exact typed_defined. Qed.
Print Assumptions C11_typed_defined.

(* the generated table of the LIVE class (159 fields): every one of the 27 base operators occurs bare; every row has
   the value family its base operator requires and its NAME, read with the code's stripping rule, gives back exactly its
   (qualifier, operator, IfExists); names are pairwise different; a combination is a field iff it is not Null+IfExists *)
Theorem Operators_complete :
  (forall o, exists e, In e OPERATORS /\ e_qual e = QNone /\ e_base e = o /\ e_ifx e = false)
  /\ (forall e, In e OPERATORS ->
        e_fam e = family (e_base e) /\ parse_name (e_name e) = Some (e_qual e, e_base e, e_ifx e))
  /\ NoDup (map e_name OPERATORS)
  /\ (forall q o i, (exists e, In e OPERATORS /\ e_qual e = q /\ e_base e = o /\ e_ifx e = i) <-> ~ (o = ONull /\ i = true))
  /\ length OPERATORS = 159.
Proof. exact OpTable.Operators_complete. Qed.
Print Assumptions Operators_complete.

(* the eight negated operators are exactly the images of neg_of; all 27 operators are listed *)
Theorem C11_negated_are_the_duals :
  forall o', negated o' = true <-> exists o, neg_of o = Some o'.
Proof. exact negated_are_the_duals. Qed.
Print Assumptions C11_negated_are_the_duals.

Local Open Scope N_scope.
Definition id_fold (s : str) : str := s.
Definition net4 (a b c d l : N) : net := Net V4 (((a * 256 + b) * 256 + c) * 256 + d) l.

(* non-vacuity and documented corner cases *)
Example C11_ex_equals : op_test id_fold OStringEquals (CStr [97]) (CStr [97]) = Some true
                        /\ op_test id_fold OStringEquals (CStr [97]) (CStr [65]) = Some false
                        /\ op_test id_fold OStringEquals (CStr [53]) (CInt 5) = Some false      (* "5" vs 5: unequal, no error *)
                        /\ op_test id_fold OStringEquals (CStr [97]) CAbsent = None.
Proof. repeat split; vm_compute; reflexivity. Qed.
Example C11_ex_order : op_test id_fold ONumericLessThan (CInt 5) (CInt 4) = Some true
                       /\ op_test id_fold ONumericLessThan (CInt 5) (CInt 5) = Some false
                       /\ op_test id_fold ONumericLessThanEquals (CInt 5) (CInt 5) = Some true
                       /\ op_test id_fold ONumericLessThan (CInt 5) (CStr [52]) = None.          (* "4" < 5 raises *)
Proof. repeat split; vm_compute; reflexivity. Qed.
Example C11_ex_ip : op_test id_fold OIpAddress (CNet (net4 10 0 0 0 8)) (CNet (net4 10 1 0 0 16)) = Some true
                    /\ op_test id_fold OIpAddress (CNet (net4 10 1 0 0 16)) (CNet (net4 10 0 0 0 8)) = Some false
                    /\ op_test id_fold ONotIpAddress (CNet (net4 10 0 0 0 8)) (CNet (net4 11 0 0 0 8)) = Some true
                    /\ op_test id_fold OIpAddress (CNet (net4 10 0 0 0 8)) (CNet (Net V6 0 0)) = Some false   (* other version: outside *)
                    /\ op_test id_fold ONotIpAddress (CNet (net4 10 0 0 0 8)) (CNet (Net V6 0 0)) = Some true.
Proof. repeat split; vm_compute; reflexivity. Qed.
Example C11_ex_wf : wf_net (net4 10 1 0 0 16) /\ wf_net (Net V6 0 0).
Proof. split; vm_compute; repeat split; discriminate. Qed.
Example C11_ex_bool_null : op_test id_fold OBool (CBool true) (CInt 1) = Some false
                           /\ op_test id_fold OBool (CBool true) (CBool true) = Some true
                           /\ op_test id_fold ONull (CBool true) CAbsent = Some false
                           /\ op_test id_fold ONull (CBool false) CNone = Some true
                           /\ op_test id_fold ONull (CBool true) (CInt 0) = Some true.
Proof. repeat split; vm_compute; reflexivity. Qed.
Example C11_ex_like_case_sensitive : op_test id_fold OStringLike (CStr [97; 42]) (CStr [65; 98]) = Some false
                                     /\ op_test id_fold OStringNotLike (CStr [97; 46; 99]) (CStr [97; 98; 99]) = Some true.
Proof. repeat split; vm_compute; reflexivity. Qed.
