(* C07 -- Resolution is local and independent of declaration order.
   Statements only; proofs are [exact] of lemmas in Resolver/LocalFacts.v, CondFacts.v, Ext.v, PermFacts.v. *)
From Coq Require Import List Bool NArith ZArith Permutation.
From PV Require Import Base.Str Base.Value Resolver.Consts Resolver.Text Resolver.Resolve Resolver.Spec Resolver.Ext
  Resolver.Template Resolver.CondFacts Resolver.ParamFacts Resolver.LocalFacts Resolver.PermFacts.
Import ListNotations.
Local Open Scope N_scope.

(* the resolved form of a resource depends only on its own definition and on the environment: it is present iff its gate is
   open, and then it is [resolve_resource e] (resolution, literal Type kept) of its own definition -- whatever other resources exist *)
Theorem C07_resource_local : forall e resolved rs rs', resolve_resources e resolved rs = Ok rs' -> NoDup (keys rs) ->
  forall id,
    match lookup id rs with
    | None => lookup id rs' = None
    | Some r =>
        match gate resolved r with
        | Ok true => exists r', resolve_resource e r = Ok r' /\ lookup id rs' = Some r'
        | Ok false => lookup id rs' = None
        | Err _ => False
        end
    end.
Proof. exact resolve_resources_spec. Qed.
Print Assumptions C07_resource_local.

(* reordering the Resources section: same success, same resolved resources *)
Theorem C07_resources_perm : forall e resolved rs rs2 out,
  Permutation rs rs2 -> NoDup (keys rs) -> resolve_resources e resolved rs = Ok out ->
  exists out2, resolve_resources e resolved rs2 = Ok out2 /\ same_lookups out out2.
Proof. exact resources_perm. Qed.
Print Assumptions C07_resources_perm.

(* removing every other resource does not change the one that is kept *)
Theorem C07_restrict : forall e resolved rs out id r,
  NoDup (keys rs) -> resolve_resources e resolved rs = Ok out -> lookup id rs = Some r ->
  exists out1, resolve_resources e resolved [(id, r)] = Ok out1 /\ lookup id out1 = lookup id out.
Proof. exact resources_restrict. Qed.
Print Assumptions C07_restrict.

(* resolution sees parameters, mappings and conditions only through lookups: any two environments with the same
   lookups (e.g. reordered sections) give the same result for EVERY expression *)
Theorem C07_env_lookups_only : forall e e' v, env_eq e e' -> resolve e v = resolve e' v.
Proof. intros e e' v H. apply resolve_env_eq. exact H. Qed.
Print Assumptions C07_env_lookups_only.

(* reordering Parameters, the caller's extra_params or the pseudo-parameter table gives a parameter map with the same lookups *)
Theorem C07_params_perm : forall pseudo pseudo' decls decls' extra extra' ps,
  Permutation pseudo pseudo' -> NoDup (keys pseudo) ->
  Permutation decls decls' -> NoDup (keys decls) ->
  Permutation extra extra' -> NoDup (keys extra) ->
  bind_params pseudo decls extra = Ok ps ->
  exists ps', bind_params pseudo' decls' extra' = Ok ps' /\ same_lookups ps ps'.
Proof. exact bind_params_perm. Qed.
Print Assumptions C07_params_perm.

(* a condition's value does not depend on where it is declared, nor on the order of parameters and mappings *)
Theorem C07_condition_position_free : forall ps ps' maps maps' decl decl' fuel rem rem' n,
  same_lookups ps ps' -> same_lookups maps maps' -> same_lookups decl decl' -> same_members rem rem' ->
  cond_val ps maps decl fuel rem n = cond_val ps' maps' decl' fuel rem' n.
Proof. intros. apply cond_val_ext_env; assumption. Qed.
Print Assumptions C07_condition_position_free.
Theorem C07_conditions_perm : forall ps maps decl decl' n, Permutation decl decl' -> NoDup (keys decl) ->
  cond_root ps maps decl n = cond_root ps maps decl' n.
Proof. exact cond_root_perm. Qed.
Print Assumptions C07_conditions_perm.

(* a variable bound inside one Fn::Sub is visible only inside it: list members (and object members) are all resolved in the
   same, unchanged environment *)
Theorem C07_sub_scope : forall e x xs,
  rlist e (x :: xs) = (x' <- resolve e x ;; xs' <- rlist e xs ;; Ok (if is_novalue x' then xs' else x' :: xs')).
Proof. exact siblings_same_env. Qed.
Print Assumptions C07_sub_scope.

(* witness: r1 = Fn::Sub ["${V}", {V: x, AWS::Region: hack}], r2 = Ref AWS::Region  -->  r2 is still eu-west-1 *)
Definition REGION : str := [65;87;83;58;58;82;101;103;105;111;110].
Definition e1 : env := {| params := [(REGION, VStr [101;117])]; mappings := []; conds := fun _ => Ok false |}.
Example C07_ex_no_leak :
  resolve e1 (VList [VDict [(K_Sub, VList [VStr [36;123;86;125]; VDict [([86], VStr [120]); (REGION, VStr [104;97;99;107])]])];
                     VDict [(K_Ref, VStr REGION)]])
  = Ok (VList [VStr [120]; VStr [101;117]]).
Proof. vm_compute. reflexivity. Qed.

(* ================================================================================================================== *)
(* The order of the keys inside any object, at any depth, does not matter (Resolver/PermFacts.v).

   [vperm v w]     : v and w are the same value up to reordering the entries of objects at any depth (lists keep their
                     order, scalars are equal);
   [nodup_keys v]  : no object inside v has two entries with the same key (always true after json.load / for a Python dict);
   [env_nodup e]   : the same for the parameter values and the mappings of the environment;
   [rel_res R x y] : both [Ok] with R-related results, or both [Err].  The error KIND is not compared, and cannot be: when two
                     entries of one object both fail, the exception raised is the one of the entry met first
                     (example [C07_ex_error_kind_depends_on_order] below).
   [eperm e e']    : every parameter / mapping lookup gives [vperm]-related values, every condition reference the same
                     value (or an error in both).                                                                      *)
(* ================================================================================================================== *)

(* [vperm] is an equivalence relation, it contains every reordering of the entries of one object, it is a congruence for
   object entries and list members by definition; [vpermb] is a computable sufficient test for it *)
Theorem C07_vperm_equivalence :
  (forall v, vperm v v) /\ (forall v w, vperm v w -> vperm w v) /\ (forall a b c, vperm a b -> vperm b c -> vperm a c).
Proof. exact (conj vperm_refl (conj vperm_sym vperm_trans)). Qed.
Print Assumptions C07_vperm_equivalence.
Theorem C07_vperm_reorder_one_object : forall d d', Permutation d d' -> vperm (VDict d) (VDict d').
Proof. exact vperm_dict_permutation. Qed.
Print Assumptions C07_vperm_reorder_one_object.
Theorem C07_vpermb_sound : forall a b, vpermb a b = true -> vperm a b.
Proof. exact vpermb_sound. Qed.
Print Assumptions C07_vpermb_sound.
Theorem C07_vperm_keeps_nodup : forall v w, vperm v w -> nodup_keys v -> nodup_keys w.
Proof. exact vperm_nodup. Qed.
Print Assumptions C07_vperm_keeps_nodup.

(* THE THEOREM (one environment): reordering the keys of any objects of an expression, at any depth -- including the
   variable map of a Fn::Sub -- changes neither whether resolution succeeds nor, up to key order, its result *)
Theorem C07_object_keys_perm : forall e v w, env_nodup e -> vperm v w -> nodup_keys v ->
  rel_res vperm (resolve e v) (resolve e w).
Proof. exact resolve_vperm. Qed.
Print Assumptions C07_object_keys_perm.

(* ... and the keys inside parameter values and inside Mappings may be reordered at the same time *)
Theorem C07_object_keys_perm_env : forall e e' v w, eperm e e' -> env_nodup e -> vperm v w -> nodup_keys v ->
  rel_res vperm (resolve e v) (resolve e' w).
Proof. exact resolve_vperm_env. Qed.
Print Assumptions C07_object_keys_perm_env.

(* the same, read off: success is preserved with a [vperm]-related result; failure is preserved; a result that contains no
   object (a string, a list of strings, ...) is preserved exactly *)
Theorem C07_object_keys_perm_ok : forall e e' v w r, eperm e e' -> env_nodup e -> vperm v w -> nodup_keys v ->
  resolve e v = Ok r -> exists r', resolve e' w = Ok r' /\ vperm r r'.
Proof. exact resolve_vperm_ok. Qed.
Print Assumptions C07_object_keys_perm_ok.
Theorem C07_object_keys_perm_same_success : forall e e' v w, eperm e e' -> env_nodup e -> vperm v w -> nodup_keys v ->
  is_ok (resolve e v) = is_ok (resolve e' w).
Proof. exact resolve_vperm_is_ok. Qed.
Print Assumptions C07_object_keys_perm_same_success.
Theorem C07_object_keys_perm_flat_result : forall e e' v w r, eperm e e' -> env_nodup e -> vperm v w -> nodup_keys v ->
  resolve e v = Ok r -> no_dict r = true -> resolve e' w = Ok r.
Proof. exact resolve_vperm_no_dict. Qed.
Print Assumptions C07_object_keys_perm_flat_result.

(* resolution never creates duplicate keys (so the hypotheses above are stable under resolving again) *)
Theorem C07_resolve_keeps_nodup : forall e v r, env_nodup e -> nodup_keys v -> resolve e v = Ok r -> nodup_keys r.
Proof. exact resolve_nodup. Qed.
Print Assumptions C07_resolve_keeps_nodup.

(* Fn::Equals compares with Python's ==, which ignores the order of keys: the model's [py_eq] gives the same answer on the
   whole [vperm] class of each argument (unique keys are needed in the second argument only, the one that is looked up in) *)
Theorem C07_equals_ignores_key_order : forall a a' b b', vperm a a' -> vperm b b' -> nodup_keys b -> py_eq a b = py_eq a' b'.
Proof. exact py_eq_vperm. Qed.
Print Assumptions C07_equals_ignores_key_order.
(* the Fn::Sub variable map is an object: only its lookups matter *)
Theorem C07_sub_map_keys_perm : forall e e' text custom custom', eperm e e' -> lookups_perm custom custom' ->
  rel_res vperm (do_sub e text custom) (do_sub e' text custom').
Proof. exact do_sub_vperm. Qed.
Print Assumptions C07_sub_map_keys_perm.
Theorem C07_object_lookup_keys_perm : forall d d', vperm (VDict d) (VDict d') -> NoDup (keys d) -> lookups_perm d d'.
Proof. exact vperm_lookup. Qed.
Print Assumptions C07_object_lookup_keys_perm.

(* template level.  Permuting the keys inside a resource's definition: the gate is unchanged ... *)
Theorem C07_resource_keys_perm_gate : forall resolved r w, vperm r w -> nodup_keys r -> gate resolved r = gate resolved w.
Proof. exact gate_vperm. Qed.
Print Assumptions C07_resource_keys_perm_gate.
(* ... and the resolved resource (resolution + literal Type put back) is the same up to key order *)
Theorem C07_resource_keys_perm : forall e e' r w, eperm e e' -> env_nodup e -> vperm r w -> nodup_keys r ->
  rel_res vperm (resolve_resource e r) (resolve_resource e' w).
Proof. exact resolve_resource_vperm. Qed.
Print Assumptions C07_resource_keys_perm.
(* the Resources section as one object: resources reordered AND keys permuted inside them *)
Theorem C07_resources_keys_perm : forall e e' resolved rs rs', eperm e e' -> env_nodup e ->
  vperm (VDict rs) (VDict rs') -> Forall (fun kv => nodup_keys (snd kv)) rs ->
  rel_res (fun a b => vperm (VDict a) (VDict b)) (resolve_resources e resolved rs) (resolve_resources e' resolved rs').
Proof. exact resolve_resources_vperm. Qed.
Print Assumptions C07_resources_keys_perm.
(* condition values: keys permuted inside the declared expressions, the parameter values, the mappings; declarations reordered *)
Theorem C07_condition_keys_perm : forall ps ps' maps maps' decl decl' n,
  lookups_perm ps ps' -> lookups_perm maps maps' -> vperm (VDict decl) (VDict decl') ->
  (forall k x, lookup k ps = Some x -> nodup_keys x) -> (forall k x, lookup k maps = Some x -> nodup_keys x) ->
  nodup_keys (VDict decl) ->
  rel_res eq (cond_root ps maps decl n) (cond_root ps' maps' decl' n).
Proof. exact cond_root_vperm. Qed.
Print Assumptions C07_condition_keys_perm.
(* the whole resolved model, for the same Parameters: Mappings, Conditions and Resources each replaced by a [vperm]-related
   section (sections reordered, keys permuted at any depth inside them) *)
Theorem C07_model_keys_perm : forall pseudo decls extra maps maps' cdecl cdecl' rs rs',
  (forall ps, bind_params pseudo decls extra = Ok ps -> forall k x, lookup k ps = Some x -> nodup_keys x) ->
  lookups_perm maps maps' -> (forall k x, lookup k maps = Some x -> nodup_keys x) ->
  vperm (VDict cdecl) (VDict cdecl') -> nodup_keys (VDict cdecl) ->
  vperm (VDict rs) (VDict rs') -> Forall (fun kv => nodup_keys (snd kv)) rs ->
  rel_res vperm (resolve_model pseudo decls extra maps cdecl rs) (resolve_model pseudo decls extra maps' cdecl' rs').
Proof. exact resolve_model_vperm. Qed.
Print Assumptions C07_model_keys_perm.

(* ---- examples ----
   a = {"Name": {"Fn::Sub": ["${A}-${B}", {"A": "x", "B": {"Ref": "AWS::Region"}}]}, "Tags": {"k": "v", "l": [{"p": "1", "q": "2"}]}}
   b = {"Tags": {"l": [{"q": "2", "p": "1"}], "k": "v"}, "Name": {"Fn::Sub": ["${A}-${B}", {"B": {"Ref": "AWS::Region"}, "A": "x"}]}} *)
Definition s_Name : str := [78;97;109;101].
Definition s_Tags : str := [84;97;103;115].
Definition s_tmpl : str := [36;123;65;125;45;36;123;66;125].
Definition ex_a : value :=
  VDict [(s_Name, VDict [(K_Sub, VList [VStr s_tmpl; VDict [([65], VStr [120]); ([66], VDict [(K_Ref, VStr REGION)])]])]);
         (s_Tags, VDict [([107], VStr [118]); ([108], VList [VDict [([112], VStr [49]); ([113], VStr [50])]])])].
Definition ex_b : value :=
  VDict [(s_Tags, VDict [([108], VList [VDict [([113], VStr [50]); ([112], VStr [49])]]); ([107], VStr [118])]);
         (s_Name, VDict [(K_Sub, VList [VStr s_tmpl; VDict [([66], VDict [(K_Ref, VStr REGION)]); ([65], VStr [120])]])])].
Example C07_ex_keys_hypotheses : vpermb ex_a ex_b = true /\ nodup_keysb ex_a = true /\ nodup_keysb (VDict (params e1)) = true.
Proof. vm_compute. repeat split; reflexivity. Qed.
Example C07_ex_keys_resolved :
  resolve e1 ex_a = Ok (VDict [(s_Name, VStr [120;45;101;117]);
                               (s_Tags, VDict [([107], VStr [118]); ([108], VList [VDict [([112], VStr [49]); ([113], VStr [50])]])])]) /\
  resolve e1 ex_b = Ok (VDict [(s_Tags, VDict [([108], VList [VDict [([113], VStr [50]); ([112], VStr [49])]]); ([107], VStr [118])]);
                               (s_Name, VStr [120;45;101;117])]).
Proof. vm_compute. split; reflexivity. Qed.
(* why error kinds are not compared: {"a": {"Fn::Join": []}, "b": {"Ref": []}} raises ValueError, b-first raises TypeError *)
Example C07_ex_error_kind_depends_on_order :
  resolve e1 (VDict [([97], VDict [(K_Join, VList [])]); ([98], VDict [(K_Ref, VList [])])]) = Err EValue /\
  resolve e1 (VDict [([98], VDict [(K_Ref, VList [])]); ([97], VDict [(K_Join, VList [])])]) = Err EType.
Proof. vm_compute. split; reflexivity. Qed.
(* why unique keys are assumed: an association list with a repeated key is not a Python dict; the first entry wins *)
Example C07_ex_duplicate_keys_excluded :
  resolve e1 (VDict [(K_Sub, VList [VStr [36;123;86;125]; VDict [([86], VStr [120]); ([86], VStr [121])]])]) = Ok (VStr [120]) /\
  resolve e1 (VDict [(K_Sub, VList [VStr [36;123;86;125]; VDict [([86], VStr [121]); ([86], VStr [120])]])]) = Ok (VStr [121]) /\
  nodup_keysb (VDict [([86], VStr [120]); ([86], VStr [121])]) = false.
Proof. vm_compute. repeat split; reflexivity. Qed.
