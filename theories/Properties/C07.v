(* C07 -- Resolution is local and independent of declaration order.
   Statements only; proofs are [exact] of lemmas in Resolver/LocalFacts.v, CondFacts.v, Ext.v, PermFacts.v, Trace.v. *)
From Coq Require Import List Bool NArith ZArith Permutation.
From PV Require Import Base.Str Base.Value Resolver.Consts Resolver.Text Resolver.Resolve Resolver.Spec Resolver.Ext
  Resolver.Template Resolver.CondFacts Resolver.ParamFacts Resolver.LocalFacts Resolver.PermFacts Resolver.Trace.
Import ListNotations.
Local Open Scope N_scope.

(* the resolved form of a resource depends only on its own definition and on the environment: it is present iff its gate is
   open, and then it is [resolve_resource e] (resolution, literal Type kept) of its own definition -- whatever other resources exist *)
Theorem C07_resource_local : forall e resolved rs rs', resolve_resources e resolved rs = Ok rs' -> NoDup (keys rs) ->
  forall id,
    match lookup id rs with
    | None => lookup id rs' = None
    | Some r =>
        match gate resolved r with
        | Ok true => exists r', resolve_resource e r = Ok r' /\ lookup id rs' = Some r'
        | Ok false => lookup id rs' = None
        | Err _ => False
        end
    end.
Proof. exact resolve_resources_spec. Qed.
Print Assumptions C07_resource_local.

(* reordering the Resources section: same success, same resolved resources *)
Theorem C07_resources_perm : forall e resolved rs rs2 out,
  Permutation rs rs2 -> NoDup (keys rs) -> resolve_resources e resolved rs = Ok out ->
  exists out2, resolve_resources e resolved rs2 = Ok out2 /\ same_lookups out out2.
Proof. exact resources_perm. Qed.
Print Assumptions C07_resources_perm.

(* removing every other resource does not change the one that is kept *)
Theorem C07_restrict : forall e resolved rs out id r,
  NoDup (keys rs) -> resolve_resources e resolved rs = Ok out -> lookup id rs = Some r ->
  exists out1, resolve_resources e resolved [(id, r)] = Ok out1 /\ lookup id out1 = lookup id out.
Proof. exact resources_restrict. Qed.
Print Assumptions C07_restrict.

(* resolution sees parameters, mappings and conditions only through lookups: any two environments with the same
   lookups (e.g. reordered sections) give the same result for EVERY expression *)
Theorem C07_env_lookups_only : forall e e' v, env_eq e e' -> resolve e v = resolve e' v.
Proof. intros e e' v H. apply resolve_env_eq. exact H. Qed.
Print Assumptions C07_env_lookups_only.

(* reordering Parameters, the caller's extra_params or the pseudo-parameter table gives a parameter map with the same lookups *)
Theorem C07_params_perm : forall pseudo pseudo' decls decls' extra extra' ps,
  Permutation pseudo pseudo' -> NoDup (keys pseudo) ->
  Permutation decls decls' -> NoDup (keys decls) ->
  Permutation extra extra' -> NoDup (keys extra) ->
  bind_params pseudo decls extra = Ok ps ->
  exists ps', bind_params pseudo' decls' extra' = Ok ps' /\ same_lookups ps ps'.
Proof. exact bind_params_perm. Qed.
Print Assumptions C07_params_perm.

(* a condition's value does not depend on where it is declared, nor on the order of parameters and mappings *)
Theorem C07_condition_position_free : forall ps ps' maps maps' decl decl' fuel rem rem' n,
  same_lookups ps ps' -> same_lookups maps maps' -> same_lookups decl decl' -> same_members rem rem' ->
  cond_val ps maps decl fuel rem n = cond_val ps' maps' decl' fuel rem' n.
Proof. intros. apply cond_val_ext_env; assumption. Qed.
Print Assumptions C07_condition_position_free.
Theorem C07_conditions_perm : forall ps maps decl decl' n, Permutation decl decl' -> NoDup (keys decl) ->
  cond_root ps maps decl n = cond_root ps maps decl' n.
Proof. exact cond_root_perm. Qed.
Print Assumptions C07_conditions_perm.

(* a variable bound inside one Fn::Sub is visible only inside it: list members (and object members) are all resolved in the
   same, unchanged environment *)
Theorem C07_sub_scope : forall e x xs,
  rlist e (x :: xs) = (x' <- resolve e x ;; xs' <- rlist e xs ;; Ok (if is_novalue x' then xs' else x' :: xs')).
Proof. exact siblings_same_env. Qed.
Print Assumptions C07_sub_scope.

(* witness: r1 = Fn::Sub ["${V}", {V: x, AWS::Region: hack}], r2 = Ref AWS::Region  -->  r2 is still eu-west-1 *)
Definition REGION : str := [65;87;83;58;58;82;101;103;105;111;110].
Definition e1 : env := {| params := [(REGION, VStr [101;117])]; mappings := []; conds := fun _ => Ok false |}.
Example C07_ex_no_leak :
  resolve e1 (VList [VDict [(K_Sub, VList [VStr [36;123;86;125]; VDict [([86], VStr [120]); (REGION, VStr [104;97;99;107])]])];
                     VDict [(K_Ref, VStr REGION)]])
  = Ok (VList [VStr [120]; VStr [101;117]]).
Proof. vm_compute. reflexivity. Qed.

(* ================================================================================================================== *)
(* The order of the keys inside any object, at any depth, does not matter (Resolver/PermFacts.v).

   [vperm v w]     : v and w are the same value up to reordering the entries of objects at any depth (lists keep their
                     order, scalars are equal);
   [nodup_keys v]  : no object inside v has two entries with the same key (always true after json.load / for a Python dict);
   [env_nodup e]   : the same for the parameter values and the mappings of the environment;
   [maps_bk_unique maps] : no level of a mapping (its top-level keys; the second-level keys under each of them) holds two
                     spellings of the same boolean ("True" and "TRUE").  NEW with the repair of F31: Fn::FindInMap now finds a
                     key spelled like a boolean, by the exact key first and else by the FIRST spelling in dictionary order
                     (the library's `_mapping_get`), so with two spellings present the order decides; the theorems below that
                     reach Fn::FindInMap were restated with this one hypothesis more (their old statements are false of the
                     repaired resolver: example [C07_ex_boolean_spellings_excluded]).  Nothing is asked of parameter values,
                     of the expression or of the mapping leaves;
   [rel_res R x y] : both [Ok] with R-related results, or both [Err].  The error KIND is not compared, and cannot be: when two
                     entries of one object both fail, the exception raised is the one of the entry met first
                     (example [C07_ex_error_kind_depends_on_order] below).
   [eperm e e']    : every parameter / mapping lookup gives [vperm]-related values, every condition reference the same
                     value (or an error in both).                                                                      *)
(* ================================================================================================================== *)

(* [vperm] is an equivalence relation, it contains every reordering of the entries of one object, it is a congruence for
   object entries and list members by definition; [vpermb] is a computable sufficient test for it *)
Theorem C07_vperm_equivalence :
  (forall v, vperm v v) /\ (forall v w, vperm v w -> vperm w v) /\ (forall a b c, vperm a b -> vperm b c -> vperm a c).
Proof. exact (conj vperm_refl (conj vperm_sym vperm_trans)). Qed.
Print Assumptions C07_vperm_equivalence.
Theorem C07_vperm_reorder_one_object : forall d d', Permutation d d' -> vperm (VDict d) (VDict d').
Proof. exact vperm_dict_permutation. Qed.
Print Assumptions C07_vperm_reorder_one_object.
Theorem C07_vpermb_sound : forall a b, vpermb a b = true -> vperm a b.
Proof. exact vpermb_sound. Qed.
Print Assumptions C07_vpermb_sound.
Theorem C07_vperm_keeps_nodup : forall v w, vperm v w -> nodup_keys v -> nodup_keys w.
Proof. exact vperm_nodup. Qed.
Print Assumptions C07_vperm_keeps_nodup.

(* THE THEOREM (one environment): reordering the keys of any objects of an expression, at any depth -- including the
   variable map of a Fn::Sub -- changes neither whether resolution succeeds nor, up to key order, its result *)
Theorem C07_object_keys_perm : forall e v w, env_nodup e -> maps_bk_unique (mappings e) -> vperm v w -> nodup_keys v ->
  rel_res vperm (resolve e v) (resolve e w).
Proof. exact resolve_vperm. Qed.
Print Assumptions C07_object_keys_perm.

(* ... and the keys inside parameter values and inside Mappings may be reordered at the same time *)
Theorem C07_object_keys_perm_env : forall e e' v w, eperm e e' -> env_nodup e -> maps_bk_unique (mappings e) ->
  vperm v w -> nodup_keys v ->
  rel_res vperm (resolve e v) (resolve e' w).
Proof. exact resolve_vperm_env. Qed.
Print Assumptions C07_object_keys_perm_env.

(* the same, read off: success is preserved with a [vperm]-related result; failure is preserved; a result that contains no
   object (a string, a list of strings, ...) is preserved exactly *)
Theorem C07_object_keys_perm_ok : forall e e' v w r, eperm e e' -> env_nodup e -> maps_bk_unique (mappings e) ->
  vperm v w -> nodup_keys v ->
  resolve e v = Ok r -> exists r', resolve e' w = Ok r' /\ vperm r r'.
Proof. exact resolve_vperm_ok. Qed.
Print Assumptions C07_object_keys_perm_ok.
Theorem C07_object_keys_perm_same_success : forall e e' v w, eperm e e' -> env_nodup e -> maps_bk_unique (mappings e) ->
  vperm v w -> nodup_keys v ->
  is_ok (resolve e v) = is_ok (resolve e' w).
Proof. exact resolve_vperm_is_ok. Qed.
Print Assumptions C07_object_keys_perm_same_success.
Theorem C07_object_keys_perm_flat_result : forall e e' v w r, eperm e e' -> env_nodup e -> maps_bk_unique (mappings e) ->
  vperm v w -> nodup_keys v ->
  resolve e v = Ok r -> no_dict r = true -> resolve e' w = Ok r.
Proof. exact resolve_vperm_no_dict. Qed.
Print Assumptions C07_object_keys_perm_flat_result.

(* resolution never creates duplicate keys (so the hypotheses above are stable under resolving again) *)
Theorem C07_resolve_keeps_nodup : forall e v r, env_nodup e -> nodup_keys v -> resolve e v = Ok r -> nodup_keys r.
Proof. exact resolve_nodup. Qed.
Print Assumptions C07_resolve_keeps_nodup.

(* Fn::Equals compares with Python's ==, which ignores the order of keys: the model's [py_eq] gives the same answer on the
   whole [vperm] class of each argument (unique keys are needed in the second argument only, the one that is looked up in) *)
Theorem C07_equals_ignores_key_order : forall a a' b b', vperm a a' -> vperm b b' -> nodup_keys b -> py_eq a b = py_eq a' b'.
Proof. exact py_eq_vperm. Qed.
Print Assumptions C07_equals_ignores_key_order.
(* the Fn::Sub variable map is an object: only its lookups matter *)
Theorem C07_sub_map_keys_perm : forall e e' text custom custom', eperm e e' -> lookups_perm custom custom' ->
  rel_res vperm (do_sub e text custom) (do_sub e' text custom').
Proof. exact do_sub_vperm. Qed.
Print Assumptions C07_sub_map_keys_perm.
Theorem C07_object_lookup_keys_perm : forall d d', vperm (VDict d) (VDict d') -> NoDup (keys d) -> lookups_perm d d'.
Proof. exact vperm_lookup. Qed.
Print Assumptions C07_object_lookup_keys_perm.

(* template level.  Permuting the keys inside a resource's definition: the gate is unchanged ... *)
Theorem C07_resource_keys_perm_gate : forall resolved r w, vperm r w -> nodup_keys r -> gate resolved r = gate resolved w.
Proof. exact gate_vperm. Qed.
Print Assumptions C07_resource_keys_perm_gate.
(* ... and the resolved resource (resolution + literal Type put back) is the same up to key order *)
Theorem C07_resource_keys_perm : forall e e' r w, eperm e e' -> env_nodup e -> maps_bk_unique (mappings e) ->
  vperm r w -> nodup_keys r ->
  rel_res vperm (resolve_resource e r) (resolve_resource e' w).
Proof. exact resolve_resource_vperm. Qed.
Print Assumptions C07_resource_keys_perm.
(* the Resources section as one object: resources reordered AND keys permuted inside them *)
Theorem C07_resources_keys_perm : forall e e' resolved rs rs', eperm e e' -> env_nodup e -> maps_bk_unique (mappings e) ->
  vperm (VDict rs) (VDict rs') -> Forall (fun kv => nodup_keys (snd kv)) rs ->
  rel_res (fun a b => vperm (VDict a) (VDict b)) (resolve_resources e resolved rs) (resolve_resources e' resolved rs').
Proof. exact resolve_resources_vperm. Qed.
Print Assumptions C07_resources_keys_perm.
(* condition values: keys permuted inside the declared expressions, the parameter values, the mappings; declarations reordered *)
Theorem C07_condition_keys_perm : forall ps ps' maps maps' decl decl' n,
  lookups_perm ps ps' -> lookups_perm maps maps' -> vperm (VDict decl) (VDict decl') ->
  (forall k x, lookup k ps = Some x -> nodup_keys x) -> (forall k x, lookup k maps = Some x -> nodup_keys x) ->
  maps_bk_unique maps ->
  nodup_keys (VDict decl) ->
  rel_res eq (cond_root ps maps decl n) (cond_root ps' maps' decl' n).
Proof. exact cond_root_vperm. Qed.
Print Assumptions C07_condition_keys_perm.
(* the whole resolved model, for the same Parameters: Mappings, Conditions and Resources each replaced by a [vperm]-related
   section (sections reordered, keys permuted at any depth inside them) *)
Theorem C07_model_keys_perm : forall pseudo decls extra maps maps' cdecl cdecl' rs rs',
  (forall ps, bind_params pseudo decls extra = Ok ps -> forall k x, lookup k ps = Some x -> nodup_keys x) ->
  lookups_perm maps maps' -> (forall k x, lookup k maps = Some x -> nodup_keys x) -> maps_bk_unique maps ->
  vperm (VDict cdecl) (VDict cdecl') -> nodup_keys (VDict cdecl) ->
  vperm (VDict rs) (VDict rs') -> Forall (fun kv => nodup_keys (snd kv)) rs ->
  rel_res vperm (resolve_model pseudo decls extra maps cdecl rs) (resolve_model pseudo decls extra maps' cdecl' rs').
Proof. exact resolve_model_vperm. Qed.
Print Assumptions C07_model_keys_perm.

(* ---- examples ----
   a = {"Name": {"Fn::Sub": ["${A}-${B}", {"A": "x", "B": {"Ref": "AWS::Region"}}]}, "Tags": {"k": "v", "l": [{"p": "1", "q": "2"}]}}
   b = {"Tags": {"l": [{"q": "2", "p": "1"}], "k": "v"}, "Name": {"Fn::Sub": ["${A}-${B}", {"B": {"Ref": "AWS::Region"}, "A": "x"}]}} *)
Definition s_Name : str := [78;97;109;101].
Definition s_Tags : str := [84;97;103;115].
Definition s_tmpl : str := [36;123;65;125;45;36;123;66;125].
Definition ex_a : value :=
  VDict [(s_Name, VDict [(K_Sub, VList [VStr s_tmpl; VDict [([65], VStr [120]); ([66], VDict [(K_Ref, VStr REGION)])]])]);
         (s_Tags, VDict [([107], VStr [118]); ([108], VList [VDict [([112], VStr [49]); ([113], VStr [50])]])])].
Definition ex_b : value :=
  VDict [(s_Tags, VDict [([108], VList [VDict [([113], VStr [50]); ([112], VStr [49])]]); ([107], VStr [118])]);
         (s_Name, VDict [(K_Sub, VList [VStr s_tmpl; VDict [([66], VDict [(K_Ref, VStr REGION)]); ([65], VStr [120])]])])].
Example C07_ex_keys_hypotheses : vpermb ex_a ex_b = true /\ nodup_keysb ex_a = true /\ nodup_keysb (VDict (params e1)) = true.
Proof. vm_compute. repeat split; reflexivity. Qed.
Example C07_ex_keys_resolved :
  resolve e1 ex_a = Ok (VDict [(s_Name, VStr [120;45;101;117]);
                               (s_Tags, VDict [([107], VStr [118]); ([108], VList [VDict [([112], VStr [49]); ([113], VStr [50])]])])]) /\
  resolve e1 ex_b = Ok (VDict [(s_Tags, VDict [([108], VList [VDict [([113], VStr [50]); ([112], VStr [49])]]); ([107], VStr [118])]);
                               (s_Name, VStr [120;45;101;117])]).
Proof. vm_compute. split; reflexivity. Qed.
(* the hypothesis [maps_bk_unique] holds of mappings without two spellings of one boolean -- one spelling ("True") is fine *)
Definition s_True : str := [84;114;117;101].
Definition s_TRUE : str := [84;82;85;69].
(* Mappings {"M": {"True": {"k": "yes"}, "a": {"false": "0", "b": "1"}}} *)
Definition e_bk : env :=
  {| params := [(REGION, VStr [101;117])];
     mappings := [([77], VDict [(s_True, VDict [([107], VStr [121;101;115])]);
                                ([97], VDict [(S_false, VStr [48]); ([98], VStr [49])])])];
     conds := fun _ => Ok false |}.
Example C07_ex_maps_bk_unique : maps_bk_unique (mappings e1) /\ maps_bk_unique (mappings e_bk) /\ env_nodup e_bk /\
  resolve e_bk (VDict [(K_FindInMap, VList [VStr [77]; VStr s_TRUE; VStr [107]])]) = Ok (VStr [121;101;115]).
Proof.
  split; [apply maps_bk_unique_forallb; vm_compute; reflexivity|]. split; [apply maps_bk_unique_forallb; vm_compute; reflexivity|].
  split; [|vm_compute; reflexivity]. split; intros k x H; simpl in H.
  - destruct (str_eqb k REGION); inv H. reflexivity.
  - destruct (str_eqb k [77]); inv H. vm_compute. reflexivity.
Qed.
(* why two spellings of one boolean in one mapping level are excluded (since the repair of F31): Fn::FindInMap with the key "True"
   (which reaches the lookup as "true") takes the FIRST spelling in dictionary order, in the library as in the model --
   Mappings {"M": {"TRUE": {"k": "no"}, "True": {"k": "yes"}}} gives "no", the same mapping written True-first gives "yes".
   All the other hypotheses of [C07_object_keys_perm_env] hold on this pair. *)
Definition ex_two_spellings (swap : bool) : env :=
  let a := (s_TRUE, VDict [([107], VStr [110;111])]) in let b := (s_True, VDict [([107], VStr [121;101;115])]) in
  {| params := []; mappings := [([77], VDict (if swap then [b; a] else [a; b]))]; conds := fun _ => Ok false |}.
Example C07_ex_boolean_spellings_excluded :
  let v := VDict [(K_FindInMap, VList [VStr [77]; VStr s_True; VStr [107]])] in
  eperm (ex_two_spellings false) (ex_two_spellings true) /\ env_nodup (ex_two_spellings false) /\ vperm v v /\ nodup_keys v /\
  resolve (ex_two_spellings false) v = Ok (VStr [110;111]) /\ resolve (ex_two_spellings true) v = Ok (VStr [121;101;115]) /\
  forallb (fun kv => map_bk_uniqueb (snd kv)) (mappings (ex_two_spellings false)) = false.
Proof.
  cbv zeta. split; [|split; [|split; [apply vperm_refl | repeat split; vm_compute; reflexivity]]].
  - split; [apply lookups_perm_refl|]. split; [|intros n; reflexivity].
    intros k. simpl. destruct (str_eqb k [77]); [|exact I]. apply vpermb_sound. vm_compute. reflexivity.
  - split; intros k x H; simpl in H; [discriminate|]. destruct (str_eqb k [77]); inv H. vm_compute. reflexivity.
Qed.
(* why error kinds are not compared: {"a": {"Fn::Join": []}, "b": {"Ref": []}} raises ValueError, b-first raises TypeError *)
Example C07_ex_error_kind_depends_on_order :
  resolve e1 (VDict [([97], VDict [(K_Join, VList [])]); ([98], VDict [(K_Ref, VList [])])]) = Err EValue /\
  resolve e1 (VDict [([98], VDict [(K_Ref, VList [])]); ([97], VDict [(K_Join, VList [])])]) = Err EType.
Proof. vm_compute. split; reflexivity. Qed.
(* why unique keys are assumed: an association list with a repeated key is not a Python dict; the first entry wins *)
Example C07_ex_duplicate_keys_excluded :
  resolve e1 (VDict [(K_Sub, VList [VStr [36;123;86;125]; VDict [([86], VStr [120]); ([86], VStr [121])]])]) = Ok (VStr [120]) /\
  resolve e1 (VDict [(K_Sub, VList [VStr [36;123;86;125]; VDict [([86], VStr [121]); ([86], VStr [120])]])]) = Ok (VStr [121]) /\
  nodup_keysb (VDict [([86], VStr [120]); ([86], VStr [121])]) = false.
Proof. vm_compute. repeat split; reflexivity. Qed.

(* ================================================================================================================== *)
(* Adding unused parameters, mappings or conditions changes nothing (Resolver/Trace.v).

   "Unused" is SEMANTIC: a name is used iff the resolver actually looks it up.  [resolve_tr e v] is [resolve e v] together with
   the list of the environment accesses made on the way (also on runs that end in an exception):
     AParam k : lookup k (params e)   -- Ref / Fn::ImportValue, a Fn::Sub placeholder not bound by the expression's own map, the
                                         key of a {{resolve:ssm:NAME:VERSION}} string (in a leaf of the expression, of a
                                         parameter VALUE being inserted, of a Fn::Sub variable value);
     AMap m   : lookup m (mappings e) -- Fn::FindInMap;
     ACond n  : conds e n             -- Condition, Fn::If.
   [trace_of e v] abbreviates [snd (resolve_tr e v)].  [C07_env_lookups_only] above needs the same answer for EVERY key, so
   it does not speak about a template that gains a declaration; the theorems below do. *)
(* ================================================================================================================== *)

(* the instrumentation is faithful: the instrumented resolver returns what [resolve] returns *)
Theorem C07_trace_same_result : forall e v, fst (resolve_tr e v) = resolve e v.
Proof. exact resolve_tr_result. Qed.
Print Assumptions C07_trace_same_result.

(* THE FRAME THEOREM: two environments that answer alike every access made while resolving v in e give the same result (value
   or exception) -- and the same accesses, so "e' agrees with e on what e reads" is a symmetric relation *)
Theorem C07_unused_ext : forall e e' v,
  (forall k, In (AParam k) (snd (resolve_tr e v)) -> lookup k (params e) = lookup k (params e')) ->
  (forall m, In (AMap m) (snd (resolve_tr e v)) -> lookup m (mappings e) = lookup m (mappings e')) ->
  (forall n, In (ACond n) (snd (resolve_tr e v)) -> conds e n = conds e' n) ->
  resolve e' v = resolve e v /\ snd (resolve_tr e' v) = snd (resolve_tr e v).
Proof. exact unused_ext. Qed.
Print Assumptions C07_unused_ext.

(* a new binding for a name that is never read: in front (where it would shadow an older binding of that name) ... *)
Theorem C07_add_unused_parameter : forall e v k x, ~ In (AParam k) (snd (resolve_tr e v)) ->
  resolve {| params := (k, x) :: params e; mappings := mappings e; conds := conds e |} v = resolve e v.
Proof. exact add_unused_parameter. Qed.
Print Assumptions C07_add_unused_parameter.
(* ... or anywhere in the parameter list *)
Theorem C07_add_unused_parameter_anywhere : forall e v k x l1 l2, params e = l1 ++ l2 -> ~ In (AParam k) (snd (resolve_tr e v)) ->
  resolve {| params := l1 ++ (k, x) :: l2; mappings := mappings e; conds := conds e |} v = resolve e v.
Proof. exact add_unused_parameter_anywhere. Qed.
Print Assumptions C07_add_unused_parameter_anywhere.
(* the converse: a binding that is never read can be deleted *)
Theorem C07_remove_unused_parameter : forall e v k x l1 l2, params e = l1 ++ (k, x) :: l2 -> ~ In (AParam k) (snd (resolve_tr e v)) ->
  resolve {| params := l1 ++ l2; mappings := mappings e; conds := conds e |} v = resolve e v.
Proof. exact remove_unused_parameter. Qed.
Print Assumptions C07_remove_unused_parameter.
(* most generally: ANY other parameter list that binds the names actually read to the same values *)
Theorem C07_change_unread_parameters : forall e ps' v,
  (forall k, In (AParam k) (snd (resolve_tr e v)) -> lookup k ps' = lookup k (params e)) ->
  resolve {| params := ps'; mappings := mappings e; conds := conds e |} v = resolve e v.
Proof. exact change_unread_parameters. Qed.
Print Assumptions C07_change_unread_parameters.

Theorem C07_add_unused_mapping : forall e v m x, ~ In (AMap m) (snd (resolve_tr e v)) ->
  resolve {| params := params e; mappings := (m, x) :: mappings e; conds := conds e |} v = resolve e v.
Proof. exact add_unused_mapping. Qed.
Print Assumptions C07_add_unused_mapping.
Theorem C07_add_unused_mapping_anywhere : forall e v m x l1 l2, mappings e = l1 ++ l2 -> ~ In (AMap m) (snd (resolve_tr e v)) ->
  resolve {| params := params e; mappings := l1 ++ (m, x) :: l2; conds := conds e |} v = resolve e v.
Proof. exact add_unused_mapping_anywhere. Qed.
Print Assumptions C07_add_unused_mapping_anywhere.

(* conditions reach the resolver as the function [conds]: a condition table that differs only on a name never asked about ... *)
Theorem C07_add_unused_condition : forall e v n b, ~ In (ACond n) (snd (resolve_tr e v)) ->
  resolve {| params := params e; mappings := mappings e; conds := fun m => if str_eqb m n then b else conds e m |} v = resolve e v.
Proof. exact add_unused_condition. Qed.
Print Assumptions C07_add_unused_condition.
(* ... or on any set of names never asked about *)
Theorem C07_change_unread_conditions : forall e c' v,
  (forall n, In (ACond n) (snd (resolve_tr e v)) -> c' n = conds e n) ->
  resolve {| params := params e; mappings := mappings e; conds := c' |} v = resolve e v.
Proof. exact change_unread_conditions. Qed.
Print Assumptions C07_change_unread_conditions.

(* WHY the statement is semantic.  A name can be COMPUTED: {"Ref": {"Fn::Join": ["", ["a", "b"]]}} reads parameter "ab" although
   the text "ab" occurs in no string and no key of the expression ([mentions]); removing that parameter changes the result *)
Example C07_ex_computed_name :
  v_ab = VDict [(K_Ref, VDict [(K_Join, VList [VStr []; VList [VStr [97]; VStr [98]]])])] /\
  params e_ab = [([97; 98], VStr [120])] /\
  mentions [97; 98] v_ab = false /\
  snd (resolve_tr e_ab v_ab) = [AParam [97; 98]] /\
  resolve e_ab v_ab = Ok (VStr [120]) /\
  resolve {| params := []; mappings := mappings e_ab; conds := conds e_ab |} v_ab = Ok (VStr (undefined_param [97; 98])).
Proof. vm_compute. repeat split; reflexivity. Qed.

(* A SYNTACTIC sufficient condition, because users think syntactically.  It needs the fragment where names are not computed:
   [literal_names v] = every Ref / Fn::ImportValue body in v is a literal string that is rendered as itself (no {{resolve:ssm:..}},
   no spelling of true / false), every Fn::Sub is in string form; every other function takes any such arguments.
   [mentions k x] = the text k occurs inside some string leaf (or key) of x.
   In that fragment the parameter names read are string leaves of v, their SSM keys, their ${placeholders}, or SSM keys in the
   leaves of parameter values ... *)
Theorem C07_literal_names_read : forall e v k, literal_names v = true -> In (AParam k) (snd (resolve_tr e v)) ->
  In k (syn_names v) \/ In k (pv_names (params e)).
Proof. exact syn_trace_sound. Qed.
Print Assumptions C07_literal_names_read.
(* ... hence: a text that occurs in no string of the expression and in no string of a parameter value is never read, and a
   parameter bound to that name changes nothing *)
Theorem C07_unmentioned_parameter_unused : forall e v k, literal_names v = true -> mentions k v = false ->
  (forall p x, In (p, x) (params e) -> mentions k x = false) -> ~ In (AParam k) (snd (resolve_tr e v)).
Proof. exact unmentioned_parameter_unused. Qed.
Print Assumptions C07_unmentioned_parameter_unused.
Theorem C07_add_unmentioned_parameter : forall e v k x, literal_names v = true -> mentions k v = false ->
  (forall p y, In (p, y) (params e) -> mentions k y = false) ->
  resolve {| params := (k, x) :: params e; mappings := mappings e; conds := conds e |} v = resolve e v.
Proof. exact add_unmentioned_parameter. Qed.
Print Assumptions C07_add_unmentioned_parameter.
(* the fragment is needed: the expression of [C07_ex_computed_name] is outside it; {"Fn::Sub": "${AWS::Region}-x"} is inside *)
Example C07_ex_literal_fragment :
  literal_names v_ab = false /\
  literal_names (VDict [(K_Sub, VStr [36;123;65;87;83;58;58;82;101;103;105;111;110;125;45;120])]) = true /\
  mentions REGION (VDict [(K_Sub, VStr [36;123;65;87;83;58;58;82;101;103;105;111;110;125;45;120])]) = true /\
  mentions [97; 98] (VDict [(K_Sub, VStr [36;123;65;87;83;58;58;82;101;103;105;111;110;125;45;120])]) = false.
Proof. vm_compute. repeat split; reflexivity. Qed.

(* ---- template level ---- *)
(* resources: environments that agree on the accesses of the kept resources ([resources_trace]: gate open, until the first
   exception), and condition tables that agree on the names in the resources' "Condition" attributes *)
Theorem C07_resources_unused_ext : forall e e' resolved resolved' rs,
  (forall c, In c (gate_names rs) -> lookup c resolved = lookup c resolved') ->
  (forall k, In (AParam k) (resources_trace e resolved rs) -> lookup k (params e) = lookup k (params e')) ->
  (forall m, In (AMap m) (resources_trace e resolved rs) -> lookup m (mappings e) = lookup m (mappings e')) ->
  (forall n, In (ACond n) (resources_trace e resolved rs) -> conds e n = conds e' n) ->
  resolve_resources e' resolved' rs = resolve_resources e resolved rs.
Proof. exact resolve_resources_unused_ext. Qed.
Print Assumptions C07_resources_unused_ext.
(* one more resolved condition that gates no resource and that no kept resource asks about *)
Theorem C07_resources_add_unused_condition : forall ps maps resolved rs n b,
  ~ In n (gate_names rs) ->
  ~ In (ACond n) (resources_trace {| params := ps; mappings := maps; conds := conds_fun resolved |} resolved rs) ->
  resolve_resources {| params := ps; mappings := maps; conds := conds_fun ((n, b) :: resolved) |} ((n, b) :: resolved) rs =
  resolve_resources {| params := ps; mappings := maps; conds := conds_fun resolved |} resolved rs.
Proof. exact add_unused_resolved_condition. Qed.
Print Assumptions C07_resources_add_unused_condition.
(* the value of a condition depends on the parameters and mappings only through what its body reads and what the conditions
   it asks about read, transitively ([cond_trace]) *)
Theorem C07_condition_unused_ext : forall ps ps' maps maps' decl fuel rem n,
  (forall k, In (AParam k) (cond_trace ps maps decl fuel rem n) -> lookup k ps = lookup k ps') ->
  (forall m, In (AMap m) (cond_trace ps maps decl fuel rem n) -> lookup m maps = lookup m maps') ->
  cond_val ps' maps' decl fuel rem n = cond_val ps maps decl fuel rem n.
Proof. exact cond_val_unused_ext. Qed.
Print Assumptions C07_condition_unused_ext.
(* THE WHOLE MODEL: one more entry (k, d) in the Parameters section -- whose own binding does not raise -- under a name that no
   declared condition and no kept resource reads ([model_trace] = the accesses of all conditions, then of the kept resources):
   same conditions, same resources, same exception *)
Theorem C07_add_unused_parameter_declaration : forall pseudo decls extra maps cdecl rs k d ov,
  ref_value d (supplied k extra) = Ok ov ->
  (forall ps, bind_params pseudo decls extra = Ok ps -> ~ In (AParam k) (model_trace ps maps cdecl rs)) ->
  resolve_model pseudo ((k, d) :: decls) extra maps cdecl rs = resolve_model pseudo decls extra maps cdecl rs.
Proof. exact add_unused_declaration. Qed.
Print Assumptions C07_add_unused_parameter_declaration.
(* one more entry in the Mappings section that nothing looks up *)
Theorem C07_add_unused_mapping_declaration : forall pseudo decls extra maps cdecl rs m x,
  (forall ps, bind_params pseudo decls extra = Ok ps -> ~ In (AMap m) (model_trace ps maps cdecl rs)) ->
  resolve_model pseudo decls extra ((m, x) :: maps) cdecl rs = resolve_model pseudo decls extra maps cdecl rs.
Proof. exact add_unused_model_mapping. Qed.
Print Assumptions C07_add_unused_mapping_declaration.

(* example: Parameters {Env: {Type: String, Default: prod}}, Mappings {M: {a: {b: c}}}, Conditions {IsProd: Equals [Ref Env, prod]},
   Resources {R: {Type: T, Condition: IsProd, Properties: {N: If [IsProd, FindInMap [M, a, b], Ref AWS::Region]}}}.
   The model reads parameter Env, condition IsProd, mapping M -- and not AWS::Region (the branch not taken).  Declaring
   ZzUnused changes nothing. *)
Definition s_Env : str := [69;110;118].
Definition s_prod : str := [112;114;111;100].
Definition s_String : str := [83;116;114;105;110;103].
Definition s_IsProd : str := [73;115;80;114;111;100].
Definition s_Properties : str := [80;114;111;112;101;114;116;105;101;115].
Definition s_Zz : str := [90;122;85;110;117;115;101;100].
Definition ex_pseudo : list (str * value) := [(REGION, VStr [101;117])].
Definition ex_decls : list (str * value) := [(s_Env, VDict [(K_Type, VStr s_String); (K_Default, VStr s_prod)])].
Definition ex_maps : list (str * value) := [([77], VDict [([97], VDict [([98], VStr [99])])])].
Definition ex_cdecl : list (str * value) := [(s_IsProd, VDict [(K_Equals, VList [VDict [(K_Ref, VStr s_Env)]; VStr s_prod])])].
Definition ex_rs : list (str * value) :=
  [([82], VDict [(K_Type, VStr [84]); (K_Condition, VStr s_IsProd);
                 (s_Properties, VDict [([78], VDict [(K_If, VList [VStr s_IsProd;
                                                                  VDict [(K_FindInMap, VList [VStr [77]; VStr [97]; VStr [98]])];
                                                                  VDict [(K_Ref, VStr REGION)]])])])])].
Definition ex_zz_decl : value := VDict [(K_Type, VStr s_String); (K_Default, VStr [117;110;117;115;101;100])].
Example C07_ex_model_trace :
  bind_params ex_pseudo ex_decls [] = Ok [(s_Env, VStr s_prod); (REGION, VStr [101;117])] /\
  model_trace [(s_Env, VStr s_prod); (REGION, VStr [101;117])] ex_maps ex_cdecl ex_rs = [AParam s_Env; ACond s_IsProd; AMap [77]] /\
  ref_value ex_zz_decl (supplied s_Zz []) = Ok (Some (VStr [117;110;117;115;101;100])).
Proof. vm_compute. repeat split; reflexivity. Qed.
Example C07_ex_model_unused_declaration :
  resolve_model ex_pseudo ((s_Zz, ex_zz_decl) :: ex_decls) [] ex_maps ex_cdecl ex_rs = resolve_model ex_pseudo ex_decls [] ex_maps ex_cdecl ex_rs /\
  resolve_model ex_pseudo ex_decls [] ex_maps ex_cdecl ex_rs =
    Ok (VDict [(K_Conditions, VDict [(s_IsProd, VBool true)]);
               (K_Resources, VDict [([82], VDict [(K_Type, VStr [84]); (K_Condition, VStr s_IsProd);
                                                  (s_Properties, VDict [([78], VStr [99])])])])]).
Proof. vm_compute. split; reflexivity. Qed.
