(* C07 -- Resolution is local and independent of declaration order.
   Statements only; proofs are [exact] of lemmas in Resolver/LocalFacts.v, CondFacts.v, Ext.v. *)
From Coq Require Import List Bool NArith ZArith Permutation.
From PV Require Import Base.Str Base.Value Resolver.Consts Resolver.Text Resolver.Resolve Resolver.Spec Resolver.Ext
  Resolver.Template Resolver.CondFacts Resolver.ParamFacts Resolver.LocalFacts.
Import ListNotations.
Local Open Scope N_scope.

(* the resolved form of a resource depends only on its own definition and on the environment: it is present iff its gate is
   open, and then it is [resolve_resource e] (resolution, literal Type kept) of its own definition -- whatever other resources exist *)
Theorem C07_resource_local : forall e resolved rs rs', resolve_resources e resolved rs = Ok rs' -> NoDup (keys rs) ->
  forall id,
    match lookup id rs with
    | None => lookup id rs' = None
    | Some r =>
        match gate resolved r with
        | Ok true => exists r', resolve_resource e r = Ok r' /\ lookup id rs' = Some r'
        | Ok false => lookup id rs' = None
        | Err _ => False
        end
    end.
Proof. exact resolve_resources_spec. Qed.
Print Assumptions C07_resource_local.

(* reordering the Resources section: same success, same resolved resources *)
Theorem C07_resources_perm : forall e resolved rs rs2 out,
  Permutation rs rs2 -> NoDup (keys rs) -> resolve_resources e resolved rs = Ok out ->
  exists out2, resolve_resources e resolved rs2 = Ok out2 /\ same_lookups out out2.
Proof. exact resources_perm. Qed.
Print Assumptions C07_resources_perm.

(* removing every other resource does not change the one that is kept *)
Theorem C07_restrict : forall e resolved rs out id r,
  NoDup (keys rs) -> resolve_resources e resolved rs = Ok out -> lookup id rs = Some r ->
  exists out1, resolve_resources e resolved [(id, r)] = Ok out1 /\ lookup id out1 = lookup id out.
Proof. exact resources_restrict. Qed.
Print Assumptions C07_restrict.

(* resolution sees parameters, mappings and conditions only through lookups: any two environments with the same
   lookups (e.g. reordered sections) give the same result for EVERY expression *)
Theorem C07_env_lookups_only : forall e e' v, env_eq e e' -> resolve e v = resolve e' v.
Proof. intros e e' v H. apply resolve_env_eq. exact H. Qed.
Print Assumptions C07_env_lookups_only.

(* reordering Parameters, the caller's extra_params or the pseudo-parameter table gives a parameter map with the same lookups *)
Theorem C07_params_perm : forall pseudo pseudo' decls decls' extra extra' ps,
  Permutation pseudo pseudo' -> NoDup (keys pseudo) ->
  Permutation decls decls' -> NoDup (keys decls) ->
  Permutation extra extra' -> NoDup (keys extra) ->
  bind_params pseudo decls extra = Ok ps ->
  exists ps', bind_params pseudo' decls' extra' = Ok ps' /\ same_lookups ps ps'.
Proof. exact bind_params_perm. Qed.
Print Assumptions C07_params_perm.

(* a condition's value does not depend on where it is declared, nor on the order of parameters and mappings *)
Theorem C07_condition_position_free : forall ps ps' maps maps' decl decl' fuel rem rem' n,
  same_lookups ps ps' -> same_lookups maps maps' -> same_lookups decl decl' -> same_members rem rem' ->
  cond_val ps maps decl fuel rem n = cond_val ps' maps' decl' fuel rem' n.
Proof. intros. apply cond_val_ext_env; assumption. Qed.
Print Assumptions C07_condition_position_free.
Theorem C07_conditions_perm : forall ps maps decl decl' n, Permutation decl decl' -> NoDup (keys decl) ->
  cond_root ps maps decl n = cond_root ps maps decl' n.
Proof. exact cond_root_perm. Qed.
Print Assumptions C07_conditions_perm.

(* a variable bound inside one Fn::Sub is visible only inside it: list members (and object members) are all resolved in the
   same, unchanged environment *)
Theorem C07_sub_scope : forall e x xs,
  rlist e (x :: xs) = (x' <- resolve e x ;; xs' <- rlist e xs ;; Ok (if is_novalue x' then xs' else x' :: xs')).
Proof. exact siblings_same_env. Qed.
Print Assumptions C07_sub_scope.

(* witness: r1 = Fn::Sub ["${V}", {V: x, AWS::Region: hack}], r2 = Ref AWS::Region  -->  r2 is still eu-west-1 *)
Definition REGION : str := [65;87;83;58;58;82;101;103;105;111;110].
Definition e1 : env := {| params := [(REGION, VStr [101;117])]; mappings := []; conds := fun _ => Ok false |}.
Example C07_ex_no_leak :
  resolve e1 (VList [VDict [(K_Sub, VList [VStr [36;123;86;125]; VDict [([86], VStr [120]); (REGION, VStr [104;97;99;107])]])];
                     VDict [(K_Ref, VStr REGION)]])
  = Ok (VList [VStr [120]; VStr [101;117]]).
Proof. vm_compute. reflexivity. Qed.
