(* C17 -- Network exposure predicates reflect the address range denoted.
   "A CIDR property is stored as the network it denotes with host bits masked off, for every valid textual spelling,
    whether written literally or obtained through a resolved reference; ipv4_slash_zero() / ipv6_slash_zero() return true
    exactly when that network is the entire IPv4 / IPv6 address space and false when the property is absent.  An RDS DB
    security-group ingress is public exactly when it has neither a CIDR nor a source security group, or its CIDR is
    0.0.0.0/0 or lies in globally routable address space, and is not public when its CIDR lies inside a private range."
   Statements only; every proof is [exact] of a lemma proved in theories/Net/*.v.

   Vocabulary (Net/Arith.v, for any address width W; W4 = 32, W6 = 128):
     net = (address, prefix length);  blk W l = 2^(W-l);  mk_net W x l = ((x / blk W l) * blk W l, l)
     in_net W x (a,l)      :=  a <= x < a + blk W l
     same_prefix W l x y   :=  x / blk W l = y / blk W l          (x and y agree on their first l bits)
     wf W (a,l)            :=  l <= W /\ a < 2^W /\ a mod blk W l = 0
   parse4 / parse6 : text -> res net   are the models of IPv4Network(text, strict=False) / IPv6Network(text, strict=False),
   print4 of str(IPv4Network), print6 of str(IPv6Network) (RFC 5952 compressed text, CPython's _compress_hextets followed line by
   line: Net/IPv6Print.v), print6_full of IPv6Network.exploded;  cidr4_text s x l (Net/IPv4Thm.v) is the DECLARATIVE
   grammar "s spells address x with prefix length l" (canonical decimal octets; /len, /netmask, /hostmask or nothing). *)
From Coq Require Import List Bool NArith ZArith.
From PV Require Import Base.Str Base.Value Net.Arith Net.NetText Net.IPv4 Net.IPv4Thm Net.IPv6 Net.IPv6Thm Net.IPv6Print Net.Public Net.PublicTable Net.ExposureLaws.
From PVGen Require Import PrivateNets.
Import ListNotations.
Local Open Scope N_scope.

(* ---------------------------------------------------------------------------------------------------------------- *)
(* network arithmetic, every width at once *)

Theorem C17_mk_net_masked : forall W x l, fst (mk_net W x l) mod 2 ^ (W - l) = 0.
Proof. exact mk_net_masked. Qed.
Print Assumptions C17_mk_net_masked.

Theorem C17_mk_net_denotes : forall W a l x, in_net W x (mk_net W a l) <-> x / 2 ^ (W - l) = a / 2 ^ (W - l).
Proof. exact mk_net_denotes. Qed.
Print Assumptions C17_mk_net_denotes.

(* "agree on the first l bits", bit by bit *)
Theorem C17_same_prefix_bits : forall W l x y,
  same_prefix W l x y <-> forall i, W - l <= i -> N.testbit x i = N.testbit y i.
Proof. exact same_prefix_bits. Qed.
Print Assumptions C17_same_prefix_bits.

(* the model's arithmetic masking IS ipaddress's bitwise masking  packed & (ALL_ONES ^ (ALL_ONES >> prefixlen)) *)
Theorem C17_masking_is_bitwise : forall W x l, l <= W -> x < 2 ^ W ->
  fst (mk_net W x l) = N.land x (N.lxor (N.ones W) (N.shiftr (N.ones W) l)).
Proof. exact mk_net_bitwise. Qed.
Print Assumptions C17_masking_is_bitwise.

Theorem C17_mk_net_idem : forall W x l, mk_net W (fst (mk_net W x l)) l = mk_net W x l.
Proof. exact mk_net_idem. Qed.
Print Assumptions C17_mk_net_idem.

Theorem C17_mk_net_wf : forall W x l, l <= W -> x < 2 ^ W -> wf W (mk_net W x l).
Proof. exact mk_net_wf. Qed.
Print Assumptions C17_mk_net_wf.

(* Python's subnet_of (first and last address inside) is inclusion of the address sets *)
Theorem C17_subnet_of_iff : forall W n m, wf W n -> wf W m ->
  (subnet_of W n m = true <-> forall x, in_net W x n -> in_net W x m).
Proof. exact subnet_of_iff. Qed.
Print Assumptions C17_subnet_of_iff.

(* ---------------------------------------------------------------------------------------------------------------- *)
(* IPv4: stored value of CidrIp / CIDRIP *)

(* host bits are masked off *)
Theorem C17_masked : forall s n, parse4 s = Ok n -> fst n mod 2 ^ (32 - snd n) = 0.
Proof. exact parse4_masked. Qed.
Print Assumptions C17_masked.

Theorem C17_stored_wf : forall s n, parse4 s = Ok n -> wf W4 n.
Proof. exact parse4_wf. Qed.
Print Assumptions C17_stored_wf.

(* the parser accepts EXACTLY the declarative grammar, and stores the network of the written address *)
Theorem C17_grammar : forall s n, parse4 s = Ok n <-> exists x l, cidr4_text s x l /\ n = mk_net W4 x l.
Proof. exact parse4_ok. Qed.
Print Assumptions C17_grammar.

(* everything else is rejected with ValueError (ValidationError at the field) -- never anything else, never a wrong value *)
Theorem C17_reject_or_accept : forall s, parse4 s = Err EValue \/ exists n, parse4 s = Ok n.
Proof. exact parse4_err. Qed.
Print Assumptions C17_reject_or_accept.

(* octets are canonical decimal numerals 0..255: "01", "256", "" and non-digits are not octets *)
Theorem C17_octet_strict : forall s v, parse_octet s = Some v <-> v < 256 /\ s = print_small v.
Proof. exact parse_octet_spec. Qed.
Print Assumptions C17_octet_strict.

(* the stored network denotes exactly the addresses that agree with the WRITTEN address on the first (written) l bits *)
Theorem C17_denotes : forall s n, parse4 s = Ok n ->
  exists x l, cidr4_text s x l /\ snd n = l /\ forall y, in_net W4 y n <-> same_prefix W4 l y x.
Proof. exact parse4_denotes. Qed.
Print Assumptions C17_denotes.

(* prefix-length spelling and netmask spelling of the same range: same network, whatever the address text *)
Theorem C17_spellings : forall a l, ~ In SLASH a -> l <= 32 ->
  parse4 (a ++ SLASH :: print_small l) = parse4 (a ++ SLASH :: print_mask4 l).
Proof. exact parse4_spellings. Qed.
Print Assumptions C17_spellings.

(* ... and hostmask spelling (the two ambiguous masks 0.0.0.0 and 255.255.255.255 are netmasks, so 0 < l < 32) *)
Theorem C17_spellings_hostmask : forall a l, ~ In SLASH a -> 0 < l -> l < 32 ->
  parse4 (a ++ SLASH :: print_small l) = parse4 (a ++ SLASH :: print_hostmask4 l).
Proof. exact parse4_spellings_hostmask. Qed.
Print Assumptions C17_spellings_hostmask.

(* any host bits: two spellings writing the same length and addresses with the same first l bits give the same network *)
Theorem C17_host_bits : forall s1 s2 x1 x2 l,
  cidr4_text s1 x1 l -> cidr4_text s2 x2 l -> same_prefix W4 l x1 x2 -> parse4 s1 = parse4 s2.
Proof. exact parse4_same_range. Qed.
Print Assumptions C17_host_bits.

(* no mask means /32 *)
Theorem C17_bare : forall a x, dotted_quad a x -> parse4 a = parse4 (a ++ SLASH :: print_small 32).
Proof. exact parse4_bare. Qed.
Print Assumptions C17_bare.

(* through a resolved reference: resolve() stringifies the stored network and the new model validates that text *)
Theorem C17_via_ref : forall n, wf W4 n -> parse4 (print4 n) = Ok n.
Proof. exact parse4_print4. Qed.
Print Assumptions C17_via_ref.

Theorem C17_via_ref_fixed_point : forall s n, parse4 s = Ok n -> parse4 (print4 n) = Ok n.
Proof. exact parse4_reparse. Qed.
Print Assumptions C17_via_ref_fixed_point.

(* ---------------------------------------------------------------------------------------------------------------- *)
(* IPv6: stored value of CidrIpv6 *)

Theorem C17_masked6 : forall s n, parse6 s = Ok n -> fst n mod 2 ^ (128 - snd n) = 0.
Proof. exact parse6_masked. Qed.
Print Assumptions C17_masked6.

Theorem C17_stored_wf6 : forall s n, parse6 s = Ok n -> wf W6 n.
Proof. exact parse6_wf. Qed.
Print Assumptions C17_stored_wf6.

(* written6 s = the address and length WRITTEN in s (before masking), by the grammar of Net/IPv6.v *)
Theorem C17_denotes6 : forall s n, parse6 s = Ok n ->
  exists x l, written6 s = Some (x, l) /\ snd n = l /\ forall y, in_net W6 y n <-> same_prefix W6 l y x.
Proof. exact parse6_denotes. Qed.
Print Assumptions C17_denotes6.

Theorem C17_host_bits6 : forall s1 s2 x1 x2 l, ~ In PERCENT s1 -> ~ In PERCENT s2 ->
  written6 s1 = Some (x1, l) -> written6 s2 = Some (x2, l) -> same_prefix W6 l x1 x2 -> parse6 s1 = parse6 s2.
Proof. exact parse6_same_range. Qed.
Print Assumptions C17_host_bits6.

(* the uncompressed spelling (IPv6Network.exploded) of every network parses back to it *)
Theorem C17_exploded6 : forall n, wf W6 n -> parse6 (print6_full n) = Ok n.
Proof. exact parse6_print6_full. Qed.
Print Assumptions C17_exploded6.

(* ---- str(IPv6Network): the text resolve() really produces ---- *)

(* str(IPv6Address) of every 128-bit address reads back as that address *)
Theorem C17_print_addr6_roundtrip : forall a, a < 2 ^ 128 -> parse_addr6 (print_addr6 a) = Some a.
Proof. exact parse_addr6_print_addr6. Qed.
Print Assumptions C17_print_addr6_roundtrip.

(* str(IPv6Network) of every network -- all 2^128 * 129 of them -- reads back as that network *)
Theorem C17_print6_roundtrip : forall n, wf W6 n -> parse6 (print6 n) = Ok n.
Proof. exact parse6_print6. Qed.
Print Assumptions C17_print6_roundtrip.

(* through a resolved reference, IPv6: whatever spelling was stored, resolve() stringifies the stored network with str()
   (the compressed text) and the new model validates that text: the same network comes back *)
Theorem C17_via_ref6 : forall s n, parse6 s = Ok n -> parse6 (print6 n) = Ok n.
Proof. exact parse6_reparse_print6. Qed.
Print Assumptions C17_via_ref6.

(* the compressed and the exploded text denote the same network; distinct networks have distinct texts *)
Theorem C17_print6_same_as_exploded : forall n, wf W6 n -> parse6 (print6 n) = parse6 (print6_full n).
Proof. exact parse6_print6_print6_full. Qed.
Print Assumptions C17_print6_same_as_exploded.

Theorem C17_print6_injective : forall n m, wf W6 n -> wf W6 m -> print6 n = print6 m -> n = m.
Proof. exact print6_inj. Qed.
Print Assumptions C17_print6_injective.

(* canonical form, RFC 5952 section 4.  hexnz v = '%x' % v;  zero_run gs s k := positions s .. s+k-1 of gs exist and are 0.
   4.1 + 4.3: a hextet is 1-4 lower-case hex digits, is the hextet, and starts with '0' only when it is "0" *)
Theorem C17_hextet_canonical : forall v, v < 65536 ->
  parse_hextet (hexnz v) = Some v /\ (1 <= length (hexnz v) <= 4)%nat /\
  Forall (fun c => 48 <= c <= 57 \/ 97 <= c <= 102) (hexnz v) /\ (forall t, hexnz v = 48 :: t -> t = []).
Proof. exact hexnz_canonical. Qed.
Print Assumptions C17_hextet_canonical.

(* ... and cut at its colons, the printed address consists of such hextets and of the empty pieces around "::" only *)
Theorem C17_print6_pieces : forall a, a < 2 ^ 128 ->
  Forall (fun p => p = [] \/ exists v, v < 65536 /\ p = hexnz v) (split_ch COLON (print_addr6 a)).
Proof. exact print_addr6_pieces. Qed.
Print Assumptions C17_print6_pieces.

(* what CPython's scan finds, for a list of hextets of ANY length: nothing when no hextet is zero, otherwise a run of zeros
   that is at least as long as every run of zeros and starts no later than any run of the same length *)
Theorem C17_best_run_spec : forall gs,
  (best_run gs = (None, 0%nat) /\ forall s k, zero_run gs s k -> k = 0%nat) \/
  (exists b l, best_run gs = (Some b, l) /\ (0 < l)%nat /\ zero_run gs b l /\
     forall s k, zero_run gs s k -> (k <= l)%nat /\ (k = l -> (b <= s)%nat)).
Proof. exact best_run_spec. Qed.
Print Assumptions C17_best_run_spec.

(* 4.2: EITHER no two neighbouring hextets are zero and the text is the eight hextets joined by ':' (4.2.2: a single zero
   hextet is not shortened), OR the text is  hi "::" lo  where the hextets dropped are k >= 2 zeros, no run of zero hextets
   is longer (4.2.1, 4.2.3) and none of the same length starts further left (4.2.3) *)
Theorem C17_print6_shape : forall a,
  let gs := groups6 a in
  ((forall s k, zero_run gs s k -> (k <= 1)%nat) /\ print_addr6 a = join [COLON] (map hexnz gs)) \/
  (exists hi k lo, gs = hi ++ repeat 0 k ++ lo /\ (2 <= k)%nat /\
     print_addr6 a = join [COLON] (map hexnz hi) ++ COLON :: COLON :: join [COLON] (map hexnz lo) /\
     forall s k', zero_run gs s k' -> (k' <= k)%nat /\ (k' = k -> (length hi <= s)%nat)).
Proof. exact print_addr6_shape. Qed.
Print Assumptions C17_print6_shape.

(* on the text: at most one "::" and never ":::" -- neither side of the first "::" holds another, the left side does not
   end and the right side does not begin with ':' *)
Theorem C17_print6_one_dcolon : forall a l r, a < 2 ^ 128 -> cut_dcolon (print_addr6 a) = Some (l, r) ->
  cut_dcolon l = None /\ cut_dcolon r = None /\ (forall t, r <> COLON :: t) /\ (forall t, l <> t ++ [COLON]) /\
  print_addr6 a = l ++ COLON :: COLON :: r.
Proof. exact print_addr6_one_dcolon. Qed.
Print Assumptions C17_print6_one_dcolon.

(* ... and a text without "::" means there was nothing to shorten *)
Theorem C17_print6_no_dcolon : forall a, cut_dcolon (print_addr6 a) = None ->
  forall s k, zero_run (groups6 a) s k -> (k <= 1)%nat.
Proof. exact print_addr6_no_dcolon. Qed.
Print Assumptions C17_print6_no_dcolon.

(* ---------------------------------------------------------------------------------------------------------------- *)
(* ipv4_slash_zero() / ipv6_slash_zero() *)

(* true exactly when the stored network is the ENTIRE 32-bit address space -- all 2^32 * 33 networks at once *)
Theorem C17_slash_zero_iff : forall n, wf W4 n ->
  (slash_zero_field (Some n) = true <-> forall x, x < 2 ^ 32 -> in_net W4 x n).
Proof. exact (slash_zero_field_iff W4). Qed.
Print Assumptions C17_slash_zero_iff.

Theorem C17_slash_zero6_iff : forall n, wf W6 n ->
  (slash_zero_field (Some n) = true <-> forall x, x < 2 ^ 128 -> in_net W6 x n).
Proof. exact (slash_zero_field_iff W6). Qed.
Print Assumptions C17_slash_zero6_iff.

(* on what the parsers store (no side condition left) *)
Theorem C17_slash_zero_text : forall s n, parse4 s = Ok n ->
  (slash_zero_field (Some n) = true <-> forall x, x < 2 ^ 32 -> in_net W4 x n).
Proof. exact (fun s n H => slash_zero_field_iff W4 n (parse4_wf s n H)). Qed.
Print Assumptions C17_slash_zero_text.

Theorem C17_slash_zero6_text : forall s n, parse6 s = Ok n ->
  (slash_zero_field (Some n) = true <-> forall x, x < 2 ^ 128 -> in_net W6 x n).
Proof. exact (fun s n H => slash_zero_field_iff W6 n (parse6_wf s n H)). Qed.
Print Assumptions C17_slash_zero6_text.

Theorem C17_absent_false : slash_zero_field None = false.
Proof. exact slash_zero_field_absent. Qed.
Print Assumptions C17_absent_false.

(* ---------------------------------------------------------------------------------------------------------------- *)
(* is_public() *)

(* for ANY table of well-formed private networks + shared network *)
Theorem C17_public_iff : forall (SHARED : net) (PRIV : list net), wf W4 SHARED -> Forall (wf W4) PRIV ->
  forall cidr has_group, (forall n, cidr = Some n -> wf W4 n) ->
  (is_public SHARED PRIV cidr has_group = true <->
     (cidr = None /\ has_group = false) \/
     (exists n, cidr = Some n /\ (n = ZERO \/ ~ exists p, In p (SHARED :: PRIV) /\ inside n p))).
Proof. exact is_public_iff. Qed.
Print Assumptions C17_public_iff.

Theorem C17_private_not_public : forall (SHARED : net) (PRIV : list net), wf W4 SHARED -> Forall (wf W4) PRIV ->
  forall n p has_group, wf W4 n -> In p (SHARED :: PRIV) -> inside n p -> n <> ZERO ->
  is_public SHARED PRIV (Some n) has_group = false.
Proof. exact private_not_public. Qed.
Print Assumptions C17_private_not_public.

(* the table of the running Python (gen/PrivateNets.v): well-formed, and no entry is the whole space *)
Theorem C17_table_wf : wf W4 SHARED4 /\ Forall (wf W4) PRIVATE4 /\ Forall (fun q => 0 < snd q) (SHARED4 :: PRIVATE4).
Proof. exact (conj SHARED4_wf (conj PRIVATE4_wf table_pos)). Qed.
Print Assumptions C17_table_wf.

Theorem C17_public_iff_table : forall cidr has_group, (forall n, cidr = Some n -> wf W4 n) ->
  (is_public4 cidr has_group = true <->
     (cidr = None /\ has_group = false) \/
     (exists n, cidr = Some n /\ (n = ZERO \/ ~ exists p, In p (SHARED4 :: PRIVATE4) /\ inside n p))).
Proof. exact is_public4_iff. Qed.
Print Assumptions C17_public_iff_table.

(* inside a private range (or the shared range) of the running Python => not public; /0 cannot be inside one *)
Theorem C17_private_not_public_table : forall n p has_group,
  wf W4 n -> In p (SHARED4 :: PRIVATE4) -> inside n p -> is_public4 (Some n) has_group = false.
Proof. exact private_not_public4. Qed.
Print Assumptions C17_private_not_public_table.

(* pycfmodel's constants IPV4_ZERO_VALUE / IPV6_ZERO_VALUE denote the all-zero /0 networks *)
Theorem C17_zero_constants : parse4 ZERO4_TEXT = Ok ZERO /\ parse6 ZERO6_TEXT = Ok ZERO.
Proof. exact (conj zero4_text_check zero6_text_check). Qed.
Print Assumptions C17_zero_constants.

(* ---------------------------------------------------------------------------------------------------------------- *)
(* non-vacuity and boundary witnesses (texts are code points; see the comment for the reading) *)

Import String.
Definition T (s : string) : str := of_string s.
Arguments T s%string_scope.

Example C17_ex_host_bits_masked :       (* "1.2.3.4/0" -> 0.0.0.0/0 -> slash zero *)
  parse4 (T "1.2.3.4/0") = Ok (0, 0) /\ slash_zero_field (Some (0, 0)) = true.
Proof. split; vm_compute; reflexivity. Qed.
Example C17_ex_slash_one_not_zero :     (* "0.0.0.0/1" is not the whole space *)
  parse4 (T "0.0.0.0/1") = Ok (0, 1) /\ slash_zero_field (Some (0, 1)) = false.
Proof. split; vm_compute; reflexivity. Qed.
Example C17_ex_three_spellings :        (* /24 = /255.255.255.0 = /0.0.0.255, host bits set *)
  parse4 (T "192.168.1.77/24") = Ok (3232235776, 24) /\
  parse4 (T "192.168.1.77/255.255.255.0") = Ok (3232235776, 24) /\
  parse4 (T "192.168.1.77/0.0.0.255") = Ok (3232235776, 24) /\
  print4 (3232235776, 24) = T "192.168.1.0/24".
Proof. repeat split; vm_compute; reflexivity. Qed.
Example C17_ex_ambiguous_masks :        (* 0.0.0.0 is the NETmask of /0, 255.255.255.255 the netmask of /32 *)
  parse4 (T "1.2.3.4/0.0.0.0") = Ok (0, 0) /\ parse4 (T "1.2.3.4/255.255.255.255") = Ok (16909060, 32).
Proof. split; vm_compute; reflexivity. Qed.
Example C17_ex_rejected :
  parse4 (T "01.2.3.4/8") = Err EValue /\ parse4 (T "1.2.3.4.5/8") = Err EValue /\ parse4 (T "1.2.3.4/33") = Err EValue /\
  parse4 (T "1.2.3.4/255.0.255.0") = Err EValue /\ parse4 (T "1.2.3.256") = Err EValue /\ parse4 (T "") = Err EValue.
Proof. repeat split; vm_compute; reflexivity. Qed.
Example C17_ex_cidr4_text : cidr4_text (T "10.0.0.1/8") 167772161 8.
Proof. apply written4_spec. vm_compute. reflexivity. Qed.
Example C17_ex_v6 :                     (* "::1/0" -> ::/0 ; compressed, embedded IPv4, upper case *)
  parse6 (T "::1/0") = Ok (0, 0) /\ slash_zero_field (Some (0, 0)) = true /\
  parse6 (T "::ffff:1.2.3.4/96") = Ok (281470681743360, 96) /\
  parse6 (T "2001:DB8::1/32") = parse6 (T "2001:0db8:0000:0000:0000:0000:0000:0000/32") /\
  parse6 (T "1::2::3") = Err EValue /\ parse6 (T "::/129") = Err EValue /\ parse6 (T "1:2:3:4:5:6:7:8:9") = Err EValue.
Proof. repeat split; vm_compute; reflexivity. Qed.
Example C17_ex_print6 :                 (* str(IPv6Network): the compressed text, and it reads back *)
  print6 (42540766411282592856903984951653826560, 32) = T "2001:db8::/32" /\
  print6 (0, 0) = T "::/0" /\ print6 (1, 128) = T "::1/128" /\
  print6 (addr_of_groups [1;0;0;2;0;0;0;3], 128) = T "1:0:0:2::3/128" /\         (* the longer run, though it comes second *)
  print6 (addr_of_groups [1;0;0;2;0;0;3;4], 128) = T "1::2:0:0:3:4/128" /\       (* two runs of two: the left one *)
  print6 (addr_of_groups [1;0;2;0;3;0;4;0], 128) = T "1:0:2:0:3:0:4:0/128" /\    (* single zeros are not shortened *)
  print6 (addr_of_groups [0;0;1;0;0;0;0;0], 125) = T "0:0:1::/125" /\            (* run at the end beats run at the start *)
  print6 (addr_of_groups [0;0;0;1;0;0;0;5], 128) = T "::1:0:0:0:5/128" /\        (* equal runs at start and inside: the start *)
  print6 (addr_of_groups [0;0;0;0;0;65535;258;772], 128) = T "::ffff:102:304/128" /\  (* no dotted quad in str() (3.12) *)
  print6 (2 ^ 128 - 1, 128) = T "ffff:ffff:ffff:ffff:ffff:ffff:ffff:ffff/128" /\
  parse6 (T "1:0:0:2::3/128") = Ok (addr_of_groups [1;0;0;2;0;0;0;3], 128) /\
  parse6 (T "2001:DB8:0:0::/32") = Ok (42540766411282592856903984951653826560, 32) /\
  best_run [1;0;0;2;0;0;0;3] = (Some 4%nat, 3%nat) /\ best_run [1;0;2;3;4;5;6;7] = (Some 1%nat, 1%nat) /\
  wf W6 (addr_of_groups [0;0;1;0;0;0;0;0], 125).
Proof. repeat split; vm_compute; try reflexivity; discriminate. Qed.
Example C17_ex_public :                 (* the probes of DESIGN.md *)
  is_public4 (Some (134217728, 6)) false = true /\            (* 8.0.0.0/6 straddles 10.0.0.0/8: public *)
  is_public4 (Some (1681915904, 10)) false = false /\         (* 100.64.0.0/10 *)
  is_public4 (Some (1677721600, 9)) false = true /\           (* 100.0.0.0/9 contains the shared range: public *)
  is_public4 (Some (167772160, 8)) true = false /\            (* 10.0.0.0/8 *)
  is_public4 (Some (0, 0)) false = true /\                    (* 0.0.0.0/0 *)
  is_public4 (Some (0, 7)) false = true /\                    (* 0.0.0.0/7 is wider than 0.0.0.0/8 *)
  is_public4 None false = true /\ is_public4 None true = false.
Proof. repeat split; vm_compute; reflexivity. Qed.
Example C17_ex_inside : inside (167837696, 16) (167772160, 8) /\ In (167772160, 8) (SHARED4 :: PRIVATE4).   (* 10.1.0.0/16 in 10.0.0.0/8 *)
Proof.
  split; [apply (inside_iff (167837696, 16) (167772160, 8)); [apply wfb_wf | apply wfb_wf |]; vm_compute; reflexivity|].
  vm_compute. tauto.
Qed.

(* ================================================================================================================ *)
(* ALGEBRAIC LAWS of the exposure predicates (Net/ExposureLaws.v).  TABLE4 = SHARED4 :: PRIVATE4 is the generated table;
   is_private4 = ipaddress's is_private (inside one PRIVATE4 entry), is_global4 = is_global (inside no TABLE4 entry),
   is_public4 = DBSecurityGroupIngressProp.is_public on a rule with that CIDR; addr_global4 x = is_global4 (x, 32).
   Laws that FAIL carry the suffix _refuted and a witness. *)

(* ---- structure of CIDR blocks (every width) ---- *)
(* two blocks that share an address are nested *)
Theorem C17_laminar : forall W n p x, wf W n -> wf W p -> in_net W x n -> in_net W x p -> snd p <= snd n ->
  subnet_of W n p = true.
Proof. exact laminar. Qed.
Print Assumptions C17_laminar.
Example C17_ex_laminar : wf W4 (167837696, 16) /\ wf W4 (167772160, 8) /\ in_net W4 167837700 (167837696, 16) /\
  in_net W4 167837700 (167772160, 8) /\ snd (167772160, 8) <= snd (167837696, 16).
Proof. repeat split; vm_compute; try reflexivity; intros; discriminate. Qed.

(* a stored network IS its set of addresses *)
Theorem C17_network_is_its_set : forall W n m, wf W n -> wf W m -> (forall x, in_net W x n <-> in_net W x m) -> n = m.
Proof. exact wf_ext. Qed.
Print Assumptions C17_network_is_its_set.

(* ---- 1. monotonicity in the range ---- *)
(* "contains every address" is upward closed ... *)
Theorem C17_slash_zero_monotone : forall W n m, wf W m -> subnet_of W n m = true -> slash_zero n = true -> slash_zero m = true.
Proof. exact slash_zero_up. Qed.
Print Assumptions C17_slash_zero_monotone.
(* ... and not downward closed *)
Theorem C17_slash_zero_down_refuted : exists a b, wf W4 a /\ wf W4 b /\ subnet_of W4 a b = true /\
  slash_zero_field (Some b) = true /\ slash_zero_field (Some a) = false.
Proof. exact slash_zero_down_refuted. Qed.
Print Assumptions C17_slash_zero_down_refuted.

(* private is DOWNWARD closed (any table) *)
Theorem C17_private_down : forall PRIV a b, subnet_of W4 a b = true -> is_private PRIV b = true -> is_private PRIV a = true.
Proof. exact is_private_down. Qed.
Print Assumptions C17_private_down.
(* globally routable and the is_public() verdict are UPWARD closed (any table): a range that contains a public range is
   public, every range inside a non-public range is non-public *)
Theorem C17_global_up : forall SHARED PRIV a b, subnet_of W4 a b = true ->
  is_global SHARED PRIV a = true -> is_global SHARED PRIV b = true.
Proof. exact is_global_up. Qed.
Print Assumptions C17_global_up.
Theorem C17_public_up : forall SHARED PRIV a b g g', wf W4 b -> subnet_of W4 a b = true ->
  is_public SHARED PRIV (Some a) g = true -> is_public SHARED PRIV (Some b) g' = true.
Proof. exact is_public_up. Qed.
Print Assumptions C17_public_up.
Theorem C17_not_public_down : forall SHARED PRIV a b g g', wf W4 b -> subnet_of W4 a b = true ->
  is_public SHARED PRIV (Some b) g' = false -> is_public SHARED PRIV (Some a) g = false.
Proof. exact not_public_down. Qed.
Print Assumptions C17_not_public_down.
Example C17_ex_monotone :       (* 8.8.8.0/24 inside 8.0.0.0/6, public; 10.1.0.0/16 inside 10.0.0.0/8, not public *)
  wf W4 (134217728, 6) /\ subnet_of W4 (134744064, 24) (134217728, 6) = true /\ is_public4 (Some (134744064, 24)) false = true /\
  wf W4 (167772160, 8) /\ subnet_of W4 (167837696, 16) (167772160, 8) = true /\ is_public4 (Some (167772160, 8)) false = false /\
  is_private4 (167772160, 8) = true.
Proof. repeat split; vm_compute; try reflexivity; intros; discriminate. Qed.
(* the other directions fail: 10.0.0.0/8 (private, not public) lies inside 8.0.0.0/6 (not private, public) *)
Theorem C17_private_up_public_down_refuted : exists a b, wf W4 a /\ wf W4 b /\ subnet_of W4 a b = true /\
  is_private4 a = true /\ is_private4 b = false /\ is_global4 b = true /\ is_global4 a = false /\
  is_public4 (Some b) false = true /\ is_public4 (Some a) false = false.
Proof. exact is_private4_up_refuted. Qed.
Print Assumptions C17_private_up_public_down_refuted.
(* "not private" is not "globally routable": 100.64.0.0/10 is neither, and is_public() says not public *)
Theorem C17_private_global_complement_refuted : exists n, wf W4 n /\ is_private4 n = false /\ is_global4 n = false /\
  is_public4 (Some n) false = false.
Proof. exact private_global_complement_refuted. Qed.
Print Assumptions C17_private_global_complement_refuted.

(* ---- 4. what "public" means, and the partition ---- *)
(* is_public() on a CIDR = the range contains AT LEAST ONE address outside every reserved entry (0.0.0.0/0 included: the
   special case in the code is subsumed).  So a range that contains public addresses IS reported public, and a range
   reported public does contain one -- it cannot be pieced together from several reserved entries *)
Theorem C17_public_iff_contains_public_address : forall n g, wf W4 n ->
  (is_public4 (Some n) g = true <-> exists x, in_net W4 x n /\ forall p, In p TABLE4 -> ~ in_net W4 x p).
Proof. exact is_public4_iff_contains. Qed.
Print Assumptions C17_public_iff_contains_public_address.
Theorem C17_global_iff_contains_global_address : forall n, wf W4 n ->
  (is_global4 n = true <-> exists x, in_net W4 x n /\ forall p, In p TABLE4 -> ~ in_net W4 x p).
Proof. exact is_global4_iff_contains. Qed.
Print Assumptions C17_global_iff_contains_global_address.
(* for any table without adjacent entries (after_clean, a computable condition) *)
Theorem C17_global_has_global_address : forall SHARED PRIV, Forall (wf W4) (SHARED :: PRIV) -> forall n,
  after_clean SHARED PRIV = true -> wf W4 n -> is_global SHARED PRIV n = true ->
  exists x, in_net W4 x n /\ addr_global SHARED PRIV x = true.
Proof. exact is_global_has_global. Qed.
Print Assumptions C17_global_has_global_address.
Example C17_ex_after_clean : after_clean SHARED4 PRIVATE4 = true /\ wf W4 (134217728, 6) /\ is_global4 (134217728, 6) = true /\
  in_net W4 134217728 (134217728, 6) /\ addr_global4 134217728 = true.
Proof. repeat split; vm_compute; try reflexivity; intros; discriminate. Qed.

(* every network is exactly one of: inside one entry (not globally routable) / straddling = an entry lies wholly inside it
   and it reaches outside (globally routable) / disjoint from every entry (globally routable).  Any well-formed table *)
Theorem C17_partition : forall SHARED PRIV, Forall (wf W4) (SHARED :: PRIV) -> forall n, wf W4 n ->
  (Inside SHARED PRIV n /\ ~ Straddles SHARED PRIV n /\ ~ Disjoint SHARED PRIV n /\ is_global SHARED PRIV n = false) \/
  (~ Inside SHARED PRIV n /\ Straddles SHARED PRIV n /\ ~ Disjoint SHARED PRIV n /\ is_global SHARED PRIV n = true) \/
  (~ Inside SHARED PRIV n /\ ~ Straddles SHARED PRIV n /\ Disjoint SHARED PRIV n /\ is_global SHARED PRIV n = true).
Proof. exact partition. Qed.
Print Assumptions C17_partition.
(* the executable classifier decides the three classes *)
Theorem C17_classify : forall SHARED PRIV, Forall (wf W4) (SHARED :: PRIV) -> forall n, wf W4 n ->
  (classify SHARED PRIV n = CInside <-> Inside SHARED PRIV n) /\
  (classify SHARED PRIV n = CStraddle <-> Straddles SHARED PRIV n) /\
  (classify SHARED PRIV n = CDisjoint <-> Disjoint SHARED PRIV n).
Proof. exact (fun S P H n Hn => conj (classify_inside S P H n Hn) (conj (classify_straddle S P H n Hn) (classify_disjoint S P H n Hn))). Qed.
Print Assumptions C17_classify.
Example C17_ex_classes :        (* 10.0.0.0/8; 8.0.0.0/6 around it; 8.0.0.0/8 beside it; 0.0.0.0/0; 100.0.0.0/9 around the shared range *)
  classify4 (167772160, 8) = CInside /\ classify4 (134217728, 6) = CStraddle /\ classify4 (134217728, 8) = CDisjoint /\
  classify4 (0, 0) = CStraddle /\ classify4 (1677721600, 9) = CStraddle /\ is_public4 (Some (134217728, 6)) false = true.
Proof. repeat split; vm_compute; reflexivity. Qed.

(* ---- 3. boundaries of the table entries ---- *)
(* every address of an entry is not globally routable; for an entry that is not nested in another one the verdict flips
   EXACTLY at its first and last address: first-1 and last+1 (when they exist) are globally routable *)
Theorem C17_boundaries : forall p, In p TABLE4 ->
  (forall x, fst p <= x < next_after p -> addr_global4 x = false) /\
  (outermost4 p = true -> 0 < fst p -> addr_global4 (fst p - 1) = true) /\
  (outermost4 p = true -> next_after p < 2 ^ 32 -> addr_global4 (next_after p) = true).
Proof. exact boundaries4. Qed.
Print Assumptions C17_boundaries.
(* ... and in the prefix-length direction: around the first and around the last address of such an entry, the /l network is
   globally routable exactly when it is strictly wider than the entry (all 33 lengths) *)
Theorem C17_boundary_lengths : forall p l, In p TABLE4 -> outermost4 p = true -> l <= 32 ->
  is_global4 (mk_net W4 (fst p) l) = (l <? snd p) /\ is_global4 (mk_net W4 (next_after p - 1) l) = (l <? snd p).
Proof. exact boundary_lengths4. Qed.
Print Assumptions C17_boundary_lengths.
(* the arithmetic behind it, any width, any address x of p *)
Theorem C17_inside_flips_at_prefix_length : forall W x l p, wf W p -> in_net W x p -> l <= W ->
  (subnet_of W (mk_net W x l) p = true <-> snd p <= l).
Proof. exact mk_net_inside_iff. Qed.
Print Assumptions C17_inside_flips_at_prefix_length.
Example C17_ex_boundaries :     (* 172.16.0.0/12: 172.15.255.255 and 172.32.0.0 are outside; /11 around it is public *)
  In (2886729728, 12) TABLE4 /\ outermost4 (2886729728, 12) = true /\ next_after (2886729728, 12) = 2887778304 /\
  addr_global4 2886729727 = true /\ addr_global4 2886729728 = false /\ addr_global4 2887778303 = false /\
  addr_global4 2887778304 = true /\ is_global4 (mk_net W4 2886729728 11) = true /\ is_global4 (mk_net W4 2886729728 12) = false.
Proof. repeat split; vm_compute; try reflexivity; tauto. Qed.
(* exactly one entry is nested: 255.255.255.255/32 inside 240.0.0.0/4; there the law fails (255.255.255.254 is reserved) *)
Theorem C17_nested_entries : filter (fun p => negb (outermost4 p)) TABLE4 = [(4294967295, 32)].
Proof. exact nested_entries4. Qed.
Print Assumptions C17_nested_entries.
Theorem C17_boundary_nested_refuted : exists p, In p TABLE4 /\ 0 < fst p /\ addr_global4 (fst p - 1) = false /\ outermost4 p = false.
Proof. exact boundary_nested_refuted. Qed.
Print Assumptions C17_boundary_nested_refuted.

(* ---- 2. spellings ---- *)
(* whatever host bits are written, with a prefix length or a netmask: the network of the written address is stored *)
Theorem C17_written_prefix : forall x l, x < 2 ^ 32 -> l <= 32 ->
  parse4 (print_addr4 x ++ SLASH :: print_small l) = Ok (mk_net W4 x l).
Proof. exact parse4_written. Qed.
Print Assumptions C17_written_prefix.
Theorem C17_written_netmask : forall x l, x < 2 ^ 32 -> l <= 32 ->
  parse4 (print_addr4 x ++ SLASH :: print_mask4 l) = Ok (mk_net W4 x l).
Proof. exact parse4_written_mask. Qed.
Print Assumptions C17_written_netmask.
(* two accepted texts that denote the same SET of addresses store the same value: no function of the stored value -- the
   present predicates or any future one -- can tell two spellings of a range apart *)
Theorem C17_spelling_blind : forall (A : Type) (P : net -> A) s1 s2 n1 n2, parse4 s1 = Ok n1 -> parse4 s2 = Ok n2 ->
  (forall x, in_net W4 x n1 <-> in_net W4 x n2) -> P n1 = P n2.
Proof. exact spelling_blind4. Qed.
Print Assumptions C17_spelling_blind.
Theorem C17_spelling_blind6 : forall (A : Type) (P : net -> A) s1 s2 n1 n2, parse6 s1 = Ok n1 -> parse6 s2 = Ok n2 ->
  (forall x, in_net W6 x n1 <-> in_net W6 x n2) -> P n1 = P n2.
Proof. exact spelling_blind6. Qed.
Print Assumptions C17_spelling_blind6.
Example C17_ex_spellings_10 :   (* 10.1.2.3/8 = 10.1.2.3/255.0.0.0 = 10.1.2.3/0.255.255.255 = 10.0.0.0/8, not public *)
  parse4 (T "10.1.2.3/8") = Ok (167772160, 8) /\ parse4 (T "10.1.2.3/255.0.0.0") = Ok (167772160, 8) /\
  parse4 (T "10.1.2.3/0.255.255.255") = Ok (167772160, 8) /\ parse4 (T "10.0.0.0/8") = Ok (167772160, 8) /\
  print_addr4 167838211 = T "10.1.2.3" /\ is_public4 (Some (167772160, 8)) false = false.
Proof. repeat split; vm_compute; reflexivity. Qed.

(* ---- 5. the two address families ---- *)
(* no text is accepted by both fields *)
Theorem C17_v4_text_not_v6 : forall s n, parse4 s = Ok n -> parse6 s = Err EValue.
Proof. exact v4_text_not_v6. Qed.
Print Assumptions C17_v4_text_not_v6.
(* IPv4-mapped IPv6: "::ffff:a.b.c.d/(96+l)" is accepted by CidrIpv6 and stores the image of a.b.c.d/l ... *)
Theorem C17_mapped_parse : forall x l, x < 2 ^ 32 -> l <= 32 ->
  parse6 (MAPPED_PREFIX ++ print_addr4 x ++ SLASH :: print_small (96 + l)) = Ok (mapped6 (mk_net W4 x l)).
Proof. exact parse6_mapped. Qed.
Print Assumptions C17_mapped_parse.
Theorem C17_mapped_denotes : forall n x, in_net W6 (mapped_addr x) (mapped6 n) <-> in_net W4 x n.
Proof. exact mapped6_in. Qed.
Print Assumptions C17_mapped_denotes.
Theorem C17_mapped_wf : forall n, wf W4 n -> wf W6 (mapped6 n).
Proof. exact mapped6_wf. Qed.
Print Assumptions C17_mapped_wf.
(* ... and ipv6_slash_zero() never reports it: the whole IPv4 space written as ::ffff:0.0.0.0/96 is not "slash zero" (it is not
   the whole IPv6 space; the model has no other IPv6 predicate) *)
Theorem C17_mapped_never_slash_zero : forall n, slash_zero_field (Some (mapped6 n)) = false.
Proof. exact mapped6_not_slash_zero. Qed.
Print Assumptions C17_mapped_never_slash_zero.
Theorem C17_mapped_whole_v4_space : 
  parse6 (MAPPED_PREFIX ++ print_addr4 0 ++ SLASH :: print_small 96) = Ok (mapped6 ZERO) /\
  slash_zero_field (Some (mapped6 ZERO)) = false /\ (forall x, x < 2 ^ 32 -> in_net W6 (mapped_addr x) (mapped6 ZERO)).
Proof. exact mapped_whole_v4_space_not_flagged. Qed.
Print Assumptions C17_mapped_whole_v4_space.
Example C17_ex_mapped : MAPPED_PREFIX ++ print_addr4 0 ++ SLASH :: print_small 96 = T "::ffff:0.0.0.0/96" /\
  parse6 (T "::ffff:10.1.2.3/104") = Ok (mapped6 (167772160, 8)) /\ parse4 (T "::ffff:0.0.0.0/96") = Err EValue /\
  parse4 (T "10.0.0.0/8") = Ok (167772160, 8) /\ parse6 (T "10.0.0.0/8") = Err EValue.
Proof. repeat split; vm_compute; reflexivity. Qed.

(* ---- 6. rule level: complete decision tables ---- *)
(* EC2 rules: each predicate reads its own CIDR field; source group and prefix list are never consulted *)
Theorem C17_ec2_rule_table : forall c4 c6 g pl,
  let r := {| r_cidr4 := c4; r_cidr6 := c6; r_group := g; r_prefix_list := pl |} in
  (rule_v4_zero r, rule_v6_zero r) =
  match c4, c6 with
  | None, None => (false, false)
  | Some n, None => (net_eqb n ZERO, false)
  | None, Some m => (false, net_eqb m ZERO)
  | Some n, Some m => (net_eqb n ZERO, net_eqb m ZERO)
  end.
Proof. exact ec2_rule_table. Qed.
Print Assumptions C17_ec2_rule_table.
Theorem C17_ec2_rule_semantics : forall r,
  (forall n, r_cidr4 r = Some n -> wf W4 n) -> (forall n, r_cidr6 r = Some n -> wf W6 n) ->
  (rule_v4_zero r = true <-> exists n, r_cidr4 r = Some n /\ forall x, x < 2 ^ 32 -> in_net W4 x n) /\
  (rule_v6_zero r = true <-> exists n, r_cidr6 r = Some n /\ forall x, x < 2 ^ 128 -> in_net W6 x n).
Proof. exact ec2_rule_semantics. Qed.
Print Assumptions C17_ec2_rule_semantics.
(* RDS rules: with a CIDR the source groups are not consulted; without one, public iff no source group is named *)
Theorem C17_rds_rule_table : forall SH PR c gname gid,
  is_public_rule SH PR c gname gid =
  match c with
  | Some n => net_eqb n ZERO || is_global SH PR n
  | None => negb (truthy gname || truthy gid)
  end.
Proof. exact rds_rule_table. Qed.
Print Assumptions C17_rds_rule_table.
Theorem C17_rds_group_never_opens : forall SH PR c gname gid,
  is_public_rule SH PR c gname gid = true -> is_public_rule SH PR c None None = true.
Proof. exact rds_group_monotone. Qed.
Print Assumptions C17_rds_group_never_opens.
Example C17_ex_rds_rules :      (* group only; nothing; 8.8.8.8 + group; 10.0.0.0/8 + group; empty group name *)
  is_public_rule SHARED4 PRIVATE4 None (Some (T "g")) None = false /\ is_public_rule SHARED4 PRIVATE4 None None None = true /\
  is_public_rule SHARED4 PRIVATE4 (Some (134744072, 32)) None (Some (T "sg-1")) = true /\
  is_public_rule SHARED4 PRIVATE4 (Some (167772160, 8)) None (Some (T "sg-1")) = false /\
  is_public_rule SHARED4 PRIVATE4 None (Some (T "")) None = true.
Proof. repeat split; vm_compute; reflexivity. Qed.
(* two laws a reader might expect and that fail: a rule with neither CIDR nor group is public, yet ADDING 10.0.0.0/8 to it
   makes it not public; two rules that together cover the whole space (0.0.0.0/1, 128.0.0.0/1) are neither "slash zero" *)
Theorem C17_rds_absent_cidr_not_monotone_refuted : exists n, wf W4 n /\
  is_public_rule SHARED4 PRIVATE4 None None None = true /\ is_public_rule SHARED4 PRIVATE4 (Some n) None None = false.
Proof. exact rds_absent_cidr_not_monotone_refuted. Qed.
Print Assumptions C17_rds_absent_cidr_not_monotone_refuted.
Theorem C17_cover_not_additive_refuted : exists a b, wf W4 a /\ wf W4 b /\
  (forall x, x < 2 ^ 32 -> in_net W4 x a \/ in_net W4 x b) /\
  slash_zero_field (Some a) = false /\ slash_zero_field (Some b) = false.
Proof. exact cover_not_additive_refuted. Qed.
Print Assumptions C17_cover_not_additive_refuted.
