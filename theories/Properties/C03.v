(* C03 -- A resolved model is concrete and is a fixed point of resolution.
   Statements only; proofs are [exact] of lemmas in Resolver/FixFacts.v, Resolver/ModelFix.v, Resolver/Rendered.v.

   WHAT IS PROVED, FOR WHICH EXPRESSIONS.
   * "concrete" (no function object left): for every expression ([C03_no_function_left]).
   * "fixed point" (m.resolve(p).resolve(p) == m.resolve(p)): the UNCONDITIONAL claim is false of the code and of the model
     ([C03_fixed_point_refuted]; known findings F20 and F14b).  Two kinds of theorem are given.
     (a) With a hypothesis on the RESULT of the first resolution -- it is function-free and every text in it is already in
         rendered form: [C03_fixed_point], [C03_resolve_twice], [C03_model_fixed_point].  These say what a fixed point looks
         like; by themselves they do not say WHICH results are rendered.
     (b) With hypotheses on the INPUT only, for the fragment [builds_no_text] of expressions (Resolver/Rendered.v): in every
         position whose value reaches the result there is only
             a leaf (null, boolean, integer, text, float/date atom), a list or an object of such,
             Ref / Fn::ImportValue, Fn::GetAtt, Fn::GetAZs, Fn::If (both branches), Fn::Select (its list)
         -- whatever stands INSIDE a Ref / GetAtt / GetAZs body or in a Select index.  For these, the result of resolution IS
         rendered ([C03_rendered_output]), function-free ([C03_fragment_no_function_left]) and a fixed point
         ([C03_fragment_fixed_point]; for whole templates [C03_fragment_model_fixed_point]).  Environment hypotheses, each a
         boolean: [params_rendered] (a value stored under an SSM-shaped name name:version is itself rendered -- an SSM reference
         returns it as it is; ordinary parameters may hold "True", "FALSE", ...) and [params_plainb] (parameter values hold no
         objects).  Both hold on a realistic environment ([C03_fragment_hyps_hold]) and both are needed
         ([C03_ssm_value_must_be_rendered], [C03_object_parameter_breaks_no_fn]).
     The REST is not a fixed point in general and stays a KNOWN FINDING: text BUILT by Fn::Join, Fn::Sub, Fn::Split, Fn::Base64
     (F20: it may spell TRUE or an SSM reference and is stored as built), a mapping leaf returned by Fn::FindInMap (F14b), and a
     condition function (Condition, Fn::And/Or/Not/Equals) in a value position (its Python bool becomes text the second time).
     The boundary is tight: one witness per excluded construct, using that construct and literals only
     ([C03_boundary_*]); Fn::Select, named in F20, builds nothing and is inside the fragment ([C03_select_only_passes_on]). *)
From Coq Require Import List Bool NArith ZArith.
From PV Require Import Base.Str Base.Value Resolver.Consts Resolver.Text Resolver.Resolve Resolver.Spec Resolver.SubFacts
  Resolver.Template Resolver.FixFacts Resolver.ModelFix Resolver.Rendered.
Import ListNotations.
Local Open Scope N_scope.

(* no supported intrinsic function object remains anywhere in the result, provided that in the template a function name is never
   one of several keys of an object ("Condition" -- a resource attribute and a statement element -- excepted when it sits next
   to a null or boolean member, which survives resolution) and parameter values / mapping leaves are strings or lists
   (true of every valid CloudFormation template; the inputs outside are the recorded finding F18) *)
Theorem C03_no_function_left : forall e, params_plain e -> maps_plain e ->
  forall v r, resolve e v = Ok r -> fn_keys_alone v = true -> no_fn_dict r = true.
Proof.
  intros e Hp Hm v r H. apply resolve_iff_eval in H. revert H. exact (proj1 (no_function_left e Hp Hm) v r).
Qed.
Print Assumptions C03_no_function_left.

(* every condition of the resolved model is a boolean *)
Theorem C03_conditions_bool : forall pseudo decls extra maps cdecl rs out,
  resolve_model pseudo decls extra maps cdecl rs = Ok out ->
  exists cs rs', out = VDict [(K_Conditions, VDict cs); (K_Resources, VDict rs')] /\
                 Forall (fun kv => exists b, snd kv = VBool b) cs.
Proof.
  intros pseudo decls extra maps cdecl rs out H. unfold resolve_model in H. bind_inv. inv H.
  eexists. eexists. split; [reflexivity|]. apply Forall_forall. intros [k v] Hin. apply in_map_iff in Hin.
  destruct Hin as ([n b] & Heq & _). inv Heq. exists b. reflexivity.
Qed.
Print Assumptions C03_conditions_bool.

(* a function-free value whose text leaves are already in rendered form is a fixed point: resolving it again changes nothing *)
Theorem C03_fixed_point : forall e v, no_fn_dict v = true -> rendered (params e) v = true -> resolve e v = Ok v.
Proof. exact rendered_fixed_point. Qed.
Print Assumptions C03_fixed_point.

Corollary C03_resolve_twice : forall e v r, params_plain e -> maps_plain e -> fn_keys_alone v = true ->
  resolve e v = Ok r -> rendered (params e) r = true -> resolve e r = Ok r.
Proof.
  intros e v r Hp Hm Hf H Hr. apply C03_fixed_point; [eapply C03_no_function_left; eauto | exact Hr].
Qed.
Print Assumptions C03_resolve_twice.

(* the unconditional claim is false of the faithful model and of the code: known finding F20 *)
Theorem C03_fixed_point_refuted : exists v r r2, resolve e_empty v = Ok r /\ resolve e_empty r = Ok r2 /\ r2 <> r.
Proof. exact fixed_point_refuted. Qed.
Print Assumptions C03_fixed_point_refuted.

(* non-vacuity: a resolved nested expression satisfies the hypotheses of C03_fixed_point *)
Definition e3 : env := {| params := [([80], VStr [84;114;117;101])]; mappings := []; conds := fun _ => Ok false |}.
Example C03_ex : exists r, resolve e3 (VDict [([78], VDict [(K_Ref, VStr [80])]); ([76], VList [VBool true; VInt 7; VDict [(K_Ref, VStr [90])]])]) = Ok r
  /\ no_fn_dict r = true /\ rendered (params e3) r = true /\ resolve e3 r = Ok r.
Proof. eexists. split; [vm_compute; reflexivity|]. repeat split; vm_compute; reflexivity. Qed.

(* ---- WHICH results are rendered: the fragment of expressions that build no text (Resolver/Rendered.v) ---- *)

(* rendering is idempotent, given that the values an SSM reference can fetch (parameters named name:version) are rendered *)
Theorem C03_render_idempotent : forall ps s, params_rendered ps = true ->
  render_str ps (render_str ps s) = render_str ps s.
Proof. exact (fun ps s H => render_str_idem ps s (params_rendered_ssm ps H)). Qed.
Print Assumptions C03_render_idempotent.

(* the result of resolving an expression of the fragment IS rendered: the hypothesis of C03_fixed_point, proved of the output *)
Theorem C03_rendered_output : forall e v r, params_rendered (params e) = true ->
  builds_no_text v = true -> resolve e v = Ok r -> rendered (params e) r = true.
Proof. exact resolve_rendered. Qed.
Print Assumptions C03_rendered_output.

(* ... and function-free; no hypothesis on the Mappings here (Fn::FindInMap cannot reach the result) *)
Theorem C03_fragment_no_function_left : forall e v r, params_plainb (params e) = true ->
  fn_keys_alone v = true -> builds_no_text v = true -> resolve e v = Ok r -> no_fn_dict r = true.
Proof. exact fragment_no_function_left. Qed.
Print Assumptions C03_fragment_no_function_left.

(* resolve(resolve(v)) = resolve(v) with hypotheses on the INPUT only *)
Theorem C03_fragment_fixed_point : forall e v r, params_rendered (params e) = true -> params_plainb (params e) = true ->
  fn_keys_alone v = true -> builds_no_text v = true -> resolve e v = Ok r -> resolve e r = Ok r.
Proof. exact fragment_fixed_point. Qed.
Print Assumptions C03_fragment_fixed_point.

(* the hypotheses hold on a realistic environment (pseudo parameters, Env = "True", a list parameter, a float, an SSM value) and
   expression (Ref, Fn::If with AWS::NoValue, an SSM reference, Fn::Select, Fn::GetAtt, an undefined Ref); resolution changes the
   expression and the result is a fixed point *)
Theorem C03_fragment_hyps_hold :
  params_rendered ps_real = true /\ params_plainb ps_real = true /\
  fn_keys_alone v_real = true /\ builds_no_text v_real = true /\
  exists r, resolve e_real v_real = Ok r /\ r <> v_real /\ resolve e_real r = Ok r.
Proof. exact env_hyps_hold. Qed.
Print Assumptions C03_fragment_hyps_hold.

(* [params_rendered] is needed: "/p:1" = "TRUE"; the plain text "{{resolve:ssm:/p:1}}" resolves to "TRUE", then to "true" *)
Theorem C03_ssm_value_must_be_rendered :
  params_rendered ps_ssm_TRUE = false /\ builds_no_text v_ssm_ref = true /\
  resolve e_ssm_TRUE v_ssm_ref = Ok (VStr [84;82;85;69]) /\ rendered ps_ssm_TRUE (VStr [84;82;85;69]) = false /\
  resolve e_ssm_TRUE (VStr [84;82;85;69]) = Ok (VStr S_true).
Proof. exact ssm_value_must_be_rendered. Qed.
Print Assumptions C03_ssm_value_must_be_rendered.

(* [params_plainb] is needed: P = {"Ref": "x", "y": "AWS::NoValue"}; {"Ref": "P"} resolves to the function object {"Ref": "x"} *)
Theorem C03_object_parameter_breaks_no_fn :
  params_plainb ps_objparam = false /\ params_rendered ps_objparam = true /\
  exists r, resolve {| params := ps_objparam; mappings := []; conds := fun _ => Ok true |} (VDict [(K_Ref, VStr [80])]) = Ok r /\
            no_fn_dict r = false.
Proof. exact object_parameter_breaks_no_fn. Qed.
Print Assumptions C03_object_parameter_breaks_no_fn.

(* THE BOUNDARY IS TIGHT.  For each construct outside the fragment, an expression made of that construct and literals only:
   it is outside, its result is not rendered, and a second resolution changes the result. *)
Definition changes_on_second_resolution (e : env) (v : value) : Prop :=
  builds_no_text v = false /\
  exists r r2, resolve e v = Ok r /\ rendered (params e) r = false /\ resolve e r = Ok r2 /\ r2 <> r.

(* {"Fn::Join": ["", ["TR", "UE"]]} -> "TRUE" -> "true"                                                   (F20) *)
Theorem C03_boundary_join : changes_on_second_resolution e_empty join_TR_UE.
Proof. exact boundary_join. Qed.
Print Assumptions C03_boundary_join.
(* {"Fn::Sub": ["${A}${B}", {"A": "TR", "B": "UE"}]} -> "TRUE" -> "true"                                    (F20) *)
Theorem C03_boundary_sub : changes_on_second_resolution e_empty sub_TR_UE.
Proof. exact boundary_sub. Qed.
Print Assumptions C03_boundary_sub.
(* {"Fn::Split": [",", "TRUE,x"]} -> ["TRUE", "x"] -> ["true", "x"]                                        (F20) *)
Theorem C03_boundary_split : changes_on_second_resolution e_empty split_TRUE_x.
Proof. exact boundary_split. Qed.
Print Assumptions C03_boundary_split.
(* Mappings {"M": {"a": {"b": "TRUE"}}}; {"Fn::FindInMap": ["M", "a", "b"]} -> "TRUE" -> "true"              (F14b) *)
Theorem C03_boundary_find_in_map : changes_on_second_resolution e_map_TRUE find_TRUE.
Proof. exact boundary_find_in_map. Qed.
Print Assumptions C03_boundary_find_in_map.
(* {"Fn::Base64": "M\u0015\u0004"} -> "TRUE" (base64 of the bytes 4D 15 04) -> "true"                       (F20) *)
Theorem C03_boundary_base64 : changes_on_second_resolution e_empty base64_TRUE.
Proof. exact boundary_base64. Qed.
Print Assumptions C03_boundary_base64.
(* leaves: the bytes 4D 15 04 (rendered as their base64 text "TRUE"); a typed atom carrying the text "TRUE" *)
Theorem C03_boundary_atoms :
  changes_on_second_resolution e_empty (VBytes [77;21;4]) /\ changes_on_second_resolution e_empty (VTyped KFloat [84;82;85;69]).
Proof. exact (conj boundary_bytes boundary_typed). Qed.
Print Assumptions C03_boundary_atoms.
(* condition functions in a value position: the Python bool becomes the text "true" / "false" the second time *)
Theorem C03_boundary_condition_functions :
  changes_on_second_resolution e_empty (VDict [(K_Equals, VList [VStr [97]; VStr [97]])]) /\
  changes_on_second_resolution e_empty (VDict [(K_Condition, VStr [99])]) /\
  changes_on_second_resolution e_empty (VDict [(K_And, VList [VStr S_true])]) /\
  changes_on_second_resolution e_empty (VDict [(K_Or, VList [VStr S_true])]) /\
  changes_on_second_resolution e_empty (VDict [(K_Not, VList [VStr S_true])]).
Proof. exact (conj boundary_condition_function boundary_condition_functions_all). Qed.
Print Assumptions C03_boundary_condition_functions.
(* Fn::Select (named in F20) builds nothing: over literals its result is rendered; it only passes on what Fn::Split built *)
Theorem C03_select_only_passes_on :
  builds_no_text (VDict [(K_Select, VList [VStr [48]; VList [VStr [84;82;85;69]; VStr [120]]])]) = true /\
  resolve e_empty (VDict [(K_Select, VList [VStr [48]; VList [VStr [84;82;85;69]; VStr [120]]])]) = Ok (VStr S_true) /\
  changes_on_second_resolution e_empty (VDict [(K_Select, VList [VStr [48]; split_TRUE_x])]).
Proof. exact select_only_passes_on. Qed.
Print Assumptions C03_select_only_passes_on.

(* ---- the MODEL level: CFModel.resolve applied to its own result (Resolver/ModelFix.v) ---- *)

(* a Conditions section that already holds booleans evaluates to itself -- true AND false -- for all parameters and mappings *)
Theorem C03_conditions_fixed_point : forall ps maps l cdecl,
  cdecl = map (fun nb => (fst nb, VBool (snd nb))) l -> NoDup (keys l) ->
  cond_all ps maps cdecl (keys cdecl) = Ok l.
Proof. exact cond_all_of_bools. Qed.
Print Assumptions C03_conditions_fixed_point.

(* any name looked up in it has its boolean; an undeclared name counts as false, as before *)
Theorem C03_condition_root_of_bools : forall ps maps l n,
  cond_root ps maps (map (fun nb => (fst nb, VBool (snd nb))) l) n = Ok (match lookup n l with Some b => b | None => false end).
Proof. exact cond_root_of_bools. Qed.
Print Assumptions C03_condition_root_of_bools.

(* whatever one resolution wrote as Conditions, the next one (with ANY parameters and mappings) reads back unchanged; no
   hypothesis on the declarations -- a name may even be declared twice *)
Theorem C03_conditions_resolved_twice : forall ps maps decl names l ps' maps',
  cond_all ps maps decl names = Ok l ->
  cond_all ps' maps' (map (fun nb => (fst nb, VBool (snd nb))) l) (keys (map (fun nb => (fst nb, VBool (snd nb))) l)) = Ok l.
Proof. exact cond_all_twice. Qed.
Print Assumptions C03_conditions_resolved_twice.

(* THE MODEL-LEVEL FIXED POINT: m.resolve(p).resolve(p) == m.resolve(p).
   On the result of the first resolution: every resource is function-free and rendered (the hypotheses of C03_fixed_point).
   On the template: every resource that was kept is [resource_wf] -- an object that is not a function object, with distinct keys
   (its Condition NAME and its Type are literals that resolution puts back: C03_model_condition_names_kept below).
   Nothing is assumed about the conditions, the resource ids, or the resources that were dropped. *)
Theorem C03_model_fixed_point : forall pseudo decls extra maps cdecl rs ps cs rs',
  bind_params pseudo decls extra = Ok ps ->
  resolve_model pseudo decls extra maps cdecl rs = Ok (VDict [(K_Conditions, VDict cs); (K_Resources, VDict rs')]) ->
  (forall id r', In (id, r') rs' -> no_fn_dict r' = true /\ rendered ps r' = true) ->
  (forall id r, In (id, r) rs -> gate_open (cond_bools cs) r = true -> resource_wf ps r = true) ->
  resolve_model pseudo decls extra maps cs rs' = Ok (VDict [(K_Conditions, VDict cs); (K_Resources, VDict rs')]).
Proof. exact resolve_model_twice. Qed.
Print Assumptions C03_model_fixed_point.

(* the exact condition, stated on the first result alone: it comes back unchanged iff the gate of each of its resources is
   open under its own (boolean) Conditions *)
Theorem C03_model_fixed_point_iff : forall pseudo decls extra maps cdecl rs ps cs rs',
  bind_params pseudo decls extra = Ok ps ->
  resolve_model pseudo decls extra maps cdecl rs = Ok (VDict [(K_Conditions, VDict cs); (K_Resources, VDict rs')]) ->
  (forall id r', In (id, r') rs' -> no_fn_dict r' = true /\ rendered ps r' = true) ->
  (resolve_model pseudo decls extra maps cs rs' = Ok (VDict [(K_Conditions, VDict cs); (K_Resources, VDict rs')])
   <-> forallb (fun kv => gate_open (cond_bools cs) (snd kv)) rs' = true).
Proof. exact resolve_model_twice_iff. Qed.
Print Assumptions C03_model_fixed_point_iff.

(* non-vacuity, on a template with a parameter E (default "prod"), conditions IsP = Equals(Ref E, "prod") (true) and
   NotP = Not(Condition IsP) (false), a resource gated by IsP (kept), one gated by NotP (dropped), one ungated, a Ref and two
   Fn::If: the boolean forms of all hypotheses hold, and resolving the result again gives the result *)
Theorem C03_model_fixed_point_ex :
  exists ps,
    bind_params [] ex_decls [] = Ok ps /\
    resolve_model [] ex_decls [] [] ex_cdecl ex_rs = Ok (model_out ex_cs ex_rs') /\
    forallb (fun kv => no_fn_dict (snd kv) && rendered ps (snd kv)) ex_rs' = true /\
    forallb (fun kv => negb (gate_open (cond_bools ex_cs) (snd kv)) || resource_wf ps (snd kv)) ex_rs = true /\
    resolve_model [] ex_decls [] [] ex_cs ex_rs' = Ok (model_out ex_cs ex_rs').
Proof. exact model_fixed_point_ex. Qed.
Print Assumptions C03_model_fixed_point_ex.

(* THE MODEL-LEVEL FIXED POINT WITH HYPOTHESES ON THE TEMPLATE ONLY (fragment of Resolver/Rendered.v).
   On the bound parameters: [params_rendered], [params_plainb].  On every resource of the template that is kept (its gate is open
   under the resolved conditions cs): [resource_in_fragment] -- an object with distinct keys that is not a function object, every
   member in the fragment ([fn_keys_alone], [builds_no_text]), a textual Type, and Type / Condition name texts that rendering
   leaves alone.  Nothing is assumed about the result, the conditions, the Mappings, or the resources that were dropped. *)
Theorem C03_fragment_model_fixed_point : forall pseudo decls extra maps cdecl rs ps cs rs',
  bind_params pseudo decls extra = Ok ps ->
  resolve_model pseudo decls extra maps cdecl rs = Ok (VDict [(K_Conditions, VDict cs); (K_Resources, VDict rs')]) ->
  params_rendered ps = true -> params_plainb ps = true ->
  (forall id r, In (id, r) rs -> gate_open (cond_bools cs) r = true -> resource_in_fragment ps r = true) ->
  resolve_model pseudo decls extra maps cs rs' = Ok (VDict [(K_Conditions, VDict cs); (K_Resources, VDict rs')]).
Proof. exact fragment_model_fixed_point. Qed.
Print Assumptions C03_fragment_model_fixed_point.

(* non-vacuity: on the template of C03_model_fixed_point_ex every hypothesis is a computation on the TEMPLATE and holds *)
Theorem C03_fragment_model_ex :
  exists ps,
    bind_params [] ex_decls [] = Ok ps /\ params_rendered ps = true /\ params_plainb ps = true /\
    forallb (fun kv => resource_in_fragment ps (snd kv)) ex_rs = true /\
    resolve_model [] ex_decls [] [] ex_cdecl ex_rs = Ok (model_out ex_cs ex_rs').
Proof. exact fragment_model_ex. Qed.
Print Assumptions C03_fragment_model_ex.

(* the NAME in a resource's Condition attribute is a literal, like its Type: conditions named True (holds) and true (does not),
   a resource with Condition: True.  The resolved model still says True and resolving it again keeps the resource.  (The code as
   found rendered the name to "true" and the second resolution dropped the resource: repaired, finding F27; the model of the
   code as found and its refutation are in Findings/F27.v.) *)
Theorem C03_model_condition_names_kept :
  exists cs,
    resolve_model [] [] [] [] tt_cdecl tt_rs = Ok (model_out cs tt_rs) /\
    resolve_model [] [] [] [] cs tt_rs = Ok (model_out cs tt_rs).
Proof. exact condition_names_are_kept. Qed.
Print Assumptions C03_model_condition_names_kept.

(* the fixed point is about the SAME assignment: resolved with E = prod and then with E = dev the model does not move, although
   the template resolves differently under E = dev -- a resolved model no longer follows its parameters *)
Theorem C03_resolved_model_is_frozen :
  exists out1 cs1 rs1 out2,
    resolve_model [] ex_decls [] [] ex_cdecl ex_rs = Ok out1 /\ out1 = model_out cs1 rs1 /\
    resolve_model [] ex_decls ex_extra_dev [] cs1 rs1 = Ok out1 /\
    resolve_model [] ex_decls ex_extra_dev [] ex_cdecl ex_rs = Ok out2 /\ out2 <> out1.
Proof. exact resolved_model_is_frozen. Qed.
Print Assumptions C03_resolved_model_is_frozen.
