(* C03 -- A resolved model is concrete and is a fixed point of resolution.
   Statements only; proofs are [exact] of lemmas in Resolver/FixFacts.v. *)
From Coq Require Import List Bool NArith ZArith.
From PV Require Import Base.Str Base.Value Resolver.Consts Resolver.Text Resolver.Resolve Resolver.Spec Resolver.SubFacts
  Resolver.Template Resolver.FixFacts Resolver.ModelFix.
Import ListNotations.
Local Open Scope N_scope.

(* no supported intrinsic function object remains anywhere in the result, provided that in the template a function name is never
   one of several keys of an object ("Condition" -- a resource attribute and a statement element -- excepted when it sits next
   to a null or boolean member, which survives resolution) and parameter values / mapping leaves are strings or lists
   (true of every valid CloudFormation template; the inputs outside are the recorded finding F18) *)
Theorem C03_no_function_left : forall e, params_plain e -> maps_plain e ->
  forall v r, resolve e v = Ok r -> fn_keys_alone v = true -> no_fn_dict r = true.
Proof.
  intros e Hp Hm v r H. apply resolve_iff_eval in H. revert H. exact (proj1 (no_function_left e Hp Hm) v r).
Qed.
Print Assumptions C03_no_function_left.

(* every condition of the resolved model is a boolean *)
Theorem C03_conditions_bool : forall pseudo decls extra maps cdecl rs out,
  resolve_model pseudo decls extra maps cdecl rs = Ok out ->
  exists cs rs', out = VDict [(K_Conditions, VDict cs); (K_Resources, VDict rs')] /\
                 Forall (fun kv => exists b, snd kv = VBool b) cs.
Proof.
  intros pseudo decls extra maps cdecl rs out H. unfold resolve_model in H. bind_inv. inv H.
  eexists. eexists. split; [reflexivity|]. apply Forall_forall. intros [k v] Hin. apply in_map_iff in Hin.
  destruct Hin as ([n b] & Heq & _). inv Heq. exists b. reflexivity.
Qed.
Print Assumptions C03_conditions_bool.

(* a function-free value whose text leaves are already in rendered form is a fixed point: resolving it again changes nothing *)
Theorem C03_fixed_point : forall e v, no_fn_dict v = true -> rendered (params e) v = true -> resolve e v = Ok v.
Proof. exact rendered_fixed_point. Qed.
Print Assumptions C03_fixed_point.

Corollary C03_resolve_twice : forall e v r, params_plain e -> maps_plain e -> fn_keys_alone v = true ->
  resolve e v = Ok r -> rendered (params e) r = true -> resolve e r = Ok r.
Proof.
  intros e v r Hp Hm Hf H Hr. apply C03_fixed_point; [eapply C03_no_function_left; eauto | exact Hr].
Qed.
Print Assumptions C03_resolve_twice.

(* the unconditional claim is false of the faithful model and of the code: known finding F20 *)
Theorem C03_fixed_point_refuted : exists v r r2, resolve e_empty v = Ok r /\ resolve e_empty r = Ok r2 /\ r2 <> r.
Proof. exact fixed_point_refuted. Qed.
Print Assumptions C03_fixed_point_refuted.

(* non-vacuity: a resolved nested expression satisfies the hypotheses of C03_fixed_point *)
Definition e3 : env := {| params := [([80], VStr [84;114;117;101])]; mappings := []; conds := fun _ => Ok false |}.
Example C03_ex : exists r, resolve e3 (VDict [([78], VDict [(K_Ref, VStr [80])]); ([76], VList [VBool true; VInt 7; VDict [(K_Ref, VStr [90])]])]) = Ok r
  /\ no_fn_dict r = true /\ rendered (params e3) r = true /\ resolve e3 r = Ok r.
Proof. eexists. split; [vm_compute; reflexivity|]. repeat split; vm_compute; reflexivity. Qed.

(* ---- the MODEL level: CFModel.resolve applied to its own result (Resolver/ModelFix.v) ---- *)

(* a Conditions section that already holds booleans evaluates to itself -- true AND false -- for all parameters and mappings *)
Theorem C03_conditions_fixed_point : forall ps maps l cdecl,
  cdecl = map (fun nb => (fst nb, VBool (snd nb))) l -> NoDup (keys l) ->
  cond_all ps maps cdecl (keys cdecl) = Ok l.
Proof. exact cond_all_of_bools. Qed.
Print Assumptions C03_conditions_fixed_point.

(* any name looked up in it has its boolean; an undeclared name counts as false, as before *)
Theorem C03_condition_root_of_bools : forall ps maps l n,
  cond_root ps maps (map (fun nb => (fst nb, VBool (snd nb))) l) n = Ok (match lookup n l with Some b => b | None => false end).
Proof. exact cond_root_of_bools. Qed.
Print Assumptions C03_condition_root_of_bools.

(* whatever one resolution wrote as Conditions, the next one (with ANY parameters and mappings) reads back unchanged; no
   hypothesis on the declarations -- a name may even be declared twice *)
Theorem C03_conditions_resolved_twice : forall ps maps decl names l ps' maps',
  cond_all ps maps decl names = Ok l ->
  cond_all ps' maps' (map (fun nb => (fst nb, VBool (snd nb))) l) (keys (map (fun nb => (fst nb, VBool (snd nb))) l)) = Ok l.
Proof. exact cond_all_twice. Qed.
Print Assumptions C03_conditions_resolved_twice.

(* THE MODEL-LEVEL FIXED POINT: m.resolve(p).resolve(p) == m.resolve(p).
   On the result of the first resolution: every resource is function-free and rendered (the hypotheses of C03_fixed_point).
   On the template: every resource that was kept is [resource_wf] -- an object that is not a function object, with distinct keys
   (its Condition NAME and its Type are literals that resolution puts back: C03_model_condition_names_kept below).
   Nothing is assumed about the conditions, the resource ids, or the resources that were dropped. *)
Theorem C03_model_fixed_point : forall pseudo decls extra maps cdecl rs ps cs rs',
  bind_params pseudo decls extra = Ok ps ->
  resolve_model pseudo decls extra maps cdecl rs = Ok (VDict [(K_Conditions, VDict cs); (K_Resources, VDict rs')]) ->
  (forall id r', In (id, r') rs' -> no_fn_dict r' = true /\ rendered ps r' = true) ->
  (forall id r, In (id, r) rs -> gate_open (cond_bools cs) r = true -> resource_wf ps r = true) ->
  resolve_model pseudo decls extra maps cs rs' = Ok (VDict [(K_Conditions, VDict cs); (K_Resources, VDict rs')]).
Proof. exact resolve_model_twice. Qed.
Print Assumptions C03_model_fixed_point.

(* the exact condition, stated on the first result alone: it comes back unchanged iff the gate of each of its resources is
   open under its own (boolean) Conditions *)
Theorem C03_model_fixed_point_iff : forall pseudo decls extra maps cdecl rs ps cs rs',
  bind_params pseudo decls extra = Ok ps ->
  resolve_model pseudo decls extra maps cdecl rs = Ok (VDict [(K_Conditions, VDict cs); (K_Resources, VDict rs')]) ->
  (forall id r', In (id, r') rs' -> no_fn_dict r' = true /\ rendered ps r' = true) ->
  (resolve_model pseudo decls extra maps cs rs' = Ok (VDict [(K_Conditions, VDict cs); (K_Resources, VDict rs')])
   <-> forallb (fun kv => gate_open (cond_bools cs) (snd kv)) rs' = true).
Proof. exact resolve_model_twice_iff. Qed.
Print Assumptions C03_model_fixed_point_iff.

(* non-vacuity, on a template with a parameter E (default "prod"), conditions IsP = Equals(Ref E, "prod") (true) and
   NotP = Not(Condition IsP) (false), a resource gated by IsP (kept), one gated by NotP (dropped), one ungated, a Ref and two
   Fn::If: the boolean forms of all hypotheses hold, and resolving the result again gives the result *)
Theorem C03_model_fixed_point_ex :
  exists ps,
    bind_params [] ex_decls [] = Ok ps /\
    resolve_model [] ex_decls [] [] ex_cdecl ex_rs = Ok (model_out ex_cs ex_rs') /\
    forallb (fun kv => no_fn_dict (snd kv) && rendered ps (snd kv)) ex_rs' = true /\
    forallb (fun kv => negb (gate_open (cond_bools ex_cs) (snd kv)) || resource_wf ps (snd kv)) ex_rs = true /\
    resolve_model [] ex_decls [] [] ex_cs ex_rs' = Ok (model_out ex_cs ex_rs').
Proof. exact model_fixed_point_ex. Qed.
Print Assumptions C03_model_fixed_point_ex.

(* the NAME in a resource's Condition attribute is a literal, like its Type: conditions named True (holds) and true (does not),
   a resource with Condition: True.  The resolved model still says True and resolving it again keeps the resource.  (The code as
   found rendered the name to "true" and the second resolution dropped the resource: repaired, finding F27; the model of the
   code as found and its refutation are in Findings/F27.v.) *)
Theorem C03_model_condition_names_kept :
  exists cs,
    resolve_model [] [] [] [] tt_cdecl tt_rs = Ok (model_out cs tt_rs) /\
    resolve_model [] [] [] [] cs tt_rs = Ok (model_out cs tt_rs).
Proof. exact condition_names_are_kept. Qed.
Print Assumptions C03_model_condition_names_kept.

(* the fixed point is about the SAME assignment: resolved with E = prod and then with E = dev the model does not move, although
   the template resolves differently under E = dev -- a resolved model no longer follows its parameters *)
Theorem C03_resolved_model_is_frozen :
  exists out1 cs1 rs1 out2,
    resolve_model [] ex_decls [] [] ex_cdecl ex_rs = Ok out1 /\ out1 = model_out cs1 rs1 /\
    resolve_model [] ex_decls ex_extra_dev [] cs1 rs1 = Ok out1 /\
    resolve_model [] ex_decls ex_extra_dev [] ex_cdecl ex_rs = Ok out2 /\ out2 <> out1.
Proof. exact resolved_model_is_frozen. Qed.
Print Assumptions C03_resolved_model_is_frozen.
