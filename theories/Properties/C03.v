(* C03 -- A resolved model is concrete and is a fixed point of resolution.
   Statements only; proofs are [exact] of lemmas in Resolver/FixFacts.v. *)
From Coq Require Import List Bool NArith ZArith.
From PV Require Import Base.Str Base.Value Resolver.Consts Resolver.Text Resolver.Resolve Resolver.Spec Resolver.SubFacts
  Resolver.Template Resolver.FixFacts.
Import ListNotations.
Local Open Scope N_scope.

(* no supported intrinsic function object remains anywhere in the result, provided that in the template a function name is never
   one of several keys of an object ("Condition" -- a resource attribute and a statement element -- excepted when it sits next
   to a null or boolean member, which survives resolution) and parameter values / mapping leaves are strings or lists
   (true of every valid CloudFormation template; the inputs outside are the recorded finding F18) *)
Theorem C03_no_function_left : forall e, params_plain e -> maps_plain e ->
  forall v r, resolve e v = Ok r -> fn_keys_alone v = true -> no_fn_dict r = true.
Proof.
  intros e Hp Hm v r H. apply resolve_iff_eval in H. revert H. exact (proj1 (no_function_left e Hp Hm) v r).
Qed.
Print Assumptions C03_no_function_left.

(* every condition of the resolved model is a boolean *)
Theorem C03_conditions_bool : forall pseudo decls extra maps cdecl rs out,
  resolve_model pseudo decls extra maps cdecl rs = Ok out ->
  exists cs rs', out = VDict [(K_Conditions, VDict cs); (K_Resources, VDict rs')] /\
                 Forall (fun kv => exists b, snd kv = VBool b) cs.
Proof.
  intros pseudo decls extra maps cdecl rs out H. unfold resolve_model in H. bind_inv. inv H.
  eexists. eexists. split; [reflexivity|]. apply Forall_forall. intros [k v] Hin. apply in_map_iff in Hin.
  destruct Hin as ([n b] & Heq & _). inv Heq. exists b. reflexivity.
Qed.
Print Assumptions C03_conditions_bool.

(* a function-free value whose text leaves are already in rendered form is a fixed point: resolving it again changes nothing *)
Theorem C03_fixed_point : forall e v, no_fn_dict v = true -> rendered (params e) v = true -> resolve e v = Ok v.
Proof. exact rendered_fixed_point. Qed.
Print Assumptions C03_fixed_point.

Corollary C03_resolve_twice : forall e v r, params_plain e -> maps_plain e -> fn_keys_alone v = true ->
  resolve e v = Ok r -> rendered (params e) r = true -> resolve e r = Ok r.
Proof.
  intros e v r Hp Hm Hf H Hr. apply C03_fixed_point; [eapply C03_no_function_left; eauto | exact Hr].
Qed.
Print Assumptions C03_resolve_twice.

(* the unconditional claim is false of the faithful model and of the code: known finding F20 *)
Theorem C03_fixed_point_refuted : exists v r r2, resolve e_empty v = Ok r /\ resolve e_empty r = Ok r2 /\ r2 <> r.
Proof. exact fixed_point_refuted. Qed.
Print Assumptions C03_fixed_point_refuted.

(* non-vacuity: a resolved nested expression satisfies the hypotheses of C03_fixed_point *)
Definition e3 : env := {| params := [([80], VStr [84;114;117;101])]; mappings := []; conds := fun _ => Ok false |}.
Example C03_ex : exists r, resolve e3 (VDict [([78], VDict [(K_Ref, VStr [80])]); ([76], VList [VBool true; VInt 7; VDict [(K_Ref, VStr [90])]])]) = Ok r
  /\ no_fn_dict r = true /\ rendered (params e3) r = true /\ resolve e3 r = Ok r.
Proof. eexists. split; [vm_compute; reflexivity|]. repeat split; vm_compute; reflexivity. Qed.
