(* C01 -- Intrinsic value functions resolve to their CloudFormation-defined value.
   Statements only; proofs are [exact] of lemmas in Resolver/Spec.v, Resolver/SubFacts.v and Resolver/SubSpec.v. *)
From Coq Require Import List Bool NArith ZArith.
From PV Require Import Base.Str Base.Value Resolver.Consts Resolver.Text Resolver.Resolve Resolver.Spec Resolver.SubFacts Resolver.SubSpec.
Import ListNotations.
Local Open Scope N_scope.

(* The executable model computes EXACTLY the declarative big-step relation [Eval] (one rule per construct, any
   nesting depth, anywhere in lists and objects): sound, complete, hence deterministic. *)
Theorem C01_eval_iff : forall e v r, resolve e v = Ok r <-> Eval e v r.
Proof. exact resolve_iff_eval. Qed.
Print Assumptions C01_eval_iff.

Theorem C01_deterministic : forall e v a b, Eval e v a -> Eval e v b -> a = b.
Proof. exact eval_deterministic. Qed.
Print Assumptions C01_deterministic.

(* Fn::Sub: the text is cut into literal characters and placeholders without losing, duplicating or reordering anything ... *)
Theorem C01_sub_tokens_partition : forall text, concat (map tok_src (sub_tokens text)) = text.
Proof. exact sub_tokens_partition. Qed.
Print Assumptions C01_sub_tokens_partition.

(* ... and the cut is THE one Python's  re.sub  makes with the pattern  \$\{(!?)([\w:]+)\}  (a partition alone could
   also be the tokeniser that finds nothing).  [Scan] (Resolver/SubSpec.v) is the declarative left-to-right,
   non-overlapping scan:
     Match ("${"  n "}" rest) (TVar n)  rest      Match ("${!" n "}" rest) (TBang n) rest      (n : one or more of [\w:])
     Scan [] []
     Match s t rest -> Scan rest ts -> Scan s (t :: ts)                            (a match: go on AFTER it)
     ~ starts_placeholder (c :: r) -> Scan r ts -> Scan (c :: r) (TText c :: ts)   (no match here: literal character)
   and [sub_tokens text] is the one and only scan of [text].   $ = 36  { = 123  } = 125  ! = 33 *)
Theorem C01_sub_tokeniser_is_the_regex : forall text ts, Scan text ts <-> ts = sub_tokens text.
Proof. exact Scan_iff. Qed.
Print Assumptions C01_sub_tokeniser_is_the_regex.

(* the executable placeholder test is the regex match, and "the regex matches here" spelled out *)
Theorem C01_sub_match_is_the_regex : forall s t rest, placeholder_at s = Some (t, rest) <-> Match s t rest.
Proof. exact placeholder_at_iff. Qed.
Print Assumptions C01_sub_match_is_the_regex.
Theorem C01_sub_starts_placeholder : forall s,
  starts_placeholder s <->
  exists n rest, valid_name n /\ (s = 36 :: 123 :: n ++ 125 :: rest \/ s = 36 :: 123 :: 33 :: n ++ 125 :: rest).
Proof. exact starts_placeholder_iff. Qed.
Print Assumptions C01_sub_starts_placeholder.

(* every well-formed placeholder is found, wherever it stands:  pre "${" n "}" post   and   pre "${!" n "}" post.
   No condition on [pre] or [post]: "$" can only be the first character of a match, so nothing that began
   in [pre] can swallow it. *)
Theorem C01_sub_finds_placeholder : forall pre n post, valid_name n ->
  sub_tokens (pre ++ 36 :: 123 :: n ++ 125 :: post) = sub_tokens pre ++ TVar n :: sub_tokens post.
Proof. exact sub_finds_placeholder. Qed.
Print Assumptions C01_sub_finds_placeholder.
Theorem C01_sub_finds_bang : forall pre n post, valid_name n ->
  sub_tokens (pre ++ 36 :: 123 :: 33 :: n ++ 125 :: post) = sub_tokens pre ++ TBang n :: sub_tokens post.
Proof. exact sub_finds_bang. Qed.
Print Assumptions C01_sub_finds_bang.

(* cutting anywhere else: fine as soon as [pre] leaves no placeholder open
   ([closed]: no suffix of [pre] is "$", "${" + name characters or "${!" + name characters) *)
Theorem C01_sub_tokens_app : forall pre x, closed pre -> sub_tokens (pre ++ x) = sub_tokens pre ++ sub_tokens x.
Proof. exact sub_tokens_app_closed. Qed.
Print Assumptions C01_sub_tokens_app.

(* Take any token [t] of the tokenisation, [before] = the source text of the tokens before it, [here] = the text
   from [t] on.  A placeholder token carries a genuine name (its source "${" n "}" / "${!" n "}" is a regex match:
   nothing is invented); a literal-character token stands where the regex does NOT match (nothing is missed). *)
Theorem C01_sub_misses_nothing : forall text ts1 t ts2, sub_tokens text = ts1 ++ t :: ts2 ->
  let before := concat (map tok_src ts1) in
  let here := tok_src t ++ concat (map tok_src ts2) in
  text = before ++ here /\
  match t with
  | TVar n => valid_name n
  | TBang n => valid_name n
  | TText c => ~ starts_placeholder here
  end.
Proof. exact sub_misses_nothing. Qed.
Print Assumptions C01_sub_misses_nothing.

(* "everything is literal text" is the answer exactly when the regex matches at no position of the text ... *)
Theorem C01_sub_all_text_iff : forall text,
  sub_tokens text = map TText text <-> (forall a u, text = a ++ u -> ~ starts_placeholder u).
Proof. exact sub_all_text_iff. Qed.
Print Assumptions C01_sub_all_text_iff.

(* ... so the tokeniser that finds nothing, although a partition of every text, is refuted by "${A}" *)
Theorem C01_sub_all_text_refuted :
  (forall text, concat (map tok_src (map TText text)) = text)
  /\ ~ Scan [36;123;65;125] (map TText [36;123;65;125])
  /\ Scan [36;123;65;125] [TVar [65]].
Proof. exact sub_all_text_refuted. Qed.
Print Assumptions C01_sub_all_text_refuted.

(* end to end.  pre "${" n "}" post  -->  (pre substituted) (value of n, once) (post substituted);
                pre "${!" n "}" post -->  (pre substituted) "${" n "}" (post substituted);  no "$": unchanged *)
Theorem C01_sub_placeholder_end_to_end : forall e custom pre n post a b c, valid_name n ->
  do_sub e pre custom = Ok (VStr a) -> render_var e custom n = Ok b -> do_sub e post custom = Ok (VStr c) ->
  do_sub e (pre ++ 36 :: 123 :: n ++ 125 :: post) custom = Ok (VStr (a ++ b ++ c)).
Proof. exact do_sub_placeholder. Qed.
Print Assumptions C01_sub_placeholder_end_to_end.
Theorem C01_sub_bang_end_to_end : forall e custom pre n post a c, valid_name n ->
  do_sub e pre custom = Ok (VStr a) -> do_sub e post custom = Ok (VStr c) ->
  do_sub e (pre ++ 36 :: 123 :: 33 :: n ++ 125 :: post) custom = Ok (VStr (a ++ (36 :: 123 :: n ++ [125]) ++ c)).
Proof. exact do_sub_bang. Qed.
Print Assumptions C01_sub_bang_end_to_end.
Theorem C01_sub_no_dollar : forall e text custom, ~ In 36 text -> do_sub e text custom = Ok (VStr text).
Proof. exact do_sub_no_dollar. Qed.
Print Assumptions C01_sub_no_dollar.

(* ... and the result is the concatenation of each token rendered exactly once, left to right *)
Theorem C01_sub_once : forall e text custom r,
  do_sub e text custom = Ok (VStr r) <->
  exists pieces, Forall2 (fun t p => render_tok e custom t = Ok p) (sub_tokens text) pieces /\ r = concat pieces.
Proof. exact sub_once. Qed.
Print Assumptions C01_sub_once.

(* inserted text is never scanned again *)
Theorem C01_sub_no_rescan : forall e custom n s, valid_name n -> hd 0 n <> 33 ->
  render_var e custom n = Ok s -> do_sub e (36 :: 123 :: n ++ [125]) custom = Ok (VStr s).
Proof. exact sub_no_rescan. Qed.
Print Assumptions C01_sub_no_rescan.

(* ${!literal} is kept as the literal ${literal} *)
Theorem C01_sub_bang : forall e custom n, render_tok e custom (TBang n) = Ok (36 :: 123 :: n ++ [125]).
Proof. exact render_bang. Qed.
Print Assumptions C01_sub_bang.

(* variables are bound first from the expression's own map, then from the parameters; unbound ones stay as written *)
Theorem C01_sub_local_first : forall e custom n x, lookup n custom = Some x ->
  render_tok e custom (TVar n) = (x' <- normalize (params e) x ;; match x' with VStr s => Ok s | _ => Err EUndefined end).
Proof. exact render_local_first. Qed.
Print Assumptions C01_sub_local_first.
Theorem C01_sub_param : forall e custom n x, lookup n custom = None -> lookup n (params e) = Some x ->
  render_tok e custom (TVar n) = (x' <- normalize (params e) x ;; match x' with VStr s => Ok s | _ => Err EUndefined end).
Proof. exact render_param. Qed.
Print Assumptions C01_sub_param.
Theorem C01_sub_unbound : forall e custom n, lookup n custom = None -> lookup n (params e) = None ->
  render_tok e custom (TVar n) = Ok (36 :: 123 :: n ++ [125]).
Proof. exact render_unbound. Qed.
Print Assumptions C01_sub_unbound.

(* undefined references yield the stable placeholder text instead of an error *)
Theorem C01_ref_undefined : forall e body s,
  resolve e body = Ok (VStr s) -> lookup s (params e) = None ->
  resolve e (VDict [(K_Ref, body)]) = Ok (VStr (undefined_param s))
  /\ resolve e (VDict [(K_ImportValue, body)]) = Ok (VStr (undefined_param s)).
Proof. exact ref_undefined. Qed.
Print Assumptions C01_ref_undefined.

Theorem C01_ref_defined : forall e body s x,
  resolve e body = Ok (VStr s) -> lookup s (params e) = Some x ->
  resolve e (VDict [(K_Ref, body)]) = normalize (params e) x.
Proof. exact ref_defined. Qed.
Print Assumptions C01_ref_defined.

Theorem C01_find_in_map : forall e m k1 k2, mappings_wf e ->
  do_find_in_map e (VStr m) (VStr k1) (VStr k2) =
  Ok (match mapping_leaf e m k1 k2 with Some leaf => leaf | None => VStr (undefined_mapping m k1 k2) end).
Proof. exact find_in_map_spec. Qed.
Print Assumptions C01_find_in_map.

(* an out-of-range Fn::Select (negative indices included) yields an empty list *)
Theorem C01_select : forall s ls z, parse_int s = Some z ->
  do_select (VStr s) (VList ls) =
  Ok (if (0 <=? z)%Z && (z <? Z.of_nat (length ls))%Z then nth (Z.to_nat z) ls (VList []) else VList []).
Proof. exact select_spec. Qed.
Print Assumptions C01_select.

(* ---- non-vacuity and the witnesses of the repaired defects ---- *)
Definition e0 : env := {| params := [([65], VStr [49]); ([66], VStr [36;123;65;125])]; mappings := []; conds := fun _ => Ok false |}.
(* "x${A}y${!A}z" with A = "1"  -->  "x1y${A}z" *)
Example C01_ex_bang : resolve e0 (VDict [(K_Sub, VStr [120;36;123;65;125;121;36;123;33;65;125;122])])
  = Ok (VStr [120;49;121;36;123;65;125;122]).
Proof. vm_compute. reflexivity. Qed.
(* "${B}-${A}" with B = "${A}"  -->  "${A}-1": the inserted "${A}" is not substituted again *)
Example C01_ex_no_rescan : resolve e0 (VDict [(K_Sub, VStr [36;123;66;125;45;36;123;65;125])])
  = Ok (VStr [36;123;65;125;45;49]).
Proof. vm_compute. reflexivity. Qed.
(* [Sub ["${V}", {V: "l"}], Ref V]  -->  ["l", "UNDEFINED_PARAM_V"]: the local variable is invisible outside *)
Example C01_ex_scope :
  resolve e0 (VList [VDict [(K_Sub, VList [VStr [36;123;86;125]; VDict [([86], VStr [108])]])]; VDict [(K_Ref, VStr [86])]])
  = Ok (VList [VStr [108]; VStr (undefined_param [86])]).
Proof. vm_compute. reflexivity. Qed.
Example C01_ex_select_negative : resolve e0 (VDict [(K_Select, VList [VInt (-1); VList [VStr [97]; VStr [98]]])]) = Ok (VList []).
Proof. vm_compute. reflexivity. Qed.
Example C01_ex_nested : resolve e0 (VDict [(K_Join, VList [VStr [45]; VList [VDict [(K_Ref, VStr [65])]; VDict [(K_Base64, VStr [97])]; VBool true]])])
  = Ok (VStr [49;45;89;81;61;61;45;116;114;117;101]).
Proof. vm_compute. reflexivity. Qed.
(* the tokeniser on the same text: x ${A} y ${!A} z;  "${A.B}", "${ A }", "$A", "${}" and "${!}" are literal text *)
Example C01_ex_tokens : sub_tokens [120;36;123;65;125;121;36;123;33;65;125;122]
  = [TText 120; TVar [65]; TText 121; TBang [65]; TText 122].
Proof. vm_compute. reflexivity. Qed.
Example C01_ex_not_placeholders :
  sub_tokens [36;123;65;46;66;125] = map TText [36;123;65;46;66;125]
  /\ sub_tokens [36;123;32;65;32;125] = map TText [36;123;32;65;32;125]
  /\ sub_tokens [36;65] = map TText [36;65]
  /\ sub_tokens [36;123;125] = map TText [36;123;125]
  /\ sub_tokens [36;123;33;125] = map TText [36;123;33;125].
Proof. vm_compute. repeat split; reflexivity. Qed.
(* "${${A}" : the open "${" is literal, the placeholder after it is still found *)
Example C01_ex_open_then_placeholder : sub_tokens [36;123;36;123;65;125] = [TText 36; TText 123; TVar [65]].
Proof. vm_compute. reflexivity. Qed.
