(* C01 -- Intrinsic value functions resolve to their CloudFormation-defined value.
   Statements only; proofs are [exact] of lemmas in Resolver/Spec.v, Resolver/SubFacts.v, Resolver/SubSpec.v and (the algebraic
   laws, second half of the file) Resolver/FnAlgebra.v. *)
From Coq Require Import List Bool NArith ZArith.
From PV Require Import Base.Str Base.Value Resolver.Consts Resolver.Text Resolver.Resolve Resolver.Spec Resolver.SubFacts Resolver.SubSpec
  Resolver.Template Resolver.ParamFacts Resolver.FixFacts Resolver.Rendered Robust.Validators Resolver.FnAlgebra.
Import ListNotations.
Local Open Scope N_scope.

(* The executable model computes EXACTLY the declarative big-step relation [Eval] (one rule per construct, any
   nesting depth, anywhere in lists and objects): sound, complete, hence deterministic. *)
Theorem C01_eval_iff : forall e v r, resolve e v = Ok r <-> Eval e v r.
Proof. exact resolve_iff_eval. Qed.
Print Assumptions C01_eval_iff.

Theorem C01_deterministic : forall e v a b, Eval e v a -> Eval e v b -> a = b.
Proof. exact eval_deterministic. Qed.
Print Assumptions C01_deterministic.

(* Fn::Sub: the text is cut into literal characters and placeholders without losing, duplicating or reordering anything ... *)
Theorem C01_sub_tokens_partition : forall text, concat (map tok_src (sub_tokens text)) = text.
Proof. exact sub_tokens_partition. Qed.
Print Assumptions C01_sub_tokens_partition.

(* ... and the cut is THE one Python's  re.sub  makes with the pattern  \$\{(!?)([\w:]+)\}  (a partition alone could
   also be the tokeniser that finds nothing).  [Scan] (Resolver/SubSpec.v) is the declarative left-to-right,
   non-overlapping scan:
     Match ("${"  n "}" rest) (TVar n)  rest      Match ("${!" n "}" rest) (TBang n) rest      (n : one or more of [\w:])
     Scan [] []
     Match s t rest -> Scan rest ts -> Scan s (t :: ts)                            (a match: go on AFTER it)
     ~ starts_placeholder (c :: r) -> Scan r ts -> Scan (c :: r) (TText c :: ts)   (no match here: literal character)
   and [sub_tokens text] is the one and only scan of [text].   $ = 36  { = 123  } = 125  ! = 33 *)
Theorem C01_sub_tokeniser_is_the_regex : forall text ts, Scan text ts <-> ts = sub_tokens text.
Proof. exact Scan_iff. Qed.
Print Assumptions C01_sub_tokeniser_is_the_regex.

(* the executable placeholder test is the regex match, and "the regex matches here" spelled out *)
Theorem C01_sub_match_is_the_regex : forall s t rest, placeholder_at s = Some (t, rest) <-> Match s t rest.
Proof. exact placeholder_at_iff. Qed.
Print Assumptions C01_sub_match_is_the_regex.
Theorem C01_sub_starts_placeholder : forall s,
  starts_placeholder s <->
  exists n rest, valid_name n /\ (s = 36 :: 123 :: n ++ 125 :: rest \/ s = 36 :: 123 :: 33 :: n ++ 125 :: rest).
Proof. exact starts_placeholder_iff. Qed.
Print Assumptions C01_sub_starts_placeholder.

(* every well-formed placeholder is found, wherever it stands:  pre "${" n "}" post   and   pre "${!" n "}" post.
   No condition on [pre] or [post]: "$" can only be the first character of a match, so nothing that began
   in [pre] can swallow it. *)
Theorem C01_sub_finds_placeholder : forall pre n post, valid_name n ->
  sub_tokens (pre ++ 36 :: 123 :: n ++ 125 :: post) = sub_tokens pre ++ TVar n :: sub_tokens post.
Proof. exact sub_finds_placeholder. Qed.
Print Assumptions C01_sub_finds_placeholder.
Theorem C01_sub_finds_bang : forall pre n post, valid_name n ->
  sub_tokens (pre ++ 36 :: 123 :: 33 :: n ++ 125 :: post) = sub_tokens pre ++ TBang n :: sub_tokens post.
Proof. exact sub_finds_bang. Qed.
Print Assumptions C01_sub_finds_bang.

(* cutting anywhere else: fine as soon as [pre] leaves no placeholder open
   ([closed]: no suffix of [pre] is "$", "${" + name characters or "${!" + name characters) *)
Theorem C01_sub_tokens_app : forall pre x, closed pre -> sub_tokens (pre ++ x) = sub_tokens pre ++ sub_tokens x.
Proof. exact sub_tokens_app_closed. Qed.
Print Assumptions C01_sub_tokens_app.

(* Take any token [t] of the tokenisation, [before] = the source text of the tokens before it, [here] = the text
   from [t] on.  A placeholder token carries a genuine name (its source "${" n "}" / "${!" n "}" is a regex match:
   nothing is invented); a literal-character token stands where the regex does NOT match (nothing is missed). *)
Theorem C01_sub_misses_nothing : forall text ts1 t ts2, sub_tokens text = ts1 ++ t :: ts2 ->
  let before := concat (map tok_src ts1) in
  let here := tok_src t ++ concat (map tok_src ts2) in
  text = before ++ here /\
  match t with
  | TVar n => valid_name n
  | TBang n => valid_name n
  | TText c => ~ starts_placeholder here
  end.
Proof. exact sub_misses_nothing. Qed.
Print Assumptions C01_sub_misses_nothing.

(* "everything is literal text" is the answer exactly when the regex matches at no position of the text ... *)
Theorem C01_sub_all_text_iff : forall text,
  sub_tokens text = map TText text <-> (forall a u, text = a ++ u -> ~ starts_placeholder u).
Proof. exact sub_all_text_iff. Qed.
Print Assumptions C01_sub_all_text_iff.

(* ... so the tokeniser that finds nothing, although a partition of every text, is refuted by "${A}" *)
Theorem C01_sub_all_text_refuted :
  (forall text, concat (map tok_src (map TText text)) = text)
  /\ ~ Scan [36;123;65;125] (map TText [36;123;65;125])
  /\ Scan [36;123;65;125] [TVar [65]].
Proof. exact sub_all_text_refuted. Qed.
Print Assumptions C01_sub_all_text_refuted.

(* end to end.  pre "${" n "}" post  -->  (pre substituted) (value of n, once) (post substituted);
                pre "${!" n "}" post -->  (pre substituted) "${" n "}" (post substituted);  no "$": unchanged *)
Theorem C01_sub_placeholder_end_to_end : forall e custom pre n post a b c, valid_name n ->
  do_sub e pre custom = Ok (VStr a) -> render_var e custom n = Ok b -> do_sub e post custom = Ok (VStr c) ->
  do_sub e (pre ++ 36 :: 123 :: n ++ 125 :: post) custom = Ok (VStr (a ++ b ++ c)).
Proof. exact do_sub_placeholder. Qed.
Print Assumptions C01_sub_placeholder_end_to_end.
Theorem C01_sub_bang_end_to_end : forall e custom pre n post a c, valid_name n ->
  do_sub e pre custom = Ok (VStr a) -> do_sub e post custom = Ok (VStr c) ->
  do_sub e (pre ++ 36 :: 123 :: 33 :: n ++ 125 :: post) custom = Ok (VStr (a ++ (36 :: 123 :: n ++ [125]) ++ c)).
Proof. exact do_sub_bang. Qed.
Print Assumptions C01_sub_bang_end_to_end.
Theorem C01_sub_no_dollar : forall e text custom, ~ In 36 text -> do_sub e text custom = Ok (VStr text).
Proof. exact do_sub_no_dollar. Qed.
Print Assumptions C01_sub_no_dollar.

(* ... and the result is the concatenation of each token rendered exactly once, left to right *)
Theorem C01_sub_once : forall e text custom r,
  do_sub e text custom = Ok (VStr r) <->
  exists pieces, Forall2 (fun t p => render_tok e custom t = Ok p) (sub_tokens text) pieces /\ r = concat pieces.
Proof. exact sub_once. Qed.
Print Assumptions C01_sub_once.

(* inserted text is never scanned again *)
Theorem C01_sub_no_rescan : forall e custom n s, valid_name n -> hd 0 n <> 33 ->
  render_var e custom n = Ok s -> do_sub e (36 :: 123 :: n ++ [125]) custom = Ok (VStr s).
Proof. exact sub_no_rescan. Qed.
Print Assumptions C01_sub_no_rescan.

(* ${!literal} is kept as the literal ${literal} *)
Theorem C01_sub_bang : forall e custom n, render_tok e custom (TBang n) = Ok (36 :: 123 :: n ++ [125]).
Proof. exact render_bang. Qed.
Print Assumptions C01_sub_bang.

(* variables are bound first from the expression's own map, then from the parameters; unbound ones stay as written *)
Theorem C01_sub_local_first : forall e custom n x, lookup n custom = Some x ->
  render_tok e custom (TVar n) = (x' <- normalize (params e) x ;; match x' with VStr s => Ok s | _ => Err EUndefined end).
Proof. exact render_local_first. Qed.
Print Assumptions C01_sub_local_first.
Theorem C01_sub_param : forall e custom n x, lookup n custom = None -> lookup n (params e) = Some x ->
  render_tok e custom (TVar n) = (x' <- normalize (params e) x ;; match x' with VStr s => Ok s | _ => Err EUndefined end).
Proof. exact render_param. Qed.
Print Assumptions C01_sub_param.
Theorem C01_sub_unbound : forall e custom n, lookup n custom = None -> lookup n (params e) = None ->
  render_tok e custom (TVar n) = Ok (36 :: 123 :: n ++ [125]).
Proof. exact render_unbound. Qed.
Print Assumptions C01_sub_unbound.

(* undefined references yield the stable placeholder text instead of an error *)
Theorem C01_ref_undefined : forall e body s,
  resolve e body = Ok (VStr s) -> lookup s (params e) = None ->
  resolve e (VDict [(K_Ref, body)]) = Ok (VStr (undefined_param s))
  /\ resolve e (VDict [(K_ImportValue, body)]) = Ok (VStr (undefined_param s)).
Proof. exact ref_undefined. Qed.
Print Assumptions C01_ref_undefined.

Theorem C01_ref_defined : forall e body s x,
  resolve e body = Ok (VStr s) -> lookup s (params e) = Some x ->
  resolve e (VDict [(K_Ref, body)]) = normalize (params e) x.
Proof. exact ref_defined. Qed.
Print Assumptions C01_ref_defined.

(* [mapping_leaf] (Resolver/SubFacts.v): the map name exactly, the two keys by [lookup_bk] (repair of F31: exactly, else -- for the
   texts "true" / "false" -- by the first entry whose key lower-cases to it), a null leaf counting as missing *)
Theorem C01_mapping_leaf_unfold : forall e m k1 k2,
  mapping_leaf e m k1 k2 =
  match lookup m (mappings e) with
  | Some (VDict top) => match lookup_bk k1 top with
                        | Some (VDict snd_) => match lookup_bk k2 snd_ with Some VNull => None | x => x end
                        | _ => None
                        end
  | _ => None
  end.
Proof. reflexivity. Qed.
Theorem C01_find_in_map : forall e m k1 k2, mappings_wf e ->
  do_find_in_map e (VStr m) (VStr k1) (VStr k2) =
  Ok (match mapping_leaf e m k1 k2 with Some leaf => leaf | None => VStr (undefined_mapping m k1 k2) end).
Proof. exact find_in_map_spec. Qed.
Print Assumptions C01_find_in_map.

(* an out-of-range Fn::Select (negative indices included) yields an empty list *)
Theorem C01_select : forall s ls z, parse_int s = Some z ->
  do_select (VStr s) (VList ls) =
  Ok (if (0 <=? z)%Z && (z <? Z.of_nat (length ls))%Z then nth (Z.to_nat z) ls (VList []) else VList []).
Proof. exact select_spec. Qed.
Print Assumptions C01_select.

(* ---- non-vacuity and the witnesses of the repaired defects ---- *)
Definition e0 : env := {| params := [([65], VStr [49]); ([66], VStr [36;123;65;125])]; mappings := []; conds := fun _ => Ok false |}.
(* "x${A}y${!A}z" with A = "1"  -->  "x1y${A}z" *)
Example C01_ex_bang : resolve e0 (VDict [(K_Sub, VStr [120;36;123;65;125;121;36;123;33;65;125;122])])
  = Ok (VStr [120;49;121;36;123;65;125;122]).
Proof. vm_compute. reflexivity. Qed.
(* "${B}-${A}" with B = "${A}"  -->  "${A}-1": the inserted "${A}" is not substituted again *)
Example C01_ex_no_rescan : resolve e0 (VDict [(K_Sub, VStr [36;123;66;125;45;36;123;65;125])])
  = Ok (VStr [36;123;65;125;45;49]).
Proof. vm_compute. reflexivity. Qed.
(* [Sub ["${V}", {V: "l"}], Ref V]  -->  ["l", "UNDEFINED_PARAM_V"]: the local variable is invisible outside *)
Example C01_ex_scope :
  resolve e0 (VList [VDict [(K_Sub, VList [VStr [36;123;86;125]; VDict [([86], VStr [108])]])]; VDict [(K_Ref, VStr [86])]])
  = Ok (VList [VStr [108]; VStr (undefined_param [86])]).
Proof. vm_compute. reflexivity. Qed.
Example C01_ex_select_negative : resolve e0 (VDict [(K_Select, VList [VInt (-1); VList [VStr [97]; VStr [98]]])]) = Ok (VList []).
Proof. vm_compute. reflexivity. Qed.
Example C01_ex_nested : resolve e0 (VDict [(K_Join, VList [VStr [45]; VList [VDict [(K_Ref, VStr [65])]; VDict [(K_Base64, VStr [97])]; VBool true]])])
  = Ok (VStr [49;45;89;81;61;61;45;116;114;117;101]).
Proof. vm_compute. reflexivity. Qed.
(* the tokeniser on the same text: x ${A} y ${!A} z;  "${A.B}", "${ A }", "$A", "${}" and "${!}" are literal text *)
Example C01_ex_tokens : sub_tokens [120;36;123;65;125;121;36;123;33;65;125;122]
  = [TText 120; TVar [65]; TText 121; TBang [65]; TText 122].
Proof. vm_compute. reflexivity. Qed.
Example C01_ex_not_placeholders :
  sub_tokens [36;123;65;46;66;125] = map TText [36;123;65;46;66;125]
  /\ sub_tokens [36;123;32;65;32;125] = map TText [36;123;32;65;32;125]
  /\ sub_tokens [36;65] = map TText [36;65]
  /\ sub_tokens [36;123;125] = map TText [36;123;125]
  /\ sub_tokens [36;123;33;125] = map TText [36;123;33;125].
Proof. vm_compute. repeat split; reflexivity. Qed.
(* "${${A}" : the open "${" is literal, the placeholder after it is still found *)
Example C01_ex_open_then_placeholder : sub_tokens [36;123;36;123;65;125] = [TText 36; TText 123; TVar [65]].
Proof. vm_compute. reflexivity. Qed.

(* ================================================================================================================== *)
(* ALGEBRAIC LAWS of the value functions (Resolver/FnAlgebra.v).  Laws that are FALSE of the model are stated as
   [..._refuted] with their witness; each witness was replayed on the library and the library agrees with the model
   (answers in the header of FnAlgebra.v).  Notation: FJoin d l = {"Fn::Join": [d, l]}, FSplit, FSelect, FFindInMap, FRef,
   FImport, FBase64, FSub text = {"Fn::Sub": text}, FSubV text vars = {"Fn::Sub": [text, vars]}; ph n = "${n}".
   Code points: , 44  - 45  0 48  1 49  A 65  a 97  x 120.                                                              *)
(* ================================================================================================================== *)
(* Examples use [e1] (FnAlgebra.v): A = "1", B = "${A}", L = ["a", "TRUE", 1, true], N = 7;  Mappings {M: {a: {b: "leaf"}}} *)

(* ---- 1. Fn::Join / Fn::Split ---- *)
(* on texts: Join d (Split d s) = s, whatever d and s *)
Theorem C01_join_split_text : forall d s, join d (split d s) = s.
Proof. exact join_split. Qed.
Print Assumptions C01_join_split_text.
Theorem C01_join_split : forall e dl s ds ss,
  resolve e dl = Ok (VStr ds) -> ds <> [] -> resolve e s = Ok (VStr ss) ->
  resolve e (FJoin dl (FSplit dl s)) = Ok (VStr ss).
Proof. exact resolve_join_split. Qed.
Print Assumptions C01_join_split.
Example C01_ex_join_split :
  resolve e1 (VStr [97;97]) = Ok (VStr [97;97]) /\ resolve e1 (VStr [97;97;97;120;97;97]) = Ok (VStr [97;97;97;120;97;97]) /\
  resolve e1 (FJoin (VStr [97;97]) (FSplit (VStr [97;97]) (VStr [97;97;97;120;97;97]))) = Ok (VStr [97;97;97;120;97;97]).
Proof. repeat split; vm_compute; reflexivity. Qed.
(* an empty delimiter is an error (Python: ValueError "empty separator") *)
Theorem C01_split_empty_delimiter : forall e dl s ss,
  resolve e dl = Ok (VStr []) -> resolve e s = Ok (VStr ss) -> resolve e (FSplit dl s) = Err EValue.
Proof. exact resolve_split_empty_delimiter. Qed.
Print Assumptions C01_split_empty_delimiter.

(* Split d (Join d l) = l: l non-empty, no member contains the FIRST code point c of d = c :: d' *)
Theorem C01_split_join_text : forall c d' l, l <> [] -> Forall (fun x => ~ In c x) l -> split (c :: d') (join (c :: d') l) = l.
Proof. exact split_join. Qed.
Print Assumptions C01_split_join_text.
Theorem C01_split_join : forall e dl l c d' ls,
  resolve e dl = Ok (VStr (c :: d')) -> resolve e l = Ok (VList (map VStr ls)) ->
  ls <> [] -> Forall (fun x => ~ In c x) ls ->
  resolve e (FSplit dl (FJoin dl l)) = Ok (VList (map VStr ls)).
Proof. exact resolve_split_join. Qed.
Print Assumptions C01_split_join.
Example C01_ex_split_join :
  let l := VList [FRef (VStr [65]); VStr []; VStr [120]] in
  resolve e1 (VStr [44]) = Ok (VStr [44]) /\ resolve e1 l = Ok (VList (map VStr [[49]; []; [120]])) /\
  Forall (fun x => ~ In 44 x) [[49]; []; [120]] /\
  resolve e1 (FSplit (VStr [44]) (FJoin (VStr [44]) l)) = Ok (VList (map VStr [[49]; []; [120]])).
Proof. cbv zeta. repeat split; try (vm_compute; reflexivity). repeat constructor; simpl; intuition discriminate. Qed.
(* for a one-character delimiter that is "no member contains d" ([occurs d x]: d is a substring of x) ... *)
Theorem C01_split_join_char : forall c l, l <> [] -> Forall (fun x => occurs [c] x = false) l -> split [c] (join [c] l) = l.
Proof. exact split_join_char. Qed.
Print Assumptions C01_split_join_char.
Theorem C01_occurs : forall d s, occurs d s = true <-> exists a b, s = a ++ d ++ b.
Proof. exact occurs_spec. Qed.
Print Assumptions C01_occurs.
(* ... and for longer delimiters that law is FALSE: d = "aa", l = ["a"; "x"] ("a"+"aa"+"x" = "aaax" splits as ["", "ax"]) *)
Theorem C01_split_join_refuted :
  exists d l, d <> [] /\ l <> [] /\ Forall (fun x => occurs d x = false) l /\ split d (join d l) <> l.
Proof. exact split_join_refuted. Qed.
Print Assumptions C01_split_join_refuted.
Example C01_ex_split_join_refuted :
  resolve e1 (FSplit (VStr [97;97]) (FJoin (VStr [97;97]) (VList [VStr [97]; VStr [120]]))) = Ok (VList [VStr []; VStr [97;120]]).
Proof. vm_compute. reflexivity. Qed.
(* the empty list is not recovered: Join d [] = "" and Split d "" = [""] *)
Theorem C01_split_join_nil : forall d, split d (join d []) = [[]].
Proof. exact split_join_nil. Qed.
Print Assumptions C01_split_join_nil.

Theorem C01_join_singleton : forall e dl ds x s,
  resolve e dl = Ok (VStr ds) -> resolve e x = Ok (VStr s) ->
  resolve e (FJoin dl (VList [x])) = Ok (VStr (if str_eqb s S_NOVALUE then [] else s)).
Proof. exact resolve_join_singleton. Qed.
Print Assumptions C01_join_singleton.
Theorem C01_join_nil : forall e dl ds, resolve e dl = Ok (VStr ds) -> resolve e (FJoin dl (VList [])) = Ok (VStr []).
Proof. exact resolve_join_nil. Qed.
Print Assumptions C01_join_nil.
Example C01_ex_join_singleton_nil :
  resolve e1 (FJoin (VStr [44]) (VList [FRef (VStr [65])])) = Ok (VStr [49]) /\
  resolve e1 (FJoin (VStr [44]) (VList [])) = Ok (VStr []).
Proof. split; vm_compute; reflexivity. Qed.

(* scalars rendered as strings: booleans true / false, integers in decimal, text rendered ([leaf_text]) *)
Theorem C01_join_scalars : forall e dl ds l ts,
  resolve e dl = Ok (VStr ds) ->
  Forall2 (fun v t => leaf_text (params e) v = Some t /\ t <> S_NOVALUE) l ts ->
  resolve e (FJoin dl (VList l)) = Ok (VStr (join ds ts)).
Proof. exact resolve_join_scalars. Qed.
Print Assumptions C01_join_scalars.
(* [1, true, false, "TRUE", -5] joined by "-"  =  "1-true-false-true--5" *)
Example C01_ex_join_scalars :
  Forall2 (fun v t => leaf_text (params e1) v = Some t /\ t <> S_NOVALUE)
    [VInt 1; VBool true; VBool false; VStr [84;82;85;69]; VInt (-5)] [[49]; S_true; S_false; S_true; [45;53]] /\
  resolve e1 (FJoin (VStr [45]) (VList [VInt 1; VBool true; VBool false; VStr [84;82;85;69]; VInt (-5)]))
  = Ok (VStr [49;45;116;114;117;101;45;102;97;108;115;101;45;116;114;117;101;45;45;53]).
Proof. split; [repeat constructor; try (vm_compute; reflexivity); vm_compute; discriminate | vm_compute; reflexivity]. Qed.
(* a list / object / null among the resolved members: the model declines (the library interpolates Python's repr) *)
Theorem C01_join_nested_declined : forall e dl ds l ls,
  resolve e dl = Ok (VStr ds) -> resolve e l = Ok (VList ls) -> (exists x, In x ls /\ forall s, x <> VStr s) ->
  resolve e (FJoin dl l) = Err EUndefined.
Proof. exact resolve_join_nested_declined. Qed.
Print Assumptions C01_join_nested_declined.
Example C01_ex_join_nested : resolve e1 (FJoin (VStr [45]) (VList [VStr [97]; VList [VStr [98]; VStr [99]]])) = Err EUndefined.
Proof. vm_compute. reflexivity. Qed.

(* ---- 2. Fn::Select ---- *)
Theorem C01_select_nth : forall e i l s z ls,
  resolve e i = Ok (VStr s) -> parse_int s = Some z -> resolve e l = Ok (VList ls) ->
  (0 <= z < Z.of_nat (length ls))%Z ->
  resolve e (FSelect i l) = Ok (nth (Z.to_nat z) ls (VList [])).
Proof. exact resolve_select_nth. Qed.
Print Assumptions C01_select_nth.
Theorem C01_select_out_of_range : forall e i l s z ls,
  resolve e i = Ok (VStr s) -> parse_int s = Some z -> resolve e l = Ok (VList ls) ->
  (z < 0 \/ Z.of_nat (length ls) <= z)%Z ->
  resolve e (FSelect i l) = Ok (VList []).
Proof. exact resolve_select_out_of_range. Qed.
Print Assumptions C01_select_out_of_range.
(* index 1 of the list parameter L = ["a","TRUE",1,true] is "true"; indices -1 and 4 give [] *)
Example C01_ex_select :
  resolve e1 (VStr [49]) = Ok (VStr [49]) /\ parse_int [49] = Some 1%Z /\
  resolve e1 (FRef (VStr [76])) = Ok (VList [VStr [97]; VStr S_true; VStr [49]; VStr S_true]) /\
  resolve e1 (FSelect (VStr [49]) (FRef (VStr [76]))) = Ok (VStr S_true) /\
  parse_int [45;49] = Some (-1)%Z /\ resolve e1 (FSelect (VStr [45;49]) (FRef (VStr [76]))) = Ok (VList []) /\
  resolve e1 (FSelect (VInt 4) (FRef (VStr [76]))) = Ok (VList []).
Proof. repeat split; vm_compute; reflexivity. Qed.
(* a NON-NUMERIC index is not "out of range": no empty list; the model declines, the library raises ValueError *)
Theorem C01_select_non_numeric : forall e i l s ls,
  resolve e i = Ok (VStr s) -> parse_int s = None -> resolve e l = Ok (VList ls) ->
  resolve e (FSelect i l) = Err EUndefined.
Proof. exact resolve_select_non_numeric. Qed.
Print Assumptions C01_select_non_numeric.
Example C01_ex_select_non_numeric :
  parse_int [120] = None /\ resolve e1 (FSelect (VStr [120]) (VList [VStr [97]; VStr [98]])) = Err EUndefined.
Proof. split; vm_compute; reflexivity. Qed.
(* the index as a number and as its decimal text are the same; decimal text reads back *)
Theorem C01_parse_int_roundtrip : forall z, parse_int (str_of_Z z) = Some z.
Proof. exact parse_int_str_of_Z. Qed.
Print Assumptions C01_parse_int_roundtrip.
Theorem C01_select_index_number : forall e z l,
  resolve e (FSelect (VInt z) l) = resolve e (FSelect (VStr (str_of_Z z)) l).
Proof. exact resolve_select_index_number. Qed.
Print Assumptions C01_select_index_number.
Theorem C01_select_int : forall e z l ls, resolve e l = Ok (VList ls) ->
  resolve e (FSelect (VInt z) l) =
  Ok (if (0 <=? z)%Z && (z <? Z.of_nat (length ls))%Z then nth (Z.to_nat z) ls (VList []) else VList []).
Proof. exact resolve_select_int. Qed.
Print Assumptions C01_select_int.
Theorem C01_select_split_join : forall e i s z dl l c d' ls,
  resolve e i = Ok (VStr s) -> parse_int s = Some z -> (0 <= z < Z.of_nat (length ls))%Z ->
  resolve e dl = Ok (VStr (c :: d')) -> resolve e l = Ok (VList (map VStr ls)) -> Forall (fun x => ~ In c x) ls ->
  resolve e (FSelect i (FSplit dl (FJoin dl l))) = Ok (VStr (nth (Z.to_nat z) ls [])).
Proof. exact resolve_select_split_join. Qed.
Print Assumptions C01_select_split_join.
Example C01_ex_select_split_join :
  resolve e1 (FSelect (VInt 2) (FSplit (VStr [44]) (FJoin (VStr [44]) (VList [FRef (VStr [65]); VStr []; VStr [120]])))) = Ok (VStr [120]).
Proof. vm_compute. reflexivity. Qed.
(* FALSE: "Select i [x0; x1; x2] is the value of x_i" -- the list is resolved first and AWS::NoValue members are dropped *)
Theorem C01_select_literal_refuted : exists e i x0 x1 x2 r1,
  resolve e x1 = Ok r1 /\ exists r, resolve e (FSelect i (VList [x0; x1; x2])) = Ok r /\ i = VInt 1 /\ r <> r1.
Proof. exact resolve_select_literal_refuted. Qed.
Print Assumptions C01_select_literal_refuted.
(* a text where the list is expected (Ref to an unbound list parameter, Fn::GetAZs, Fn::GetAtt): declined *)
Theorem C01_select_over_text_declined : forall e i s l t,
  resolve e i = Ok (VStr s) -> resolve e l = Ok (VStr t) -> resolve e (FSelect i l) = Err EUndefined.
Proof. exact resolve_select_over_text_declined. Qed.
Print Assumptions C01_select_over_text_declined.
Theorem C01_join_over_text_declined : forall e dl ds l t,
  resolve e dl = Ok (VStr ds) -> resolve e l = Ok (VStr t) -> resolve e (FJoin dl l) = Err EUndefined.
Proof. exact resolve_join_over_text_declined. Qed.
Print Assumptions C01_join_over_text_declined.
Example C01_ex_over_text :
  resolve e1 (VDict [(K_GetAZs, VStr [])]) = Ok (VStr S_GETAZS) /\
  resolve e1 (FSelect (VInt 0) (VDict [(K_GetAZs, VStr [])])) = Err EUndefined /\
  resolve e1 (FJoin (VStr [44]) (FRef (VStr [90]))) = Err EUndefined.
Proof. repeat split; vm_compute; reflexivity. Qed.

(* ---- 3. Fn::Sub ---- *)
(* no "${" anywhere: the text AS IT IS -- the Fn::Sub text is not rendered (no lower-casing, no SSM lookup) *)
Theorem C01_sub_no_placeholder : forall e text,
  (forall a u, text <> a ++ 36 :: 123 :: u) -> resolve e (FSub text) = Ok (VStr text).
Proof. exact resolve_sub_no_placeholder. Qed.
Print Assumptions C01_sub_no_placeholder.
Theorem C01_sub_text_not_rendered : exists text,
  (forall a u, text <> a ++ 36 :: 123 :: u) /\ resolve e_nil (FSub text) <> resolve e_nil (VStr text).
Proof. exact sub_text_not_rendered. Qed.
Print Assumptions C01_sub_text_not_rendered.
(* "$ {x}" and "TRUE": unchanged; the literal "TRUE" is "true" *)
Example C01_ex_sub_no_placeholder :
  resolve e1 (FSub [36;32;123;120;125]) = Ok (VStr [36;32;123;120;125]) /\
  resolve e1 (FSub [84;82;85;69]) = Ok (VStr [84;82;85;69]) /\ resolve e1 (VStr [84;82;85;69]) = Ok (VStr S_true).
Proof. repeat split; vm_compute; reflexivity. Qed.
Theorem C01_sub_empty_map : forall e text, resolve e (FSubV text (VDict [])) = resolve e (FSub text).
Proof. exact resolve_sub_empty_map. Qed.
Print Assumptions C01_sub_empty_map.
Theorem C01_sub_adjacent : forall e custom a b ra rb, valid_name a -> valid_name b ->
  render_var e custom a = Ok ra -> render_var e custom b = Ok rb ->
  do_sub e (ph a ++ ph b) custom = Ok (VStr (ra ++ rb)).
Proof. exact do_sub_adjacent. Qed.
Print Assumptions C01_sub_adjacent.
(* exactly once: pre "${n}" post --> (pre) (value of n, verbatim) (post) *)
Theorem C01_sub_value_verbatim : forall e custom pre n post a s c, valid_name n ->
  do_sub e pre custom = Ok (VStr a) -> render_var e custom n = Ok s -> do_sub e post custom = Ok (VStr c) ->
  do_sub e (pre ++ ph n ++ post) custom = Ok (VStr (a ++ s ++ c)).
Proof. exact do_sub_value_verbatim. Qed.
Print Assumptions C01_sub_value_verbatim.
Theorem C01_sub_bang_literal : forall e custom n, valid_name n -> do_sub e (ph_bang n) custom = Ok (VStr (ph n)).
Proof. exact do_sub_bang_literal. Qed.
Print Assumptions C01_sub_bang_literal.
(* "${B}${A}" with B = "${A}", A = "1" is "${A}1": B's value is inserted once and not scanned; "${!A}" is "${A}" *)
Example C01_ex_sub_adjacent :
  valid_name [66] /\ valid_name [65] /\ render_var e1 [] [66] = Ok [36;123;65;125] /\ render_var e1 [] [65] = Ok [49] /\
  resolve e1 (FSub (ph [66] ++ ph [65])) = Ok (VStr [36;123;65;125;49]) /\
  resolve e1 (FSub (ph_bang [65])) = Ok (VStr (ph [65])).
Proof. repeat split; try discriminate; vm_compute; reflexivity. Qed.
(* an UNBOUND variable stays as written; it does NOT become the UNDEFINED_PARAM_ text that Ref gives *)
Theorem C01_sub_unbound_as_written : forall e custom n, valid_name n ->
  lookup n custom = None -> lookup n (params e) = None -> do_sub e (ph n) custom = Ok (VStr (ph n)).
Proof. exact do_sub_unbound. Qed.
Print Assumptions C01_sub_unbound_as_written.
Theorem C01_sub_unbound_is_not_undefined_param : exists n, valid_name n /\
  resolve e_nil (FRef (VStr n)) = Ok (VStr (undefined_param n)) /\
  resolve e_nil (FSub (ph n)) = Ok (VStr (ph n)) /\ ph n <> undefined_param n.
Proof. exact sub_unbound_is_not_undefined_param. Qed.
Print Assumptions C01_sub_unbound_is_not_undefined_param.
(* what a variable inserts *)
Theorem C01_sub_var_scalar : forall e custom n x t,
  var_value e custom n = Some x -> leaf_text (params e) x = Some t -> render_var e custom n = Ok t.
Proof. exact render_var_scalar. Qed.
Print Assumptions C01_sub_var_scalar.
Theorem C01_sub_var_container_declined : forall e custom n x,
  var_value e custom n = Some x -> leaf_text (params e) x = None -> is_ok (render_var e custom n) = false.
Proof. exact render_var_container_declined. Qed.
Print Assumptions C01_sub_var_container_declined.
(* N = 7 inserts "7", a local variable true inserts "true", the list parameter L is declined *)
Example C01_ex_sub_var :
  var_value e1 [] [78] = Some (VInt 7) /\ resolve e1 (FSub (ph [78])) = Ok (VStr [55]) /\
  resolve e1 (FSubV (ph [86]) (VDict [([86], VBool true)])) = Ok (VStr S_true) /\
  leaf_text (params e1) (VList [VStr [97]; VStr [84;82;85;69]; VInt 1; VBool true]) = None /\
  resolve e1 (FSub (ph [76])) = Err EUndefined.
Proof. repeat split; vm_compute; reflexivity. Qed.
(* ${n} is Ref n -- for a bound, text-valued parameter whose name rendering leaves alone *)
Theorem C01_sub_is_ref : forall e n x s, valid_name n -> plain_text n = true ->
  lookup n (params e) = Some x -> normalize (params e) x = Ok (VStr s) ->
  resolve e (FSub (ph n)) = resolve e (FRef (VStr n)).
Proof. exact sub_is_ref. Qed.
Print Assumptions C01_sub_is_ref.
Example C01_ex_sub_is_ref :
  valid_name [65] /\ plain_text [65] = true /\ lookup [65] (params e1) = Some (VStr [49]) /\
  normalize (params e1) (VStr [49]) = Ok (VStr [49]) /\ resolve e1 (FSub (ph [65])) = Ok (VStr [49]).
Proof. repeat split; try discriminate; vm_compute; reflexivity. Qed.

(* ---- 4. Ref / Fn::ImportValue ---- *)
(* the NAME is a literal like any other: it is rendered, and the rendered name is looked up *)
Theorem C01_ref_literal : forall e p,
  resolve e (FRef (VStr p)) =
  match lookup (render_str (params e) p) (params e) with
  | Some x => normalize (params e) x
  | None => Ok (VStr (undefined_param (render_str (params e) p)))
  end.
Proof. exact resolve_ref_literal. Qed.
Print Assumptions C01_ref_literal.
Theorem C01_import_is_ref : forall e b, resolve e (FImport b) = resolve e (FRef b).
Proof. exact resolve_import_is_ref. Qed.
Print Assumptions C01_import_is_ref.
Theorem C01_ref_plain : forall e p, plain_text p = true ->
  resolve e (FRef (VStr p)) =
  match lookup p (params e) with Some x => normalize (params e) x | None => Ok (VStr (undefined_param p)) end.
Proof. exact resolve_ref_plain. Qed.
Print Assumptions C01_ref_plain.
Theorem C01_ref_list : forall e p l ts, plain_text p = true -> lookup p (params e) = Some (VList l) ->
  Forall2 (fun v t => leaf_text (params e) v = Some t /\ t <> S_NOVALUE) l ts ->
  resolve e (FRef (VStr p)) = Ok (VList (map VStr ts)).
Proof. exact resolve_ref_list. Qed.
Print Assumptions C01_ref_list.
Example C01_ex_ref_list :
  plain_text [76] = true /\
  Forall2 (fun v t => leaf_text (params e1) v = Some t /\ t <> S_NOVALUE)
    [VStr [97]; VStr [84;82;85;69]; VInt 1; VBool true] [[97]; S_true; [49]; S_true] /\
  resolve e1 (FRef (VStr [76])) = Ok (VList (map VStr [[97]; S_true; [49]; S_true])) /\
  resolve e1 (FRef (VStr [90])) = Ok (VStr (undefined_param [90])).
Proof.
  split; [vm_compute; reflexivity|]. split; [repeat constructor; try (vm_compute; reflexivity); vm_compute; discriminate|].
  split; vm_compute; reflexivity.
Qed.
(* FALSE for a name that rendering rewrites: the parameter "True" is bound, Ref "True" is UNDEFINED_PARAM_true, ${True} finds it *)
Theorem C01_ref_boolean_name_refuted :
  lookup s_True (params e_True) = Some (VStr [118]) /\
  resolve e_True (FRef (VStr s_True)) = Ok (VStr (undefined_param (lower s_True))) /\
  resolve e_True (FSub (ph s_True)) = Ok (VStr [118]).
Proof. exact ref_boolean_name_refuted. Qed.
Print Assumptions C01_ref_boolean_name_refuted.
(* a pseudo parameter is overridden by a supplied value of the same name (binding: C04_precedence) *)
Theorem C01_ref_supplied_overrides_pseudo : forall pseudo decls extra ps maps cs k v w,
  bind_params pseudo decls extra = Ok ps -> NoDup (keys decls) -> plain_text k = true ->
  lookup k decls = None -> lookup k pseudo = Some w -> lookup k extra = Some v ->
  resolve {| params := ps; mappings := maps; conds := cs |} (FRef (VStr k)) = normalize ps v.
Proof. exact ref_supplied_overrides_pseudo. Qed.
Print Assumptions C01_ref_supplied_overrides_pseudo.
Example C01_ex_ref_overrides_pseudo :
  let pseudo := [([82], VStr [112])] in let extra := [([82], VStr [120])] in
  bind_params pseudo [] extra = Ok (extra ++ pseudo) /\ plain_text [82] = true /\
  resolve {| params := extra ++ pseudo; mappings := []; conds := fun _ => Ok false |} (FRef (VStr [82])) = Ok (VStr [120]).
Proof. cbv zeta. repeat split; vm_compute; reflexivity. Qed.

(* ---- 5. Fn::FindInMap ---- *)
Theorem C01_findinmap_text : forall m k1 k2,
  undefined_mapping m k1 k2 = S_UNDEF_MAPPING ++ m ++ [95] ++ k1 ++ [95] ++ k2.
Proof. exact undefined_mapping_text. Qed.
Print Assumptions C01_findinmap_text.
(* map name and keys are resolved first; the answer is the leaf AS WRITTEN in the mapping, or the placeholder text built from
   the RESOLVED name and keys *)
Theorem C01_findinmap_leaf : forall e m k1 k2 ms s1 s2, mappings_wf e ->
  resolve e m = Ok (VStr ms) -> resolve e k1 = Ok (VStr s1) -> resolve e k2 = Ok (VStr s2) ->
  resolve e (FFindInMap m k1 k2) =
  Ok (match mapping_leaf e ms s1 s2 with Some leaf => leaf | None => VStr (undefined_mapping ms s1 s2) end).
Proof. exact resolve_find_in_map_leaf. Qed.
Print Assumptions C01_findinmap_leaf.
(* RESTATED with the repair of F31 (library acd13a2): the two keys are looked up by [lookup_bk] (exactly, else -- for the texts
   "true" / "false" -- by the first entry whose key lower-cases to it); with the exact [lookup] in the hypothesis, as before, the
   statement is false of the repaired resolver (Mappings {"M":{"True":{"k":"yes"}}}, keys "true", "k": "True" is found).
   [C01_lookup_bk_none] says what [lookup_bk ... = None] means *)
Theorem C01_findinmap_missing : forall e m k1 k2 ms s1 s2,
  resolve e m = Ok (VStr ms) -> resolve e k1 = Ok (VStr s1) -> resolve e k2 = Ok (VStr s2) ->
  lookup ms (mappings e) = None
  \/ (exists top, lookup ms (mappings e) = Some (VDict top) /\
        (lookup_bk s1 top = None
         \/ exists snd_, lookup_bk s1 top = Some (VDict snd_) /\ (lookup_bk s2 snd_ = None \/ lookup_bk s2 snd_ = Some VNull))) ->
  resolve e (FFindInMap m k1 k2) = Ok (VStr (undefined_mapping ms s1 s2)).
Proof. exact resolve_find_in_map_missing. Qed.
Print Assumptions C01_findinmap_missing.
Theorem C01_findinmap_leaf_verbatim : forall e ms s1 s2 top snd_ leaf,
  lookup ms (mappings e) = Some (VDict top) -> lookup s1 top = Some (VDict snd_) -> lookup s2 snd_ = Some leaf ->
  leaf <> VNull -> do_find_in_map e (VStr ms) (VStr s1) (VStr s2) = Ok leaf.
Proof. exact do_find_in_map_leaf_verbatim. Qed.
Print Assumptions C01_findinmap_leaf_verbatim.
(* keys given by Ref / Join: M[a][b] = "leaf"; a missing second-level key gives UNDEFINED_MAPPING_M_a_1 *)
Example C01_ex_findinmap :
  mappings_wf e1 /\
  resolve e1 (FFindInMap (VStr [77]) (FJoin (VStr []) (VList [VStr [97]])) (VStr [98])) = Ok (VStr [108;101;97;102]) /\
  resolve e1 (FFindInMap (VStr [77]) (VStr [97]) (FRef (VStr [65]))) = Ok (VStr (undefined_mapping [77] [97] [49])) /\
  undefined_mapping [77] [97] [49] = S_UNDEF_MAPPING ++ [77;95;97;95;49].
Proof. split; [exact e1_mappings_wf|]. repeat split; vm_compute; reflexivity. Qed.
(* FALSE: "the result is rendered" -- a leaf "True" / 0 / false comes out as written (known finding F14b) *)
Theorem C01_findinmap_unrendered_refuted :
  resolve e_map (FFindInMap (VStr [77]) (VStr [97]) (VStr [84])) = Ok (VStr s_True) /\
  rendered (params e_map) (VStr s_True) = false /\
  resolve e_map (FFindInMap (VStr [77]) (VStr [97]) (VStr [110])) = Ok (VInt 0) /\
  resolve e_map (FFindInMap (VStr [77]) (VStr [97]) (VStr [102])) = Ok (VBool false).
Proof. exact find_in_map_unrendered_refuted. Qed.
Print Assumptions C01_findinmap_unrendered_refuted.
(* the key lookup of Fn::FindInMap (library `_mapping_get`): exactly; a key that is not the text "true" / "false" only exactly;
   what is found is an entry of the level, under the key or under a spelling of it; [None] = not there as written and, for "true" /
   "false", under no spelling *)
Theorem C01_lookup_bk_exact : forall k (d : list (str * value)) v, lookup k d = Some v -> lookup_bk k d = Some v.
Proof. exact (@lookup_bk_exact value). Qed.
Print Assumptions C01_lookup_bk_exact.
Theorem C01_lookup_bk_plain : forall k (d : list (str * value)), k <> S_true -> k <> S_false -> lookup_bk k d = lookup k d.
Proof. exact (@lookup_bk_plain value). Qed.
Print Assumptions C01_lookup_bk_plain.
Theorem C01_lookup_bk_in : forall k (d : list (str * value)) v,
  lookup_bk k d = Some v -> exists k', In (k', v) d /\ (k' = k \/ (is_bool_text k = true /\ lower k' = k)).
Proof. exact (@lookup_bk_In value). Qed.
Print Assumptions C01_lookup_bk_in.
Theorem C01_lookup_bk_none : forall k (d : list (str * value)),
  lookup_bk k d = None <-> ~ In k (keys d) /\ (is_bool_text k = true -> forall k', In k' (keys d) -> lower k' <> k).
Proof. exact (@lookup_bk_None value). Qed.
Print Assumptions C01_lookup_bk_none.
Example C01_ex_lookup_bk :
  let d := [(s_True, VStr [49]); ([97], VStr [50])] in
  lookup S_true d = None /\ lookup_bk S_true d = Some (VStr [49]) /\ lookup_bk S_false d = None /\ lookup_bk [65] d = None /\
  lookup_bk [97] d = Some (VStr [50]) /\ [97] <> S_true /\ [97] <> S_false /\ is_bool_text S_true = true /\ lower s_True = S_true.
Proof. cbv zeta. repeat split; try (vm_compute; reflexivity); discriminate. Qed.

(* TRUE since the repair of F31 (was C01_findinmap_literal_key_refuted): "a key is looked up as written", also a key written like a
   boolean -- it reaches the lookup as [key_text s] ("True" -> "true") and finds the mapping's "True", PROVIDED the mapping level holds
   no second spelling of that boolean ([only_spelling]; with two, the first in dictionary order answers: C01_findinmap_first_spelling_wins) *)
Theorem C01_findinmap_key_text : forall e ms s1 s2 top snd_ leaf,
  lookup ms (mappings e) = Some (VDict top) -> lookup s1 top = Some (VDict snd_) -> lookup s2 snd_ = Some leaf -> leaf <> VNull ->
  (is_boolish s1 = true -> only_spelling s1 top) -> (is_boolish s2 = true -> only_spelling s2 snd_) ->
  do_find_in_map e (VStr ms) (VStr (key_text s1)) (VStr (key_text s2)) = Ok leaf.
Proof. exact do_find_in_map_boolean_key. Qed.
Print Assumptions C01_findinmap_key_text.
Theorem C01_findinmap_boolean_key : forall e ms s1 s2 top snd_ leaf,
  plain_text ms = true -> ssm_key s1 = None -> ssm_key s2 = None ->
  lookup ms (mappings e) = Some (VDict top) -> lookup s1 top = Some (VDict snd_) -> lookup s2 snd_ = Some leaf -> leaf <> VNull ->
  (is_boolish s1 = true -> only_spelling s1 top) -> (is_boolish s2 = true -> only_spelling s2 snd_) ->
  resolve e (FFindInMap (VStr ms) (VStr s1) (VStr s2)) = Ok leaf.
Proof. exact resolve_find_in_map_boolean_key. Qed.
Print Assumptions C01_findinmap_boolean_key.
Theorem C01_findinmap_boolean_key_ref : forall e ms p s1 s2 top snd_ leaf,
  plain_text ms = true -> plain_text p = true -> lookup p (params e) = Some (VStr s1) -> ssm_key s1 = None -> ssm_key s2 = None ->
  lookup ms (mappings e) = Some (VDict top) -> lookup s1 top = Some (VDict snd_) -> lookup s2 snd_ = Some leaf -> leaf <> VNull ->
  (is_boolish s1 = true -> only_spelling s1 top) -> (is_boolish s2 = true -> only_spelling s2 snd_) ->
  resolve e (FFindInMap (VStr ms) (FRef (VStr p)) (VStr s2)) = Ok leaf.
Proof. exact resolve_find_in_map_ref_key. Qed.
Print Assumptions C01_findinmap_boolean_key_ref.
(* the old witness: Mappings {M: {True: {k: yes}, a: ...}}, P = "True": the key "True", literal or through Ref P, finds "yes"; every
   hypothesis of the two theorems holds on it *)
Example C01_ex_findinmap_boolean_key :
  lookup [77] (mappings e_map) = Some (VDict [(s_True, VDict [([107], VStr [121;101;115])]);
                                              ([97], VDict [([84], VStr s_True); ([110], VInt 0); ([102], VBool false)])]) /\
  only_spelling s_True [(s_True, VDict [([107], VStr [121;101;115])]);
                        ([97], VDict [([84], VStr s_True); ([110], VInt 0); ([102], VBool false)])] /\
  lookup [80] (params e_map) = Some (VStr s_True) /\
  mapping_leaf e_map [77] (lower s_True) [107] = Some (VStr [121;101;115]) /\
  key_text s_True = lower s_True /\ is_boolish s_True = true /\ plain_text [77] = true /\ plain_text [80] = true /\
  ssm_key s_True = None /\ ssm_key [107] = None /\ is_boolish [107] = false /\
  resolve e_map (FFindInMap (VStr [77]) (VStr s_True) (VStr [107])) = Ok (VStr [121;101;115]) /\
  resolve e_map (FFindInMap (VStr [77]) (FRef (VStr [80])) (VStr [107])) = Ok (VStr [121;101;115]).
Proof. split; [reflexivity|]. split; [exact e_map_only_spelling|]. split; [reflexivity|]. exact ex_find_in_map_boolean_key. Qed.
(* FALSE without [only_spelling]: Mappings {M: {TRUE: {k: no}, True: {k: yes}}}: the key "True" finds "no" (the first spelling in
   dictionary order; the library alike); with the two entries swapped the key "TRUE" finds the entry "True"; a key "true" present as
   such always answers for itself *)
Theorem C01_findinmap_first_spelling_wins :
  let e12 := {| params := []; mappings := maps_two s_TRUE s_True; conds := fun _ => Ok false |} in
  let e21 := {| params := []; mappings := maps_two s_True s_TRUE; conds := fun _ => Ok false |} in
  let e3 := {| params := []; mappings := maps_two s_TRUE S_true; conds := fun _ => Ok false |} in
  resolve e12 (FFindInMap (VStr [77]) (VStr s_True) (VStr [107])) = Ok (VStr [110;111]) /\
  resolve e21 (FFindInMap (VStr [77]) (VStr s_True) (VStr [107])) = Ok (VStr [110;111]) /\
  resolve e21 (FFindInMap (VStr [77]) (VStr s_TRUE) (VStr [107])) = Ok (VStr [110;111]) /\
  resolve e3 (FFindInMap (VStr [77]) (VStr s_True) (VStr [107])) = Ok (VStr [121;101;115]).
Proof. exact find_in_map_first_spelling_wins. Qed.
Print Assumptions C01_findinmap_first_spelling_wins.

(* ---- 6. Fn::Base64 ---- *)
Theorem C01_base64_text : forall e b s, resolve e b = Ok (VStr s) -> resolve e (FBase64 b) = Ok (VStr (b64encode (utf8 s))).
Proof. exact resolve_base64_text. Qed.
Print Assumptions C01_base64_text.
Theorem C01_base64_non_text : forall e b r,
  resolve e b = Ok r -> (forall s, r <> VStr s) -> resolve e (FBase64 b) = Err EUndefined.
Proof. exact resolve_base64_non_text. Qed.
Print Assumptions C01_base64_non_text.
(* the encoder is inverted by the model of Python's base64.b64decode (Robust/Validators.v) on every byte string *)
Theorem C01_b64_roundtrip : forall bs, Forall (fun b => b < 256) bs -> b64decode (b64encode bs) = Some bs.
Proof. exact b64_roundtrip. Qed.
Print Assumptions C01_b64_roundtrip.
Theorem C01_base64_roundtrip : forall e b s, Forall (fun c => c < 1114112) s -> resolve e b = Ok (VStr s) ->
  exists t, resolve e (FBase64 b) = Ok (VStr t) /\ b64decode t = Some (utf8 s).
Proof. exact resolve_base64_roundtrip. Qed.
Print Assumptions C01_base64_roundtrip.
(* base64("a<e-acute>") = "YcOp"; of the number 1 = base64("1") = "MQ=="; of a list: declined *)
Example C01_ex_base64 :
  resolve e1 (FBase64 (VStr [97;233])) = Ok (VStr [89;99;79;112]) /\ b64decode [89;99;79;112] = Some (utf8 [97;233]) /\
  resolve e1 (FBase64 (VInt 1)) = Ok (VStr [77;81;61;61]) /\
  resolve e1 (FBase64 (VList [VStr [97]])) = Err EUndefined.
Proof. repeat split; vm_compute; reflexivity. Qed.

(* ---- 7. Composition ---- *)
(* [Cong e a b] (FnAlgebra.v): b is a with any number of sub-expressions, at positions whose value is obtained by resolving
   them, replaced by expressions with the same resolution.  Such a replacement does not change the result. *)
Theorem C01_congruence : forall e a b, Cong e a b -> resolve e a = resolve e b.
Proof. exact resolve_congruence. Qed.
Print Assumptions C01_congruence.
(* resolving in place: a sub-expression may be replaced by its own value when that value is rendered and function-free
   (then it is a fixed point: C03_fixed_point) *)
Theorem C01_resolved_value_in_place : forall e f r,
  resolve e f = Ok r -> no_fn_dict r = true -> rendered (params e) r = true -> Cong e f r.
Proof. exact cong_resolved_value. Qed.
Print Assumptions C01_resolved_value_in_place.
(* ctx1 h = {"k": [Join ["-", [h, "x"]], "y"]}: Ref A replaced by Sub "${A}" and by its value "1" *)
Example C01_ex_congruence :
  Cong e1 (ctx1 (FRef (VStr [65]))) (ctx1 (FSub (ph [65]))) /\ Cong e1 (ctx1 (FRef (VStr [65]))) (ctx1 (VStr [49])) /\
  resolve e1 (ctx1 (FRef (VStr [65]))) = Ok (VDict [([107], VList [VStr [49;45;120]; VStr [121]])]) /\
  resolve e1 (ctx1 (VStr [49])) = Ok (VDict [([107], VList [VStr [49;45;120]; VStr [121]])]).
Proof.
  split; [apply ctx1_cong; apply Cg_same; vm_compute; reflexivity|].
  split; [apply ctx1_cong; apply cong_resolved_value; vm_compute; reflexivity | split; vm_compute; reflexivity].
Qed.
(* FALSE without "rendered": Join ["", ["TR","UE"]] = "TRUE"; inside Join ["-", [_, "x"]] it gives "TRUE-x", the literal "TRUE" gives "true-x" *)
Theorem C01_in_place_refuted : exists f r,
  resolve e_nil f = Ok r /\
  resolve e_nil (FJoin (VStr [45]) (VList [f; VStr [120]])) <> resolve e_nil (FJoin (VStr [45]) (VList [r; VStr [120]])).
Proof. exact resolve_in_place_refuted. Qed.
Print Assumptions C01_in_place_refuted.
(* FALSE at the positions read as SYNTAX (the Fn::Sub text, the argument list of Fn::Join, the condition name of Fn::If) *)
Theorem C01_congruence_syntax_refuted :
  (exists a b, resolve e_nil a = resolve e_nil b /\
     resolve e_nil (VDict [(K_Sub, VList [a; VDict []])]) <> resolve e_nil (VDict [(K_Sub, VList [b; VDict []])])) /\
  (exists a b, resolve e_nil a = resolve e_nil b /\
     resolve e_nil (VDict [(K_Join, a)]) <> resolve e_nil (VDict [(K_Join, b)])) /\
  (exists a b, resolve e_nil a = resolve e_nil b /\
     resolve e_nil (VDict [(K_If, VList [a; VStr [116]; VStr [102]])]) <> resolve e_nil (VDict [(K_If, VList [b; VStr [116]; VStr [102]])])).
Proof. exact congruence_syntax_refuted. Qed.
Print Assumptions C01_congruence_syntax_refuted.

(* ---- 8. Rendering ---- *)
(* a text is returned as it is, except: any capitalisation of true / false is lower-cased, and a text that STARTS with an SSM
   reference {{resolve:ssm:NAME:VERSION}} is replaced by the non-empty text bound to NAME:VERSION (else UNDEFINED_PARAM_NAME:VERSION) *)
Theorem C01_render_cases : forall ps s,
  render_str ps s =
  match ssm_key s with
  | Some key => match lookup key ps with Some (VStr (c :: r)) => c :: r | _ => undefined_param key end
  | None => if str_eqb (lower s) S_true || str_eqb (lower s) S_false then lower s else s
  end.
Proof. exact render_str_cases. Qed.
Print Assumptions C01_render_cases.
Theorem C01_render_other : forall ps s, ssm_key s = None -> lower s <> S_true -> lower s <> S_false -> render_str ps s = s.
Proof. exact render_str_other. Qed.
Print Assumptions C01_render_other.
Theorem C01_render_boolean : forall ps s, ssm_key s = None -> lower s = S_true \/ lower s = S_false -> render_str ps s = lower s.
Proof. exact render_str_boolean. Qed.
Print Assumptions C01_render_boolean.
(* rendering a parameter value twice is rendering it once -- when the texts an SSM reference can fetch are themselves rendered
   ([ssm_values_fixed]), typed atoms have rendered texts ([atoms_fixed]) and pruning AWS::NoValue left no function object *)
Theorem C01_render_idempotent : forall ps v r, ssm_values_fixed ps -> atoms_fixed ps v = true ->
  normalize ps v = Ok r -> no_fn_dict r = true -> normalize ps r = Ok r.
Proof. exact normalize_idempotent. Qed.
Print Assumptions C01_render_idempotent.
Example C01_ex_render_idempotent :
  let v := VList [VStr [97]; VStr [84;82;85;69]; VInt 1; VBool true] in
  ssm_values_fixed (params e1) /\ atoms_fixed (params e1) v = true /\
  normalize (params e1) v = Ok (VList [VStr [97]; VStr S_true; VStr [49]; VStr S_true]) /\
  no_fn_dict (VList [VStr [97]; VStr S_true; VStr [49]; VStr S_true]) = true.
Proof. cbv zeta. split; [apply params_rendered_ssm; vm_compute; reflexivity|]. repeat split; vm_compute; reflexivity. Qed.
Theorem C01_render_idempotent_refuted : exists ps s,
  render_str ps (render_str ps s) <> render_str ps s /\
  exists r r2, normalize ps (VStr s) = Ok r /\ normalize ps r = Ok r2 /\ r2 <> r.
Proof. exact render_idempotent_refuted. Qed.
Print Assumptions C01_render_idempotent_refuted.
(* 1 and "1" alike, true / "True" / "TRUE" alike, 1 and true apart *)
Theorem C01_render_identifications : forall ps,
  normalize ps (VInt 1) = normalize ps (VStr [49]) /\
  normalize ps (VBool true) = normalize ps (VStr s_True) /\
  normalize ps (VBool true) = normalize ps (VStr [84;82;85;69]) /\
  normalize ps (VInt 1) <> normalize ps (VBool true) /\
  normalize ps (VInt 0) <> normalize ps (VBool false).
Proof. exact render_identifications. Qed.
Print Assumptions C01_render_identifications.
