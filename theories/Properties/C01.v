(* C01 -- placeholder while the theorems are being written *)
From Coq Require Import List Bool NArith ZArith.
From PV Require Import Base.Str Base.Value Resolver.Consts Resolver.Text Resolver.Resolve.
Import ListNotations.
Local Open Scope N_scope.
Example C01_ex_tokens : sub_tokens [120;36;123;65;125;121;36;123;33;65;125;122]
  = [TText 120; TVar [65]; TText 121; TBang [65]; TText 122].
Proof. vm_compute. reflexivity. Qed.
