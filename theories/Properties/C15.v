(* C15 -- Serialise / validate round trip is lossless.
   "For every model obtained from parse, resolve or expand_actions, dumping it to plain data and validating that data again
    yields an equal model: the re-validation never fails and no field changes value, type or model class.  Both
    transformations are built on this round trip, so whatever it loses or rejects is lost or rejected by them."
   Statements only; every proof is [exact] of a lemma proved in theories/Typed/*.v.

   Vocabulary (Typed/Schema.v, Typed/Roundtrip.v, Typed/Leaves.v):
     ftype      field types of the generated schema table (gen/Schema.v, rewritten from the live pydantic classes on every run)
     tval       validated values: XLeaf v (a scalar / opaque leaf, carried as what model_dump() returns for it; None = XLeaf VNull),
                XList, XDict (Dict[str, T]), XModel cls fields extra (an INSTANCE OF CLASS cls: equality of tvals is equality of
                values, leaf types and model classes)
     dump x     model_dump() in python mode (every declared field, then the extra fields)
     validate S modelled strict leafv n t v : res tval
                the schema interpreter: pydantic validating v against annotation t -- declared fields, defaults, extra mode,
                Optional / List / Dict, left-to-right unions (first accepting member), smart unions (unambiguous cases only),
                Resolvable[t], the C14 resource union, pycfmodel's own validator
                hooks (Effect, Tag.Value, GenericResource.Type, remove_colon); leaves by [leafv]; n bounds class nesting
     leaf_validate core   pycfmodel's own leaf validators MODELLED (SemiStrictBool, LooseIPv4/6Network, validate_binary,
                Tag's number coercion, Literal, FunctionDict, Any/Dict/List); pydantic-core's str / int / PositiveInt / bool / date /
                datetime validators and class Generic are the ORACLE [core]
     stable_for vf (smart, ts)   union stability for the union ts under the validator vf.  Left-to-right mode (smart = false):
                whenever the members BEFORE t refuse v and t accepts v with result x, those members also refuse dump x ("the branch
                that produced x is again the first to accept dump x").  Smart mode (smart = true; the model speaks only when exactly
                one member accepts): whenever ALL other members refuse v, they also refuse dump x
     unions_of t / unions_of_table S   the unions written in t / in the field types of S, each with its mode flag (Resolvable[...]
                wrappers need no assumption: FunctionDict hands its input back unchanged) *)
From Coq Require Import List Bool NArith ZArith.
From PV Require Import Base.Str Base.Value Net.Arith Net.IPv4 Net.IPv6 Policy.Policy.
From PV Require Import Typed.Schema Typed.Dispatch Typed.Leaves Typed.Roundtrip Typed.RoundtripFacts Typed.RoundtripTable
                       Typed.UnionStable Typed.RoundtripRun Typed.RoundtripExamples Typed.SchemaTable Typed.SchemaChecks.
From PVGen Require Import Schema.
Import ListNotations.

(* ---------------------------------------------------------------------------------------------------------------- *)
(* THE ROUND TRIP, for ANY class table S, ANY (Type, class) table and ANY leaf validators, in strict mode.
   ASSUMED (and nothing else): the table is well formed (decidable; proved for the live table below); every leaf validator
   accepts its own output unchanged; str keeps a str and yields a str; the str-with-number-coercion leaf yields a str;
   FunctionDict and Literal hand back what they were given; Dict accepts a dict; and union stability for the unions of the
   table and of t.  CONCLUDED: whatever validate produced, validating its dump produces it again -- same values, same leaf
   types, same model classes, no error. *)
Theorem C15_roundtrip :
  forall (S : list cschema) (modelled : list (str * str)) (leafv : leaf -> value -> res value),
    table_wf S = true ->
    modelled_wf S modelled = true ->
    (forall k v w, leafv k v = Ok w -> leafv k w = Ok w) ->                         (* leaf_accepts_own_output *)
    (forall s, leafv LStr (VStr s) = Ok (VStr s)) ->
    (forall v w, leafv LStr v = Ok w -> exists s, w = VStr s) ->
    (forall v w, leafv LStrNum v = Ok w -> exists s, w = VStr s) ->
    (forall v w, leafv LFn v = Ok w -> w = v /\ exists d, v = VDict d) ->
    (forall s v w, leafv (LLit s) v = Ok w -> w = VStr s) ->
    (forall d, leafv LDictAny (VDict d) = Ok (VDict d)) ->
    (forall ts, In ts (unions_of_table S) -> forall n, stable_for (validate S modelled true leafv n) ts) ->   (* union stability *)
    forall n t v x,
      (forall ts, In ts (unions_of t) -> forall m, stable_for (validate S modelled true leafv m) ts) ->
      validate S modelled true leafv n t v = Ok x ->
      validate S modelled true leafv n t (dump x) = Ok x.
Proof. exact roundtrip. Qed.
Print Assumptions C15_roundtrip.

(* ... for the LIVE class table and pycfmodel's own leaf validators as modelled: what remains assumed is exactly
   (1) pydantic-core's scalar validators and class Generic accept their own output, (2) str keeps / yields a str,
   (3) union stability for the 15 distinct unions of the live classes.  Everything about pycfmodel's own validators
   (SemiStrictBool, the network types, validate_binary, Tag, Effect, remove_colon, check_type) is PROVED. *)
Theorem C15_roundtrip_live_schema :
  forall (core : leaf -> value -> res value),
    (forall k v w, is_core k = true -> core k v = Ok w -> core k w = Ok w) ->
    (forall s, core LStr (VStr s) = Ok (VStr s)) ->
    (forall v w, core LStr v = Ok w -> exists s, w = VStr s) ->
    (forall ts, In ts (unions_of_table CLASSES) ->
                forall n, stable_for (validate CLASSES RESOURCE_MODELS true (leaf_validate core) n) ts) ->
    forall n t v x,
      (forall ts, In ts (unions_of t) -> forall m, stable_for (validate CLASSES RESOURCE_MODELS true (leaf_validate core) m) ts) ->
      validate CLASSES RESOURCE_MODELS true (leaf_validate core) n t v = Ok x ->
      validate CLASSES RESOURCE_MODELS true (leaf_validate core) n t (dump x) = Ok x.
Proof. exact table_roundtrip. Qed.
Print Assumptions C15_roundtrip_live_schema.

(* a whole template:  CFModel(m.model_dump()) = m      (CFMODEL = TModel "CFModel", the class of the table) *)
Theorem C15_roundtrip_template :
  forall (core : leaf -> value -> res value),
    (forall k v w, is_core k = true -> core k v = Ok w -> core k w = Ok w) ->
    (forall s, core LStr (VStr s) = Ok (VStr s)) ->
    (forall v w, core LStr v = Ok w -> exists s, w = VStr s) ->
    (forall ts, In ts (unions_of_table CLASSES) ->
                forall n, stable_for (validate CLASSES RESOURCE_MODELS true (leaf_validate core) n) ts) ->
    forall n v x,
      validate CLASSES RESOURCE_MODELS true (leaf_validate core) n CFMODEL v = Ok x ->
      validate CLASSES RESOURCE_MODELS true (leaf_validate core) n CFMODEL (dump x) = Ok x.
Proof. exact table_roundtrip_template. Qed.
Print Assumptions C15_roundtrip_template.

(* the decidable side conditions, re-proved for the live table on every run *)
Theorem C15_finite_schema_facts :
  table_wf CLASSES = true /\ modelled_wf CLASSES RESOURCE_MODELS = true /\
  (List.length TABLE_UNIONS <= List.length (unions_of_table CLASSES))%nat /\ (1 <= List.length TABLE_UNIONS)%nat.
Proof. exact (conj Schema_table_wf (conj Schema_modelled_wf Schema_unions_count)). Qed.
Print Assumptions C15_finite_schema_facts.

(* ---------------------------------------------------------------------------------------------------------------- *)
(* UNION STABILITY ON THE LIVE TABLE, PROVED (Typed/UnionStable.v).  Vocabulary:
     IPNET       = ResolvableIPNetwork         left-to-right [Resolvable[IPv4], Resolvable[IPv6]]
     IP_OR_LIST  = ResolvableIPOrList          left-to-right [IPNET, List[IPNET]]
     STR_OR_LIST = InstanceOrListOf[Resolvable[str]]
     U_IP_OR_STR  = (left-to-right, [IP_OR_LIST; STR_OR_LIST])   ResolvableIPOrStrOrList
     U_INT_STR_FN = (left-to-right, [int; str; FunctionDict])    Resolvable[Union[int, str]]
     holds_bytes v   v is bytes, or a list with a bytes member
     union_ok u      the syntactic classifier: the outputs of every member of u have a SHAPE (str / bool / bytes / list /
                     dump of a class with >= 2 fields / IPv4 network / IPv6 network, or the input handed back) that every
                     member which must refuse it does refuse -- or u is one of U_INT_STR_FN, U_IP_OR_STR
   REMAINING PREMISES, in plain words.  About pydantic-core's validators in lax python mode (each TRUE of pydantic 2.7 and
   CHECKED on every generated model by harness/props/c15.py:leaf_violations):
     (1) a scalar validator accepts its own output unchanged          (2) str keeps a str          (3) str yields a str
     (4) str accepts nothing but str and bytes-like input             (5) str, int, datetime refuse a list
     (6) str refuses a dict
   and two RESIDUAL, per-union premises that speak only about bytes-like input where a text is expected (never the case for
   JSON / YAML data; with facts true of pydantic both unions are UNSTABLE there: see the two theorems further down):
     (7) union_int_str_fn_on_bytes: if str decodes some bytes to s and int refuses those bytes, int refuses s
         [pydantic: false for bytearray(b"7")]
     (8) union_ip_or_str_on_bytes: if IP_OR_LIST refuses v (holding bytes) and STR_OR_LIST accepts it with result x, IP_OR_LIST
         refuses dump x   [pydantic: false for b"10.0.0.0/8"]
   (7) and (8) FOLLOW from "the oracle never accepts bytes for str" (C15_bytes_residuals_are_a_domain_restriction): the oracle
   may decline such input (EUndefined), as the runner's instance does. *)
Theorem C15_union_stability_live_schema :
  forall (core : leaf -> value -> res value),
    (forall s, core LStr (VStr s) = Ok (VStr s)) ->
    (forall v w, core LStr v = Ok w -> exists s, w = VStr s) ->
    (forall v w, core LStr v = Ok w -> (exists s, v = VStr s) \/ (exists b, v = VBytes b)) ->
    (forall l, core LStr (VList l) = Err EValidation) ->
    (forall l, core LInt (VList l) = Err EValidation) ->
    (forall l, core LDatetime (VList l) = Err EValidation) ->
    (forall d, core LStr (VDict d) = Err EValidation) ->
    (forall b s e, core LStr (VBytes b) = Ok (VStr s) -> core LInt (VBytes b) = Err e -> is_hard e = false ->
                   exists e', core LInt (VStr s) = Err e' /\ is_hard e' = false) ->                       (* U_INT_STR_FN, bytes *)
    (forall n v x, holds_bytes v ->
                   soft_err (validate CLASSES RESOURCE_MODELS true (leaf_validate core) n IP_OR_LIST v) ->
                   validate CLASSES RESOURCE_MODELS true (leaf_validate core) n STR_OR_LIST v = Ok x ->
                   soft_err (validate CLASSES RESOURCE_MODELS true (leaf_validate core) n IP_OR_LIST (dump x))) ->   (* U_IP_OR_STR, bytes *)
    forall u, In u (unions_of_table CLASSES) ->
    forall n, stable_for (validate CLASSES RESOURCE_MODELS true (leaf_validate core) n) u.
Proof. exact union_stability_live. Qed.
Print Assumptions C15_union_stability_live_schema.

(* the classifier is sound (any union it accepts is stable at every depth), and it accepts the 15 distinct unions of the live
   table -- 13 by the shape argument alone, U_INT_STR_FN and U_IP_OR_STR by their own lemmas; every union written in the live
   classes is one of the 15.  The last three facts are re-proved against the regenerated table on every run. *)
Theorem C15_union_classifier_sound :
  forall (core : leaf -> value -> res value),
    (forall s, core LStr (VStr s) = Ok (VStr s)) ->
    (forall v w, core LStr v = Ok w -> exists s, w = VStr s) ->
    (forall v w, core LStr v = Ok w -> (exists s, v = VStr s) \/ (exists b, v = VBytes b)) ->
    (forall l, core LStr (VList l) = Err EValidation) ->
    (forall l, core LInt (VList l) = Err EValidation) ->
    (forall l, core LDatetime (VList l) = Err EValidation) ->
    (forall d, core LStr (VDict d) = Err EValidation) ->
    (forall b s e, core LStr (VBytes b) = Ok (VStr s) -> core LInt (VBytes b) = Err e -> is_hard e = false ->
                   exists e', core LInt (VStr s) = Err e' /\ is_hard e' = false) ->
    (forall n v x, holds_bytes v ->
                   soft_err (validate CLASSES RESOURCE_MODELS true (leaf_validate core) n IP_OR_LIST v) ->
                   validate CLASSES RESOURCE_MODELS true (leaf_validate core) n STR_OR_LIST v = Ok x ->
                   soft_err (validate CLASSES RESOURCE_MODELS true (leaf_validate core) n IP_OR_LIST (dump x))) ->
    forall u, union_ok u = true ->
    forall n, stable_for (validate CLASSES RESOURCE_MODELS true (leaf_validate core) n) u.
Proof. exact union_ok_sound. Qed.
Print Assumptions C15_union_classifier_sound.
Theorem C15_unions_of_live_table_covered :
  forallb union_ok TABLE_UNIONS = true /\
  List.length TABLE_UNIONS = (List.length (filter (generic_ok CLASSES) TABLE_UNIONS) + 2)%nat /\
  filter (fun u => negb (generic_ok CLASSES u)) TABLE_UNIONS = [U_INT_STR_FN; U_IP_OR_STR] /\
  (forall u, In u (unions_of_table CLASSES) -> In u TABLE_UNIONS).
Proof. exact (conj TABLE_UNIONS_ok (conj (proj1 TABLE_UNIONS_classified) (conj (proj2 TABLE_UNIONS_classified) table_unions_complete))). Qed.
Print Assumptions C15_unions_of_live_table_covered.

(* THE ROUND TRIP ON THE LIVE TABLE WITHOUT THE UNION HYPOTHESIS: premises (1)-(8) above and nothing else *)
Theorem C15_roundtrip_live_schema_no_union_hypothesis :
  forall (core : leaf -> value -> res value),
    (forall k v w, is_core k = true -> core k v = Ok w -> core k w = Ok w) ->
    (forall s, core LStr (VStr s) = Ok (VStr s)) ->
    (forall v w, core LStr v = Ok w -> exists s, w = VStr s) ->
    (forall v w, core LStr v = Ok w -> (exists s, v = VStr s) \/ (exists b, v = VBytes b)) ->
    (forall l, core LStr (VList l) = Err EValidation) ->
    (forall l, core LInt (VList l) = Err EValidation) ->
    (forall l, core LDatetime (VList l) = Err EValidation) ->
    (forall d, core LStr (VDict d) = Err EValidation) ->
    (forall b s e, core LStr (VBytes b) = Ok (VStr s) -> core LInt (VBytes b) = Err e -> is_hard e = false ->
                   exists e', core LInt (VStr s) = Err e' /\ is_hard e' = false) ->
    (forall n v x, holds_bytes v ->
                   soft_err (validate CLASSES RESOURCE_MODELS true (leaf_validate core) n IP_OR_LIST v) ->
                   validate CLASSES RESOURCE_MODELS true (leaf_validate core) n STR_OR_LIST v = Ok x ->
                   soft_err (validate CLASSES RESOURCE_MODELS true (leaf_validate core) n IP_OR_LIST (dump x))) ->
    forall n t v x,
      (forall u, In u (unions_of t) -> union_ok u = true) ->         (* decidable; no condition when t is a class of the table *)
      validate CLASSES RESOURCE_MODELS true (leaf_validate core) n t v = Ok x ->
      validate CLASSES RESOURCE_MODELS true (leaf_validate core) n t (dump x) = Ok x.
Proof. exact table_roundtrip'. Qed.
Print Assumptions C15_roundtrip_live_schema_no_union_hypothesis.

(* a whole template:  CFModel(m.model_dump()) = m *)
Theorem C15_roundtrip_template_no_union_hypothesis :
  forall (core : leaf -> value -> res value),
    (forall k v w, is_core k = true -> core k v = Ok w -> core k w = Ok w) ->
    (forall s, core LStr (VStr s) = Ok (VStr s)) ->
    (forall v w, core LStr v = Ok w -> exists s, w = VStr s) ->
    (forall v w, core LStr v = Ok w -> (exists s, v = VStr s) \/ (exists b, v = VBytes b)) ->
    (forall l, core LStr (VList l) = Err EValidation) ->
    (forall l, core LInt (VList l) = Err EValidation) ->
    (forall l, core LDatetime (VList l) = Err EValidation) ->
    (forall d, core LStr (VDict d) = Err EValidation) ->
    (forall b s e, core LStr (VBytes b) = Ok (VStr s) -> core LInt (VBytes b) = Err e -> is_hard e = false ->
                   exists e', core LInt (VStr s) = Err e' /\ is_hard e' = false) ->
    (forall n v x, holds_bytes v ->
                   soft_err (validate CLASSES RESOURCE_MODELS true (leaf_validate core) n IP_OR_LIST v) ->
                   validate CLASSES RESOURCE_MODELS true (leaf_validate core) n STR_OR_LIST v = Ok x ->
                   soft_err (validate CLASSES RESOURCE_MODELS true (leaf_validate core) n IP_OR_LIST (dump x))) ->
    forall n v x,
      validate CLASSES RESOURCE_MODELS true (leaf_validate core) n CFMODEL v = Ok x ->
      validate CLASSES RESOURCE_MODELS true (leaf_validate core) n CFMODEL (dump x) = Ok x.
Proof. exact table_roundtrip_template'. Qed.
Print Assumptions C15_roundtrip_template_no_union_hypothesis.

(* the same with the domain restriction spelled out instead of (4), (7), (8): the oracle accepts only a str for str (bytes-like
   input is declined or refused).  No premise mentions a union. *)
Theorem C15_roundtrip_template_text_only :
  forall (core : leaf -> value -> res value),
    (forall k v w, is_core k = true -> core k v = Ok w -> core k w = Ok w) ->
    (forall s, core LStr (VStr s) = Ok (VStr s)) ->
    (forall v w, core LStr v = Ok w -> exists s, w = VStr s) ->
    (forall v w, core LStr v = Ok w -> exists s, v = VStr s) ->
    (forall l, core LStr (VList l) = Err EValidation) ->
    (forall l, core LInt (VList l) = Err EValidation) ->
    (forall l, core LDatetime (VList l) = Err EValidation) ->
    (forall d, core LStr (VDict d) = Err EValidation) ->
    forall n v x,
      validate CLASSES RESOURCE_MODELS true (leaf_validate core) n CFMODEL v = Ok x ->
      validate CLASSES RESOURCE_MODELS true (leaf_validate core) n CFMODEL (dump x) = Ok x.
Proof. exact table_roundtrip_template_text. Qed.
Print Assumptions C15_roundtrip_template_text_only.
Theorem C15_bytes_residuals_are_a_domain_restriction :
  forall (core : leaf -> value -> res value),
    (forall l, core LStr (VList l) = Err EValidation) ->
    (forall b w, core LStr (VBytes b) <> Ok w) ->
    (forall b s e, core LStr (VBytes b) = Ok (VStr s) -> core LInt (VBytes b) = Err e -> is_hard e = false ->
                   exists e', core LInt (VStr s) = Err e' /\ is_hard e' = false) /\
    (forall n v x, holds_bytes v ->
                   soft_err (validate CLASSES RESOURCE_MODELS true (leaf_validate core) n IP_OR_LIST v) ->
                   validate CLASSES RESOURCE_MODELS true (leaf_validate core) n STR_OR_LIST v = Ok x ->
                   soft_err (validate CLASSES RESOURCE_MODELS true (leaf_validate core) n IP_OR_LIST (dump x))).
Proof. exact residuals_of_text_only. Qed.
Print Assumptions C15_bytes_residuals_are_a_domain_restriction.

(* ... and the restriction is needed: with facts that are TRUE of pydantic 2.7 the two unions are NOT stable.
   B_7 = b"7" / "7" (the input is a bytearray: int refuses it, str decodes it, int takes the text);
   B_NET = b"10.0.0.0/8" / "10.0.0.0/8" (no network type takes the ten bytes, str decodes them, the text is an IPv4 network).
   In pycfmodel: SecurityGroupIngressProp(IpProtocol=bytearray(b"6")) and StatementCondition(IpAddress={"aws:SourceIp":
   b"10.0.0.0/8"}) differ from their own re-validated dumps.  Bytes never come out of a JSON / YAML template. *)
Theorem C15_int_str_fn_unstable_on_bytes :
  forall (core : leaf -> value -> res value) n,
    core LStr (VBytes B_7) = Ok (VStr B_7) -> core LInt (VBytes B_7) = Err EValidation -> core LInt (VStr B_7) = Ok (VInt 7) ->
    ~ stable_for (validate CLASSES RESOURCE_MODELS true (leaf_validate core) n) U_INT_STR_FN.
Proof. exact int_str_fn_unstable_on_bytes. Qed.
Print Assumptions C15_int_str_fn_unstable_on_bytes.
Theorem C15_ip_or_str_unstable_on_bytes :
  forall (core : leaf -> value -> res value) n,
    core LStr (VBytes B_NET) = Ok (VStr B_NET) ->
    ~ stable_for (validate CLASSES RESOURCE_MODELS true (leaf_validate core) n) U_IP_OR_STR.
Proof. exact ip_or_str_unstable_on_bytes. Qed.
Print Assumptions C15_ip_or_str_unstable_on_bytes.

(* ---------------------------------------------------------------------------------------------------------------- *)
(* THE LEAF HYPOTHESES, DISCHARGED against the models of pycfmodel's own validators *)

(* all modelled leaves at once; what is left is the oracle's share *)
Theorem C15_leaf_accepts_own_output :
  forall (core : leaf -> value -> res value),
    (forall k v w, is_core k = true -> core k v = Ok w -> core k w = Ok w) ->
    forall k v w, leaf_validate core k v = Ok w -> leaf_validate core k w = Ok w.
Proof. exact leaf_accepts_own_output. Qed.
Print Assumptions C15_leaf_accepts_own_output.

(* SemiStrictBool: whatever it accepts it turns into a bool, and a bool it takes back as it is *)
Theorem C15_semistrictbool :
  forall v w, semi_strict_bool v = Ok w -> (exists b, w = VBool b) /\ semi_strict_bool w = Ok w.
Proof. exact (fun v w H => conj (semi_strict_bool_out v w H) (semi_strict_bool_own v w H)). Qed.
Print Assumptions C15_semistrictbool.

(* LooseIPv4Network / LooseIPv6Network: every well-formed network is accepted back, from the dumped OBJECT (python mode) and
   from its TEXT (json mode) alike -- by C17's  parse4 (print4 n) = Ok n  /  parse6 (print6_full n) = Ok n *)
Theorem C15_ipv4network :
  forall n, wf W4 n -> loose_net4 (net4_text n) = Ok (net4_text n) /\ loose_net4 (VStr (print4 n)) = Ok (net4_text n).
Proof. exact loose_net4_text. Qed.
Print Assumptions C15_ipv4network.
Theorem C15_ipv6network :
  forall n, wf W6 n -> loose_net6 (net6_text n) = Ok (net6_text n) /\ loose_net6 (VStr (print6_full n)) = Ok (net6_text n).
Proof. exact loose_net6_text. Qed.
Print Assumptions C15_ipv6network.
(* and whatever the validators accept -- text in any spelling, an integer, packed bytes -- is such a network *)
Theorem C15_ipnetwork_outputs :
  (forall v w, loose_net4 v = Ok w -> exists n, wf W4 n /\ w = net4_text n) /\
  (forall v w, loose_net6 v = Ok w -> exists n, wf W6 n /\ w = net6_text n).
Proof. exact (conj loose_net4_out loose_net6_out). Qed.
Print Assumptions C15_ipnetwork_outputs.

(* validate_binary after the repair: the dump of a binary value (bytes) is accepted back unchanged *)
Theorem C15_binary : forall b, validate_binary (VBytes b) = Ok (VBytes b).
Proof. exact validate_binary_dump. Qed.
Print Assumptions C15_binary.
Theorem C15_binary_own : forall v w, validate_binary v = Ok w -> validate_binary w = Ok w.
Proof. exact validate_binary_own. Qed.
Print Assumptions C15_binary_own.
(* the validator as it was before the repair (finding F11, repaired by commit a48b8e2): it does NOT accept its own output *)
Theorem C15_binary_before_repair_refuted : exists b, validate_binary_old (VBytes b) <> Ok (VBytes b).
Proof. exact Binary_refuted. Qed.
Print Assumptions C15_binary_before_repair_refuted.

(* Tag.Value: bools become "True" / "False", numbers their text; the dump (a str) is taken back unchanged *)
Theorem C15_tag_value : forall v w, str_num (tag_value_hook v) = Ok w -> (exists s, w = VStr s) /\ str_num (tag_value_hook w) = Ok w.
Proof. exact (fun v w H => conj (str_num_out _ w H) (tag_value_stable v w H)). Qed.
Print Assumptions C15_tag_value.

(* Statement.Effect: capitalisation is idempotent on what it lets through *)
Theorem C15_effect : forall w w', effect_hook w = Ok w' -> effect_hook w' = Ok w'.
Proof. exact effect_hook_own. Qed.
Print Assumptions C15_effect.

(* StatementCondition.remove_colon is idempotent (the dumped keys are the field names, which have no colon) *)
Theorem C15_colon_stable : forall d, remove_colon (remove_colon d) = remove_colon d.
Proof. exact remove_colon_idem. Qed.
Print Assumptions C15_colon_stable.

(* StatementCondition.__eq__ compares the dumped FIELDS only: the lazily built evaluator cache takes no part *)
Theorem C15_eq_ignores_cache : forall f c1 c2 g, cond_eq (f, c1) (g, c2) = cond_eq (f, None) (g, None).
Proof. exact cond_eq_ignores_cache. Qed.
Print Assumptions C15_eq_ignores_cache.
(* ... and it is the only class with private state; pydantic's default __eq__ would compare it (generated table) *)
Theorem C15_private_state_has_own_eq : forall c, In c CLASSES -> c_private c <> [] -> c_custom_eq c = true.
Proof. exact Schema_private_eq. Qed.
Print Assumptions C15_private_state_has_own_eq.

(* ---------------------------------------------------------------------------------------------------------------- *)
(* non-vacuity: the leaf hypotheses are satisfiable (the instance the runner uses satisfies them), and on a concrete template
   -- S3 bucket with numeric / boolean tag values and a "TRUE" flag, an IAM policy whose condition holds base64 text, IPv4 and
   IPv6 networks with host bits, a colon-qualified operator and a boolean, a security-group rule, an unmodelled resource --
   validation succeeds and the round trip is an equality *)
Example C15_ex_core_hypotheses_satisfiable :
  (forall k v w, core_dumped k v = Ok w -> core_dumped k w = Ok w) /\
  (forall s, core_dumped LStr (VStr s) = Ok (VStr s)) /\
  (forall v w, core_dumped LStr v = Ok w -> exists s, w = VStr s).
Proof. exact (conj core_dumped_own (conj core_dumped_str core_dumped_str_out)). Qed.
(* ... the shape premises too: the runner's instance meets every premise of C15_roundtrip_template_text_only *)
Example C15_ex_shape_hypotheses_satisfiable :
  (forall v w, core_dumped LStr v = Ok w -> exists s, v = VStr s) /\
  (forall l, core_dumped LStr (VList l) = Err EValidation) /\
  (forall l, core_dumped LInt (VList l) = Err EValidation) /\
  (forall l, core_dumped LDatetime (VList l) = Err EValidation) /\
  (forall d, core_dumped LStr (VDict d) = Err EValidation).
Proof. exact core_dumped_shapes. Qed.
Example C15_ex_template_roundtrip :
  exists x, run_template EX_RAW = Ok x /\ run_template (dump x) = Ok x.
Proof. eexists. split; [vm_compute; reflexivity | vm_compute; reflexivity]. Qed.

Local Open Scope N_scope.
(* leaf witnesses: "TRUE" -> true -> true; 10.1.2.3/8 -> 10.0.0.0/8 (object and text); "aGVsbG8=" -> b"hello" -> b"hello";
   the pre-repair validator on b"hello": refused;  True -> "True" -> "True";  "aLLoW" -> "Allow" -> "Allow" *)
Example C15_ex_leaves :
  semi_strict_bool (VStr [84;82;85;69]) = Ok (VBool true) /\ semi_strict_bool (VBool true) = Ok (VBool true) /\
  semi_strict_bool (VStr [121;101;115]) = Err EValidation /\
  loose_net4 (VStr [49;48;46;49;46;50;46;51;47;56]) = Ok (VTyped KNet4 [49;48;46;48;46;48;46;48;47;56]) /\
  loose_net4 (VTyped KNet4 [49;48;46;48;46;48;46;48;47;56]) = Ok (VTyped KNet4 [49;48;46;48;46;48;46;48;47;56]) /\
  validate_binary (VStr [97;71;86;115;98;71;56;61]) = Ok (VBytes [104;101;108;108;111]) /\
  validate_binary (VBytes [104;101;108;108;111]) = Ok (VBytes [104;101;108;108;111]) /\
  validate_binary_old (VBytes [104;101;108;108;111]) = Err EValidation /\
  str_num (tag_value_hook (VBool true)) = Ok (VStr [84;114;117;101]) /\
  effect_hook (VStr [97;76;76;111;87]) = Ok (VStr [65;108;108;111;119]) /\
  effect_hook (VStr [65;108;108;111;119]) = Ok (VStr [65;108;108;111;119]).
Proof. repeat split; vm_compute; reflexivity. Qed.
