(* C12 -- Condition blocks combine operators, keys, values and qualifiers as IAM specifies.
   Statements only; every proof is [exact] of a lemma proved in Iam/BlockFacts.v or Iam/BlockAlgebra.v (the algebra of
   blocks: order independence, value lists as disjunction / conjunction, blocks as conjunctions, qualifiers, context
   irrelevance, empty block and Null -- second half of this file).

   eval_block test ord b ctx  is  StatementCondition.model_validate(b)(ctx):  Some b = returned b, None = returned None.
   [test] is the single-value comparison (instance: Ops.op_test fold, property C11) and is arbitrary in every theorem;
   [ord] is the operator table (instance: the generated table OPERATORS of the live class) and is arbitrary too. *)
From Coq Require Import List Bool NArith ZArith Permutation.
From PV Require Import Base.Str Base.Value Iam.IpNet Iam.Ops Iam.OpNames Iam.Block Iam.BlockFacts Iam.OpTable Iam.BlockAlgebra.
From PVGen Require Import Operators.
Import ListNotations.

(* The block is satisfied EXACTLY WHEN every operator set in it is satisfied for every one of its keys, where
   (key_sat) an IfExists operator is satisfied when its key is absent (missing or None), otherwise
   (inner_sat) no qualifier + one value: the key's own context value passes the comparison;
               ForAllValues: the key is present and EVERY one of its context values passes (value_sat);
               ForAnyValue / a value list: the key is present and AT LEAST ONE context value passes;
   (value_sat) positive operator: SOME listed policy value matches (alternatives);
               negated operator: the test holds for EVERY listed policy value (jointly excluded);
   "some ... passes" is Python's any(): the first that passes, those before it having been comparable (not raised). *)
Theorem C12_true_iff :
  forall (test : base_op -> cval -> cval -> option bool) (ord : list op_entry) (b : block) (ctx : context),
    eval_block test ord b ctx = Some true <-> block_sat test ord b ctx.
Proof. exact block_true_iff. Qed.
Print Assumptions C12_true_iff.

(* the same with plain "for all / there exists" (no evaluation order): True implies it always, and it is equivalent to
   True whenever every policy value of the block can be compared with every context value of its key *)
Theorem C12_true_plain :
  forall (test : base_op -> cval -> cval -> option bool) (ord : list op_entry) (b : block) (ctx : context),
    eval_block test ord b ctx = Some true -> block_sat_plain test ord b ctx.
Proof. exact block_true_plain. Qed.
Print Assumptions C12_true_plain.

Theorem C12_true_iff_comparable :
  forall (test : base_op -> cval -> cval -> option bool) (ord : list op_entry) (b : block) (ctx : context),
    comparable test ord b ctx ->
    (eval_block test ord b ctx = Some true <-> block_sat_plain test ord b ctx).
Proof. exact block_true_iff_plain. Qed.
Print Assumptions C12_true_iff_comparable.

(* calling a condition returns True, False or None: eval_block is a total function into option bool, so by
   construction no exception escapes; stated for the record *)
Theorem C12_total :
  forall (test : base_op -> cval -> cval -> option bool) (ord : list op_entry) (b : block) (ctx : context),
    eval_block test ord b ctx = Some true \/ eval_block test ord b ctx = Some false \/ eval_block test ord b ctx = None.
Proof. exact block_total. Qed.
Print Assumptions C12_total.

(* None only if a policy value is still an unresolved function object, or the context lacks a REQUIRED key (operator
   without IfExists), or it holds a value that cannot be compared with a listed policy value *)
Theorem C12_none_only_if :
  forall (test : base_op -> cval -> cval -> option bool) (ord : list op_entry) (b : block) (ctx : context),
    eval_block test ord b ctx = None ->
    ~ no_fn ord b \/
    exists e g k pv, is_set ord b e g /\ In (k, pv) g /\
      ((e_ifx e = false /\ ctx_get ctx k = None) \/
       exists p c, In p (plist pv) /\ In c (seen (e_qual e) pv ctx k) /\ test (e_base e) p c = None).
Proof. exact block_none_only_if. Qed.
Print Assumptions C12_none_only_if.

(* each key is tested against its own context value only: two contexts that agree on key k give the group of k the
   same verdict -- in particular changing the value of another key k2 cannot change it *)
Theorem C12_key_independent :
  forall (test : base_op -> cval -> cval -> option bool) (e : op_entry) (k : str) (pv : pvals) (ctx ctx' : context),
    ctx_get ctx k = ctx_get ctx' k -> eval_key test e k pv ctx = eval_key test e k pv ctx'.
Proof. exact key_independent. Qed.
Print Assumptions C12_key_independent.

Theorem C12_key_independent_update :
  forall (test : base_op -> cval -> cval -> option bool) (e : op_entry) (k1 : str) (pv : pvals) (ctx : context)
         (k2 : str) (v : ctxval),
    k2 <> k1 -> eval_key test e k1 pv ((k2, v) :: ctx) = eval_key test e k1 pv ctx.
Proof. exact key_independent_update. Qed.
Print Assumptions C12_key_independent_update.

Theorem C12_ifexists_absent :
  forall (test : base_op -> cval -> cval -> option bool) (e : op_entry) (k : str) (pv : pvals) (ctx : context),
    e_ifx e = true -> present ctx k = false -> eval_key test e k pv ctx = Some true.
Proof. exact ifexists_absent. Qed.
Print Assumptions C12_ifexists_absent.

(* the block is satisfied iff every single-operator single-key sub-block {name: {key: value(s)}} is *)
Theorem C12_conjunction :
  forall (test : base_op -> cval -> cval -> option bool) (ord : list op_entry) (b : block) (ctx : context),
    table_ok ord ->
    (eval_block test ord b ctx = Some true <->
     forall e g k pv, is_set ord b e g -> In (k, pv) g -> eval_block test ord [(e_name e, [(k, pv)])] ctx = Some true).
Proof. exact block_conjunction. Qed.
Print Assumptions C12_conjunction.

(* ... and the generated table of the live class is such a table *)
Theorem C12_live_table_ok : table_ok OPERATORS.
Proof. exact Operators_table_ok. Qed.
Print Assumptions C12_live_table_ok.

(* "ForAllValues:StringLike" and "ForAllValuesStringLike" are the same operator: colons in operator names are ignored *)
Theorem C12_colon :
  forall (test : base_op -> cval -> cval -> option bool) (ord : list op_entry) (n : str) (g : groups) (b : block)
         (ctx : context),
    eval_block test ord ((n, g) :: b) ctx = eval_block test ord ((norm_name n, g) :: b) ctx.
Proof. exact colon_irrelevant_one. Qed.
Print Assumptions C12_colon.

Theorem C12_colon_block :
  forall (test : base_op -> cval -> cval -> option bool) (ord : list op_entry) (b : block) (ctx : context),
    eval_block test ord (norm_block b) ctx = eval_block test ord b ctx.
Proof. exact colon_irrelevant. Qed.
Print Assumptions C12_colon_block.

(* =================================================================================================================
   THE ALGEBRA OF CONDITION BLOCKS (Iam/BlockAlgebra.v).
   The verdict is three-valued (Some true | Some false | None = undetermined).  Python's all()/any() stop at the first
   decisive member and an exception aborts them, so "True" never depends on an evaluation order while the split between
   False and None may.  Each law is therefore given as: the unconditional part; full three-valued equality under a
   definedness hypothesis; and, where full equality fails without it, a refutation with a concrete witness.

   and_sc x y / or_sc x y : left-to-right and-then / or-else (None on the left makes the whole None);
   and3_spec r1 r2 r      : r is a conjunction of r1 and r2 evaluated in an unknown interleaving:
                            true & y = y, x & true = x, false & false = false, None & None = None,
                            false & None (either way) = false OR None.
   ================================================================================================================= *)

(* ---- 1. order independence ---- *)

(* the order of the operators of a block is irrelevant, undetermined case included, provided no operator is written
   twice (only possible with two colon spellings of one name) *)
Theorem C12_operator_order_blind :
  forall (test : base_op -> cval -> cval -> option bool) (ord : list op_entry) (b b' : block) (ctx : context),
    NoDup (map fst (norm_block b)) -> Permutation b b' -> eval_block test ord b ctx = eval_block test ord b' ctx.
Proof. exact block_perm_ops. Qed.
Print Assumptions C12_operator_order_blind.

(* ... and the side condition is needed: {"StringEquals": {"k1": "b"}, "String:Equals": {"k1": "a"}} on {"k1": "a"}
   is True, with the two operators swapped it is False (the later spelling replaces the earlier one) *)
Theorem C12_operator_order_nodup_needed :
  exists b1 b2 ctx, Permutation b1 b2 /\ Witness.ev b1 ctx = Some true /\ Witness.ev b2 ctx = Some false.
Proof. exact Witness.ops_order_nodup_needed. Qed.
Print Assumptions C12_operator_order_nodup_needed.

(* the order of the keys under one operator: "satisfied" is order-free ... *)
Theorem C12_key_order_blind :
  forall (test : base_op -> cval -> cval -> option bool) (ord : list op_entry) (b b' : block) (ctx : context),
    keys_permuted b b' -> (eval_block test ord b ctx = Some true <-> eval_block test ord b' ctx = Some true).
Proof. exact block_perm_keys_true. Qed.
Print Assumptions C12_key_order_blind.

(* ... the whole verdict is order-free when every key's verdict is defined ... *)
Theorem C12_key_order_blind_defined :
  forall (test : base_op -> cval -> cval -> option bool) (ord : list op_entry) (b b' : block) (ctx : context),
    keys_permuted b b' ->
    (forall e g k pv, is_set ord b e g -> In (k, pv) g -> eval_key test e k pv ctx <> None) ->
    eval_block test ord b ctx = eval_block test ord b' ctx.
Proof. exact block_perm_keys. Qed.
Print Assumptions C12_key_order_blind_defined.

(* ... in general a permutation of keys can only exchange False and None ... *)
Theorem C12_key_order_weak :
  forall (test : base_op -> cval -> cval -> option bool) (ord : list op_entry) (b b' : block) (ctx : context),
    keys_permuted b b' ->
    eval_block test ord b ctx = eval_block test ord b' ctx \/
    (eval_block test ord b ctx <> Some true /\ eval_block test ord b' ctx <> Some true).
Proof. exact block_perm_keys_weak. Qed.
Print Assumptions C12_key_order_weak.

(* ... and it does: {"StringEquals": {"k1": "a", "k2": "b"}} on {"k1": "x"} is False (k1 fails first),
   {"StringEquals": {"k2": "b", "k1": "a"}} is None (k2 is missing and is looked at first) *)
Theorem C12_key_order_refuted :
  exists b1 b2 ctx, keys_permuted b1 b2 /\ Witness.ev b1 ctx = Some false /\ Witness.ev b2 ctx = None.
Proof. exact Witness.key_order_refuted. Qed.
Print Assumptions C12_key_order_refuted.

(* the same for one operator's group *)
Theorem C12_entry_key_order :
  forall (test : base_op -> cval -> cval -> option bool) (e : op_entry) (g g' : groups) (ctx : context),
    Permutation g g' ->
    (eval_entry test ctx (e, g) = Some true <-> eval_entry test ctx (e, g') = Some true).
Proof. exact entry_perm_true. Qed.
Print Assumptions C12_entry_key_order.

Theorem C12_entry_key_order_defined :
  forall (test : base_op -> cval -> cval -> option bool) (e : op_entry) (g g' : groups) (ctx : context),
    Permutation g g' -> (forall k pv, In (k, pv) g -> eval_key test e k pv ctx <> None) ->
    eval_entry test ctx (e, g) = eval_entry test ctx (e, g').
Proof. exact entry_perm. Qed.
Print Assumptions C12_entry_key_order_defined.

(* ---- 2. the values listed under one key ---- *)

(* exact, with the undetermined case: or-else for a positive operator, and-then for a negated one *)
Theorem C12_values_app :
  forall (test : base_op -> cval -> cval -> option bool) (o : base_op) (ps qs : list cval) (c : cval),
    value_ok test o (ps ++ qs) c =
    (if negated o then and_sc else or_sc) (value_ok test o ps c) (value_ok test o qs c).
Proof. exact value_ok_app. Qed.
Print Assumptions C12_values_app.

Theorem C12_values_cons :
  forall (test : base_op -> cval -> cval -> option bool) (o : base_op) (p : cval) (ps : list cval) (c : cval),
    value_ok test o (p :: ps) c = (if negated o then and_sc else or_sc) (test o p c) (value_ok test o ps c).
Proof. exact value_ok_cons. Qed.
Print Assumptions C12_values_cons.

Theorem C12_values_single :
  forall (test : base_op -> cval -> cval -> option bool) (o : base_op) (p c : cval), value_ok test o [p] c = test o p c.
Proof. exact value_ok_single. Qed.
Print Assumptions C12_values_single.

(* positive operator: the verdict is the DISJUNCTION over the values *)
Theorem C12_values_disjunction :
  forall (test : base_op -> cval -> cval -> option bool) (o : base_op) (ps : list cval) (c : cval),
    negated o = false ->
    (value_ok test o ps c = Some true -> exists p, In p ps /\ test o p c = Some true) /\
    (value_ok test o ps c = Some false <-> forall p, In p ps -> test o p c = Some false) /\
    (comparable_vals test o ps c -> (value_ok test o ps c = Some true <-> exists p, In p ps /\ test o p c = Some true)).
Proof. exact values_disjunction. Qed.
Print Assumptions C12_values_disjunction.

(* negated operator: the CONJUNCTION *)
Theorem C12_negated_values_conjunction :
  forall (test : base_op -> cval -> cval -> option bool) (o : base_op) (ps : list cval) (c : cval),
    negated o = true ->
    (value_ok test o ps c = Some true <-> forall p, In p ps -> test o p c = Some true) /\
    (value_ok test o ps c = Some false -> exists p, In p ps /\ test o p c = Some false) /\
    (comparable_vals test o ps c -> (value_ok test o ps c = Some false <-> exists p, In p ps /\ test o p c = Some false)).
Proof. exact negated_values_conjunction. Qed.
Print Assumptions C12_negated_values_conjunction.

(* MONOTONE: more values under a positive operator can only turn False into True *)
Theorem C12_values_monotone :
  forall (test : base_op -> cval -> cval -> option bool) (o : base_op) (ps qs : list cval) (c : cval),
    negated o = false -> incl ps qs ->
    (value_ok test o qs c = Some false -> value_ok test o ps c = Some false) /\
    (comparable_vals test o qs c -> value_ok test o ps c = Some true -> value_ok test o qs c = Some true).
Proof. exact values_monotone. Qed.
Print Assumptions C12_values_monotone.

Theorem C12_values_monotone_app :
  forall (test : base_op -> cval -> cval -> option bool) (o : base_op) (ps qs : list cval) (c : cval),
    negated o = false -> value_ok test o ps c = Some true -> value_ok test o (ps ++ qs) c = Some true.
Proof. exact values_monotone_app. Qed.
Print Assumptions C12_values_monotone_app.

Theorem C12_values_add_one :
  forall (test : base_op -> cval -> cval -> option bool) (o : base_op) (p : cval) (ps : list cval) (c : cval),
    negated o = false -> test o p c <> None ->
    value_ok test o ps c = Some true -> value_ok test o (p :: ps) c = Some true.
Proof. exact values_add_one. Qed.
Print Assumptions C12_values_add_one.

(* more values under a negated operator can only turn True into False *)
Theorem C12_negated_values_antimonotone :
  forall (test : base_op -> cval -> cval -> option bool) (o : base_op) (ps qs : list cval) (c : cval),
    negated o = true -> incl ps qs ->
    (value_ok test o qs c = Some true -> value_ok test o ps c = Some true) /\
    (comparable_vals test o qs c -> value_ok test o ps c = Some false -> value_ok test o qs c = Some false).
Proof. exact negated_values_antimonotone. Qed.
Print Assumptions C12_negated_values_antimonotone.

Theorem C12_negated_values_antimonotone_app :
  forall (test : base_op -> cval -> cval -> option bool) (o : base_op) (ps qs : list cval) (c : cval),
    negated o = true -> value_ok test o ps c = Some false -> value_ok test o (ps ++ qs) c = Some false.
Proof. exact negated_values_antimonotone_app. Qed.
Print Assumptions C12_negated_values_antimonotone_app.

(* the value list is a SET when the comparisons are defined: order and repetition are irrelevant *)
Theorem C12_values_set :
  forall (test : base_op -> cval -> cval -> option bool) (o : base_op) (ps qs : list cval) (c : cval),
    (forall p, In p ps <-> In p qs) -> comparable_vals test o ps c -> value_ok test o ps c = value_ok test o qs c.
Proof. exact values_same_set. Qed.
Print Assumptions C12_values_set.

Theorem C12_values_perm :
  forall (test : base_op -> cval -> cval -> option bool) (o : base_op) (ps qs : list cval) (c : cval),
    Permutation ps qs -> comparable_vals test o ps c -> value_ok test o ps c = value_ok test o qs c.
Proof. exact values_perm. Qed.
Print Assumptions C12_values_perm.

(* unconditionally: the verdict that needs ALL values (False for a positive, True for a negated operator) is
   order-free, and a permutation can only trade the other verdict for None *)
Theorem C12_values_perm_weak :
  forall (test : base_op -> cval -> cval -> option bool) (o : base_op) (ps qs : list cval) (c : cval),
    Permutation ps qs ->
    (value_ok test o ps c = Some (negated o) <-> value_ok test o qs c = Some (negated o)) /\
    (value_ok test o ps c = value_ok test o qs c \/
     (value_ok test o ps c <> Some (negated o) /\ value_ok test o qs c <> Some (negated o))).
Proof. exact values_perm_weak. Qed.
Print Assumptions C12_values_perm_weak.

Theorem C12_values_dup :
  forall (test : base_op -> cval -> cval -> option bool) (o : base_op) (p : cval) (ps : list cval) (c : cval),
    value_ok test o (p :: p :: ps) c = value_ok test o (p :: ps) c.
Proof. exact values_dup. Qed.
Print Assumptions C12_values_dup.

(* REFUTED without comparability (C11's comparison): {"DateLessThan": {k: ["2030-01-01T00:00:00Z", "2030-01-01T00:00:00"]}} on
   k = 2020-01-01T00:00:00Z is True, with the two values swapped it is None (aware < naive raises first); hence also: adding the
   naive value in front of the aware one turns True into None.
   FINDING F30 came from this refutation: as first proved its witness was {"IpAddress": {k: ["10.0.0.0/8", "::/0"]}} on
   k = 10.1.1.1/32 (True; swapped: None, subnet_of across IP versions raised first) -- an entirely ordinary policy, AWS's own
   examples list IPv4 and IPv6 ranges under one key.  Replayed on the library it failed, the library was repaired (/repo ea4be28: a
   value of the other IP version is outside the network), the model followed, and the IP operators are now order-blind:
   C12_ip_values_order_blind below. *)
Theorem C12_values_order_refuted :
  exists o ps qs c, negated o = false /\ Permutation ps qs /\
    value_ok (op_test Witness.idf) o ps c = Some true /\ value_ok (op_test Witness.idf) o qs c = None.
Proof. exact Witness.values_order_refuted. Qed.
Print Assumptions C12_values_order_refuted.

Theorem C12_values_monotone_needs_comparable :
  exists o p ps c, negated o = false /\
    value_ok (op_test Witness.idf) o ps c = Some true /\ value_ok (op_test Witness.idf) o (p :: ps) c = None.
Proof. exact Witness.values_monotone_needs_comparable. Qed.
Print Assumptions C12_values_monotone_needs_comparable.

Theorem C12_values_order_refuted_date :
  exists ps qs c, Permutation ps qs /\
    value_ok (op_test Witness.idf) ODateLessThan ps c = Some true /\ value_ok (op_test Witness.idf) ODateLessThan qs c = None.
Proof. exact Witness.values_order_refuted_date. Qed.
Print Assumptions C12_values_order_refuted_date.

(* ... and those are the only two operator groups where it can fail: if the listed values agree on whether the context
   value can be compared at all (uniform_vals), the value list is a set unconditionally; with C11's comparison every
   operator except the four Date orderings is such, for policy values of its type (since fix F30 the IP operators too) *)
Theorem C12_values_set_uniform :
  forall (test : base_op -> cval -> cval -> option bool) (o : base_op) (ps qs : list cval) (c : cval),
    uniform_vals test o ps c -> (forall p, In p ps <-> In p qs) -> value_ok test o ps c = value_ok test o qs c.
Proof. exact values_same_set_uniform. Qed.
Print Assumptions C12_values_set_uniform.

Theorem C12_op_test_uniform :
  forall (fold : str -> str) (o : base_op) (p q c : cval),
    uniform_op o = true -> has_fam (family o) p = true -> has_fam (family o) q = true ->
    (op_test fold o p c = None <-> op_test fold o q c = None).
Proof. exact op_test_uniform. Qed.
Print Assumptions C12_op_test_uniform.

Theorem C12_values_set_typed :
  forall (fold : str -> str) (o : base_op) (ps qs : list cval) (c : cval),
    uniform_op o = true -> (forall p, In p ps -> has_fam (family o) p = true) -> (forall p, In p ps <-> In p qs) ->
    value_ok (op_test fold) o ps c = value_ok (op_test fold) o qs c.
Proof. exact typed_values_set. Qed.
Print Assumptions C12_values_set_typed.

(* since fix F30: ranges of both IP versions under one key are alternatives in ANY order, undetermined case included *)
Theorem C12_ip_values_order_blind :
  forall (fold : str -> str) (o : base_op) (ps qs : list cval) (c : cval),
    (o = OIpAddress \/ o = ONotIpAddress) -> (forall p, In p ps -> has_fam (family o) p = true) -> (forall p, In p ps <-> In p qs) ->
    value_ok (op_test fold) o ps c = value_ok (op_test fold) o qs c.
Proof. exact Witness.ip_values_order_blind. Qed.
Print Assumptions C12_ip_values_order_blind.
Example C12_ex_ip_mixed_versions_any_order :
  value_ok (op_test Witness.idf) OIpAddress [Witness.net10; Witness.net6all] Witness.host10 = Some true /\
  value_ok (op_test Witness.idf) OIpAddress [Witness.net6all; Witness.net10] Witness.host10 = Some true /\
  value_ok (op_test Witness.idf) OIpAddress [Witness.net10; Witness.net6all] (CNet (Net V6 1 128)) = Some true /\
  value_ok (op_test Witness.idf) ONotIpAddress [Witness.net6all; Witness.net10] Witness.host10 = Some false.
Proof. exact Witness.ip_mixed_versions_any_order. Qed.

(* for a NEGATED operator the order can matter only with a policy value outside the operator's type (a number under a string
   operator: pydantic does not produce such a block) *)
Theorem C12_negated_values_order_refuted :
  exists o ps qs c, negated o = true /\ Permutation ps qs /\
    value_ok (op_test Witness.idf) o ps c = Some false /\ value_ok (op_test Witness.idf) o qs c = None.
Proof. exact Witness.negated_values_order_refuted. Qed.
Print Assumptions C12_negated_values_order_refuted.

Theorem C12_block_values_order_refuted :
  exists b1 b2 ctx, block_rel (fun _ => groups_rel (fun _ pv pv' => Permutation (plist pv) (plist pv'))) b1 b2 /\
    Witness.ev b1 ctx = Some true /\ Witness.ev b2 ctx = None.
Proof. exact Witness.block_values_order_refuted. Qed.
Print Assumptions C12_block_values_order_refuted.

(* one (operator, key) group with a value list *)
Theorem C12_key_values_monotone :
  forall (test : base_op -> cval -> cval -> option bool) (e : op_entry) (k : str) (ps ps' : list cval) (ctx : context),
    negated (e_base e) = false -> incl ps ps' -> comparable_key test (e_base e) ps' ctx k ->
    eval_key test e k (PMany ps) ctx = Some true -> eval_key test e k (PMany ps') ctx = Some true.
Proof. exact key_values_monotone. Qed.
Print Assumptions C12_key_values_monotone.

Theorem C12_key_negated_values_antimonotone :
  forall (test : base_op -> cval -> cval -> option bool) (e : op_entry) (k : str) (ps ps' : list cval) (ctx : context),
    negated (e_base e) = true -> incl ps' ps -> comparable_key test (e_base e) ps ctx k ->
    eval_key test e k (PMany ps) ctx = Some true -> eval_key test e k (PMany ps') ctx = Some true.
Proof. exact key_negated_values_antimonotone. Qed.
Print Assumptions C12_key_negated_values_antimonotone.

Theorem C12_key_values_set :
  forall (test : base_op -> cval -> cval -> option bool) (e : op_entry) (k : str) (ps ps' : list cval) (ctx : context),
    (forall p, In p ps <-> In p ps') -> comparable_key test (e_base e) ps ctx k ->
    eval_key test e k (PMany ps) ctx = eval_key test e k (PMany ps') ctx.
Proof. exact key_values_same_set. Qed.
Print Assumptions C12_key_values_set.

(* lifted to blocks: b' = b with values ADDED under positive operators and REMOVED under negated ones (value lists
   only; [looser]): b' is at least as permissive as b *)
Theorem C12_block_looser :
  forall (test : base_op -> cval -> cval -> option bool) (ord : list op_entry) (b b' : block) (ctx : context),
    block_rel (fun n => groups_rel (looser test ord ctx n)) b b' ->
    eval_block test ord b ctx = Some true -> eval_block test ord b' ctx = Some true.
Proof. exact block_looser. Qed.
Print Assumptions C12_block_looser.

(* lifted to blocks: value lists with the same members (any order, any repetition) give the same verdict *)
Theorem C12_block_values_set :
  forall (test : base_op -> cval -> cval -> option bool) (ord : list op_entry) (b b' : block) (ctx : context),
    block_rel (fun n => groups_rel (same_values test ord ctx n)) b b' ->
    eval_block test ord b ctx = eval_block test ord b' ctx.
Proof. exact block_values_same_set. Qed.
Print Assumptions C12_block_values_set.

(* ---- 3. blocks are conjunctions ---- *)

Theorem C12_app :
  forall (test : base_op -> cval -> cval -> option bool) (ord : list op_entry) (b1 b2 : block) (ctx : context),
    ops_disjoint b1 b2 ->
    and3_spec (eval_block test ord b1 ctx) (eval_block test ord b2 ctx) (eval_block test ord (b1 ++ b2) ctx).
Proof. exact block_app_and3. Qed.
Print Assumptions C12_app.

Theorem C12_app_true :
  forall (test : base_op -> cval -> cval -> option bool) (ord : list op_entry) (b1 b2 : block) (ctx : context),
    ops_disjoint b1 b2 ->
    (eval_block test ord (b1 ++ b2) ctx = Some true <->
     eval_block test ord b1 ctx = Some true /\ eval_block test ord b2 ctx = Some true).
Proof. exact block_app_true. Qed.
Print Assumptions C12_app_true.

Theorem C12_app_false :
  forall (test : base_op -> cval -> cval -> option bool) (ord : list op_entry) (b1 b2 : block) (ctx : context),
    ops_disjoint b1 b2 -> eval_block test ord (b1 ++ b2) ctx = Some false ->
    eval_block test ord b1 ctx = Some false \/ eval_block test ord b2 ctx = Some false.
Proof. exact block_app_false. Qed.
Print Assumptions C12_app_false.

Theorem C12_app_none :
  forall (test : base_op -> cval -> cval -> option bool) (ord : list op_entry) (b1 b2 : block) (ctx : context),
    ops_disjoint b1 b2 -> eval_block test ord (b1 ++ b2) ctx = None ->
    eval_block test ord b1 ctx = None \/ eval_block test ord b2 ctx = None.
Proof. exact block_app_none. Qed.
Print Assumptions C12_app_none.

(* False and None really combine to either, depending on the declaration order of the operators in the class *)
Theorem C12_app_mixed_both_occur :
  exists b1 b2 b1' b2' ctx, ops_disjoint b1 b2 /\ ops_disjoint b1' b2' /\
    Witness.ev b1 ctx = Some false /\ Witness.ev b2 ctx = None /\ Witness.ev (b1 ++ b2) ctx = Some false /\
    Witness.ev b1' ctx = Some false /\ Witness.ev b2' ctx = None /\ Witness.ev (b1' ++ b2') ctx = None.
Proof. exact Witness.and3_mixed_both_occur. Qed.
Print Assumptions C12_app_mixed_both_occur.

(* no side condition: the later part is never replaced *)
Theorem C12_app_later :
  forall (test : base_op -> cval -> cval -> option bool) (ord : list op_entry) (b1 b2 : block) (ctx : context),
    eval_block test ord (b1 ++ b2) ctx = Some true -> eval_block test ord b2 ctx = Some true.
Proof. exact block_app_later. Qed.
Print Assumptions C12_app_later.

(* adding an operator can only make a block less permissive *)
Theorem C12_adding_operator_restricts :
  forall (test : base_op -> cval -> cval -> option bool) (ord : list op_entry) (n : str) (g : groups) (b : block)
         (ctx : context),
    eval_block test ord ((n, g) :: b) ctx = Some true -> eval_block test ord b ctx = Some true.
Proof. exact block_cons_restricts. Qed.
Print Assumptions C12_adding_operator_restricts.

(* REFUTED for the earlier part (and for an operator added at the END) when a name is spelled again:
   b1 = {"StringEquals": {"k1": "b"}}, b2 = {"String:Equals": {"k1": "a"}}, {"k1": "a"}: b1 ++ b2 True, b1 False *)
Theorem C12_app_needs_disjoint :
  exists b1 b2 ctx, Witness.ev (b1 ++ b2) ctx = Some true /\ Witness.ev b1 ctx = Some false.
Proof. exact Witness.app_needs_disjoint. Qed.
Print Assumptions C12_app_needs_disjoint.

(* ---- 4. qualifiers ---- *)

Theorem C12_forall_empty :
  forall (test : base_op -> cval -> cval -> option bool) (e : op_entry) (k : str) (pv : pvals) (ctx : context),
    e_qual e = QAll -> ctx_get ctx k = Some (XMany []) -> eval_key test e k pv ctx = Some true.
Proof. exact forall_empty. Qed.
Print Assumptions C12_forall_empty.

Theorem C12_forany_empty :
  forall (test : base_op -> cval -> cval -> option bool) (e : op_entry) (k : str) (pv : pvals) (ctx : context),
    e_qual e = QAny -> ctx_get ctx k = Some (XMany []) -> eval_key test e k pv ctx = Some false.
Proof. exact forany_empty. Qed.
Print Assumptions C12_forany_empty.

(* an ABSENT key: undetermined for both qualifiers (KeyError), True with IfExists *)
Theorem C12_qualifier_absent :
  forall (test : base_op -> cval -> cval -> option bool) (e : op_entry) (k : str) (pv : pvals) (ctx : context),
    e_qual e <> QNone -> ctx_get ctx k = None -> eval_key test e k pv ctx = if e_ifx e then Some true else None.
Proof. exact qualifier_absent. Qed.
Print Assumptions C12_qualifier_absent.

Theorem C12_qualifier_app :
  forall (test : base_op -> cval -> cval -> option bool) (e : op_entry) (k : str) (pv : pvals)
         (ctx1 ctx2 ctx : context) (cs ds : list cval),
    e_qual e <> QNone ->
    ctx_get ctx1 k = Some (XMany cs) -> ctx_get ctx2 k = Some (XMany ds) -> ctx_get ctx k = Some (XMany (cs ++ ds)) ->
    eval_key test e k pv ctx =
    (match e_qual e with QAll => and_sc | _ => or_sc end) (eval_key test e k pv ctx1) (eval_key test e k pv ctx2).
Proof. exact qualifier_app. Qed.
Print Assumptions C12_qualifier_app.

Theorem C12_forany_monotone :
  forall (test : base_op -> cval -> cval -> option bool) (e : op_entry) (k : str) (pv : pvals) (ctx ctx' : context)
         (cs cs' : list cval),
    e_qual e = QAny -> ctx_get ctx k = Some (XMany cs) -> ctx_get ctx' k = Some (XMany cs') -> incl cs cs' ->
    (eval_key test e k pv ctx' = Some false -> eval_key test e k pv ctx = Some false) /\
    ((forall c, In c cs' -> value_ok test (e_base e) (plist pv) c <> None) ->
     eval_key test e k pv ctx = Some true -> eval_key test e k pv ctx' = Some true).
Proof. exact forany_monotone. Qed.
Print Assumptions C12_forany_monotone.

Theorem C12_forany_monotone_app :
  forall (test : base_op -> cval -> cval -> option bool) (e : op_entry) (k : str) (pv : pvals) (ctx ctx' : context)
         (cs ds : list cval),
    e_qual e = QAny -> ctx_get ctx k = Some (XMany cs) -> ctx_get ctx' k = Some (XMany (cs ++ ds)) ->
    eval_key test e k pv ctx = Some true -> eval_key test e k pv ctx' = Some true.
Proof. exact forany_monotone_app. Qed.
Print Assumptions C12_forany_monotone_app.

Theorem C12_forall_antimonotone :
  forall (test : base_op -> cval -> cval -> option bool) (e : op_entry) (k : str) (pv : pvals) (ctx ctx' : context)
         (cs cs' : list cval),
    e_qual e = QAll -> ctx_get ctx k = Some (XMany cs) -> ctx_get ctx' k = Some (XMany cs') -> incl cs cs' ->
    (eval_key test e k pv ctx' = Some true -> eval_key test e k pv ctx = Some true) /\
    ((forall c, In c cs' -> value_ok test (e_base e) (plist pv) c <> None) ->
     eval_key test e k pv ctx = Some false -> eval_key test e k pv ctx' = Some false).
Proof. exact forall_antimonotone. Qed.
Print Assumptions C12_forall_antimonotone.

Theorem C12_forall_antimonotone_app :
  forall (test : base_op -> cval -> cval -> option bool) (e : op_entry) (k : str) (pv : pvals) (ctx ctx' : context)
         (cs ds : list cval),
    e_qual e = QAll -> ctx_get ctx k = Some (XMany cs) -> ctx_get ctx' k = Some (XMany (cs ++ ds)) ->
    eval_key test e k pv ctx = Some false -> eval_key test e k pv ctx' = Some false.
Proof. exact forall_antimonotone_app. Qed.
Print Assumptions C12_forall_antimonotone_app.

(* ...IfExists on a present key is the plain operator (absent key: C12_ifexists_absent) *)
Theorem C12_ifexists_present :
  forall (test : base_op -> cval -> cval -> option bool) (e e0 : op_entry) (k : str) (pv : pvals) (ctx : context),
    e_qual e0 = e_qual e -> e_base e0 = e_base e -> e_ifx e0 = false -> present ctx k = true ->
    eval_key test e k pv ctx = eval_key test e0 k pv ctx.
Proof. exact ifexists_present. Qed.
Print Assumptions C12_ifexists_present.

Theorem C12_ifexists_split :
  forall (test : base_op -> cval -> cval -> option bool) (e e0 : op_entry) (k : str) (pv : pvals) (ctx : context),
    e_qual e0 = e_qual e -> e_base e0 = e_base e -> e_ifx e0 = false -> e_ifx e = true ->
    eval_key test e k pv ctx = if present ctx k then eval_key test e0 k pv ctx else Some true.
Proof. exact ifexists_split. Qed.
Print Assumptions C12_ifexists_split.

(* ---- 5. context irrelevance at full strength ---- *)

Theorem C12_context_irrelevant :
  forall (test : base_op -> cval -> cval -> option bool) (ord : list op_entry) (b : block) (ctx ctx' : context),
    (forall e g k pv, is_set ord b e g -> In (k, pv) g -> ctx_get ctx k = ctx_get ctx' k) ->
    eval_block test ord b ctx = eval_block test ord b ctx'.
Proof. exact block_ctx_irrelevant. Qed.
Print Assumptions C12_context_irrelevant.

Theorem C12_context_irrelevant_keys :
  forall (test : base_op -> cval -> cval -> option bool) (ord : list op_entry) (b : block) (ctx ctx' : context),
    (forall k, In k (block_keys b) -> ctx_get ctx k = ctx_get ctx' k) ->
    eval_block test ord b ctx = eval_block test ord b ctx'.
Proof. exact block_ctx_irrelevant_keys. Qed.
Print Assumptions C12_context_irrelevant_keys.

Theorem C12_context_update :
  forall (test : base_op -> cval -> cval -> option bool) (ord : list op_entry) (b : block) (ctx : context)
         (k2 : str) (v : ctxval),
    ~ In k2 (block_keys b) -> eval_block test ord b ((k2, v) :: ctx) = eval_block test ord b ctx.
Proof. exact block_ctx_update. Qed.
Print Assumptions C12_context_update.

(* tight: a key that IS mentioned matters *)
Theorem C12_mentioned_key_matters :
  exists blk ctx ctx' k, In k (block_keys blk) /\ (forall k', k' <> k -> ctx_get ctx k' = ctx_get ctx' k') /\
    Witness.ev blk ctx = Some true /\ Witness.ev blk ctx' = Some false.
Proof. exact Witness.mentioned_key_matters. Qed.
Print Assumptions C12_mentioned_key_matters.

(* ---- 6. the empty block; Null ---- *)

Theorem C12_empty_block :
  forall (test : base_op -> cval -> cval -> option bool) (ord : list op_entry) (ctx : context),
    eval_block test ord [] ctx = Some true.
Proof. exact block_empty. Qed.
Print Assumptions C12_empty_block.

Theorem C12_no_keys :
  forall (test : base_op -> cval -> cval -> option bool) (ord : list op_entry) (b : block) (ctx : context),
    (forall n g, In (n, g) b -> g = []) -> eval_block test ord b ctx = Some true.
Proof. exact block_no_keys. Qed.
Print Assumptions C12_no_keys.

(* Null, as implemented and pinned by the library's tests: {"Null": {k: pb}} is True iff (k present) = pb *)
Theorem C12_null_presence :
  forall (fold : str -> str) (e : op_entry) (k : str) (pb : bool) (ctx : context),
    null_plain e -> ctx_real ctx k ->
    eval_key (op_test fold) e k (POne (CBool pb)) ctx = Some (Bool.eqb (present ctx k) pb).
Proof. exact null_presence. Qed.
Print Assumptions C12_null_presence.

Theorem C12_null_true_iff_present :
  forall (fold : str -> str) (e : op_entry) (k : str) (ctx : context),
    null_plain e -> ctx_real ctx k ->
    (eval_key (op_test fold) e k (POne (CBool true)) ctx = Some true <-> present ctx k = true).
Proof. exact null_true_iff_present. Qed.
Print Assumptions C12_null_true_iff_present.

Theorem C12_null_false_iff_absent :
  forall (fold : str -> str) (e : op_entry) (k : str) (ctx : context),
    null_plain e -> ctx_real ctx k ->
    (eval_key (op_test fold) e k (POne (CBool false)) ctx = Some true <-> present ctx k = false).
Proof. exact null_false_iff_absent. Qed.
Print Assumptions C12_null_false_iff_absent.

(* "{"Null": {k: true}} is True iff k is ABSENT" (the AWS reading) is FALSE of the evaluation *)
Theorem C12_null_true_iff_absent_refuted :
  exists ctx ctx', present ctx Witness.k1 = false /\ present ctx' Witness.k1 = true /\
    Witness.ev [(Witness.n_Null, [(Witness.k1, POne (CBool true))])] ctx = Some false /\
    Witness.ev [(Witness.n_Null, [(Witness.k1, POne (CBool true))])] ctx' = Some true.
Proof. exact Witness.null_true_iff_absent_refuted. Qed.
Print Assumptions C12_null_true_iff_absent_refuted.

(* interplay with IfExists *)
Theorem C12_null_false_ifexists :
  forall (fold : str -> str) (en e : op_entry) (k : str) (pv : pvals) (ctx : context),
    null_plain en -> ctx_real ctx k -> e_ifx e = true ->
    eval_key (op_test fold) en k (POne (CBool false)) ctx = Some true -> eval_key (op_test fold) e k pv ctx = Some true.
Proof. exact null_false_ifexists. Qed.
Print Assumptions C12_null_false_ifexists.

Theorem C12_null_true_ifexists :
  forall (fold : str -> str) (en e e0 : op_entry) (k : str) (pv : pvals) (ctx : context),
    null_plain en -> ctx_real ctx k ->
    e_qual e0 = e_qual e -> e_base e0 = e_base e -> e_ifx e0 = false ->
    eval_key (op_test fold) en k (POne (CBool true)) ctx = Some true ->
    eval_key (op_test fold) e k pv ctx = eval_key (op_test fold) e0 k pv ctx.
Proof. exact null_true_ifexists. Qed.
Print Assumptions C12_null_true_ifexists.

(* why there is no NullIfExists field: it could never fail *)
Theorem C12_null_ifexists_tautology :
  forall (fold : str -> str) (e : op_entry) (k : str) (ctx : context),
    e_base e = ONull -> e_qual e = QNone -> e_ifx e = true -> ctx_real ctx k ->
    eval_key (op_test fold) e k (POne (CBool true)) ctx = Some true.
Proof. exact null_ifexists_tautology. Qed.
Print Assumptions C12_null_ifexists_tautology.

Local Open Scope N_scope.
Definition idf (s : str) : str := s.
Definition ev := eval_block (op_test idf) OPERATORS.
Definition S (c : N) : cval := CStr [c].
Definition n_StringEquals : str := base_name OStringEquals.
Definition n_StringNotEquals : str := base_name OStringNotEquals.
Definition k1 : str := [107; 49].
Definition k2 : str := [107; 50].
Definition a := 97. Definition b := 98. Definition c := 99. Definition x := 120.

(* the two known defects of the unrepaired code, as the specification decides them *)
(* {"StringEquals": {"k1": ["a","c"], "k2": ["b"]}} on {k1: "x", k2: "b"}: k1 fails -> False (the code said True) *)
Example C12_ex_each_key_its_own_value :
  ev [(n_StringEquals, [(k1, PMany [S a; S c]); (k2, PMany [S b])])] [(k1, XOne (S x)); (k2, XOne (S b))] = Some false.
Proof. vm_compute. reflexivity. Qed.
(* {"StringNotEquals": {"k1": ["a","b"]}} on {k1: "a"}: "a" is excluded -> False (the code said True) *)
Example C12_ex_negated_list_excludes_all :
  ev [(n_StringNotEquals, [(k1, PMany [S a; S b])])] [(k1, XOne (S a))] = Some false
  /\ ev [(n_StringNotEquals, [(k1, PMany [S a; S b])])] [(k1, XOne (S c))] = Some true.
Proof. split; vm_compute; reflexivity. Qed.
Example C12_ex_qualifiers :
  let fa := norm_name (FORALL ++ [58] ++ n_StringEquals) in
  let fy := FORANY ++ n_StringEquals in
  ev [(fa, [(k1, PMany [S a; S b])])] [(k1, XMany [S a; S b; S a])] = Some true
  /\ ev [(fa, [(k1, PMany [S a; S b])])] [(k1, XMany [S a; S c])] = Some false
  /\ ev [(fa, [(k1, PMany [S a])])] [(k1, XMany [])] = Some true               (* ForAllValues over no value *)
  /\ ev [(fy, [(k1, PMany [S a])])] [(k1, XMany [S c; S a])] = Some true
  /\ ev [(fy, [(k1, PMany [S a])])] [(k1, XMany [])] = Some false
  /\ ev [(fy, [(k1, PMany [S a])])] [] = None                                    (* required key missing *)
  /\ ev [(fy ++ IFEXISTS, [(k1, PMany [S a])])] [] = Some true                   (* IfExists: absent key *)
  /\ ev [(fy ++ IFEXISTS, [(k1, PMany [S a])])] [(k1, XOne CNone)] = Some true
  /\ ev [(n_StringEquals, [(k1, POne (S a))])] [(k1, XMany [S a])] = Some false  (* one value: compared with the list itself *)
  /\ ev [(n_StringEquals, [(k1, POne CFn)]); (n_StringEquals ++ IFEXISTS, [(k2, POne (S a))])] [] = None.
Proof. repeat split; vm_compute; reflexivity. Qed.
(* block_sat / comparable are satisfiable: a two-operator, two-key block *)
Example C12_ex_sat :
  ev [(n_StringEquals, [(k1, POne (S a)); (k2, PMany [S b; S c])]); (n_StringNotEquals, [(k1, POne (S b))])]
     [(k1, XOne (S a)); (k2, XOne (S c))] = Some true.
Proof. vm_compute. reflexivity. Qed.

(* ---- satisfiability of the hypotheses of the algebra laws (second half of the statements above) ---- *)
Definition n_Null : str := base_name ONull.
Definition ent (n : str) (q : qual) (i : bool) (o : base_op) : op_entry :=
  {| e_name := n; e_qual := q; e_ifx := i; e_base := o; e_fam := family o |}.
Definition e_SE := ent n_StringEquals QNone false OStringEquals.
Definition e_SNE := ent n_StringNotEquals QNone false OStringNotEquals.
Definition e_SEifx := ent (n_StringEquals ++ IFEXISTS) QNone true OStringEquals.
Definition e_faSE := ent (FORALL ++ n_StringEquals) QAll false OStringEquals.
Definition e_fySE := ent (FORANY ++ n_StringEquals) QAny false OStringEquals.
Definition e_Null := ent n_Null QNone false ONull.
Definition B_two : block := [(n_StringEquals, [(k1, POne (S a))]); (n_StringNotEquals, [(k1, POne (S b))])].
Definition B_keys : block := [(n_StringEquals, [(k1, POne (S a)); (k2, PMany [S b; S c])])].
Definition B_keys' : block := [(n_StringEquals, [(k2, PMany [S b; S c]); (k1, POne (S a))])].

Lemma entry_of_name n q o i e : In e OPERATORS -> e_name e = n -> parse_name n = Some (q, o, i) ->
  e_qual e = q /\ e_base e = o /\ e_ifx e = i.
Proof.
  intros He En Hp. destruct (Operators_rows_ok e He) as (_ & Hq & _). rewrite En, Hp in Hq. inversion Hq. auto.
Qed.

(* C12_operator_order_blind: a two-operator block without repeated names and its reversal *)
Example C12_ex_operator_order :
  NoDup (map fst (norm_block B_two)) /\ Permutation B_two (rev B_two)
  /\ ev B_two [(k1, XOne (S a))] = Some true /\ ev (rev B_two) [(k1, XOne (S a))] = Some true
  /\ ev B_two [(k1, XOne (S b))] = Some false /\ ev (rev B_two) [(k1, XOne (S b))] = Some false
  /\ ev B_two [] = None /\ ev (rev B_two) [] = None.
Proof.
  split; [apply nodup_names_ok; vm_compute; reflexivity|]. split; [apply Permutation_rev|].
  repeat split; vm_compute; reflexivity.
Qed.

(* C12_key_order_blind / _defined / C12_entry_key_order(_defined): two keys swapped, both verdicts defined *)
Example C12_ex_key_order :
  let ctx := [(k1, XOne (S a)); (k2, XOne (S x))] in
  keys_permuted B_keys B_keys'
  /\ (forall e g k pv, is_set OPERATORS B_keys e g -> In (k, pv) g -> eval_key (op_test idf) e k pv ctx <> None)
  /\ ev B_keys ctx = Some false /\ ev B_keys' ctx = Some false
  /\ ev B_keys [(k1, XOne (S a)); (k2, XOne (S c))] = Some true /\ ev B_keys' [(k1, XOne (S a)); (k2, XOne (S c))] = Some true.
Proof.
  split; [|split].
  - constructor; [|constructor]. split; [reflexivity | apply perm_swap].
  - intros e g k pv Hs Hin. apply in_active in Hs. vm_compute in Hs. destruct Hs as [E|[]]. inversion E; subst. clear E.
    destruct Hin as [E|[E|[]]]; inversion E; subst; vm_compute; discriminate.
  - repeat split; vm_compute; reflexivity.
Qed.

(* C12_values_disjunction / _monotone / _set / _perm (positive) and C12_negated_values_conjunction / _antimonotone *)
Example C12_ex_values :
  negated OStringEquals = false /\ negated OStringNotEquals = true
  /\ comparable_vals (op_test idf) OStringEquals [S a; S b] (S b)
  /\ comparable_vals (op_test idf) OStringNotEquals [S a; S c] (S b)
  /\ incl [S b] [S a; S b] /\ incl [S a] [S a; S c]
  /\ (forall p, In p [S a; S b] <-> In p [S b; S a; S a]) /\ Permutation [S a; S b] [S b; S a]
  /\ value_ok (op_test idf) OStringEquals [S b] (S b) = Some true
  /\ value_ok (op_test idf) OStringEquals [S a; S b] (S b) = Some true
  /\ value_ok (op_test idf) OStringEquals [S b; S a; S a] (S b) = Some true
  /\ value_ok (op_test idf) OStringEquals [S a; S b] (S c) = Some false
  /\ value_ok (op_test idf) OStringNotEquals [S a; S c] (S b) = Some true
  /\ value_ok (op_test idf) OStringNotEquals [S a] (S b) = Some true
  /\ value_ok (op_test idf) OStringNotEquals [S a] (S a) = Some false
  /\ value_ok (op_test idf) OStringNotEquals [S a; S c] (S a) = Some false.
Proof.
  split; [reflexivity|]. split; [reflexivity|].
  split; [intros p [<-|[<-|[]]]; vm_compute; discriminate|].
  split; [intros p [<-|[<-|[]]]; vm_compute; discriminate|].
  split; [intros p [<-|[]]; simpl; auto|]. split; [intros p [<-|[]]; simpl; auto|].
  split; [intros p; simpl; tauto|]. split; [apply perm_swap|].
  repeat split; vm_compute; reflexivity.
Qed.

(* C12_key_values_monotone / _negated_values_antimonotone / _set: a key with a LIST of request values *)
Example C12_ex_key_values :
  let ctx := [(k1, XMany [S x; S b])] in
  comparable_key (op_test idf) (e_base e_fySE) [S a; S b] ctx k1
  /\ comparable_key (op_test idf) (e_base e_SNE) [S a; S c] ctx k1
  /\ eval_key (op_test idf) e_fySE k1 (PMany [S b]) ctx = Some true
  /\ eval_key (op_test idf) e_fySE k1 (PMany [S a; S b]) ctx = Some true
  /\ eval_key (op_test idf) e_SNE k1 (PMany [S a; S c]) ctx = Some true
  /\ eval_key (op_test idf) e_SNE k1 (PMany [S a]) ctx = Some true.
Proof.
  split; [|split].
  - intros v cv Hv Hin. vm_compute in Hv. inversion Hv; subst. clear Hv.
    destruct Hin as [<-|[<-|[]]]; intros p [<-|[<-|[]]]; vm_compute; discriminate.
  - intros v cv Hv Hin. vm_compute in Hv. inversion Hv; subst. clear Hv.
    destruct Hin as [<-|[<-|[]]]; intros p [<-|[<-|[]]]; vm_compute; discriminate.
  - repeat split; vm_compute; reflexivity.
Qed.

(* C12_block_looser: a value added under StringEquals, a value removed under StringNotEquals *)
Example C12_ex_block_looser :
  let ctx := [(k1, XOne (S a))] in
  let B := [(n_StringEquals, [(k1, PMany [S a])]); (n_StringNotEquals, [(k1, PMany [S b; S c])])] in
  let B' := [(n_StringEquals, [(k1, PMany [S b; S a])]); (n_StringNotEquals, [(k1, PMany [S c])])] in
  block_rel (fun n => groups_rel (looser (op_test idf) OPERATORS ctx n)) B B'
  /\ ev B ctx = Some true /\ ev B' ctx = Some true.
Proof.
  split; [|split; vm_compute; reflexivity].
  constructor; [|constructor; [|constructor]].
  - split; [reflexivity|]. constructor; [|constructor]. split; [reflexivity|]. right.
    exists [S a], [S b; S a]. split; [reflexivity|]. split; [reflexivity|].
    split; [intros [H|[H|[]]]; discriminate|]. intros e He En. left.
    destruct (entry_of_name _ QNone OStringEquals false e He En) as (_ & Hb & _); [vm_compute; reflexivity|].
    rewrite Hb. split; [reflexivity|]. split; [intros p [<-|[]]; simpl; auto|].
    intros v cv Hv Hin. vm_compute in Hv. inversion Hv; subst. clear Hv.
    destruct Hin as [<-|[]]; intros p [<-|[<-|[]]]; vm_compute; discriminate.
  - split; [reflexivity|]. constructor; [|constructor]. split; [reflexivity|]. right.
    exists [S b; S c], [S c]. split; [reflexivity|]. split; [reflexivity|].
    split; [intros [H|[]]; discriminate|]. intros e He En. right.
    destruct (entry_of_name _ QNone OStringNotEquals false e He En) as (_ & Hb & _); [vm_compute; reflexivity|].
    rewrite Hb. split; [reflexivity|]. split; [intros p [<-|[]]; simpl; auto|].
    intros v cv Hv Hin. vm_compute in Hv. inversion Hv; subst. clear Hv.
    destruct Hin as [<-|[]]; intros p [<-|[<-|[]]]; vm_compute; discriminate.
Qed.

(* C12_block_values_set: the same values in another order, one of them twice *)
Example C12_ex_block_values_set :
  let ctx := [(k1, XOne (S b))] in
  let B := [(n_StringEquals, [(k1, PMany [S a; S b])])] in
  let B' := [(n_StringEquals, [(k1, PMany [S b; S a; S b])])] in
  block_rel (fun n => groups_rel (same_values (op_test idf) OPERATORS ctx n)) B B'
  /\ ev B ctx = Some true /\ ev B' ctx = Some true.
Proof.
  split; [|split; vm_compute; reflexivity].
  constructor; [|constructor]. split; [reflexivity|]. constructor; [|constructor]. split; [reflexivity|]. right.
  exists [S a; S b], [S b; S a; S b]. split; [reflexivity|]. split; [reflexivity|].
  split; [intros p; simpl; tauto|]. intros e He En.
  destruct (entry_of_name _ QNone OStringEquals false e He En) as (_ & Hb & _); [vm_compute; reflexivity|].
  rewrite Hb. intros v cv Hv Hin. vm_compute in Hv. inversion Hv; subst. clear Hv.
  destruct Hin as [<-|[]]; intros p [<-|[<-|[]]]; vm_compute; discriminate.
Qed.

(* C12_app / _true / _false / _none / _later / C12_adding_operator_restricts: two parts with different operators *)
Example C12_ex_app :
  let B1 := [(n_StringEquals, [(k1, POne (S a))])] in
  let B2 := [(n_StringNotEquals, [(k1, POne (S b))])] in
  ops_disjoint B1 B2
  /\ ev (B1 ++ B2) [(k1, XOne (S a))] = Some true /\ ev B1 [(k1, XOne (S a))] = Some true /\ ev B2 [(k1, XOne (S a))] = Some true
  /\ ev (B1 ++ B2) [(k1, XOne (S b))] = Some false /\ ev B1 [(k1, XOne (S b))] = Some false /\ ev B2 [(k1, XOne (S b))] = Some false
  /\ ev (B1 ++ B2) [(k1, XOne (S c))] = Some false /\ ev B1 [(k1, XOne (S c))] = Some false /\ ev B2 [(k1, XOne (S c))] = Some true
  /\ ev (B1 ++ B2) [] = None /\ ev B1 [] = None /\ ev B2 [] = None.
Proof.
  split; [intros n [<-|[]] [E|[]]; vm_compute in E; discriminate|].
  repeat split; vm_compute; reflexivity.
Qed.

(* C12_forall_empty / C12_forany_empty / C12_qualifier_absent / C12_qualifier_app / C12_forany_monotone(_app) /
   C12_forall_antimonotone(_app) *)
Example C12_ex_qualifier_laws :
  let T := op_test idf in
  e_qual e_faSE = QAll /\ e_qual e_fySE = QAny /\ e_qual e_faSE <> QNone
  /\ ctx_get [(k1, XMany [])] k1 = Some (XMany []) /\ ctx_get [] k1 = None
  /\ incl [S a] [S c; S a]
  /\ (forall cv, In cv [S c; S a] -> value_ok T (e_base e_fySE) (plist (PMany [S a])) cv <> None)
  /\ eval_key T e_faSE k1 (PMany [S a]) [(k1, XMany [])] = Some true
  /\ eval_key T e_fySE k1 (PMany [S a]) [(k1, XMany [])] = Some false
  /\ eval_key T e_faSE k1 (PMany [S a]) [] = None /\ eval_key T e_fySE k1 (PMany [S a]) [] = None
  /\ eval_key T e_fySE k1 (PMany [S a]) [(k1, XMany [S a])] = Some true
  /\ eval_key T e_fySE k1 (PMany [S a]) [(k1, XMany [S c; S a])] = Some true
  /\ eval_key T e_fySE k1 (PMany [S a]) [(k1, XMany ([S a] ++ [S c]))] = Some true
  /\ eval_key T e_faSE k1 (PMany [S a]) [(k1, XMany [S c; S a])] = Some false
  /\ eval_key T e_faSE k1 (PMany [S a]) [(k1, XMany [S a])] = Some true
  /\ eval_key T e_faSE k1 (PMany [S a; S c]) [(k1, XMany [S c; S a])] = Some true
  /\ eval_key T e_faSE k1 (PMany [S a]) [(k1, XMany ([S c] ++ [S a]))] = Some false.
Proof.
  split; [reflexivity|]. split; [reflexivity|]. split; [discriminate|]. split; [reflexivity|]. split; [reflexivity|].
  split; [intros p [<-|[]]; simpl; auto|].
  split; [intros cv [<-|[<-|[]]]; vm_compute; discriminate|].
  repeat split; vm_compute; reflexivity.
Qed.

(* C12_ifexists_present / C12_ifexists_split: StringEqualsIfExists against StringEquals *)
Example C12_ex_ifexists :
  let T := op_test idf in
  e_qual e_SE = e_qual e_SEifx /\ e_base e_SE = e_base e_SEifx /\ e_ifx e_SE = false /\ e_ifx e_SEifx = true
  /\ present [(k1, XOne (S x))] k1 = true /\ present [(k1, XOne CNone)] k1 = false /\ present [] k1 = false
  /\ eval_key T e_SEifx k1 (POne (S a)) [(k1, XOne (S x))] = Some false
  /\ eval_key T e_SE k1 (POne (S a)) [(k1, XOne (S x))] = Some false
  /\ eval_key T e_SEifx k1 (POne (S a)) [(k1, XOne (S a))] = Some true
  /\ eval_key T e_SEifx k1 (POne (S a)) [] = Some true /\ eval_key T e_SE k1 (POne (S a)) [] = None.
Proof. repeat split; vm_compute; reflexivity. Qed.

(* C12_context_irrelevant(_keys) / C12_context_update: the contexts differ on a key the block does not mention *)
Example C12_ex_context :
  let B := [(n_StringEquals, [(k1, POne (S a))])] in
  let ctx := [(k1, XOne (S a)); (k2, XOne (S b))] in
  let ctx' := [(k1, XOne (S a)); (k2, XOne (S x))] in
  (forall k, In k (block_keys B) -> ctx_get ctx k = ctx_get ctx' k)
  /\ (forall e g k pv, is_set OPERATORS B e g -> In (k, pv) g -> ctx_get ctx k = ctx_get ctx' k)
  /\ ~ In k2 (block_keys B)
  /\ ev B ctx = Some true /\ ev B ctx' = Some true /\ ev B ((k2, XOne (S x)) :: ctx) = Some true.
Proof.
  split; [intros k [<-|[]]; reflexivity|]. split.
  - intros e g k pv Hs Hin. apply in_active in Hs. vm_compute in Hs. destruct Hs as [E|[]]. inversion E; subst. clear E.
    destruct Hin as [E|[]]. inversion E; subst. reflexivity.
  - split; [intros [E|[]]; vm_compute in E; discriminate|]. repeat split; vm_compute; reflexivity.
Qed.

(* C12_empty_block / C12_no_keys *)
Example C12_ex_empty :
  (forall n g, In (n, g) [(n_StringEquals, @nil (str * pvals)); (n_Null, [])] -> g = [])
  /\ ev [] [] = Some true /\ ev [] [(k1, XOne (S a))] = Some true
  /\ ev [(n_StringEquals, []); (n_Null, [])] [(k1, XOne (S a))] = Some true.
Proof.
  split; [intros n g [E|[E|[]]]; inversion E; reflexivity|]. repeat split; vm_compute; reflexivity.
Qed.

(* C12_null_* : Null and its interplay with IfExists, on the live table.
   {"Null": {"k1": "false"}, "StringEqualsIfExists": {"k1": "x"}} on {}: True (the IfExists test is vacuous);
   {"Null": {"k1": "true"},  "StringEqualsIfExists": {"k1": "a"}} on {"k1": "a"}: True, on {"k1": "x"}: False, on {}: False *)
Example C12_ex_null :
  let T := op_test idf in
  let n_SEifx := n_StringEquals ++ IFEXISTS in
  null_plain e_Null /\ ctx_real [(k1, XOne (S a))] k1 /\ ctx_real [] k1 /\ ctx_real [(k1, XOne CNone)] k1
  /\ eval_key T e_Null k1 (POne (CBool true)) [(k1, XOne (S a))] = Some true
  /\ eval_key T e_Null k1 (POne (CBool true)) [] = Some false
  /\ eval_key T e_Null k1 (POne (CBool true)) [(k1, XOne CNone)] = Some false
  /\ eval_key T e_Null k1 (POne (CBool false)) [] = Some true
  /\ eval_key T e_Null k1 (POne (CBool false)) [(k1, XOne (S a))] = Some false
  /\ ev [(n_Null, [(k1, POne (CBool false))]); (n_SEifx, [(k1, POne (S x))])] [] = Some true
  /\ ev [(n_Null, [(k1, POne (CBool true))]); (n_SEifx, [(k1, POne (S a))])] [(k1, XOne (S a))] = Some true
  /\ ev [(n_Null, [(k1, POne (CBool true))]); (n_SEifx, [(k1, POne (S a))])] [(k1, XOne (S x))] = Some false
  /\ ev [(n_Null, [(k1, POne (CBool true))]); (n_SEifx, [(k1, POne (S a))])] [] = Some false.
Proof.
  split; [repeat split|]. split; [unfold ctx_real; vm_compute; discriminate|].
  split; [unfold ctx_real; vm_compute; discriminate|]. split; [unfold ctx_real; vm_compute; discriminate|].
  repeat split; vm_compute; reflexivity.
Qed.

(* C12_values_set_uniform / C12_op_test_uniform / C12_values_set_typed: typed values, an incomparable context value *)
Example C12_ex_values_typed :
  uniform_op OStringLike = true /\ (forall p, In p [S a; S b] -> has_fam (family OStringLike) p = true)
  /\ (forall p, In p [S a; S b] <-> In p [S b; S a; S b])
  /\ uniform_vals (op_test idf) OStringLike [S a; S b] (CInt 7)
  /\ value_ok (op_test idf) OStringLike [S a; S b] (CInt 7) = None
  /\ value_ok (op_test idf) OStringLike [S b; S a; S b] (CInt 7) = None
  /\ value_ok (op_test idf) OStringLike [S a; S b] (S b) = Some true
  /\ value_ok (op_test idf) OStringLike [S b; S a; S b] (S b) = Some true.
Proof.
  split; [reflexivity|]. split; [intros p [<-|[<-|[]]]; reflexivity|]. split; [intros p; simpl; tauto|].
  split; [left; intros p [<-|[<-|[]]]; vm_compute; reflexivity|]. repeat split; vm_compute; reflexivity.
Qed.
