(* C12 -- Condition blocks combine operators, keys, values and qualifiers as IAM specifies.
   Statements only; every proof is [exact] of a lemma proved in Iam/BlockFacts.v.

   eval_block test ord b ctx  is  StatementCondition.model_validate(b)(ctx):  Some b = returned b, None = returned None.
   [test] is the single-value comparison (instance: Ops.op_test fold, property C11) and is arbitrary in every theorem;
   [ord] is the operator table (instance: the generated table OPERATORS of the live class) and is arbitrary too. *)
From Coq Require Import List Bool NArith ZArith.
From PV Require Import Base.Str Base.Value Iam.IpNet Iam.Ops Iam.OpNames Iam.Block Iam.BlockFacts Iam.OpTable.
From PVGen Require Import Operators.
Import ListNotations.

(* The block is satisfied EXACTLY WHEN every operator set in it is satisfied for every one of its keys, where
   (key_sat) an IfExists operator is satisfied when its key is absent (missing or None), otherwise
   (inner_sat) no qualifier + one value: the key's own context value passes the comparison;
               ForAllValues: the key is present and EVERY one of its context values passes (value_sat);
               ForAnyValue / a value list: the key is present and AT LEAST ONE context value passes;
   (value_sat) positive operator: SOME listed policy value matches (alternatives);
               negated operator: the test holds for EVERY listed policy value (jointly excluded);
   "some ... passes" is Python's any(): the first that passes, those before it having been comparable (not raised). *)
Theorem C12_true_iff :
  forall (test : base_op -> cval -> cval -> option bool) (ord : list op_entry) (b : block) (ctx : context),
    eval_block test ord b ctx = Some true <-> block_sat test ord b ctx.
Proof. exact block_true_iff. Qed.
Print Assumptions C12_true_iff.

(* the same with plain "for all / there exists" (no evaluation order): True implies it always, and it is equivalent to
   True whenever every policy value of the block can be compared with every context value of its key *)
Theorem C12_true_plain :
  forall (test : base_op -> cval -> cval -> option bool) (ord : list op_entry) (b : block) (ctx : context),
    eval_block test ord b ctx = Some true -> block_sat_plain test ord b ctx.
Proof. exact block_true_plain. Qed.
Print Assumptions C12_true_plain.

Theorem C12_true_iff_comparable :
  forall (test : base_op -> cval -> cval -> option bool) (ord : list op_entry) (b : block) (ctx : context),
    comparable test ord b ctx ->
    (eval_block test ord b ctx = Some true <-> block_sat_plain test ord b ctx).
Proof. exact block_true_iff_plain. Qed.
Print Assumptions C12_true_iff_comparable.

(* calling a condition returns True, False or None: eval_block is a total function into option bool, so by
   construction no exception escapes; stated for the record *)
Theorem C12_total :
  forall (test : base_op -> cval -> cval -> option bool) (ord : list op_entry) (b : block) (ctx : context),
    eval_block test ord b ctx = Some true \/ eval_block test ord b ctx = Some false \/ eval_block test ord b ctx = None.
Proof. exact block_total. Qed.
Print Assumptions C12_total.

(* None only if a policy value is still an unresolved function object, or the context lacks a REQUIRED key (operator
   without IfExists), or it holds a value that cannot be compared with a listed policy value *)
Theorem C12_none_only_if :
  forall (test : base_op -> cval -> cval -> option bool) (ord : list op_entry) (b : block) (ctx : context),
    eval_block test ord b ctx = None ->
    ~ no_fn ord b \/
    exists e g k pv, is_set ord b e g /\ In (k, pv) g /\
      ((e_ifx e = false /\ ctx_get ctx k = None) \/
       exists p c, In p (plist pv) /\ In c (seen (e_qual e) pv ctx k) /\ test (e_base e) p c = None).
Proof. exact block_none_only_if. Qed.
Print Assumptions C12_none_only_if.

(* each key is tested against its own context value only: two contexts that agree on key k give the group of k the
   same verdict -- in particular changing the value of another key k2 cannot change it *)
Theorem C12_key_independent :
  forall (test : base_op -> cval -> cval -> option bool) (e : op_entry) (k : str) (pv : pvals) (ctx ctx' : context),
    ctx_get ctx k = ctx_get ctx' k -> eval_key test e k pv ctx = eval_key test e k pv ctx'.
Proof. exact key_independent. Qed.
Print Assumptions C12_key_independent.

Theorem C12_key_independent_update :
  forall (test : base_op -> cval -> cval -> option bool) (e : op_entry) (k1 : str) (pv : pvals) (ctx : context)
         (k2 : str) (v : ctxval),
    k2 <> k1 -> eval_key test e k1 pv ((k2, v) :: ctx) = eval_key test e k1 pv ctx.
Proof. exact key_independent_update. Qed.
Print Assumptions C12_key_independent_update.

Theorem C12_ifexists_absent :
  forall (test : base_op -> cval -> cval -> option bool) (e : op_entry) (k : str) (pv : pvals) (ctx : context),
    e_ifx e = true -> present ctx k = false -> eval_key test e k pv ctx = Some true.
Proof. exact ifexists_absent. Qed.
Print Assumptions C12_ifexists_absent.

(* the block is satisfied iff every single-operator single-key sub-block {name: {key: value(s)}} is *)
Theorem C12_conjunction :
  forall (test : base_op -> cval -> cval -> option bool) (ord : list op_entry) (b : block) (ctx : context),
    table_ok ord ->
    (eval_block test ord b ctx = Some true <->
     forall e g k pv, is_set ord b e g -> In (k, pv) g -> eval_block test ord [(e_name e, [(k, pv)])] ctx = Some true).
Proof. exact block_conjunction. Qed.
Print Assumptions C12_conjunction.

(* ... and the generated table of the live class is such a table *)
Theorem C12_live_table_ok : table_ok OPERATORS.
Proof. exact Operators_table_ok. Qed.
Print Assumptions C12_live_table_ok.

(* "ForAllValues:StringLike" and "ForAllValuesStringLike" are the same operator: colons in operator names are ignored *)
Theorem C12_colon :
  forall (test : base_op -> cval -> cval -> option bool) (ord : list op_entry) (n : str) (g : groups) (b : block)
         (ctx : context),
    eval_block test ord ((n, g) :: b) ctx = eval_block test ord ((norm_name n, g) :: b) ctx.
Proof. exact colon_irrelevant_one. Qed.
Print Assumptions C12_colon.

Theorem C12_colon_block :
  forall (test : base_op -> cval -> cval -> option bool) (ord : list op_entry) (b : block) (ctx : context),
    eval_block test ord (norm_block b) ctx = eval_block test ord b ctx.
Proof. exact colon_irrelevant. Qed.
Print Assumptions C12_colon_block.

Local Open Scope N_scope.
Definition idf (s : str) : str := s.
Definition ev := eval_block (op_test idf) OPERATORS.
Definition S (c : N) : cval := CStr [c].
Definition n_StringEquals : str := base_name OStringEquals.
Definition n_StringNotEquals : str := base_name OStringNotEquals.
Definition k1 : str := [107; 49].
Definition k2 : str := [107; 50].
Definition a := 97. Definition b := 98. Definition c := 99. Definition x := 120.

(* the two known defects of the unrepaired code, as the specification decides them *)
(* {"StringEquals": {"k1": ["a","c"], "k2": ["b"]}} on {k1: "x", k2: "b"}: k1 fails -> False (the code said True) *)
Example C12_ex_each_key_its_own_value :
  ev [(n_StringEquals, [(k1, PMany [S a; S c]); (k2, PMany [S b])])] [(k1, XOne (S x)); (k2, XOne (S b))] = Some false.
Proof. vm_compute. reflexivity. Qed.
(* {"StringNotEquals": {"k1": ["a","b"]}} on {k1: "a"}: "a" is excluded -> False (the code said True) *)
Example C12_ex_negated_list_excludes_all :
  ev [(n_StringNotEquals, [(k1, PMany [S a; S b])])] [(k1, XOne (S a))] = Some false
  /\ ev [(n_StringNotEquals, [(k1, PMany [S a; S b])])] [(k1, XOne (S c))] = Some true.
Proof. split; vm_compute; reflexivity. Qed.
Example C12_ex_qualifiers :
  let fa := norm_name (FORALL ++ [58] ++ n_StringEquals) in
  let fy := FORANY ++ n_StringEquals in
  ev [(fa, [(k1, PMany [S a; S b])])] [(k1, XMany [S a; S b; S a])] = Some true
  /\ ev [(fa, [(k1, PMany [S a; S b])])] [(k1, XMany [S a; S c])] = Some false
  /\ ev [(fa, [(k1, PMany [S a])])] [(k1, XMany [])] = Some true               (* ForAllValues over no value *)
  /\ ev [(fy, [(k1, PMany [S a])])] [(k1, XMany [S c; S a])] = Some true
  /\ ev [(fy, [(k1, PMany [S a])])] [(k1, XMany [])] = Some false
  /\ ev [(fy, [(k1, PMany [S a])])] [] = None                                    (* required key missing *)
  /\ ev [(fy ++ IFEXISTS, [(k1, PMany [S a])])] [] = Some true                   (* IfExists: absent key *)
  /\ ev [(fy ++ IFEXISTS, [(k1, PMany [S a])])] [(k1, XOne CNone)] = Some true
  /\ ev [(n_StringEquals, [(k1, POne (S a))])] [(k1, XMany [S a])] = Some false  (* one value: compared with the list itself *)
  /\ ev [(n_StringEquals, [(k1, POne CFn)]); (n_StringEquals ++ IFEXISTS, [(k2, POne (S a))])] [] = None.
Proof. repeat split; vm_compute; reflexivity. Qed.
(* block_sat / comparable are satisfiable: a two-operator, two-key block *)
Example C12_ex_sat :
  ev [(n_StringEquals, [(k1, POne (S a)); (k2, PMany [S b; S c])]); (n_StringNotEquals, [(k1, POne (S b))])]
     [(k1, XOne (S a)); (k2, XOne (S c))] = Some true.
Proof. vm_compute. reflexivity. Qed.
