(* C14 -- Resource type dispatch is exact and strict.
   "A resource whose Type is one of the modelled types is parsed into that type's dedicated class or the template is rejected;
    unless strict mode is explicitly switched off it is never silently downgraded to a generic resource, so unknown properties,
    missing required properties and ill-typed values in modelled resources are errors.  A resource of any other Type parses to a
    generic resource that keeps all its properties; resources_filtered_by_type returns exactly the resources matching the
    requested classes or type strings; and resolve and expand_actions preserve every resource's class."
   Statements only; every proof is [exact] of a lemma proved in theories/Typed/*.v.

   Vocabulary (Typed/Dispatch.v):
     RESOURCE_MODELS (gen/Schema.v, rewritten from the live classes on every run) = [(Type string, class name)] in union order;
     MODELLED_TYPES = map fst RESOURCE_MODELS;  class_of RESOURCE_MODELS t = the class whose Literal Type is t;
     type_of d = TyStr t | TyMissing (no Type key, or null) | TyOther (a Type that is not a string);
     dispatch_resource RESOURCE_MODELS class_accepts generic_accepts strict r : res outcome
        = model of the validation of one member of CFModel.Resources (left-to-right union: tagged union of the modelled
          classes, then GenericResource whose check_type refuses a modelled Type while GenericResource._strict is on);
        o_class = name of the class of the parsed resource, o_kept = the property keys of a generic resource;
     class_accepts C r / generic_accepts r : the pydantic ENGINE's verdict for class C / GenericResource (strictness aside)
        on r taken in isolation -- universally quantified here (ANY engine), supplied per case by the harness in the tie. *)
From Coq Require Import List Bool NArith ZArith.
From PV Require Import Base.Str Base.Value Resolver.Consts Resolver.Resolve Resolver.Spec
                       Typed.Schema Typed.Dispatch Typed.DispatchFacts Typed.SchemaTable Typed.SchemaChecks Typed.DispatchTable.
From PVGen Require Import Schema.
Import ListNotations.

(* strict mode, modelled Type: whenever the template is accepted, the resource has the dedicated class of its Type (never
   GenericResource), and that class's own validator accepted the definition *)
Theorem C14_exact :
  forall (class_accepts : str -> value -> bool) (generic_accepts : value -> bool) d t o,
    type_of d = TyStr t -> In t MODELLED_TYPES ->
    dispatch_resource RESOURCE_MODELS class_accepts generic_accepts true (VDict d) = Ok o ->
    exists c, class_of RESOURCE_MODELS t = Some c /\ o_class o = c /\ o_class o <> GENERIC /\ class_accepts c (VDict d) = true.
Proof. exact table_exact. Qed.
Print Assumptions C14_exact.

(* ... and whatever the dedicated class refuses (unknown property, missing required property, ill-typed value) is an error *)
Theorem C14_strict_rejects :
  forall (class_accepts : str -> value -> bool) (generic_accepts : value -> bool) d t c,
    type_of d = TyStr t -> class_of RESOURCE_MODELS t = Some c -> class_accepts c (VDict d) = false ->
    dispatch_resource RESOURCE_MODELS class_accepts generic_accepts true (VDict d) = Err EValidation.
Proof. exact table_strict_rejects. Qed.
Print Assumptions C14_strict_rejects.

(* what the dedicated class accepts is parsed into it, strict or not *)
Theorem C14_accepts :
  forall (class_accepts : str -> value -> bool) (generic_accepts : value -> bool) d t c,
    type_of d = TyStr t -> class_of RESOURCE_MODELS t = Some c -> class_accepts c (VDict d) = true ->
    forall strict, dispatch_resource RESOURCE_MODELS class_accepts generic_accepts strict (VDict d) = Ok {| o_class := c; o_kept := [] |}.
Proof. exact (dispatch_strict_accepts RESOURCE_MODELS). Qed.
Print Assumptions C14_accepts.

(* only with strict mode switched off is a refused modelled resource downgraded to GenericResource (keeping its properties) *)
Theorem C14_nonstrict_downgrade :
  forall (class_accepts : str -> value -> bool) (generic_accepts : value -> bool) d t c,
    type_of d = TyStr t -> class_of RESOURCE_MODELS t = Some c -> class_accepts c (VDict d) = false ->
    dispatch_resource RESOURCE_MODELS class_accepts generic_accepts false (VDict d) =
      if generic_accepts (VDict d) then Ok {| o_class := GENERIC; o_kept := keys (props_of d) |} else Err EValidation.
Proof. exact table_nonstrict_downgrade. Qed.
Print Assumptions C14_nonstrict_downgrade.

(* any other Type string (near misses in case or spacing included: membership is literal), or no Type: GenericResource with
   exactly the property keys of the definition, in both modes *)
Theorem C14_generic_keeps :
  forall (class_accepts : str -> value -> bool) (generic_accepts : value -> bool) strict d,
    (type_of d = TyMissing \/ exists t, type_of d = TyStr t /\ ~ In t MODELLED_TYPES) ->
    dispatch_resource RESOURCE_MODELS class_accepts generic_accepts strict (VDict d) =
      if generic_accepts (VDict d) then Ok {| o_class := GENERIC; o_kept := keys (props_of d) |} else Err EValidation.
Proof. exact table_generic_keeps. Qed.
Print Assumptions C14_generic_keeps.

(* the only failure is a validation error (a Type that is not a string included: repaired finding F13) *)
Theorem C14_errors_are_validation :
  forall (class_accepts : str -> value -> bool) (generic_accepts : value -> bool) strict r e,
    dispatch_resource RESOURCE_MODELS class_accepts generic_accepts strict r = Err e -> e = EValidation.
Proof. exact (dispatch_errors RESOURCE_MODELS). Qed.
Print Assumptions C14_errors_are_validation.

(* resources_filtered_by_type: a resource is returned iff it is in the model and its class is (a subclass of) a requested
   class or its Type attribute equals a requested string; for ANY class hierarchy [bases] *)
Theorem C14_filter_iff :
  forall (bases : str -> list str) allowed rs id p,
    In (id, p) (filter_by_type bases allowed rs) <->
    In (id, p) rs /\
    ((exists c, In (WClass c) allowed /\ (p_class p = c \/ In c (bases (p_class p)))) \/
     (exists s, In (WType s) allowed /\ p_type p = Some s)).
Proof. exact filter_by_type_iff. Qed.
Print Assumptions C14_filter_iff.

Theorem C14_filter_keeps_ids_unique :
  forall (bases : str -> list str) allowed rs, NoDup (keys rs) -> NoDup (keys (filter_by_type bases allowed rs)).
Proof. exact filter_by_type_nodup. Qed.
Print Assumptions C14_filter_keeps_ids_unique.

(* with the generated hierarchy: every modelled class and GenericResource is a Resource, so asking for Resource returns all *)
Theorem C14_filter_resource_returns_all :
  forall rs, Forall (fun ir => In (p_class (snd ir)) (GENERIC :: MODELLED_CLASSES)) rs ->
             filter_by_type bases_of [WClass K_Resource] rs = rs.
Proof. exact table_filter_resource_all. Qed.
Print Assumptions C14_filter_resource_returns_all.

(* resolve(): for ANY environment (parameters, mappings, conditions) the dumped resource [d] of a modelled Type is resolved to
   an object with literally the same Type string, hence -- by C14_exact -- re-validated into the same class *)
Theorem C14_preserved_by_resolve :
  forall (class_accepts : str -> value -> bool) (generic_accepts : value -> bool) e d t r' o,
    lookup K_Type d = Some (VStr t) -> In t MODELLED_TYPES -> is_fn_dict d = false ->
    resolve e (VDict d) = Ok r' ->
    dispatch_resource RESOURCE_MODELS class_accepts generic_accepts true r' = Ok o ->
    exists d' c, r' = VDict d' /\ lookup K_Type d' = Some (VStr t) /\ class_of RESOURCE_MODELS t = Some c /\ o_class o = c.
Proof. exact table_preserved_by_resolve. Qed.
Print Assumptions C14_preserved_by_resolve.

(* the reason: a modelled type string is a fixed point of the resolver's leaf normalisation for every parameter binding *)
Theorem C14_type_strings_fixed : forall t, In t MODELLED_TYPES -> forall ps, render_str ps t = t.
Proof. exact Schema_types_render. Qed.
Print Assumptions C14_type_strings_fixed.

(* any Type string with that property (not SSM-shaped, not a spelling of true/false, not AWS::NoValue) survives resolve() *)
Theorem C14_resolve_keeps_type :
  forall e t d r', type_fixed t = true -> is_fn_dict d = false -> lookup K_Type d = Some (VStr t) ->
    resolve e (VDict d) = Ok r' -> exists d', r' = VDict d' /\ lookup K_Type d' = Some (VStr t).
Proof. exact resolve_keeps_type. Qed.
Print Assumptions C14_resolve_keeps_type.

(* expand_actions(): for ANY expansion function, only values under "Action" / "NotAction" are replaced; "Type" is neither *)
Theorem C14_preserved_by_expand :
  forall (class_accepts : str -> value -> bool) (generic_accepts : value -> bool) (ex : bool -> value -> res value) d t r' o,
    lookup K_Type d = Some (VStr t) -> In t MODELLED_TYPES ->
    expand_obj ex (VDict d) = Ok r' ->
    dispatch_resource RESOURCE_MODELS class_accepts generic_accepts true r' = Ok o ->
    exists d' c, r' = VDict d' /\ lookup K_Type d' = Some (VStr t) /\ class_of RESOURCE_MODELS t = Some c /\ o_class o = c.
Proof. exact table_preserved_by_expand. Qed.
Print Assumptions C14_preserved_by_expand.

Theorem C14_generic_preserved_by_expand :
  forall (class_accepts : str -> value -> bool) (generic_accepts : value -> bool) (ex : bool -> value -> res value) strict d t r' o,
    lookup K_Type d = Some (VStr t) -> class_of RESOURCE_MODELS t = None ->
    expand_obj ex (VDict d) = Ok r' ->
    dispatch_resource RESOURCE_MODELS class_accepts generic_accepts strict r' = Ok o -> o_class o = GENERIC.
Proof. exact (generic_preserved_by_expand RESOURCE_MODELS). Qed.
Print Assumptions C14_generic_preserved_by_expand.

(* ---- the finite facts about the live classes (re-proved against gen/Schema.v on every run) ---- *)
Theorem C14_schema_18_types : (18 <= List.length MODELLED_TYPES)%nat /\ NoDup MODELLED_TYPES /\ NoDup MODELLED_CLASSES /\ ~ In GENERIC MODELLED_CLASSES.
Proof. exact (conj (proj2 Schema_types) Schema_types_distinct). Qed.
Print Assumptions C14_schema_18_types.
(* every type string this development was written against is still modelled (the live list may have grown) *)
Theorem C14_schema_known_types_still_modelled : forall t, In t EXPECTED_TYPES -> In t MODELLED_TYPES.
Proof. exact Schema_types_in. Qed.
Print Assumptions C14_schema_known_types_still_modelled.
Theorem C14_schema_modelled_forbid_extra : forall tc, In tc RESOURCE_MODELS -> modelled_class_ok tc = true.
Proof. exact Schema_modelled_strict. Qed.
Print Assumptions C14_schema_modelled_forbid_extra.
Theorem C14_schema_strict_by_default : GENERIC_STRICT_DEFAULT = true.
Proof. exact Schema_strict_default. Qed.
Print Assumptions C14_schema_strict_by_default.

Local Open Scope N_scope.
(* ---- non-vacuity and boundary witnesses (S3 bucket definitions; "AWS::S3::Bucket" as code points) ---- *)
Definition T_BUCKET : str := [65;87;83;58;58;83;51;58;58;66;117;99;107;101;116].
Definition ex_bucket (t : value) : value := VDict [(K_Type, t); (K_Properties, VDict [([66;117;99;107;101;116;78;97;109;101], VStr [98])])].
Example C14_ex_modelled : In T_BUCKET MODELLED_TYPES /\ class_of RESOURCE_MODELS T_BUCKET = Some [83;51;66;117;99;107;101;116].
Proof. split; [apply mem_str_In|]; vm_compute; reflexivity. Qed.
Example C14_ex_strict_accept_reject :
  dispatch_resource RESOURCE_MODELS (fun _ _ => true) (fun _ => true) true (ex_bucket (VStr T_BUCKET))
    = Ok {| o_class := [83;51;66;117;99;107;101;116]; o_kept := [] |} /\
  dispatch_resource RESOURCE_MODELS (fun _ _ => false) (fun _ => true) true (ex_bucket (VStr T_BUCKET)) = Err EValidation /\
  dispatch_resource RESOURCE_MODELS (fun _ _ => false) (fun _ => true) false (ex_bucket (VStr T_BUCKET))
    = Ok {| o_class := GENERIC; o_kept := [[66;117;99;107;101;116;78;97;109;101]] |}.
Proof. repeat split; vm_compute; reflexivity. Qed.
(* near misses are other types: lower case, trailing blank *)
Example C14_ex_near_miss :
  dispatch_resource RESOURCE_MODELS (fun _ _ => true) (fun _ => true) true (ex_bucket (VStr (lower T_BUCKET)))
    = Ok {| o_class := GENERIC; o_kept := [[66;117;99;107;101;116;78;97;109;101]] |} /\
  dispatch_resource RESOURCE_MODELS (fun _ _ => true) (fun _ => true) true (ex_bucket (VStr (T_BUCKET ++ [32])))
    = Ok {| o_class := GENERIC; o_kept := [[66;117;99;107;101;116;78;97;109;101]] |} /\
  dispatch_resource RESOURCE_MODELS (fun _ _ => true) (fun _ => true) true (ex_bucket (VList [VStr T_BUCKET])) = Err EValidation.
Proof. repeat split; vm_compute; reflexivity. Qed.
(* the hypothesis [type_fixed] of C14_resolve_keeps_type cannot be dropped: an (unmodelled) Type string shaped like a dynamic
   SSM reference is rewritten by resolve() -- here into a modelled type -- and one spelled "TRUE" is lower-cased *)
Definition T_SSM : str := [123;123;114;101;115;111;108;118;101;58;115;115;109;58;47;116;58;49;125;125].   (* {{resolve:ssm:/t:1}} *)
Example C14_ex_ssm_shaped_type_is_not_fixed :
  type_fixed T_SSM = false /\ class_of RESOURCE_MODELS T_SSM = None /\
  render_str [([47;116;58;49], VStr T_BUCKET)] T_SSM = T_BUCKET /\
  type_fixed [84;82;85;69] = false /\ render_str [] [84;82;85;69] = [116;114;117;101].
Proof. repeat split; vm_compute; reflexivity. Qed.
