(* C14 -- Resource type dispatch is exact and strict.
   "A resource whose Type is one of the modelled types is parsed into that type's dedicated class or the template is rejected;
    unless strict mode is explicitly switched off it is never silently downgraded to a generic resource, so unknown properties,
    missing required properties and ill-typed values in modelled resources are errors.  A resource of any other Type parses to a
    generic resource that keeps all its properties; resources_filtered_by_type returns exactly the resources matching the
    requested classes or type strings; and resolve and expand_actions preserve every resource's class."
   Statements only; every proof is [exact] of a lemma proved in theories/Typed/*.v.

   Vocabulary (Typed/Dispatch.v):
     RESOURCE_MODELS (gen/Schema.v, rewritten from the live classes on every run) = [(Type string, class name)] in union order;
     MODELLED_TYPES = map fst RESOURCE_MODELS;  class_of RESOURCE_MODELS t = the class whose Literal Type is t;
     type_of d = TyStr t | TyMissing (no Type key, or null) | TyOther (a Type that is not a string);
     dispatch_resource RESOURCE_MODELS class_accepts generic_accepts strict r : res outcome
        = model of the validation of one member of CFModel.Resources (left-to-right union: tagged union of the modelled
          classes, then GenericResource whose check_type refuses a modelled Type while GenericResource._strict is on);
        o_class = name of the class of the parsed resource, o_kept = the property keys of a generic resource;
     class_accepts C r / generic_accepts r : the pydantic ENGINE's verdict for class C / GenericResource (strictness aside)
        on r taken in isolation -- universally quantified here (ANY engine), supplied per case by the harness in the tie. *)
From Coq Require Import List Bool NArith ZArith Permutation.
From PV Require Import Base.Str Base.Value Resolver.Consts Resolver.Resolve Resolver.Spec Resolver.Template
                       Typed.Schema Typed.Dispatch Typed.DispatchFacts Typed.SchemaTable Typed.SchemaChecks Typed.DispatchTable
                       Typed.DispatchAlgebra.
From PVGen Require Import Schema.
Import ListNotations.

(* strict mode, modelled Type: whenever the template is accepted, the resource has the dedicated class of its Type (never
   GenericResource), and that class's own validator accepted the definition *)
Theorem C14_exact :
  forall (class_accepts : str -> value -> bool) (generic_accepts : value -> bool) d t o,
    type_of d = TyStr t -> In t MODELLED_TYPES ->
    dispatch_resource RESOURCE_MODELS class_accepts generic_accepts true (VDict d) = Ok o ->
    exists c, class_of RESOURCE_MODELS t = Some c /\ o_class o = c /\ o_class o <> GENERIC /\ class_accepts c (VDict d) = true.
Proof. exact table_exact. Qed.
Print Assumptions C14_exact.

(* ... and whatever the dedicated class refuses (unknown property, missing required property, ill-typed value) is an error *)
Theorem C14_strict_rejects :
  forall (class_accepts : str -> value -> bool) (generic_accepts : value -> bool) d t c,
    type_of d = TyStr t -> class_of RESOURCE_MODELS t = Some c -> class_accepts c (VDict d) = false ->
    dispatch_resource RESOURCE_MODELS class_accepts generic_accepts true (VDict d) = Err EValidation.
Proof. exact table_strict_rejects. Qed.
Print Assumptions C14_strict_rejects.

(* what the dedicated class accepts is parsed into it, strict or not *)
Theorem C14_accepts :
  forall (class_accepts : str -> value -> bool) (generic_accepts : value -> bool) d t c,
    type_of d = TyStr t -> class_of RESOURCE_MODELS t = Some c -> class_accepts c (VDict d) = true ->
    forall strict, dispatch_resource RESOURCE_MODELS class_accepts generic_accepts strict (VDict d) = Ok {| o_class := c; o_kept := [] |}.
Proof. exact (dispatch_strict_accepts RESOURCE_MODELS). Qed.
Print Assumptions C14_accepts.

(* only with strict mode switched off is a refused modelled resource downgraded to GenericResource (keeping its properties) *)
Theorem C14_nonstrict_downgrade :
  forall (class_accepts : str -> value -> bool) (generic_accepts : value -> bool) d t c,
    type_of d = TyStr t -> class_of RESOURCE_MODELS t = Some c -> class_accepts c (VDict d) = false ->
    dispatch_resource RESOURCE_MODELS class_accepts generic_accepts false (VDict d) =
      if generic_accepts (VDict d) then Ok {| o_class := GENERIC; o_kept := keys (props_of d) |} else Err EValidation.
Proof. exact table_nonstrict_downgrade. Qed.
Print Assumptions C14_nonstrict_downgrade.

(* any other Type string (near misses in case or spacing included: membership is literal), or no Type: GenericResource with
   exactly the property keys of the definition, in both modes *)
Theorem C14_generic_keeps :
  forall (class_accepts : str -> value -> bool) (generic_accepts : value -> bool) strict d,
    (type_of d = TyMissing \/ exists t, type_of d = TyStr t /\ ~ In t MODELLED_TYPES) ->
    dispatch_resource RESOURCE_MODELS class_accepts generic_accepts strict (VDict d) =
      if generic_accepts (VDict d) then Ok {| o_class := GENERIC; o_kept := keys (props_of d) |} else Err EValidation.
Proof. exact table_generic_keeps. Qed.
Print Assumptions C14_generic_keeps.

(* the only failure is a validation error (a Type that is not a string included: repaired finding F13) *)
Theorem C14_errors_are_validation :
  forall (class_accepts : str -> value -> bool) (generic_accepts : value -> bool) strict r e,
    dispatch_resource RESOURCE_MODELS class_accepts generic_accepts strict r = Err e -> e = EValidation.
Proof. exact (dispatch_errors RESOURCE_MODELS). Qed.
Print Assumptions C14_errors_are_validation.

(* resources_filtered_by_type: a resource is returned iff it is in the model and its class is (a subclass of) a requested
   class or its Type attribute equals a requested string; for ANY class hierarchy [bases] *)
Theorem C14_filter_iff :
  forall (bases : str -> list str) allowed rs id p,
    In (id, p) (filter_by_type bases allowed rs) <->
    In (id, p) rs /\
    ((exists c, In (WClass c) allowed /\ (p_class p = c \/ In c (bases (p_class p)))) \/
     (exists s, In (WType s) allowed /\ p_type p = Some s)).
Proof. exact filter_by_type_iff. Qed.
Print Assumptions C14_filter_iff.

Theorem C14_filter_keeps_ids_unique :
  forall (bases : str -> list str) allowed rs, NoDup (keys rs) -> NoDup (keys (filter_by_type bases allowed rs)).
Proof. exact filter_by_type_nodup. Qed.
Print Assumptions C14_filter_keeps_ids_unique.

(* with the generated hierarchy: every modelled class and GenericResource is a Resource, so asking for Resource returns all *)
Theorem C14_filter_resource_returns_all :
  forall rs, Forall (fun ir => In (p_class (snd ir)) (GENERIC :: MODELLED_CLASSES)) rs ->
             filter_by_type bases_of [WClass K_Resource] rs = rs.
Proof. exact table_filter_resource_all. Qed.
Print Assumptions C14_filter_resource_returns_all.

(* resolve(): for ANY environment (parameters, mappings, conditions) the dumped resource [d] of a modelled Type is resolved to
   an object with literally the same Type string, hence -- by C14_exact -- re-validated into the same class *)
Theorem C14_preserved_by_resolve :
  forall (class_accepts : str -> value -> bool) (generic_accepts : value -> bool) e d t r' o,
    lookup K_Type d = Some (VStr t) -> In t MODELLED_TYPES -> is_fn_dict d = false ->
    resolve e (VDict d) = Ok r' ->
    dispatch_resource RESOURCE_MODELS class_accepts generic_accepts true r' = Ok o ->
    exists d' c, r' = VDict d' /\ lookup K_Type d' = Some (VStr t) /\ class_of RESOURCE_MODELS t = Some c /\ o_class o = c.
Proof. exact table_preserved_by_resolve. Qed.
Print Assumptions C14_preserved_by_resolve.

(* the reason: a modelled type string is a fixed point of the resolver's leaf normalisation for every parameter binding *)
Theorem C14_type_strings_fixed : forall t, In t MODELLED_TYPES -> forall ps, render_str ps t = t.
Proof. exact Schema_types_render. Qed.
Print Assumptions C14_type_strings_fixed.

(* any Type string with that property (not SSM-shaped, not a spelling of true/false, not AWS::NoValue) survives resolve() *)
Theorem C14_resolve_keeps_type :
  forall e t d r', type_fixed t = true -> is_fn_dict d = false -> lookup K_Type d = Some (VStr t) ->
    resolve e (VDict d) = Ok r' -> exists d', r' = VDict d' /\ lookup K_Type d' = Some (VStr t).
Proof. exact resolve_keeps_type. Qed.
Print Assumptions C14_resolve_keeps_type.

(* expand_actions(): for ANY expansion function, only values under "Action" / "NotAction" are replaced; "Type" is neither *)
Theorem C14_preserved_by_expand :
  forall (class_accepts : str -> value -> bool) (generic_accepts : value -> bool) (ex : bool -> value -> res value) d t r' o,
    lookup K_Type d = Some (VStr t) -> In t MODELLED_TYPES ->
    expand_obj ex (VDict d) = Ok r' ->
    dispatch_resource RESOURCE_MODELS class_accepts generic_accepts true r' = Ok o ->
    exists d' c, r' = VDict d' /\ lookup K_Type d' = Some (VStr t) /\ class_of RESOURCE_MODELS t = Some c /\ o_class o = c.
Proof. exact table_preserved_by_expand. Qed.
Print Assumptions C14_preserved_by_expand.

Theorem C14_generic_preserved_by_expand :
  forall (class_accepts : str -> value -> bool) (generic_accepts : value -> bool) (ex : bool -> value -> res value) strict d t r' o,
    lookup K_Type d = Some (VStr t) -> class_of RESOURCE_MODELS t = None ->
    expand_obj ex (VDict d) = Ok r' ->
    dispatch_resource RESOURCE_MODELS class_accepts generic_accepts strict r' = Ok o -> o_class o = GENERIC.
Proof. exact (generic_preserved_by_expand RESOURCE_MODELS). Qed.
Print Assumptions C14_generic_preserved_by_expand.

(* ---- the finite facts about the live classes (re-proved against gen/Schema.v on every run) ---- *)
Theorem C14_schema_18_types : (18 <= List.length MODELLED_TYPES)%nat /\ NoDup MODELLED_TYPES /\ NoDup MODELLED_CLASSES /\ ~ In GENERIC MODELLED_CLASSES.
Proof. exact (conj (proj2 Schema_types) Schema_types_distinct). Qed.
Print Assumptions C14_schema_18_types.
(* every type string this development was written against is still modelled (the live list may have grown) *)
Theorem C14_schema_known_types_still_modelled : forall t, In t EXPECTED_TYPES -> In t MODELLED_TYPES.
Proof. exact Schema_types_in. Qed.
Print Assumptions C14_schema_known_types_still_modelled.
Theorem C14_schema_modelled_forbid_extra : forall tc, In tc RESOURCE_MODELS -> modelled_class_ok tc = true.
Proof. exact Schema_modelled_strict. Qed.
Print Assumptions C14_schema_modelled_forbid_extra.
Theorem C14_schema_strict_by_default : GENERIC_STRICT_DEFAULT = true.
Proof. exact Schema_strict_default. Qed.
Print Assumptions C14_schema_strict_by_default.

Local Open Scope N_scope.
(* ---- non-vacuity and boundary witnesses (S3 bucket definitions; "AWS::S3::Bucket" as code points) ---- *)
Definition T_BUCKET : str := [65;87;83;58;58;83;51;58;58;66;117;99;107;101;116].
Definition ex_bucket (t : value) : value := VDict [(K_Type, t); (K_Properties, VDict [([66;117;99;107;101;116;78;97;109;101], VStr [98])])].
Example C14_ex_modelled : In T_BUCKET MODELLED_TYPES /\ class_of RESOURCE_MODELS T_BUCKET = Some [83;51;66;117;99;107;101;116].
Proof. split; [apply mem_str_In|]; vm_compute; reflexivity. Qed.
Example C14_ex_strict_accept_reject :
  dispatch_resource RESOURCE_MODELS (fun _ _ => true) (fun _ => true) true (ex_bucket (VStr T_BUCKET))
    = Ok {| o_class := [83;51;66;117;99;107;101;116]; o_kept := [] |} /\
  dispatch_resource RESOURCE_MODELS (fun _ _ => false) (fun _ => true) true (ex_bucket (VStr T_BUCKET)) = Err EValidation /\
  dispatch_resource RESOURCE_MODELS (fun _ _ => false) (fun _ => true) false (ex_bucket (VStr T_BUCKET))
    = Ok {| o_class := GENERIC; o_kept := [[66;117;99;107;101;116;78;97;109;101]] |}.
Proof. repeat split; vm_compute; reflexivity. Qed.
(* near misses are other types: lower case, trailing blank *)
Example C14_ex_near_miss :
  dispatch_resource RESOURCE_MODELS (fun _ _ => true) (fun _ => true) true (ex_bucket (VStr (lower T_BUCKET)))
    = Ok {| o_class := GENERIC; o_kept := [[66;117;99;107;101;116;78;97;109;101]] |} /\
  dispatch_resource RESOURCE_MODELS (fun _ _ => true) (fun _ => true) true (ex_bucket (VStr (T_BUCKET ++ [32])))
    = Ok {| o_class := GENERIC; o_kept := [[66;117;99;107;101;116;78;97;109;101]] |} /\
  dispatch_resource RESOURCE_MODELS (fun _ _ => true) (fun _ => true) true (ex_bucket (VList [VStr T_BUCKET])) = Err EValidation.
Proof. repeat split; vm_compute; reflexivity. Qed.
(* the hypothesis [type_fixed] of C14_resolve_keeps_type cannot be dropped: an (unmodelled) Type string shaped like a dynamic
   SSM reference is rewritten by resolve() -- here into a modelled type -- and one spelled "TRUE" is lower-cased *)
Definition T_SSM : str := [123;123;114;101;115;111;108;118;101;58;115;115;109;58;47;116;58;49;125;125].   (* {{resolve:ssm:/t:1}} *)
Example C14_ex_ssm_shaped_type_is_not_fixed :
  type_fixed T_SSM = false /\ class_of RESOURCE_MODELS T_SSM = None /\
  render_str [([47;116;58;49], VStr T_BUCKET)] T_SSM = T_BUCKET /\
  type_fixed [84;82;85;69] = false /\ render_str [] [84;82;85;69] = [116;114;117;101].
Proof. repeat split; vm_compute; reflexivity. Qed.

(* ================================================================================================================== *)
(* The algebra of dispatch, filters and pipelines (Typed/DispatchAlgebra.v)                                           *)
(*   parse_resources M ca ga strict defs : the validation of a whole Resources map [(logical id, definition)] into      *)
(*     [(logical id, {| p_class; p_type |})] (class of the object, its .Type attribute), or the first error;           *)
(*   filter_by_type bases allowed rs : resources_filtered_by_type, allowed = list of WClass c (a class object) /       *)
(*     WType s (a type string); the result keeps the order of rs (Python: insertion order of the dict);                *)
(*   run_steps / run_msteps : a list of resolve / expand_actions steps on one dumped resource / on a Resources map.    *)
(* ================================================================================================================== *)

(* ---- 1. the decision table: every cell ---- *)
Theorem C14_decision_table :
  forall (class_accepts : str -> value -> bool) (generic_accepts : value -> bool) strict r,
    dispatch_resource RESOURCE_MODELS class_accepts generic_accepts strict r =
    match r with
    | VDict d =>
        let generic := Ok {| o_class := GENERIC; o_kept := keys (props_of d) |} in
        match type_of d with
        | TyOther => Err EValidation
        | TyMissing => if generic_accepts r then generic else Err EValidation
        | TyStr s =>
            match class_of RESOURCE_MODELS s with
            | None => if generic_accepts r then generic else Err EValidation
            | Some c =>
                match class_accepts c r, strict, generic_accepts r with
                | true, _, _ => Ok {| o_class := c; o_kept := [] |}
                | false, true, _ => Err EValidation
                | false, false, true => generic
                | false, false, false => Err EValidation
                end
            end
        end
    | _ => Err EValidation
    end.
Proof. exact (dispatch_decision_table RESOURCE_MODELS). Qed.
Print Assumptions C14_decision_table.

(* the same, as a characterisation of success *)
Theorem C14_dispatch_ok_iff :
  forall (class_accepts : str -> value -> bool) (generic_accepts : value -> bool) strict r o,
    dispatch_resource RESOURCE_MODELS class_accepts generic_accepts strict r = Ok o <->
    exists d, r = VDict d /\
      ((exists s c, type_of d = TyStr s /\ class_of RESOURCE_MODELS s = Some c /\ class_accepts c r = true /\
                    o = {| o_class := c; o_kept := [] |}) \/
       (generic_accepts r = true /\ o = {| o_class := GENERIC; o_kept := keys (props_of d) |} /\
        (type_of d = TyMissing \/
         exists s, type_of d = TyStr s /\
           (class_of RESOURCE_MODELS s = None \/
            exists c, class_of RESOURCE_MODELS s = Some c /\ class_accepts c r = false /\ strict = false)))).
Proof. exact (dispatch_ok_iff RESOURCE_MODELS). Qed.
Print Assumptions C14_dispatch_ok_iff.

(* class or error depend on the Type field and the two verdicts ONLY: two definitions that agree on these -- even under two
   different engines -- get the same class or the same error *)
Theorem C14_function_of_type_and_verdicts :
  forall (ca : str -> value -> bool) (ga : value -> bool) (ca' : str -> value -> bool) (ga' : value -> bool) strict d d',
    type_of d = type_of d' ->
    (forall s c, type_of d = TyStr s -> class_of RESOURCE_MODELS s = Some c -> ca c (VDict d) = ca' c (VDict d')) ->
    ga (VDict d) = ga' (VDict d') ->
    res_class (dispatch_resource RESOURCE_MODELS ca ga strict (VDict d)) =
    res_class (dispatch_resource RESOURCE_MODELS ca' ga' strict (VDict d')).
Proof. exact (dispatch_function_of_type_and_verdicts RESOURCE_MODELS). Qed.
Print Assumptions C14_function_of_type_and_verdicts.

(* the result class is the class of the Type string, or GenericResource (with every property key kept) *)
Theorem C14_result_class :
  forall (class_accepts : str -> value -> bool) (generic_accepts : value -> bool) strict r o,
    dispatch_resource RESOURCE_MODELS class_accepts generic_accepts strict r = Ok o ->
    exists d, r = VDict d /\
      ((exists s, type_of d = TyStr s /\ class_of RESOURCE_MODELS s = Some (o_class o) /\ o_kept o = []) \/
       (o_class o = GENERIC /\ o_kept o = keys (props_of d))).
Proof. exact (dispatch_result_class RESOURCE_MODELS). Qed.
Print Assumptions C14_result_class.

(* never both: the same definition (same verdicts) is not a dedicated class in one mode and GenericResource in the other --
   the two modes give the same object whenever both succeed; strictness only turns successes into errors *)
Theorem C14_modes_agree :
  forall (class_accepts : str -> value -> bool) (generic_accepts : value -> bool) strict strict' r o o',
    dispatch_resource RESOURCE_MODELS class_accepts generic_accepts strict r = Ok o ->
    dispatch_resource RESOURCE_MODELS class_accepts generic_accepts strict' r = Ok o' -> o = o'.
Proof. exact (dispatch_modes_agree RESOURCE_MODELS). Qed.
Print Assumptions C14_modes_agree.
Theorem C14_nonstrict_cases :
  forall (class_accepts : str -> value -> bool) (generic_accepts : value -> bool) r o,
    dispatch_resource RESOURCE_MODELS class_accepts generic_accepts false r = Ok o ->
    dispatch_resource RESOURCE_MODELS class_accepts generic_accepts true r = Ok o \/
    (dispatch_resource RESOURCE_MODELS class_accepts generic_accepts true r = Err EValidation /\ o_class o = GENERIC /\
     exists d s c, r = VDict d /\ type_of d = TyStr s /\ class_of RESOURCE_MODELS s = Some c /\ class_accepts c r = false).
Proof. exact (dispatch_nonstrict_cases RESOURCE_MODELS). Qed.
Print Assumptions C14_nonstrict_cases.
(* a dedicated class comes out iff that class accepted the definition *)
Theorem C14_dedicated_iff :
  forall (class_accepts : str -> value -> bool) (generic_accepts : value -> bool) strict r o,
    dispatch_resource RESOURCE_MODELS class_accepts generic_accepts strict r = Ok o ->
    (o_class o <> GENERIC <->
     exists d s c, r = VDict d /\ type_of d = TyStr s /\ class_of RESOURCE_MODELS s = Some c /\ class_accepts c r = true /\ o_class o = c).
Proof. exact table_dedicated_iff. Qed.
Print Assumptions C14_dedicated_iff.
(* with strict on, a GenericResource never carries a modelled Type *)
Theorem C14_strict_generic_unmodelled :
  forall (class_accepts : str -> value -> bool) (generic_accepts : value -> bool) d o,
    dispatch_resource RESOURCE_MODELS class_accepts generic_accepts true (VDict d) = Ok o -> o_class o = GENERIC ->
    generic_accepts (VDict d) = true /\ (type_of d = TyMissing \/ exists s, type_of d = TyStr s /\ ~ In s MODELLED_TYPES).
Proof. exact table_strict_generic_unmodelled. Qed.
Print Assumptions C14_strict_generic_unmodelled.

(* ---- 2. filter algebra, for ANY class hierarchy ---- *)
(* filter by l1 ++ l2 = the union of the two filters: in resource order; member by member; as id-keyed maps (lookup by
   lookup, and as Python's {**a, **b}) when logical ids are unique *)
Theorem C14_filter_app :
  forall (bases : str -> list str) l1 l2 rs,
    filter_by_type bases (l1 ++ l2) rs = filter (fun ir => keeps bases l1 (snd ir) || keeps bases l2 (snd ir)) rs /\
    (forall x, In x (filter_by_type bases (l1 ++ l2) rs) <-> In x (filter_by_type bases l1 rs) \/ In x (filter_by_type bases l2 rs)) /\
    (NoDup (keys rs) ->
       (forall id, lookup id (filter_by_type bases (l1 ++ l2) rs) =
                   match lookup id (filter_by_type bases l1 rs) with Some p => Some p | None => lookup id (filter_by_type bases l2 rs) end) /\
       Permutation (filter_by_type bases (l1 ++ l2) rs) (dict_union (filter_by_type bases l1 rs) (filter_by_type bases l2 rs))).
Proof.
  exact (fun bases l1 l2 rs =>
    conj (filter_app bases l1 l2 rs) (conj (filter_app_In bases l1 l2 rs)
      (fun Hn => conj (fun id => filter_app_lookup bases l1 l2 rs id Hn) (filter_app_dict_union bases l1 l2 rs Hn)))).
Qed.
Print Assumptions C14_filter_app.
(* only the SET of wanted classes / strings matters *)
Theorem C14_filter_order_irrelevant :
  forall (bases : str -> list str) l1 l2 rs, incl l1 l2 -> incl l2 l1 -> filter_by_type bases l1 rs = filter_by_type bases l2 rs.
Proof. exact filter_same_members. Qed.
Print Assumptions C14_filter_order_irrelevant.
Theorem C14_filter_idempotent :
  forall (bases : str -> list str) a rs, filter_by_type bases a (filter_by_type bases a rs) = filter_by_type bases a rs.
Proof. exact filter_idempotent. Qed.
Print Assumptions C14_filter_idempotent.
Theorem C14_filter_commute :
  forall (bases : str -> list str) a b rs,
    filter_by_type bases a (filter_by_type bases b rs) = filter_by_type bases b (filter_by_type bases a rs) /\
    filter_by_type bases a (filter_by_type bases b rs) = filter (fun ir => keeps bases a (snd ir) && keeps bases b (snd ir)) rs.
Proof. exact (fun bases a b rs => conj (filter_commute bases a b rs) (filter_compose bases a b rs)). Qed.
Print Assumptions C14_filter_commute.
Theorem C14_filter_absorb :
  forall (bases : str -> list str) a b rs, incl a b -> filter_by_type bases a (filter_by_type bases b rs) = filter_by_type bases a rs.
Proof. exact filter_absorb. Qed.
Print Assumptions C14_filter_absorb.
Theorem C14_filter_empty : forall (bases : str -> list str) rs, filter_by_type bases [] rs = [].
Proof. exact filter_by_type_empty. Qed.
Print Assumptions C14_filter_empty.
(* the result is a sub-sequence of the resources: order kept (with C14_filter_keeps_ids_unique: uniqueness kept) *)
Theorem C14_filter_keeps_order :
  forall (bases : str -> list str) allowed rs,
    subseq (filter_by_type bases allowed rs) rs /\ subseq (keys (filter_by_type bases allowed rs)) (keys rs) /\
    forall i j, before i j (keys (filter_by_type bases allowed rs)) -> before i j (keys rs).
Proof.
  exact (fun bases allowed rs => conj (proj1 (filter_subseq bases allowed rs))
          (conj (proj2 (filter_subseq bases allowed rs)) (filter_keeps_order bases allowed rs))).
Qed.
Print Assumptions C14_filter_keeps_order.
(* every class + GenericResource, or Resource alone (C14_filter_resource_returns_all), returns everything *)
Theorem C14_filter_everything :
  forall (class_accepts : str -> value -> bool) (generic_accepts : value -> bool) strict defs rs,
    parse_resources RESOURCE_MODELS class_accepts generic_accepts strict defs = Ok rs ->
    filter_by_type bases_of (map WClass (GENERIC :: MODELLED_CLASSES)) rs = rs /\
    filter_by_type bases_of [WClass K_Resource] rs = rs.
Proof. exact table_filter_everything. Qed.
Print Assumptions C14_filter_everything.

(* strict mode: the filter by a modelled type STRING is the filter by the CLASS of that string *)
Theorem C14_filter_string_is_class_strict :
  forall (class_accepts : str -> value -> bool) (generic_accepts : value -> bool) t c defs rs,
    class_of RESOURCE_MODELS t = Some c ->
    parse_resources RESOURCE_MODELS class_accepts generic_accepts true defs = Ok rs ->
    filter_by_type bases_of [WType t] rs = filter_by_type bases_of [WClass c] rs.
Proof. exact table_filter_string_is_class_strict. Qed.
Print Assumptions C14_filter_string_is_class_strict.
(* either mode, exactly: the class filter returns the instances of c; the string filter returns these AND the
   GenericResources carrying the string t (is_downgraded: only possible with strict off); the two parts are disjoint, the
   class filter of the string filter is the class filter, and the extra ones are found by asking for GenericResource *)
Theorem C14_filter_string_vs_class :
  forall (class_accepts : str -> value -> bool) (generic_accepts : value -> bool) strict t c defs rs,
    class_of RESOURCE_MODELS t = Some c ->
    parse_resources RESOURCE_MODELS class_accepts generic_accepts strict defs = Ok rs ->
    filter_by_type bases_of [WClass c] rs = filter (fun ir => str_eqb (p_class (snd ir)) c) rs /\
    filter_by_type bases_of [WType t] rs = filter (fun ir => str_eqb (p_class (snd ir)) c || is_downgraded t (snd ir)) rs /\
    Permutation (filter_by_type bases_of [WType t] rs)
                (filter_by_type bases_of [WClass c] rs ++ filter (fun ir => is_downgraded t (snd ir)) rs) /\
    filter_by_type bases_of [WClass c] (filter_by_type bases_of [WType t] rs) = filter_by_type bases_of [WClass c] rs /\
    incl (filter (fun ir => is_downgraded t (snd ir)) rs) (filter_by_type bases_of [WClass GENERIC] rs).
Proof. exact table_filter_string_vs_class. Qed.
Print Assumptions C14_filter_string_vs_class.

(* ---- 3. partition ---- *)
Theorem C14_exactly_one :
  forall (class_accepts : str -> value -> bool) (generic_accepts : value -> bool) strict defs rs id p c,
    parse_resources RESOURCE_MODELS class_accepts generic_accepts strict defs = Ok rs ->
    In (id, p) rs -> In c (GENERIC :: MODELLED_CLASSES) ->
    (In (id, p) (filter_by_type bases_of [WClass c] rs) <-> c = p_class p).
Proof. exact table_exactly_one. Qed.
Print Assumptions C14_exactly_one.
Theorem C14_partition :
  forall (class_accepts : str -> value -> bool) (generic_accepts : value -> bool) strict defs rs,
    parse_resources RESOURCE_MODELS class_accepts generic_accepts strict defs = Ok rs ->
    Permutation (flat_map (fun c => filter_by_type bases_of [WClass c] rs) (GENERIC :: MODELLED_CLASSES)) rs /\
    filter_by_type bases_of (map WClass (GENERIC :: MODELLED_CLASSES)) rs = rs /\
    Permutation (flat_map (fun c => filter_by_type bases_of [WClass c] rs) MODELLED_CLASSES)
                (filter (fun ir => negb (str_eqb (p_class (snd ir)) GENERIC)) rs).
Proof. exact table_partition. Qed.
Print Assumptions C14_partition.
(* for ANY hierarchy in which the classes that occur are not bases of one another *)
Theorem C14_partition_any_hierarchy :
  forall (bases : str -> list str) cls rs,
    flat bases cls -> NoDup cls -> Forall (fun ir => In (p_class (snd ir)) cls) rs ->
    Permutation (flat_map (fun c => filter_by_type bases [WClass c] rs) cls) rs.
Proof. exact filter_partition. Qed.
Print Assumptions C14_partition_any_hierarchy.

(* ---- 4. any finite sequence of resolve / expand_actions steps ---- *)
Theorem C14_preserved_by_any_pipeline :
  forall (class_accepts : str -> value -> bool) (generic_accepts : value -> bool) steps d r' o o',
    (lookup K_Type d = Some VNull \/
     exists t, lookup K_Type d = Some (VStr t) /\ (In t MODELLED_TYPES \/ type_fixed t = true \/ existsb is_raw steps = false)) ->
    run_steps steps (VDict d) = Ok r' ->
    dispatch_resource RESOURCE_MODELS class_accepts generic_accepts true (VDict d) = Ok o ->
    dispatch_resource RESOURCE_MODELS class_accepts generic_accepts true r' = Ok o' ->
    exists d', r' = VDict d' /\ lookup K_Type d' = lookup K_Type d /\ o_class o' = o_class o /\ type_attr r' = type_attr (VDict d).
Proof. exact table_pipeline. Qed.
Print Assumptions C14_preserved_by_any_pipeline.
(* the Type entry itself survives, whether or not the result validates *)
Theorem C14_pipeline_keeps_type :
  forall steps d v r', lookup K_Type d = Some v -> survives steps v -> run_steps steps (VDict d) = Ok r' ->
    exists d', r' = VDict d' /\ lookup K_Type d' = Some v.
Proof. exact pipeline_keeps_type. Qed.
Print Assumptions C14_pipeline_keeps_type.
(* REFUTED for strict mode off: the class may change (dedicated class before, GenericResource after) *)
Theorem C14_nonstrict_pipeline_refuted :
  exists modelled class_accepts generic_accepts steps d v r' o o',
    lookup K_Type d = Some v /\ survives steps v /\ run_steps steps (VDict d) = Ok r' /\
    dispatch_resource modelled class_accepts generic_accepts false (VDict d) = Ok o /\
    dispatch_resource modelled class_accepts generic_accepts false r' = Ok o' /\
    o_class o' <> o_class o.
Proof. exact pipeline_class_nonstrict_refuted. Qed.
Print Assumptions C14_nonstrict_pipeline_refuted.
(* whole Resources maps, strict mode: afterwards the parsed resources are the earlier ones restricted to the surviving
   logical ids, so every filter commutes with every sequence of steps (and is unchanged by expand_actions alone) *)
Theorem C14_filter_commutes_with_pipeline :
  forall (class_accepts : str -> value -> bool) (generic_accepts : value -> bool) (bases : str -> list str) allowed steps defs defs' rs rs',
    run_msteps steps defs = Ok defs' -> NoDup (keys defs) -> Forall (fun ir => dumped (snd ir)) defs ->
    parse_resources RESOURCE_MODELS class_accepts generic_accepts true defs = Ok rs ->
    parse_resources RESOURCE_MODELS class_accepts generic_accepts true defs' = Ok rs' ->
    rs' = filter (fun ir => mem_str (fst ir) (keys defs')) rs /\
    filter_by_type bases allowed rs' = filter (fun ir => mem_str (fst ir) (keys defs')) (filter_by_type bases allowed rs) /\
    keys (filter_by_type bases allowed rs') = filter (fun id => mem_str id (keys defs')) (keys (filter_by_type bases allowed rs)) /\
    (existsb is_mresolve steps = false -> filter_by_type bases allowed rs' = filter_by_type bases allowed rs).
Proof.
  exact (fun ca ga bases allowed steps defs defs' rs rs' Hr Hn Hd Hp Hp' =>
    conj (proj1 (pipeline_map_preserves RESOURCE_MODELS ca ga steps defs defs' rs rs' Hr Hn Hd Hp Hp'))
         (filter_commutes_with_pipeline RESOURCE_MODELS ca ga bases allowed steps defs defs' rs rs' Hr Hn Hd Hp Hp')).
Qed.
Print Assumptions C14_filter_commutes_with_pipeline.

(* ---- 5. the live table, however many types it has ---- *)
Theorem C14_class_of_injective :
  forall t1 t2 c, class_of RESOURCE_MODELS t1 = Some c -> class_of RESOURCE_MODELS t2 = Some c -> t1 = t2.
Proof. exact table_class_of_injective. Qed.
Print Assumptions C14_class_of_injective.
Theorem C14_class_has_one_type :
  forall c, In c MODELLED_CLASSES ->
    exists t, In t MODELLED_TYPES /\ class_of RESOURCE_MODELS t = Some c /\ forall t', class_of RESOURCE_MODELS t' = Some c -> t' = t.
Proof. exact table_class_has_one_type. Qed.
Print Assumptions C14_class_has_one_type.
Theorem C14_class_literal :
  forall t c, class_of RESOURCE_MODELS t = Some c ->
    exists cs f, find_class CLASSES c = Some cs /\ find_field (c_fields cs) K_Type = Some f /\
                 is_required f = true /\ ftype_eqb (f_type f) (TLeaf (LLit t)) = true.
Proof. exact table_class_literal. Qed.
Print Assumptions C14_class_literal.
Theorem C14_generic_never_modelled : forall t, class_of RESOURCE_MODELS t <> Some GENERIC.
Proof. exact table_generic_never_modelled. Qed.
Print Assumptions C14_generic_never_modelled.
Theorem C14_table_entry_iff : forall t c, In (t, c) RESOURCE_MODELS <-> class_of RESOURCE_MODELS t = Some c.
Proof. exact table_entry_iff. Qed.
Print Assumptions C14_table_entry_iff.
(* no modelled class, nor GenericResource, is a base of another: isinstance against one of them is class equality *)
Theorem C14_classes_flat :
  forall c c', In c (GENERIC :: MODELLED_CLASSES) -> In c' (GENERIC :: MODELLED_CLASSES) -> ~ In c (bases_of c').
Proof. exact Schema_classes_flat. Qed.
Print Assumptions C14_classes_flat.

(* ---- non-vacuity: a Resources map with an accepted bucket (A), a bucket its class refuses (B), a custom type (C), no Type (D);
        the engine: S3Bucket accepts iff there is a BucketName property ---- *)
Definition K_BucketName : str := [66;117;99;107;101;116;78;97;109;101].
Definition C_S3BUCKET : str := [83;51;66;117;99;107;101;116].
Definition T_CUSTOM : str := [67;117;115;116;111;109;58;58;88].    (* Custom::X *)
Definition ex_engine : str -> value -> bool :=
  fun _ r => match r with VDict d => mem_str K_BucketName (keys (props_of d)) | _ => false end.
Definition ex_bogus (t : value) : value := VDict [(K_Type, t); (K_Properties, VDict [([66;111;103;117;115], VInt 1)])].
Definition ex_map : list (str * value) :=
  [([65], ex_bucket (VStr T_BUCKET)); ([66], ex_bogus (VStr T_BUCKET)); ([67], ex_bogus (VStr T_CUSTOM)); ([68], ex_bogus VNull)].
Definition ex_map_strict : list (str * value) :=
  [([65], ex_bucket (VStr T_BUCKET)); ([67], ex_bogus (VStr T_CUSTOM)); ([68], ex_bogus VNull)].
Definition ex_parsed : list (str * parsed) :=
  [([65], {| p_class := C_S3BUCKET; p_type := Some T_BUCKET |}); ([66], {| p_class := GENERIC; p_type := Some T_BUCKET |});
   ([67], {| p_class := GENERIC; p_type := Some T_CUSTOM |}); ([68], {| p_class := GENERIC; p_type := None |})].
Example C14_ex_parse :
  parse_resources RESOURCE_MODELS ex_engine (fun _ => true) false ex_map = Ok ex_parsed /\
  parse_resources RESOURCE_MODELS ex_engine (fun _ => true) true ex_map = Err EValidation /\
  parse_resources RESOURCE_MODELS ex_engine (fun _ => true) true ex_map_strict
    = Ok [([65], {| p_class := C_S3BUCKET; p_type := Some T_BUCKET |});
          ([67], {| p_class := GENERIC; p_type := Some T_CUSTOM |}); ([68], {| p_class := GENERIC; p_type := None |})] /\
  NoDup (keys ex_map) /\ class_of RESOURCE_MODELS T_BUCKET = Some C_S3BUCKET /\ In C_S3BUCKET MODELLED_CLASSES.
Proof.
  split; [vm_compute; reflexivity|]. split; [vm_compute; reflexivity|]. split; [vm_compute; reflexivity|].
  split; [apply nodupb_NoDup; vm_compute; reflexivity|]. split; [vm_compute; reflexivity | apply mem_str_In; vm_compute; reflexivity].
Qed.
(* the string filter and the class filter DIFFER with strict off (the library returns the same ids on this template):
   "AWS::S3::Bucket" -> A, B;  S3Bucket -> A;  GenericResource -> B, C, D;  both lists, any order -> A, B;  [] -> nothing *)
Example C14_ex_filter_string_vs_class_nonstrict :
  keys (filter_by_type bases_of [WType T_BUCKET] ex_parsed) = [[65]; [66]] /\
  keys (filter_by_type bases_of [WClass C_S3BUCKET] ex_parsed) = [[65]] /\
  keys (filter_by_type bases_of [WClass GENERIC] ex_parsed) = [[66]; [67]; [68]] /\
  keys (filter_by_type bases_of ([WClass C_S3BUCKET] ++ [WType T_BUCKET]) ex_parsed) = [[65]; [66]] /\
  keys (filter_by_type bases_of ([WType T_CUSTOM] ++ [WClass C_S3BUCKET]) ex_parsed) = [[65]; [67]] /\
  keys (filter_by_type bases_of [WClass K_Resource] ex_parsed) = [[65]; [66]; [67]; [68]] /\
  filter (fun ir => is_downgraded T_BUCKET (snd ir)) ex_parsed = [([66], {| p_class := GENERIC; p_type := Some T_BUCKET |})] /\
  filter_by_type bases_of [WType T_BUCKET] ex_parsed <> filter_by_type bases_of [WClass C_S3BUCKET] ex_parsed.
Proof. repeat split; try (vm_compute; reflexivity). vm_compute. discriminate. Qed.
Example C14_ex_partition :
  flat_map (fun c => keys (filter_by_type bases_of [WClass c] ex_parsed)) (GENERIC :: MODELLED_CLASSES) = [[66]; [67]; [68]; [65]].
Proof. vm_compute. reflexivity. Qed.

(* a pipeline on one resource: resolve (the resource step), expand_actions, the bare resolver; Ref P -> "b" *)
Definition ex_env : env := {| params := [([80], VStr [98])]; mappings := []; conds := fun _ => Ok true |}.
Definition ex_ref_bucket : list (str * value) :=
  [(K_Type, VStr T_BUCKET); (K_Properties, VDict [(K_BucketName, VDict [(K_Ref, VStr [80])])])].
Definition ex_steps : list step := [SResolve ex_env; SExpand (fun _ v => Ok v); SResolveRaw ex_env].
Example C14_ex_pipeline :
  run_steps ex_steps (VDict ex_ref_bucket) = Ok (ex_bucket (VStr T_BUCKET)) /\
  existsb is_raw ex_steps = true /\ In T_BUCKET MODELLED_TYPES /\
  dispatch_resource RESOURCE_MODELS ex_engine (fun _ => true) true (VDict ex_ref_bucket) = Ok {| o_class := C_S3BUCKET; o_kept := [] |} /\
  dispatch_resource RESOURCE_MODELS ex_engine (fun _ => true) true (ex_bucket (VStr T_BUCKET)) = Ok {| o_class := C_S3BUCKET; o_kept := [] |}.
Proof. split; [vm_compute; reflexivity|]. split; [reflexivity|]. split; [apply mem_str_In; vm_compute; reflexivity|]. split; vm_compute; reflexivity. Qed.
(* a whole map: resource B hangs on a condition that is false and goes; A (a bucket) and C (custom) stay, classes unchanged *)
Definition ex_cond_map : list (str * value) :=
  [([65], VDict ex_ref_bucket);
   ([66], VDict [(K_Type, VStr T_BUCKET); (K_Condition, VStr [99]); (K_Properties, VDict [(K_BucketName, VStr [122])])]);
   ([67], ex_bogus (VStr T_CUSTOM))].
Definition ex_msteps : list mstep := [MResolve ex_env [([99], false)]; MExpand (fun _ v => Ok v)].
Example C14_ex_map_pipeline :
  exists defs' rs rs',
    run_msteps ex_msteps ex_cond_map = Ok defs' /\ keys defs' = [[65]; [67]] /\ NoDup (keys ex_cond_map) /\
    Forall (fun ir => dumped (snd ir)) ex_cond_map /\
    parse_resources RESOURCE_MODELS ex_engine (fun _ => true) true ex_cond_map = Ok rs /\
    parse_resources RESOURCE_MODELS ex_engine (fun _ => true) true defs' = Ok rs' /\
    keys (filter_by_type bases_of [WType T_BUCKET] rs) = [[65]; [66]] /\ keys (filter_by_type bases_of [WType T_BUCKET] rs') = [[65]].
Proof.
  eexists. eexists. eexists. split; [vm_compute; reflexivity|]. split; [vm_compute; reflexivity|].
  split; [apply nodupb_NoDup; vm_compute; reflexivity|].
  split; [repeat constructor; cbn [snd]; eexists; eexists; (split; [reflexivity | vm_compute; reflexivity])|].
  split; [vm_compute; reflexivity|]. split; [vm_compute; reflexivity|]. split; vm_compute; reflexivity.
Qed.
