(* C09 -- Action expansion obeys set laws over the catalogue, the same in every API.
   Statements only; every proof is [exact] of a lemma proved in Actions/{Expand,ExpandThm,Catalogue}.v.
   [cat] is ANY catalogue (list of strings), [ps]/[qs] ANY lists of patterns (any length, overlapping or not);
   [glob_ci p a] is the IAM wildcard match of C08, blind to ASCII letter case.
   The shipped catalogue is checked in Actions/CatalogueChecks.v (Catalogue_ok), regenerated from the source on every run. *)
From Coq Require Import List Bool NArith Sorting.Sorted Permutation.
From PV Require Import Base.Str Base.Value Glob.Glob Run.RState Glob.GlobAlgebra Actions.Expand Actions.ExpandThm Actions.ExpandAlgebra Actions.Catalogue Actions.Tree Actions.Fast.
Import ListNotations.

(* Action: exactly the catalogue actions matched by at least one pattern *)
Theorem C09_action_mem : forall cat ps a,
  In a (expand cat ps) <-> In a cat /\ exists p, In p ps /\ glob_ci p a = true.
Proof. exact action_mem. Qed.
Print Assumptions C09_action_mem.

(* NotAction: exactly the catalogue actions matched by none of the patterns *)
Theorem C09_notaction_mem : forall cat ps a,
  In a (expand_not cat ps) <-> In a cat /\ forall p, In p ps -> glob_ci p a = false.
Proof. exact notaction_mem. Qed.
Print Assumptions C09_notaction_mem.

(* both results are strictly increasing in Python's str order, hence duplicate-free *)
Theorem C09_sorted_nodup : forall cat ps,
  StronglySorted str_lt (expand cat ps) /\ NoDup (expand cat ps) /\
  StronglySorted str_lt (expand_not cat ps) /\ NoDup (expand_not cat ps).
Proof. exact sorted_nodup. Qed.
Print Assumptions C09_sorted_nodup.

(* Action and NotAction over the same patterns partition the catalogue *)
Theorem C09_partition : forall cat ps,
  (forall a, In a (expand cat ps) -> In a (expand_not cat ps) -> False) /\
  (forall a, In a cat <-> In a (expand cat ps) \/ In a (expand_not cat ps)) /\
  Permutation (expand cat ps ++ expand_not cat ps) (nodup_sort cat).
Proof. exact partition. Qed.
Print Assumptions C09_partition.

(* a list expands to the union of its parts / of its members -- as EQUAL lists, which is what the API returns *)
Theorem C09_union : forall cat ps qs,
  expand cat (ps ++ qs) = nodup_sort (expand cat ps ++ expand cat qs).
Proof. exact union_law. Qed.
Print Assumptions C09_union.

Theorem C09_union_members : forall cat ps,
  expand cat ps = nodup_sort (flat_map (fun p => expand cat [p]) ps).
Proof. exact union_members. Qed.
Print Assumptions C09_union_members.

(* NotAction of a list is the INTERSECTION of the members' complements (not their union) *)
Theorem C09_demorgan : forall cat ps qs,
  expand_not cat (ps ++ qs) = inter (expand_not cat ps) (expand_not cat qs).
Proof. exact demorgan_law. Qed.
Print Assumptions C09_demorgan.

Theorem C09_demorgan_members : forall cat ps a,
  In a (expand_not cat ps) <-> In a cat /\ forall p, In p ps -> In a (expand_not cat [p]).
Proof. exact demorgan_members. Qed.
Print Assumptions C09_demorgan_members.

(* the entry points agree: one pattern = the one-element list; a list = expand / expand_not *)
Theorem C09_apis_agree : forall cat p ps na,
  (expand_action cat p na = expand_actions cat (ManyActions [p]) na /\
   expand_actions cat (OneAction p) na = expand_actions cat (ManyActions [p]) na) /\
  (expand_actions cat (ManyActions ps) false = expand cat ps /\
   expand_actions cat (ManyActions ps) true = expand_not cat ps).
Proof. intros cat p ps na. exact (conj (api_single_vs_list cat p na) (api_list cat ps)). Qed.
Print Assumptions C09_apis_agree.

(* a statement's expanded action list: the union of expand(Action) and, when NotAction is present, expand_not(NotAction) *)
Theorem C09_apis_agree_statement : forall cat acts nots,
  stmt_expanded cat acts nots =
    nodup_sort (expand cat acts ++ match nots with Some ns => expand_not cat ns | None => [] end)
  /\ stmt_expanded cat acts None = expand cat acts
  /\ (forall ns, stmt_expanded cat [] (Some ns) = expand_not cat ns).
Proof.
  intros cat acts nots.
  exact (conj (api_statement cat acts nots) (conj (api_statement_action_only cat acts) (api_statement_notaction_only cat))).
Qed.
Print Assumptions C09_apis_agree_statement.

(* a policy document: allowed actions = union over the statements whose effect is Allow (any letter case);
   IAM actions = the "iam:" entries of the union over ALL statements *)
Theorem C09_apis_agree_document : forall cat ss,
  allowed_actions cat ss = nodup_sort (flat_map (stmt_list cat) (filter is_allow ss)) /\
  iam_actions cat ss = nodup_sort (filter (starts_with S_IAM) (flat_map (stmt_list cat) ss)) /\
  (forall a, In a (allowed_actions cat ss) <-> exists s, In s ss /\ is_allow s = true /\ In a (stmt_list cat s)) /\
  (forall a, In a (iam_actions cat ss) <-> (exists r, a = S_IAM ++ r) /\ exists s, In s ss /\ In a (stmt_list cat s)).
Proof.
  intros cat ss.
  exact (conj (api_allowed cat ss) (conj (api_iam cat ss) (conj (allowed_actions_In cat ss) (iam_actions_In cat ss)))).
Qed.
Print Assumptions C09_apis_agree_document.

Theorem C09_one_allow_statement : forall cat s,
  is_allow s = true -> allowed_actions cat [s] = stmt_list cat s.
Proof. exact api_one_statement. Qed.
Print Assumptions C09_one_allow_statement.

(* on a strictly sorted catalogue (the shipped one is: Catalogue_ok) expansion is the plain filter in catalogue order *)
Theorem C09_expand_is_filter : forall cat ps,
  StronglySorted str_lt cat ->
  expand cat ps = filter (any_match ps) cat /\
  expand_not cat ps = filter (fun a => negb (any_match ps a)) cat.
Proof. exact expand_is_filter. Qed.
Print Assumptions C09_expand_is_filter.

(* what the boolean catalogue check means *)
Theorem C09_catalogue_check_meaning : forall c,
  catalogue_ok c = true ->
  StronglySorted str_lt c /\ NoDup c /\ NoDup (map lower c) /\
  Forall (fun a =>
            (exists svc name, a = svc ++ COLON :: name /\ svc <> [] /\ name <> [] /\ ~ In COLON svc /\ ~ In COLON name)
            /\ ~ In STAR a /\ ~ In QM a /\ Forall (fun cp => (cp < 128)%N) a) c.
Proof. exact catalogue_ok_spec. Qed.
Print Assumptions C09_catalogue_check_meaning.

(* the functions the extracted runner executes (staged for speed, Actions/Fast.v) ARE the model functions above *)
Theorem C09_runner_functions : forall cat,
  (forall x na, expand_actions_fast cat x na = expand_actions cat x na) /\
  (forall p na, expand_action_fast cat p na = expand_action cat p na) /\
  (forall s, stmt_list_fast cat s = stmt_list cat s) /\
  (forall ss, allowed_actions_fast cat ss = allowed_actions cat ss) /\
  (forall ss, iam_actions_fast cat ss = iam_actions cat ss) /\
  (forall t, expand_model_pre cat t = Tree.expand_model cat t).
Proof.
  intros cat.
  exact (conj (expand_actions_fast_ok cat) (conj (expand_action_fast_ok cat) (conj (stmt_list_fast_ok cat)
        (conj (allowed_actions_fast_ok cat) (conj (iam_actions_fast_ok cat) (expand_model_pre_ok cat)))))).
Qed.
Print Assumptions C09_runner_functions.

(* ---- non-vacuity and the known defect, on a small catalogue ---- *)
From Coq Require Import String.
Definition s (x : string) : str := of_string x.
Definition CAT5 : list str :=
  [s "iam:PassRole"; s "s3:GetObject"; s "s3:GetObjectAcl"; s "s3:ListBucket"; s "s3:PutObject"]%string.

Example C09_ex_catalogue_ok : catalogue_ok CAT5 = true.
Proof. vm_compute. reflexivity. Qed.
Example C09_ex_catalogue_case_dup_rejected :
  catalogue_ok [s "s3:GetObject"; s "s3:getobject"]%string = false /\ catalogue_ok [s "s3:Get*"]%string = false
  /\ catalogue_ok [s "s3:B"; s "s3:A"]%string = false /\ catalogue_ok [s "s3GetObject"]%string = false.
Proof. vm_compute. repeat split; reflexivity. Qed.

Example C09_ex_overlap :
  expand CAT5 [s "s3:Get*"; s "S3:GETOBJECT*"; s "iam:*"]%string = [s "iam:PassRole"; s "s3:GetObject"; s "s3:GetObjectAcl"]%string
  /\ expand_not CAT5 [s "s3:Get*"; s "s3:Put*"]%string = [s "iam:PassRole"; s "s3:ListBucket"]%string.
Proof. vm_compute. split; reflexivity. Qed.

Example C09_ex_document :
  let ss := [ {| s_effect := s "ALLOW"; s_actions := [s "s3:Get*"]%string; s_notactions := None |};
              {| s_effect := s "Deny"; s_actions := []; s_notactions := Some [s "s3:*"]%string |} ] in
  allowed_actions CAT5 ss = [s "s3:GetObject"; s "s3:GetObjectAcl"]%string /\ iam_actions CAT5 ss = [s "iam:PassRole"]%string.
Proof. vm_compute. split; reflexivity. Qed.

(* the statement-level defect (union of the per-pattern complements) is a DIFFERENT list: here it is the whole catalogue *)
Example C09_union_of_complements_refuted :
  stmt_expanded_defect CAT5 [] (Some [s "s3:Get*"; s "s3:Put*"]%string) = CAT5 /\
  stmt_expanded CAT5 [] (Some [s "s3:Get*"; s "s3:Put*"]%string) = [s "iam:PassRole"; s "s3:ListBucket"]%string /\
  stmt_expanded_defect CAT5 [] (Some [s "s3:Get*"; s "s3:Put*"]%string)
    <> stmt_expanded CAT5 [] (Some [s "s3:Get*"; s "s3:Put*"]%string).
Proof. vm_compute. repeat split; try reflexivity. discriminate. Qed.

(* ================================================================================================ *)
(* COROLLARIES OF THE PATTERN ALGEBRA (C08; Glob/GlobAlgebra.v, Actions/ExpandAlgebra.v).
   [ci_equiv p q]: p and q match the same names (as action patterns, blind to ASCII case).  ANY catalogue. *)

Theorem C09_ci_equiv_meaning : forall p q, ci_equiv p q <-> forall a, glob_ci p a = glob_ci q a.
Proof. intros p q. exact (iff_refl _). Qed.
Print Assumptions C09_ci_equiv_meaning.

(* expansion -- Action and NotAction -- is invariant under replacing the members of a list by equivalent patterns ... *)
Theorem C09_equivalent_patterns_same_expansion : forall cat ps qs,
  Forall2 ci_equiv ps qs ->
  expand cat ps = expand cat qs /\ expand_not cat ps = expand_not cat qs.
Proof. exact expand_equiv. Qed.
Print Assumptions C09_equivalent_patterns_same_expansion.

(* ... and depends only on the SET of patterns up to equivalence (order, repetition and spelling are irrelevant) *)
Theorem C09_equivalent_pattern_sets_same_expansion : forall cat ps qs,
  (forall p, In p ps -> exists q, In q qs /\ ci_equiv p q) ->
  (forall q, In q qs -> exists p, In p ps /\ ci_equiv q p) ->
  expand cat ps = expand cat qs /\ expand_not cat ps = expand_not cat qs.
Proof. exact expand_equiv_sets. Qed.
Print Assumptions C09_equivalent_pattern_sets_same_expansion.

(* the same in the entry points: one pattern, a string-or-list argument, a statement *)
Theorem C09_equivalent_patterns_same_expansion_apis : forall cat,
  (forall p q na, ci_equiv p q -> expand_action cat p na = expand_action cat q na) /\
  (forall x y na, arg_equiv x y -> expand_actions cat x na = expand_actions cat y na) /\
  (forall acts acts' nots nots',
     Forall2 ci_equiv acts acts' ->
     match nots, nots' with
     | Some ns, Some ns' => Forall2 ci_equiv ns ns'
     | None, None => True
     | _, _ => False
     end ->
     stmt_expanded cat acts nots = stmt_expanded cat acts' nots').
Proof.
  intros cat. exact (conj (expand_action_equiv cat) (conj (expand_actions_equiv cat) (stmt_expanded_equiv cat))).
Qed.
Print Assumptions C09_equivalent_patterns_same_expansion_apis.

(* the equivalences of the algebra, for action patterns (p, q arbitrary: wildcards, any case) *)
Theorem C09_pattern_equivalences : forall p q,
  (forall n, ci_equiv (p ++ repeat STAR (S n) ++ q) (p ++ [STAR] ++ q)) /\
  ci_equiv (p ++ [STAR; STAR] ++ q) (p ++ [STAR] ++ q) /\
  ci_equiv (p ++ [STAR; QM] ++ q) (p ++ [QM; STAR] ++ q) /\
  ci_equiv (norm_pat p) p /\
  ci_equiv (lower p) p.
Proof.
  intros p q.
  exact (conj (ci_equiv_star_run p q) (conj (ci_equiv_star_star p q) (conj (ci_equiv_star_qm p q)
        (conj (ci_equiv_norm p) (ci_equiv_case p))))).
Qed.
Print Assumptions C09_pattern_equivalences.

(* hence: "p**q" expands as "p*q" (a run of stars of any length too), "p*?q" as "p?*q" *)
Theorem C09_star_star_expansion : forall cat p q na,
  expand_action cat (p ++ [STAR; STAR] ++ q) na = expand_action cat (p ++ [STAR] ++ q) na.
Proof. exact expand_star_star. Qed.
Print Assumptions C09_star_star_expansion.
Theorem C09_star_run_expansion : forall cat p q n na,
  expand_action cat (p ++ repeat STAR (S n) ++ q) na = expand_action cat (p ++ [STAR] ++ q) na.
Proof. exact expand_star_run. Qed.
Print Assumptions C09_star_run_expansion.
Theorem C09_star_question_expansion : forall cat p q na,
  expand_action cat (p ++ [STAR; QM] ++ q) na = expand_action cat (p ++ [QM; STAR] ++ q) na.
Proof. exact expand_star_qm. Qed.
Print Assumptions C09_star_question_expansion.

(* a pattern expands as its normal form; a list as the list of normal forms (and as the list of lower-cased patterns) *)
Theorem C09_normal_form_expansion : forall cat,
  (forall p na, expand_action cat (norm_pat p) na = expand_action cat p na) /\
  (forall ps, expand cat (map norm_pat ps) = expand cat ps /\ expand_not cat (map norm_pat ps) = expand_not cat ps) /\
  (forall ps, expand cat (map lower ps) = expand cat ps /\ expand_not cat (map lower ps) = expand_not cat ps).
Proof. intros cat. exact (conj (expand_norm cat) (conj (expand_norm_list cat) (expand_lower_list cat))). Qed.
Print Assumptions C09_normal_form_expansion.

(* BUT "p*?q" does NOT expand as "p*q": a catalogue entry that is p and q with their stars deleted, side by side (nothing in
   the place of the wildcards), is in the expansion of "p*q" and not in that of "p*?q" -- and the reverse under NotAction *)
Theorem C09_star_question_is_not_star_expansion : forall cat p q,
  let a := witness N N.eqb STAR p ++ witness N N.eqb STAR q in
  In a cat ->
  (In a (expand cat [p ++ [STAR] ++ q]) /\ ~ In a (expand cat [p ++ [STAR; QM] ++ q])) /\
  (~ In a (expand_not cat [p ++ [STAR] ++ q]) /\ In a (expand_not cat [p ++ [STAR; QM] ++ q])).
Proof. exact expand_star_qm_is_not_star. Qed.
Print Assumptions C09_star_question_is_not_star_expansion.

(* ---- non-vacuity on a small catalogue ---- *)
Definition CAT6 : list str :=
  [s "iam:PassRole"; s "s3:Get"; s "s3:GetObject"; s "s3:GetObjectAcl"; s "s3:ListBucket"; s "s3:PutObject"]%string.

Example C09_ex_equivalent_spellings :
  norm_pat (s "s3:Get*?*?*"%string) = s "s3:Get??*"%string /\
  expand CAT6 [s "s3:Get*?*?*"]%string = [s "s3:GetObject"; s "s3:GetObjectAcl"]%string /\
  expand CAT6 [s "S3:GET??*"]%string = [s "s3:GetObject"; s "s3:GetObjectAcl"]%string /\
  expand CAT6 [s "s3:Get**"]%string = expand CAT6 [s "s3:Get*"]%string /\
  expand CAT6 [s "s3:Get**"]%string = [s "s3:Get"; s "s3:GetObject"; s "s3:GetObjectAcl"]%string /\
  expand_not CAT6 [s "s3:*?Object***"; s "iam:??*"]%string = expand_not CAT6 [s "iam:*"; s "S3:?*OBJECT*"; s "iam:*"]%string /\
  expand_not CAT6 [s "s3:*?Object***"; s "iam:??*"]%string = [s "s3:Get"; s "s3:ListBucket"]%string.
Proof. vm_compute. repeat split; reflexivity. Qed.

(* hypotheses satisfiable: an entry that is the pattern with its stars deleted ("s3:Get" for "s3:Get*" / "s3:Get*?") *)
Example C09_ex_star_question_is_not_star :
  witness N N.eqb STAR (s "s3:Get"%string) ++ witness N N.eqb STAR [] = s "s3:Get"%string /\ In (s "s3:Get"%string) CAT6 /\
  expand CAT6 [s "s3:Get*"]%string = [s "s3:Get"; s "s3:GetObject"; s "s3:GetObjectAcl"]%string /\
  expand CAT6 [s "s3:Get*?"]%string = [s "s3:GetObject"; s "s3:GetObjectAcl"]%string /\
  expand CAT6 [s "s3:Get*?"]%string <> expand CAT6 [s "s3:Get*"]%string.
Proof.
  split; [vm_compute; reflexivity|]. split; [right; left; reflexivity|].
  split; [vm_compute; reflexivity|]. split; [vm_compute; reflexivity|]. vm_compute. discriminate.
Qed.
Example C09_ex_equiv_hypotheses :
  Forall2 ci_equiv [s "s3:Get**"; s "iam:*?"]%string [s "s3:Get*"; s "iam:?*"]%string /\
  arg_equiv (OneAction (s "s3:Get**"%string)) (OneAction (s "s3:Get*"%string)).
Proof.
  assert (H1 : ci_equiv (s "s3:Get**"%string) (s "s3:Get*"%string)) by exact (ci_equiv_star_star (s "s3:Get"%string) []).
  assert (H2 : ci_equiv (s "iam:*?"%string) (s "iam:?*"%string)) by exact (ci_equiv_star_qm (s "iam:"%string) []).
  split; [repeat constructor; assumption | constructor; exact H1].
Qed.

(* ---- order laws over the pattern list (Actions/ExpandLattice.v): every catalogue, lists of any length ---- *)
From PV Require Import Actions.ExpandLattice.

(* the order of the patterns, and repeating some, never changes either result list *)
Theorem C09_pattern_order_irrelevant : forall cat ps qs, Permutation ps qs ->
  expand cat ps = expand cat qs /\ expand_not cat ps = expand_not cat qs.
Proof. exact expand_perm. Qed.
Print Assumptions C09_pattern_order_irrelevant.

Theorem C09_same_pattern_set_same_expansion : forall cat ps qs, incl ps qs -> incl qs ps ->
  expand cat ps = expand cat qs /\ expand_not cat ps = expand_not cat qs.
Proof. exact expand_same_set. Qed.
Print Assumptions C09_same_pattern_set_same_expansion.

Theorem C09_repeated_list : forall cat ps,
  expand cat (ps ++ ps) = expand cat ps /\ expand_not cat (ps ++ ps) = expand_not cat ps.
Proof. exact expand_twice. Qed.
Print Assumptions C09_repeated_list.

(* adding patterns can only add to Action and only remove from NotAction *)
Theorem C09_monotone : forall cat ps qs, incl ps qs ->
  incl (expand cat ps) (expand cat qs) /\ incl (expand_not cat qs) (expand_not cat ps).
Proof. exact expand_mono. Qed.
Print Assumptions C09_monotone.

(* a pattern all of whose matches are matched by the rest of the list adds nothing *)
Theorem C09_absorbed_pattern : forall cat ps p,
  (forall a, glob_ci p a = true -> exists q, In q ps /\ glob_ci q a = true) ->
  expand cat (p :: ps) = expand cat ps /\ expand_not cat (p :: ps) = expand_not cat ps.
Proof. exact expand_absorb. Qed.
Print Assumptions C09_absorbed_pattern.

(* the empty Action list allows nothing; the empty NotAction list allows the whole catalogue *)
Theorem C09_empty_lists : forall cat, expand cat [] = [] /\ expand_not cat [] = nodup_sort cat.
Proof. exact expand_nil. Qed.
Print Assumptions C09_empty_lists.

Theorem C09_disjoint_under_extension : forall cat ps qs a, incl ps qs ->
  In a (expand cat ps) -> In a (expand_not cat qs) -> False.
Proof. exact expand_disjoint_mono. Qed.
Print Assumptions C09_disjoint_under_extension.

(* "*" anywhere in the list: Action is the whole catalogue (sorted, duplicate-free), NotAction is empty *)
Theorem C09_star_is_everything : forall cat ps, In [STAR] ps ->
  expand cat ps = nodup_sort cat /\ expand_not cat ps = [].
Proof. exact expand_star. Qed.
Print Assumptions C09_star_is_everything.

(* one statement's expanded action list depends only on the SETS of its Action and NotAction patterns, not on their order *)
Theorem C09_statement_pattern_order_irrelevant : forall cat acts acts' ns ns', Permutation acts acts' -> Permutation ns ns' ->
  stmt_expanded cat acts (Some ns) = stmt_expanded cat acts' (Some ns') /\
  stmt_expanded cat acts None = stmt_expanded cat acts' None.
Proof. exact stmt_expanded_perm. Qed.
Print Assumptions C09_statement_pattern_order_irrelevant.

Theorem C09_statement_same_pattern_sets : forall cat acts acts' nots nots',
  incl acts acts' -> incl acts' acts ->
  match nots, nots' with
  | Some ns, Some ns' => incl ns ns' /\ incl ns' ns
  | None, None => True
  | _, _ => False
  end ->
  stmt_expanded cat acts nots = stmt_expanded cat acts' nots'.
Proof. exact stmt_expanded_same_sets. Qed.
Print Assumptions C09_statement_same_pattern_sets.

(* a policy document's allowed-action and IAM-action queries depend only on the SET of statements: statement order and
   repeated statements are irrelevant, adding a statement can only add actions, a non-Allow statement allows nothing *)
Theorem C09_document_statement_order_irrelevant : forall cat ss ss', Permutation ss ss' ->
  allowed_actions cat ss = allowed_actions cat ss' /\ iam_actions cat ss = iam_actions cat ss'.
Proof. exact doc_perm. Qed.
Print Assumptions C09_document_statement_order_irrelevant.

Theorem C09_document_same_statements : forall cat ss ss', incl ss ss' -> incl ss' ss ->
  allowed_actions cat ss = allowed_actions cat ss' /\ iam_actions cat ss = iam_actions cat ss'.
Proof. exact doc_same_statements. Qed.
Print Assumptions C09_document_same_statements.

Theorem C09_document_monotone : forall cat ss ss', incl ss ss' ->
  incl (allowed_actions cat ss) (allowed_actions cat ss') /\ incl (iam_actions cat ss) (iam_actions cat ss').
Proof. exact doc_mono. Qed.
Print Assumptions C09_document_monotone.

Theorem C09_document_non_allow_ignored : forall cat ss s, is_allow s = false ->
  allowed_actions cat (s :: ss) = allowed_actions cat ss.
Proof. exact doc_non_allow_ignored. Qed.
Print Assumptions C09_document_non_allow_ignored.
